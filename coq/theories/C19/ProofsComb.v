(* C19 - lemmas about the combinatorics model (Combinatorics.v): Pascal's triangle, the fixed-cardinality
   sampler (cardinality/positions, uniformity), both branches of binomial_coefficient, the support
   enumerations, and "probabilities over the enumerated support sum to one". *)
From Coq Require Import List ZArith QArith Bool Lia.
From PV Require Import C19.Combinatorics C19.Model C19.Spec.
Import ListNotations.
Local Open Scope Z_scope.

(* ========================================================================== *)

(* ---------------- Pascal's triangle ---------------- *)
Lemma choose_0_r : forall n, choose n 0 = 1.
Proof. destruct n; reflexivity. Qed.

Lemma choose_S : forall n k, choose (S n) (S k) = choose n k + choose n (S k).
Proof. reflexivity. Qed.

Lemma choose_gt : forall n k, (n < k)%nat -> choose n k = 0.
Proof.
  induction n as [|n IH]; intros k H.
  - destruct k; [lia|reflexivity].
  - destruct k; [lia|]. rewrite choose_S, !IH by lia. reflexivity.
Qed.

Lemma choose_nonneg : forall n k, 0 <= choose n k.
Proof.
  induction n as [|n IH]; intros k.
  - destruct k; cbn; lia.
  - destruct k; [cbn; lia|]. rewrite choose_S. pose proof (IH k). pose proof (IH (S k)). lia.
Qed.

Lemma choose_pos : forall n k, (k <= n)%nat -> 0 < choose n k.
Proof.
  induction n as [|n IH]; intros k H.
  - assert (k = 0)%nat by lia. subst. cbn. lia.
  - destruct k; [cbn; lia|]. rewrite choose_S. pose proof (IH k ltac:(lia)). pose proof (choose_nonneg n (S k)). lia.
Qed.

Lemma choose_n_n : forall n, choose n n = 1.
Proof. induction n; [reflexivity|]. rewrite choose_S, IHn, choose_gt by lia. reflexivity. Qed.

Lemma choose_1_r : forall n, choose n 1 = Z.of_nat n.
Proof.
  induction n as [|n IH]; [reflexivity|]. rewrite choose_S, IH, choose_0_r. lia.
Qed.

(* absorption: (k+1) C(n+1, k+1) = (n+1) C(n, k) *)
Lemma choose_absorb : forall n k,
  Z.of_nat (S k) * choose (S n) (S k) = Z.of_nat (S n) * choose n k.
Proof.
  induction n as [|n IH]; intros k.
  - destruct k; cbn; lia.
  - destruct k as [|k].
    + rewrite choose_1_r, choose_0_r. lia.
    + rewrite (choose_S (S n) (S k)).
      pose proof (IH (S k)) as I1. pose proof (IH k) as I0.
      rewrite (choose_S n k) in *.
      replace (choose (S n) (S k)) with (choose n k + choose n (S k)) in * by reflexivity.
      lia.
Qed.

Lemma zfact_pos : forall n, 0 < zfact n.
Proof. induction n; cbn [zfact]; lia. Qed.

Lemma choose_fact : forall k n, (k <= n)%nat -> choose n k * zfact k * zfact (n - k) = zfact n.
Proof.
  induction k as [|k IH]; intros n H.
  - rewrite choose_0_r, Nat.sub_0_r. cbn [zfact]. lia.
  - destruct n as [|n]; [lia|].
    replace (S n - S k)%nat with (n - k)%nat by lia.
    pose proof (IH n ltac:(lia)) as I. pose proof (choose_absorb n k) as A.
    cbn [zfact]. rewrite <- I. 
    replace (choose (S n) (S k) * (Z.of_nat (S k) * zfact k) * zfact (n - k))
      with ((Z.of_nat (S k) * choose (S n) (S k)) * zfact k * zfact (n - k)) by ring.
    rewrite A. ring.
Qed.

(* ---------------- the sampler ---------------- *)
Local Open Scope Q_scope.

Lemma bern_bit : forall p u, bern p u = 0%Z \/ bern p u = 1%Z.
Proof. intros. unfold bern. destruct (Qle_bool p u); auto. Qed.

Lemma bern_zero : forall p u, p == 0 -> 0 <= u -> bern p u = 0%Z.
Proof.
  intros p u Hp Hu. unfold bern. destruct (Qle_bool p u) eqn:E; [reflexivity|].
  assert (Qle_bool p u = true) by (apply Qle_bool_iff; rewrite Hp; exact Hu). congruence.
Qed.

Lemma bern_one : forall p u, p == 1 -> u < 1 -> bern p u = 1%Z.
Proof.
  intros p u Hp Hu. unfold bern. destruct (Qle_bool p u) eqn:E; [|reflexivity].
  apply Qle_bool_iff in E. rewrite Hp in E. exfalso. apply (Qlt_irrefl u). eapply Qlt_le_trans; eassumption.
Qed.

Definition unit_u (u : Q) : Prop := 0 <= u /\ u < 1.

Lemma hd_unit : forall us, Forall unit_u us -> unit_u (hd 0 us).
Proof. intros [|u us] H; cbn. - split; [apply Qle_refl|reflexivity]. - inversion H; auto. Qed.

Lemma tl_unit : forall us, Forall unit_u us -> Forall unit_u (tl us).
Proof. intros [|u us] H; cbn; [constructor|inversion H; auto]. Qed.

Local Open Scope Z_scope.

(* invariant of the loop: tau = number of permitted positions left (the code keeps max tau 1),
   0 <= ell <= tau ones still to place *)
Lemma srswor_loop_inv : forall out tau ell us,
  0 <= ell <= tau -> Forall unit_u us ->
  let bits := srswor_loop out ell (Z.max tau 1) us in
  length bits = out /\ Forall (fun v => v = 0 \/ v = 1) bits /\
  (tau <= Z.of_nat out ->
   zsum_s (firstn (Z.to_nat tau) bits) = ell /\ Forall (fun v => v = 0) (skipn (Z.to_nat tau) bits)).
Proof.
  induction out as [|out IH]; intros tau ell us Hell Hus; cbn zeta.
  - cbn [srswor_loop]. repeat split; [constructor| |]; assert (tau = 0) by lia; subst.
    + cbn. lia.
    + cbn. constructor.
  - cbn [srswor_loop].
    set (p := (inject_Z ell / inject_Z (Z.max tau 1))%Q).
    set (b := bern p (hd 0%Q us)).
    pose proof (hd_unit us Hus) as [Hu0 Hu1]. pose proof (tl_unit us Hus) as Hus'.
    assert (Hb : b = 0 \/ b = 1) by apply bern_bit.
    assert (Hb0 : ell = 0 -> b = 0).
    { intros ->. apply bern_zero; [|exact Hu0]. unfold p. unfold Qdiv. cbn. ring. }
    assert (Hb1 : ell = tau -> 0 < tau -> b = 1).
    { intros -> Ht. apply bern_one; [|exact Hu1]. unfold p. rewrite Z.max_l by lia.
      unfold Qeq, Qdiv, Qmult, Qinv, inject_Z; cbn. destruct tau; try lia. cbn. lia. }
    set (tau' := Z.max (tau - 1) 0).
    assert (Hmax : Z.max (Z.max tau 1 - 1) 1 = Z.max tau' 1) by (unfold tau'; lia).
    rewrite Hmax.
    assert (Hell' : 0 <= ell - b <= tau').
    { unfold tau'. destruct (Z.eq_dec ell 0) as [E|E]; [rewrite (Hb0 E); lia|].
      destruct (Z.eq_dec ell tau) as [E'|E']; [rewrite (Hb1 E') by lia; lia|]. lia. }
    destruct (IH tau' (ell - b) (tl us) Hell' Hus') as [Hl [Hf Hrest]].
    repeat split.
    + cbn [length]. f_equal. exact Hl.
    + constructor; assumption.
    + destruct (Z.eq_dec tau 0) as [E|E].
      * subst tau. assert (ell = 0) by lia. subst ell. cbn [Z.to_nat firstn]. reflexivity.
      * replace (Z.to_nat tau) with (S (Z.to_nat tau')) by (unfold tau'; lia).
        cbn [firstn zsum_s fold_right]. destruct Hrest as [Hs _]; [unfold tau'; lia|].
        fold (zsum_s (firstn (Z.to_nat tau') (srswor_loop out (ell - b) (Z.max tau' 1) (tl us)))).
        rewrite Hs. lia.
    + destruct (Z.eq_dec tau 0) as [E|E].
      * subst tau. assert (ell = 0) by lia. subst ell. cbn [Z.to_nat skipn].
        destruct Hrest as [_ Hz]; [unfold tau'; lia|].
        replace (Z.to_nat tau') with 0%nat in Hz by (unfold tau'; lia). cbn [skipn] in Hz.
        constructor; [apply Hb0; reflexivity|exact Hz].
      * replace (Z.to_nat tau) with (S (Z.to_nat tau')) by (unfold tau'; lia).
        cbn [skipn]. destruct Hrest as [_ Hz]; [unfold tau'; lia|]. exact Hz.
Qed.

Theorem srswor_cardinality_and_positions : forall total given out us bits,
  0 <= given -> Forall unit_u us ->
  srswor total given out us = Some bits -> srswor_ok total given out bits.
Proof.
  intros total given out us bits Hg Hus H. unfold srswor in H.
  destruct (total <? given) eqn:E1; [discriminate|].
  destruct (Z.of_nat out <? total) eqn:E2; [discriminate|].
  apply Z.ltb_ge in E1. apply Z.ltb_ge in E2. inversion H; subst bits; clear H.
  destruct (srswor_loop_inv out total given us ltac:(lia) Hus) as [Hl [Hb Hr]].
  destruct (Hr E2) as [Hs Hz]. unfold srswor_ok. auto.
Qed.

(* the sampler raises exactly when asked for more ones than positions, or more positions than width *)
Lemma srswor_error_iff : forall total given out us,
  srswor total given out us = None <-> (total < given \/ Z.of_nat out < total).
Proof.
  intros. unfold srswor.
  destruct (total <? given) eqn:E1; [apply Z.ltb_lt in E1; intuition|].
  destruct (Z.of_nat out <? total) eqn:E2; [apply Z.ltb_lt in E2; intuition|].
  apply Z.ltb_ge in E1. apply Z.ltb_ge in E2. split; [discriminate|lia].
Qed.

Lemma zsum_bits_le : forall l, Forall (fun v => v = 0 \/ v = 1) l -> 0 <= zsum_s l <= Z.of_nat (length l).
Proof.
  induction l as [|v l IH]; intros H; [cbn; lia|].
  inversion H as [|? ? Hv Hl]; subst. specialize (IH Hl). cbn [zsum_s fold_right length] in *.
  fold (zsum_s l). destruct Hv; subst; lia.
Qed.

Lemma Forall_firstn' : forall {X} (P : X -> Prop) n l, Forall P l -> Forall P (firstn n l).
Proof.
  induction n as [|n IH]; intros l H; [constructor|]. destruct l; [constructor|].
  inversion H; subst. cbn. constructor; auto.
Qed.

Lemma inject_Z_nz : forall t, t <> 0 -> ~ (inject_Z t == 0)%Q.
Proof. intros t H E. apply H. unfold Qeq in E; cbn in E. lia. Qed.

Lemma q_ratio : forall a t c c' : Z, t <> 0 -> a * c = t * c' ->
  (inject_Z a / inject_Z t * inject_Z c == inject_Z c')%Q.
Proof.
  intros a t c c' Ht H.
  assert (E : (inject_Z a * inject_Z c == inject_Z t * inject_Z c')%Q)
    by (rewrite <- !inject_Z_mult, H; reflexivity).
  pose proof (inject_Z_nz t Ht) as Hn.
  setoid_replace (inject_Z a / inject_Z t * inject_Z c)%Q with ((inject_Z a * inject_Z c) / inject_Z t)%Q
    by (field; exact Hn).
  rewrite E. field. exact Hn.
Qed.

Lemma q_ratio_compl : forall a t c c' : Z, t <> 0 -> (t - a) * c = t * c' ->
  ((1 - inject_Z a / inject_Z t) * inject_Z c == inject_Z c')%Q.
Proof.
  intros a t c c' Ht H.
  pose proof (inject_Z_nz t Ht) as Hn.
  setoid_replace ((1 - inject_Z a / inject_Z t) * inject_Z c)%Q
    with (inject_Z (t - a) / inject_Z t * inject_Z c)%Q.
  - apply q_ratio; assumption.
  - unfold Z.sub. rewrite inject_Z_plus, inject_Z_opp. field. exact Hn.
Qed.

(* every vector the sampler can emit has probability 1 / C(tau, ell) *)
Theorem srswor_uniform : forall bits tau ell,
  0 <= ell <= tau -> tau <= Z.of_nat (length bits) -> srswor_ok tau ell (length bits) bits ->
  (srswor_prob ell (Z.max tau 1) bits * inject_Z (choose (Z.to_nat tau) (Z.to_nat ell)) == 1)%Q.
Proof.
  induction bits as [|b rest IH]; intros tau ell Hell Hlen [_ [Hbits [Hsum Hzero]]].
  - cbn [length] in Hlen. assert (Et : tau = 0) by lia. assert (Ee : ell = 0) by lia. rewrite Et, Ee. cbn. reflexivity.
  - apply Forall_cons_iff in Hbits as [Hb Hrest].
    cbn [srswor_prob].
    destruct (Z.eq_dec tau 0) as [E|E].
    + subst tau. assert (ell = 0) by lia. subst ell. cbn [Z.to_nat skipn] in Hzero.
      apply Forall_cons_iff in Hzero as [Hb0 Hz]. subst b. cbn [Z.eqb].
      assert (Hok : srswor_ok 0 0 (length rest) rest).
      { unfold srswor_ok. cbn [Z.to_nat firstn skipn]. repeat split; auto. }
      pose proof (IH 0 0 ltac:(lia) ltac:(lia) Hok) as I. cbn in I |- *.
      change (inject_Z 0) with 0%Q in *. change (inject_Z 1) with 1%Q in *.
      eapply Qeq_trans; [|exact I]. field.
    + set (tau' := tau - 1).
      assert (Hmax : Z.max (Z.max tau 1 - 1) 1 = Z.max tau' 1) by (unfold tau'; lia).
      rewrite Hmax. rewrite (Z.max_l tau 1) by lia.
      replace (Z.to_nat tau) with (S (Z.to_nat tau')) in * by (unfold tau'; lia).
      cbn [firstn skipn zsum_s fold_right] in Hsum, Hzero.
      fold (zsum_s (firstn (Z.to_nat tau') rest)) in Hsum.
      cbn [length] in Hlen.
      pose proof (zsum_bits_le (firstn (Z.to_nat tau') rest) (Forall_firstn' _ _ _ Hrest)) as Hle.
      rewrite firstn_length in Hle.
      assert (Hok : srswor_ok tau' (ell - b) (length rest) rest).
      { unfold srswor_ok. repeat split; auto. lia. }
      assert (Hrange : 0 <= ell - b <= tau') by (unfold tau'; lia).
      pose proof (IH tau' (ell - b) Hrange ltac:(unfold tau'; lia) Hok) as I.
      destruct Hb as [-> | ->].
      * (* b = 0 *)
        cbn [Z.eqb]. rewrite Z.sub_0_r in *.
        eapply Qeq_trans; [|exact I].
        setoid_replace ((1 - inject_Z ell / inject_Z tau) * srswor_prob ell (Z.max tau' 1) rest *
                        inject_Z (choose (S (Z.to_nat tau')) (Z.to_nat ell)))%Q
          with (srswor_prob ell (Z.max tau' 1) rest *
                ((1 - inject_Z ell / inject_Z tau) * inject_Z (choose (S (Z.to_nat tau')) (Z.to_nat ell))))%Q by ring.
        rewrite (q_ratio_compl ell tau _ (choose (Z.to_nat tau') (Z.to_nat ell)) E); [reflexivity|].
        destruct (Z.eq_dec ell 0) as [E0|E0].
        -- rewrite E0. change (Z.to_nat 0) with 0%nat. rewrite !choose_0_r. lia.
        -- replace (Z.to_nat ell) with (S (Z.to_nat (ell - 1))) by lia.
           pose proof (choose_absorb (Z.to_nat tau') (Z.to_nat (ell - 1))) as A.
           rewrite choose_S in *.
           replace (Z.of_nat (S (Z.to_nat (ell - 1)))) with ell in A by lia.
           replace (Z.of_nat (S (Z.to_nat tau'))) with tau in A by (unfold tau'; lia).
           lia.
      * (* b = 1 *)
        cbn [Z.eqb].
        eapply Qeq_trans; [|exact I].
        setoid_replace (inject_Z ell / inject_Z tau * srswor_prob (ell - 1) (Z.max tau' 1) rest *
                        inject_Z (choose (S (Z.to_nat tau')) (Z.to_nat ell)))%Q
          with (srswor_prob (ell - 1) (Z.max tau' 1) rest *
                (inject_Z ell / inject_Z tau * inject_Z (choose (S (Z.to_nat tau')) (Z.to_nat ell))))%Q by ring.
        rewrite (q_ratio ell tau _ (choose (Z.to_nat tau') (Z.to_nat (ell - 1))) E); [reflexivity|].
        replace (Z.to_nat ell) with (S (Z.to_nat (ell - 1))) by lia.
        pose proof (choose_absorb (Z.to_nat tau') (Z.to_nat (ell - 1))) as A.
        replace (Z.of_nat (S (Z.to_nat (ell - 1)))) with ell in A by lia.
        replace (Z.of_nat (S (Z.to_nat tau'))) with tau in A by (unfold tau'; lia).
        exact A.
Qed.

Local Close Scope Q_scope.
Local Open Scope Z_scope.

(* ========================================================================== *)

(* ---------------- factorial branch ---------------- *)
Lemma zfact_S : forall k, zfact (S k) = zfact k * Z.of_nat (S k).
Proof. intros. cbn [zfact]. ring. Qed.

Lemma cumprod_seq : forall n k i, (i < n)%nat ->
  nth i (cumprod_from (zfact k) (map Z.of_nat (seq (S k) n))) 0 = zfact (S k + i).
Proof.
  induction n as [|n IH]; intros k i Hi; [lia|].
  cbn [seq map cumprod_from]. rewrite <- zfact_S.
  destruct i as [|i].
  - cbn [nth]. f_equal. lia.
  - cbn [nth]. rewrite IH by lia. f_equal. lia.
Qed.

Lemma fact_table_nth : forall L i, (i <= L + 1)%nat -> nth i (fact_table (Z.of_nat L)) 0 = zfact i.
Proof.
  intros L i Hi. unfold fact_table. rewrite Nat2Z.id. cbn [cumprod_from].
  destruct i as [|i]; [reflexivity|]. cbn [nth].
  change (1 * 1) with (zfact 0). rewrite cumprod_seq by lia. reflexivity.
Qed.

Lemma cumprod_length : forall l acc, length (cumprod_from acc l) = length l.
Proof. induction l; intros; cbn; auto. Qed.

Lemma fact_table_length : forall L, length (fact_table (Z.of_nat L)) = (L + 2)%nat.
Proof.
  intros. unfold fact_table. rewrite cumprod_length, Nat2Z.id. cbn [length]. rewrite map_length, seq_length. lia.
Qed.

Theorem binom_fact_branch_is_pascal : forall length_ len cnt,
  0 <= len <= length_ -> 0 <= cnt ->
  binom_fact_branch length_ len cnt = choose (Z.to_nat len) (Z.to_nat cnt).
Proof.
  intros length_ len cnt Hl Hc. unfold binom_fact_branch.
  replace length_ with (Z.of_nat (Z.to_nat length_)) by lia. set (L := Z.to_nat length_).
  destruct (Z_lt_le_dec len cnt) as [Hgt|Hle].
  - rewrite (Z.max_r (len - cnt) (-1)) by lia. cbn [Z.eqb]. rewrite choose_gt by lia. reflexivity.
  - rewrite (Z.max_l (len - cnt) (-1)) by lia.
    destruct (len - cnt =? -1) eqn:E; [apply Z.eqb_eq in E; lia|].
    rewrite (Z.min_l cnt (Z.of_nat L)) by lia.
    unfold pyidx.
    destruct (len <? 0) eqn:E1; [apply Z.ltb_lt in E1; lia|].
    destruct (cnt <? 0) eqn:E2; [apply Z.ltb_lt in E2; lia|].
    destruct (len - cnt <? 0) eqn:E3; [apply Z.ltb_lt in E3; lia|].
    rewrite !fact_table_nth by (unfold L; lia).
    pose proof (choose_fact (Z.to_nat cnt) (Z.to_nat len) ltac:(lia)) as F.
    replace (Z.to_nat len - Z.to_nat cnt)%nat with (Z.to_nat (len - cnt)) in F by lia.
    rewrite <- F. rewrite <- Z.mul_assoc. apply Z.quot_mul.
    pose proof (zfact_pos (Z.to_nat cnt)). pose proof (zfact_pos (Z.to_nat (len - cnt))). lia.
Qed.

(* ---------------- table branch (hockey-stick recursion) ---------------- *)
Definition pascal_row (ncols j : nat) : list Z := map (fun l => choose l j) (seq 0 ncols).

Lemma repeat_map_seq : forall {X} (x : X) n s, repeat x n = map (fun _ => x) (seq s n).
Proof. induction n; intros; cbn; [reflexivity|]. f_equal. apply IHn. Qed.

Lemma cumsum_choose : forall c m s,
  cumsum_from (choose s (S c)) (map (fun l => choose l c) (seq s m)) = map (fun l => choose l (S c)) (seq (S s) m).
Proof.
  induction m as [|m IH]; intros s; [reflexivity|].
  cbn [seq map cumsum_from].
  replace (choose s (S c) + choose s c) with (choose (S s) (S c)) by (rewrite choose_S; lia).
  f_equal. apply IH.
Qed.

Lemma removelast_map_seq : forall {X} (g : nat -> X) n s,
  removelast (map g (seq s (S n))) = map g (seq s n).
Proof.
  induction n as [|n IH]; intros s; [reflexivity|].
  change (seq s (S (S n))) with (s :: seq (S s) (S n)). cbn [map].
  change (removelast (g s :: map g (seq (S s) (S n)))) with (g s :: removelast (map g (seq (S s) (S n)))).
  rewrite IH. reflexivity.
Qed.

Lemma pascal_rows_spec : forall c ncols, (0 < ncols)%nat ->
  pascal_rows c ncols = map (pascal_row ncols) (rev (seq 0 (S c))).
Proof.
  induction c as [|c IH]; intros ncols Hn.
  - cbn [pascal_rows seq rev app map]. unfold pascal_row. f_equal.
    rewrite (repeat_map_seq 1 ncols 0). apply map_ext. intros. rewrite choose_0_r. reflexivity.
  - cbn [pascal_rows]. rewrite (IH ncols Hn).
    replace (seq 0 (S c)) with (seq 0 c ++ [c]) by (rewrite <- seq_S; reflexivity).
    rewrite rev_app_distr. cbn [rev app map].
    replace (seq 0 (S (S c))) with ((seq 0 c ++ [c]) ++ [S c]) by (rewrite <- !seq_S; reflexivity).
    rewrite !rev_app_distr. cbn [rev app map]. f_equal.
    unfold pascal_row. destruct ncols as [|n]; [lia|].
    rewrite removelast_map_seq. cbn [seq map].
    f_equal. rewrite <- seq_shift, map_map.
    pose proof (cumsum_choose c n 0%nat) as Hc. cbn [choose] in Hc. rewrite Hc.
    rewrite <- seq_shift, map_map. reflexivity.
Qed.

Lemma nth_concat_uniform : forall (rows : list (list Z)) w i j,
  Forall (fun r => length r = w) rows -> (i < w)%nat -> (j < length rows)%nat ->
  nth (i + j * w) (concat rows) 0 = nth i (nth j rows []) 0.
Proof.
  induction rows as [|r rows IH]; intros w i j Hw Hi Hj; [cbn in Hj; lia|].
  inversion Hw as [|? ? Hr Hrows]; subst. cbn [concat].
  destruct j as [|j].
  - cbn [nth]. rewrite Nat.mul_0_l, Nat.add_0_r. apply app_nth1. lia.
  - cbn [nth]. rewrite app_nth2 by lia.
    replace (i + S j * length r - length r)%nat with (i + j * length r)%nat by lia.
    apply IH; auto. cbn in Hj. lia.
Qed.

Theorem binom_table_branch_is_pascal : forall length_ count_ len cnt,
  0 <= len <= length_ -> 0 <= cnt <= count_ ->
  binom_table_branch length_ count_ len cnt = choose (Z.to_nat len) (Z.to_nat cnt).
Proof.
  intros length_ count_ len cnt Hl Hc. unfold binom_table_branch.
  set (ncols := (Z.to_nat length_ + 1)%nat).
  rewrite pascal_rows_spec by (unfold ncols; lia).
  rewrite <- map_rev, rev_involutive.
  replace (Z.to_nat (len + cnt * (length_ + 1))) with (Z.to_nat len + Z.to_nat cnt * ncols)%nat
    by (unfold ncols; nia).
  rewrite (nth_concat_uniform _ ncols).
  - rewrite (nth_indep _ [] (pascal_row ncols 0)) by (rewrite map_length, seq_length; lia).
    rewrite map_nth, seq_nth by lia. unfold pascal_row.
    rewrite (nth_indep _ 0 (choose 0 (0 + Z.to_nat cnt))) by (rewrite map_length, seq_length; unfold ncols; lia).
    rewrite (map_nth (fun l => choose l (0 + Z.to_nat cnt))), seq_nth by (unfold ncols; lia). reflexivity.
  - apply Forall_forall. intros r Hr. apply in_map_iff in Hr. destruct Hr as [j [<- _]].
    unfold pascal_row. rewrite map_length, seq_length. reflexivity.
  - unfold ncols; lia.
  - rewrite map_length, seq_length. lia.
Qed.

Local Close Scope Q_scope.
Local Open Scope Z_scope.

(* ========================================================================== *)

(* ---------------- binomial_coefficient on a batch ---------------- *)
Lemma zmax_list_ge : forall l x, In x l -> x <= zmax_list l.
Proof.
  induction l as [|a l IH]; intros x H; [destruct H|].
  cbn [zmax_list fold_right]. fold (zmax_list l). destruct H as [->|H]; [lia|]. specialize (IH x H). lia.
Qed.

Lemma existsb_neg_false : forall l, Forall (fun v => 0 <= v) l -> existsb (fun v => v <? 0) l = false.
Proof.
  induction l as [|a l IH]; intros H; [reflexivity|]. inversion H; subst. cbn.
  rewrite IH by assumption. destruct (a <? 0) eqn:E; [apply Z.ltb_lt in E; lia|reflexivity].
Qed.

Theorem binomial_is_pascal : forall lens cnts,
  Forall (fun v => 0 <= v) lens -> Forall (fun v => 0 <= v) cnts ->
  binomial_coefficient lens cnts =
  Some (map (fun lc => choose (Z.to_nat (fst lc)) (Z.to_nat (snd lc))) (combine lens cnts)).
Proof.
  intros lens cnts Hl Hc. unfold binomial_coefficient.
  rewrite (existsb_neg_false lens Hl), (existsb_neg_false cnts Hc). cbn [orb].
  rewrite Forall_forall in Hl, Hc.
  destruct (20 <? zmax_list lens); f_equal; apply map_ext_in; intros [l c] Hin.
  - pose proof (in_combine_l _ _ _ _ Hin) as H1. pose proof (in_combine_r _ _ _ _ Hin) as H2. cbn [fst snd].
    apply binom_table_branch_is_pascal.
    + split; [apply Hl; assumption|apply zmax_list_ge; assumption].
    + split; [apply Hc; assumption|apply zmax_list_ge; assumption].
  - pose proof (in_combine_l _ _ _ _ Hin) as H1. pose proof (in_combine_r _ _ _ _ Hin) as H2. cbn [fst snd].
    apply binom_fact_branch_is_pascal.
    + split; [apply Hl; assumption|apply zmax_list_ge; assumption].
    + apply Hc; assumption.
Qed.

Lemma existsb_neg_true : forall l, existsb (fun v => v <? 0) l = true <-> Exists (fun v => v < 0) l.
Proof.
  intros l. rewrite existsb_exists, Exists_exists. split; intros [x [Hx Hv]]; exists x; split; auto.
  - apply Z.ltb_lt; assumption.
  - apply Z.ltb_lt; assumption.
Qed.

Theorem binomial_error_iff : forall lens cnts,
  binomial_coefficient lens cnts = None <-> (Exists (fun v => v < 0) lens \/ Exists (fun v => v < 0) cnts).
Proof.
  intros lens cnts. unfold binomial_coefficient. rewrite <- !existsb_neg_true.
  destruct (existsb (fun v => v <? 0) lens); destruct (existsb (fun v => v <? 0) cnts); cbn [orb];
    try (split; [intros _; auto | reflexivity]).
  destruct (20 <? zmax_list lens); split; try discriminate; intros [H|H]; discriminate.
Qed.

(* ---------------- enumerate_vocab_sequences ---------------- *)
Definition undigits (V : Z) (l : list Z) : Z := fold_right (fun d acc => d + V * acc) 0 l.

Lemma digits_length : forall V len s, length (digits V len s) = len.
Proof. induction len; intros; cbn; auto. Qed.

Lemma digits_range : forall V len s, 0 < V -> Forall (fun d => 0 <= d < V) (digits V len s).
Proof.
  induction len as [|len IH]; intros s HV; cbn [digits]; constructor; [|apply IH; assumption].
  apply Z.mod_pos_bound. assumption.
Qed.

Lemma undigits_digits : forall V len s, 0 < V -> 0 <= s < V ^ Z.of_nat len -> undigits V (digits V len s) = s.
Proof.
  induction len as [|len IH]; intros s HV Hs.
  - cbn in *. lia.
  - cbn [digits undigits fold_right]. fold (undigits V (digits V len (s / V))).
    rewrite Nat2Z.inj_succ, Z.pow_succ_r in Hs by lia.
    rewrite IH; auto.
    + pose proof (Z.div_mod s V ltac:(lia)). lia.
    + split; [apply Z.div_pos; lia|]. apply Z.div_lt_upper_bound; lia.
Qed.

Lemma undigits_range : forall V l, 0 < V -> Forall (fun d => 0 <= d < V) l ->
  0 <= undigits V l < V ^ Z.of_nat (length l).
Proof.
  induction l as [|d l IH]; intros HV H.
  - cbn. lia.
  - inversion H as [|? ? Hd Hl]; subst. specialize (IH HV Hl).
    cbn [undigits fold_right length]. fold (undigits V l).
    rewrite Nat2Z.inj_succ, Z.pow_succ_r by lia. nia.
Qed.

Lemma digits_undigits : forall V l, 0 < V -> Forall (fun d => 0 <= d < V) l ->
  digits V (length l) (undigits V l) = l.
Proof.
  induction l as [|d l IH]; intros HV H; [reflexivity|].
  inversion H as [|? ? Hd Hl]; subst.
  cbn [length digits undigits fold_right]. fold (undigits V l).
  replace ((d + V * undigits V l) mod V) with d.
  2:{ rewrite Z.mul_comm, Z.mod_add by lia. symmetry. apply Z.mod_small. assumption. }
  replace ((d + V * undigits V l) / V) with (undigits V l).
  2:{ rewrite Z.mul_comm, Z.div_add by lia. rewrite Z.div_small by assumption. lia. }
  f_equal. apply IH; assumption.
Qed.

Lemma NoDup_map_inj_in : forall {X Y} (g : X -> Y) l,
  (forall x y, In x l -> In y l -> g x = g y -> x = y) -> NoDup l -> NoDup (map g l).
Proof.
  induction l as [|a l IH]; intros Hinj Hnd; [constructor|].
  inversion Hnd as [|? ? Hni Hnd']; subst. cbn [map]. constructor.
  - intros Hin. apply in_map_iff in Hin. destruct Hin as [x [Hx Hxl]].
    assert (x = a) by (apply Hinj; auto using in_eq, in_cons). subst. contradiction.
  - apply IH; auto. intros x y Hx Hy. apply Hinj; auto using in_cons.
Qed.

Definition in_vocab (V : Z) (len : nat) (r : list Z) : Prop :=
  length r = len /\ Forall (fun d => 0 <= d < V) r.

Theorem enumerate_vocab_complete : forall len V, 0 <= len -> 0 < V ->
  exists rows, enumerate_vocab_sequences len V = Some rows /\
    NoDup rows /\ (forall r, In r rows <-> in_vocab V (Z.to_nat len) r) /\
    Z.of_nat (length rows) = V ^ len.
Proof.
  intros len V Hlen HV. unfold enumerate_vocab_sequences.
  destruct (len <? 0) eqn:E1; [apply Z.ltb_lt in E1; lia|].
  destruct (V <=? 0) eqn:E2; [apply Z.leb_le in E2; lia|].
  eexists; split; [reflexivity|].
  set (L := Z.to_nat len). assert (HL : len = Z.of_nat L) by (unfold L; lia).
  assert (Hpow : 0 < V ^ len) by (apply Z.pow_pos_nonneg; lia).
  repeat split.
  - apply NoDup_map_inj_in; [|apply seq_NoDup].
    intros x y Hx Hy Heq. apply in_seq in Hx. apply in_seq in Hy.
    assert (Z.of_nat x = Z.of_nat y); [|lia].
    assert (Hbx : 0 <= Z.of_nat x < V ^ Z.of_nat L) by (rewrite <- HL; lia).
    assert (Hby : 0 <= Z.of_nat y < V ^ Z.of_nat L) by (rewrite <- HL; lia).
    rewrite <- (undigits_digits V L (Z.of_nat x) HV Hbx), <- (undigits_digits V L (Z.of_nat y) HV Hby).
    f_equal. exact Heq.
  - apply in_map_iff in H. destruct H as [s [<- _]]. apply digits_length.
  - apply in_map_iff in H. destruct H as [s [<- _]]. apply digits_range. assumption.
  - intros [Hl Hr]. apply in_map_iff. exists (Z.to_nat (undigits V r)).
    pose proof (undigits_range V r HV Hr) as Hu. rewrite Hl, <- HL in Hu.
    split.
    + rewrite Z2Nat.id by lia. rewrite <- Hl. apply digits_undigits; assumption.
    + apply in_seq. lia.
  - rewrite map_length, seq_length. lia.
Qed.

Theorem enumerate_vocab_error_iff : forall len V,
  enumerate_vocab_sequences len V = None <-> (len < 0 \/ V <= 0).
Proof.
  intros. unfold enumerate_vocab_sequences.
  destruct (len <? 0) eqn:E1; [apply Z.ltb_lt in E1; intuition|].
  destruct (V <=? 0) eqn:E2; [apply Z.leb_le in E2; intuition|].
  apply Z.ltb_ge in E1. apply Z.leb_gt in E2. split; [discriminate|lia].
Qed.

Local Close Scope Q_scope.
Local Open Scope Z_scope.

(* ========================================================================== *)

(* ---------------- counting the binary sequences with a given sum ---------------- *)
Lemma seq_double_S : forall n, seq 0 (2 * S n) = seq 0 (2 * n) ++ [(2 * n)%nat; (2 * n + 1)%nat].
Proof.
  intros n. replace (2 * S n)%nat with (S (S (2 * n)%nat)) by lia.
  rewrite seq_S, seq_S, <- app_assoc. cbn [app plus]. replace (2 * n + 1)%nat with (S (2 * n)) by lia. reflexivity.
Qed.

Lemma count_even_odd : forall {X} (h : nat -> X) (p : X -> bool) n,
  length (filter p (map h (seq 0 (2 * n)))) =
  (length (filter p (map (fun q => h (2 * q)%nat) (seq 0 n))) +
   length (filter p (map (fun q => h (2 * q + 1)%nat) (seq 0 n))))%nat.
Proof.
  intros X h p. induction n as [|n IH]; [reflexivity|].
  rewrite seq_double_S, map_app, filter_app, app_length, IH.
  rewrite !seq_S, !map_app, !filter_app, !app_length. cbn [map filter app length plus].
  destruct (p (h (2 * n)%nat)), (p (h (2 * n + 1)%nat)); cbn [length]; lia.
Qed.

Definition card_count (L : nat) (c : Z) : nat :=
  length (filter (fun r => zsum r =? c) (map (fun s => digits 2 L (Z.of_nat s)) (seq 0 (Z.to_nat (2 ^ Z.of_nat L))))).

Lemma zsum_digits_nonneg : forall L s, 0 <= zsum (digits 2 L s).
Proof.
  induction L as [|L IH]; intros s; cbn [digits zsum fold_right]; [lia|].
  fold (zsum (digits 2 L (s / 2))). pose proof (IH (s / 2)). pose proof (Z.mod_pos_bound s 2 ltac:(lia)). lia.
Qed.

Lemma filter_none : forall {X} (p : X -> bool) l, (forall x, In x l -> p x = false) -> filter p l = [].
Proof.
  induction l as [|a l IH]; intros H; [reflexivity|]. cbn. rewrite (H a (in_eq _ _)). apply IH. auto using in_cons.
Qed.

Lemma card_count_neg : forall L c, c < 0 -> card_count L c = 0%nat.
Proof.
  intros L c Hc. unfold card_count. rewrite filter_none; [reflexivity|].
  intros r Hr. apply in_map_iff in Hr. destruct Hr as [s [<- _]].
  pose proof (zsum_digits_nonneg L (Z.of_nat s)). apply Z.eqb_neq. lia.
Qed.

Lemma filter_map_cons : forall (b c : Z) (g : nat -> list Z) l,
  length (filter (fun r => zsum r =? c) (map (fun q => b :: g q) l)) =
  length (filter (fun r => zsum r =? c - b) (map g l)).
Proof.
  intros b c g. induction l as [|a l IH]; [reflexivity|].
  cbn [map filter]. cbn [zsum fold_right]. fold (zsum (g a)).
  replace (b + zsum (g a) =? c) with (zsum (g a) =? c - b).
  - destruct (zsum (g a) =? c - b); cbn [length]; rewrite IH; reflexivity.
  - destruct (Z.eqb_spec (zsum (g a)) (c - b)), (Z.eqb_spec (b + zsum (g a)) c); try reflexivity; lia.
Qed.

Lemma card_count_S : forall L c, card_count (S L) c = (card_count L c + card_count L (c - 1))%nat.
Proof.
  intros L c. unfold card_count.
  replace (Z.to_nat (2 ^ Z.of_nat (S L))) with (2 * Z.to_nat (2 ^ Z.of_nat L))%nat.
  2:{ rewrite Nat2Z.inj_succ, Z.pow_succ_r by lia. pose proof (Z.pow_pos_nonneg 2 (Z.of_nat L) ltac:(lia) ltac:(lia)). lia. }
  rewrite count_even_odd.
  rewrite (map_ext (fun q => digits 2 (S L) (Z.of_nat (2 * q))) (fun q => 0 :: digits 2 L (Z.of_nat q))).
  2:{ intros q. cbn [digits]. replace (Z.of_nat (2 * q)) with (Z.of_nat q * 2) by lia.
      rewrite Z.mod_mul, Z.div_mul by lia. reflexivity. }
  rewrite (map_ext (fun q => digits 2 (S L) (Z.of_nat (2 * q + 1))) (fun q => 1 :: digits 2 L (Z.of_nat q))).
  2:{ intros q. cbn [digits]. replace (Z.of_nat (2 * q + 1)) with (1 + Z.of_nat q * 2) by lia.
      rewrite Z.mod_add, Z.div_add by lia. reflexivity. }
  rewrite !filter_map_cons. rewrite Z.sub_0_r. reflexivity.
Qed.

Lemma card_count_choose : forall L c, 0 <= c -> Z.of_nat (card_count L c) = choose L (Z.to_nat c).
Proof.
  induction L as [|L IH]; intros c Hc.
  - unfold card_count. change (Z.to_nat (2 ^ Z.of_nat 0)) with 1%nat.
    cbn [seq map digits filter zsum fold_right]. destruct (Z.eqb_spec 0 c).
    + subst. reflexivity.
    + destruct (Z.to_nat c) eqn:E; [lia|reflexivity].
  - rewrite card_count_S, Nat2Z.inj_add.
    destruct (Z.eq_dec c 0) as [->|Hn].
    + rewrite IH by lia. rewrite card_count_neg by lia. cbn [Z.to_nat]. rewrite !choose_0_r. reflexivity.
    + rewrite !IH by lia.
      replace (Z.to_nat c) with (S (Z.to_nat (c - 1))) by lia. rewrite choose_S. lia.
Qed.

Definition in_card (len cnt : Z) (r : list Z) : Prop :=
  length r = Z.to_nat len /\ Forall (fun d => d = 0 \/ d = 1) r /\ zsum r = cnt.

Theorem enumerate_card_complete : forall len cnt, 0 <= len -> 0 <= cnt ->
  exists rows, enumerate_card_int len cnt = Some rows /\
    NoDup rows /\ (forall r, In r rows <-> in_card len cnt r) /\
    Z.of_nat (length rows) = choose (Z.to_nat len) (Z.to_nat cnt).
Proof.
  intros len cnt Hlen Hcnt. unfold enumerate_card_int, enumerate_binary_sequences.
  destruct (enumerate_vocab_complete len 2 Hlen ltac:(lia)) as [rows [E [Hnd [Hin Hcount]]]].
  rewrite E. eexists; split; [reflexivity|]. repeat split.
  - apply NoDup_filter. exact Hnd.
  - apply filter_In in H. destruct H as [H _]. apply Hin in H. destruct H. assumption.
  - apply filter_In in H. destruct H as [H _]. apply Hin in H. destruct H as [_ H].
    eapply Forall_impl; [|exact H]. cbn. intros; lia.
  - apply filter_In in H. destruct H as [_ H]. apply Z.eqb_eq. assumption.
  - intros [Hl [Hb Hs]]. apply filter_In. split; [|apply Z.eqb_eq; assumption].
    apply Hin. split; [assumption|]. eapply Forall_impl; [|exact Hb]. cbn. intros; lia.
  - unfold enumerate_vocab_sequences in E.
    destruct (len <? 0); [discriminate|]. destruct (2 <=? 0); [discriminate|]. inversion E; subst rows.
    pose proof (card_count_choose (Z.to_nat len) cnt Hcnt) as C. unfold card_count in C.
    rewrite Z2Nat.id in C by lia. exact C.
Qed.

(* ---------------- SimpleRandomSamplingWithoutReplacement: support and probabilities ---------------- *)
Local Open Scope Q_scope.

Theorem support_sums_to_one : forall total given out, (0 <= given <= total)%Z ->
  exists rows, srswor_support total given out = Some rows /\
    Qn (length rows) * srswor_prob_value total given == 1.
Proof.
  intros total given out H. unfold srswor_support.
  destruct (enumerate_card_complete total given ltac:(lia) ltac:(lia)) as [rows [E [_ [_ Hc]]]].
  rewrite E. eexists; split; [reflexivity|]. rewrite map_length.
  unfold Qn. rewrite Hc. unfold srswor_prob_value.
  pose proof (choose_fact (Z.to_nat given) (Z.to_nat total) ltac:(lia)) as F.
  replace (Z.to_nat total - Z.to_nat given)%nat with (Z.to_nat (total - given)) in F by lia.
  rewrite <- F.
  pose proof (zfact_pos (Z.to_nat given)). pose proof (zfact_pos (Z.to_nat (total - given))).
  pose proof (choose_pos (Z.to_nat total) (Z.to_nat given) ltac:(lia)).
  rewrite !inject_Z_mult. field. repeat split; apply inject_Z_nz; lia.
Qed.

(* every enumerated support row is a legal sample: the right number of ones in the permitted positions *)
Theorem support_rows_ok : forall total given out rows r, (0 <= given)%Z -> (0 <= total <= Z.of_nat out)%Z ->
  srswor_support total given out = Some rows -> In r rows -> srswor_ok total given out r.
Proof.
  intros total given out rows r Hg Ht E Hr. unfold srswor_support in E.
  destruct (enumerate_card_complete total given ltac:(lia) Hg) as [rows0 [E0 [_ [Hin _]]]].
  rewrite E0 in E. inversion E; subst rows. apply in_map_iff in Hr. destruct Hr as [r0 [<- Hr0]].
  apply Hin in Hr0. destruct Hr0 as [Hl [Hb Hs]].
  unfold srswor_ok. repeat split.
  - rewrite app_length, repeat_length, Hl. lia.
  - apply Forall_app. split; [exact Hb|]. apply Forall_forall. intros x Hx. apply repeat_spec in Hx. auto.
  - rewrite <- Hl, firstn_app, firstn_all, Nat.sub_diag. cbn [firstn]. rewrite app_nil_r. exact Hs.
  - rewrite <- Hl, skipn_app, skipn_all, Nat.sub_diag. cbn [skipn app].
    apply Forall_forall. intros x Hx. apply repeat_spec in Hx. auto.
Qed.

Local Close Scope Q_scope.
Local Open Scope Z_scope.

(* ========================================================================== *)

(* BinaryCardinalityConstraint.check accepts exactly the legal samples *)
Lemma masked_sum_skipn : forall value t s,
  zsum (map (fun iv => if t <=? Z.of_nat (fst iv) then snd iv else 0) (combine (seq s (length value)) value))
  = zsum (skipn (Z.to_nat (t - Z.of_nat s)) value).
Proof.
  induction value as [|v value IH]; intros t s.
  - cbn. destruct (Z.to_nat (t - Z.of_nat s)); reflexivity.
  - cbn [length seq combine map zsum fold_right fst snd].
    fold (zsum (map (fun iv => if t <=? Z.of_nat (fst iv) then snd iv else 0) (combine (seq (S s) (length value)) value))).
    rewrite IH. destruct (t <=? Z.of_nat s) eqn:E.
    + apply Z.leb_le in E. replace (Z.to_nat (t - Z.of_nat s)) with 0%nat by lia.
      replace (Z.to_nat (t - Z.of_nat (S s))) with 0%nat by lia. cbn [skipn zsum fold_right]. reflexivity.
    + apply Z.leb_gt in E. replace (Z.to_nat (t - Z.of_nat s)) with (S (Z.to_nat (t - Z.of_nat (S s)))) by lia.
      cbn [skipn]. lia.
Qed.

Lemma zsum_zsum_s : forall l, zsum l = zsum_s l.
Proof. reflexivity. Qed.

Lemma zsum_split : forall n l, zsum l = zsum (firstn n l) + zsum (skipn n l).
Proof.
  induction n as [|n IH]; intros l; [reflexivity|]. destruct l as [|a l]; [reflexivity|].
  unfold zsum in *. cbn [firstn skipn fold_right]. rewrite (IH l). lia.
Qed.

Lemma bits_sum_zero : forall l, Forall (fun v => v = 0 \/ v = 1) l -> zsum l = 0 -> Forall (fun v => v = 0) l.
Proof.
  induction l as [|a l IH]; intros Hb Hs; [constructor|].
  inversion Hb as [|? ? Ha Hl]; subst. cbn [zsum fold_right] in Hs. fold (zsum l) in Hs.
  pose proof (zsum_bits_le l Hl) as [Hge _]. rewrite <- zsum_zsum_s in Hge.
  constructor; [lia|apply IH; [assumption|lia]].
Qed.

Lemma zeros_sum : forall l, Forall (fun v => v = 0) l -> zsum l = 0.
Proof. induction l as [|a l IH]; intros H; [reflexivity|]. inversion H; subst. cbn. fold (zsum l). rewrite IH; auto. Qed.

Lemma Forall_skipn' : forall {X} (P : X -> Prop) n l, Forall P l -> Forall P (skipn n l).
Proof.
  induction n as [|n IH]; intros l H; [exact H|]. destruct l; [constructor|]. inversion H; subst. cbn. auto.
Qed.

Theorem card_check_iff : forall total given value, 0 <= total ->
  card_check given (Some total) value = true <-> srswor_ok total given (length value) value.
Proof.
  intros total given value Ht. unfold card_check, srswor_ok.
  rewrite (masked_sum_skipn value total 0). rewrite Z.sub_0_r.
  rewrite !andb_true_iff, forallb_forall, !Z.eqb_eq.
  split.
  - intros [[Hb Hm] Hs].
    assert (Hbits : Forall (fun v => v = 0 \/ v = 1) value).
    { apply Forall_forall. intros v Hv. specialize (Hb v Hv). apply orb_true_iff in Hb.
      rewrite !Z.eqb_eq in Hb. exact Hb. }
    repeat split; auto.
    + rewrite (zsum_split (Z.to_nat total) value) in Hs. rewrite <- zsum_zsum_s. lia.
    + apply bits_sum_zero; [apply Forall_skipn'; exact Hbits|exact Hm].
  - intros [_ [Hbits [Hs Hz]]]. rewrite <- zsum_zsum_s in Hs.
    repeat split.
    + intros v Hv. rewrite Forall_forall in Hbits. specialize (Hbits v Hv). apply orb_true_iff.
      rewrite !Z.eqb_eq. exact Hbits.
    + apply zeros_sum. exact Hz.
    + rewrite (zsum_split (Z.to_nat total) value), Hs, (zeros_sum _ Hz). lia.
Qed.
