(* C20 — Attention is a masked convex combination of values, blind to masked positions.
   Property theorems only: each is closed by [exact <lemma>] and followed by
   [Print Assumptions].  Conventions (r-coordinates, oracle functions) are in Model.v.

   Reading guide.  [attend expf sc q k v m p qs ks = Some out] says: the module with score
   function [sc] (any of the three flavours: [score tanhf fl]; in fact ANY function of the
   query row and the key row), sizes qs/ks and sequence axis at r-position p accepts the
   inputs and returns [out].  [expf] is the exponential inside softmax: the theorems need only
   that it is positive.  [ins (p-1) t j] is the index j of an output row extended by sequence
   position t; [kept_at m i] is the mask read under broadcasting (true without a mask);
   [bget]/[brow] read an element / a feature row under broadcasting. *)
From Coq Require Import List Arith Bool ZArith QArith Permutation Lia Lqa.
From PV Require Import C20.Model C20.Spec C20.Sums C20.Index C20.Proofs C20.Broadcast C20.MHA C20.MHARel.
Import ListNotations.
Local Open Scope nat_scope.

(* normal form: "attention is a masked convex combination of values" - every output
   coordinate equals sum_{kept t} exp(score_t) value_t / sum_{kept t} exp(score_t) *)
Theorem c20_attention_is_masked_convex_combination :
  forall expf sc q k v m p qs ks out,
  attend expf sc q k v m p qs ks = Some out -> seq_agree k v p ->
  forall c j, valid (tshape out) (c :: j) ->
  (tat out (c :: j) ==
   masked_convex_combination (nth p (tshape k) 0%nat)
     (fun t => kept_at m (ins (p - 1) t j))
     (fun t => expf (e_at sc q k p (ins (p - 1) t j)))
     (fun t => bget v (c :: ins (p - 1) t j)))%Q.
Proof. exact attend_is_mcc. Qed.
Print Assumptions c20_attention_is_masked_convex_combination.

(* "each output coordinate lies between the smallest and largest kept value at that
   coordinate" (at least one position kept): any bounds lo, hi on the kept values bound the
   output *)
Theorem c20_attention_in_kept_range :
  forall expf sc q k v m p qs ks out,
  (forall x, (0 < expf x)%Q) ->
  attend expf sc q k v m p qs ks = Some out -> seq_agree k v p ->
  forall c j lo hi, valid (tshape out) (c :: j) ->
  (exists t, t < nth p (tshape k) 0 /\ kept_at m (ins (p - 1) t j) = true) ->
  (forall t, t < nth p (tshape k) 0 -> kept_at m (ins (p - 1) t j) = true ->
             (lo <= bget v (c :: ins (p - 1) t j) <= hi)%Q) ->
  (lo <= tat out (c :: j) <= hi)%Q.
Proof. exact attention_in_kept_range. Qed.
Print Assumptions c20_attention_in_kept_range.

(* "the output does not change when keys and values at masked positions are replaced by
   anything": k', v' agree with k, v wherever the (broadcast) mask keeps the position *)
Theorem c20_attention_blind_to_masked :
  forall expf sc q k v k' v' m p qs ks out out',
  attend expf sc q k v m p qs ks = Some out ->
  attend expf sc q k' v' m p qs ks = Some out' ->
  tshape k' = tshape k -> tshape v' = tshape v -> seq_agree k v p ->
  forall c j, valid (tshape out) (c :: j) ->
  (forall t, t < nth p (tshape k) 0 -> kept_at m (ins (p - 1) t j) = true ->
             brow k' (ins (p - 1) t j) = brow k (ins (p - 1) t j)
             /\ bget v' (c :: ins (p - 1) t j) = bget v (c :: ins (p - 1) t j)) ->
  (tat out' (c :: j) == tat out (c :: j))%Q.
Proof. exact attention_blind_to_masked. Qed.
Print Assumptions c20_attention_blind_to_masked.

(* "it does not change when the sequence positions are permuted consistently": key, value and
   mask of the second call are those of the first read through a permutation sigma of 0..T-1 *)
Theorem c20_attention_permutation_invariant :
  forall expf sc q k v m k' v' m' p qs ks out out' (sigma : nat -> nat),
  attend expf sc q k v m p qs ks = Some out ->
  attend expf sc q k' v' m' p qs ks = Some out' ->
  tshape k' = tshape k -> tshape v' = tshape v -> mask_shape m' = mask_shape m -> seq_agree k v p ->
  Permutation (map sigma (seq 0 (nth p (tshape k) 0))) (seq 0 (nth p (tshape k) 0)) ->
  forall c j, valid (tshape out) (c :: j) ->
  (forall t, t < nth p (tshape k) 0 ->
             brow k' (ins (p - 1) t j) = brow k (ins (p - 1) (sigma t) j)
             /\ bget v' (c :: ins (p - 1) t j) = bget v (c :: ins (p - 1) (sigma t) j)
             /\ kept_at m' (ins (p - 1) t j) = kept_at m (ins (p - 1) (sigma t) j)) ->
  (tat out' (c :: j) == tat out (c :: j))%Q.
Proof. exact attention_permutation_invariant. Qed.
Print Assumptions c20_attention_permutation_invariant.

(* "every attention flavour": the four theorems above hold for an arbitrary score function, in
   particular for dot-product (any scale), generalised (any W, bias or not) and concat (any W,
   bias, v, any tanh) - spelled out for the range clause *)
Theorem c20_range_every_flavour :
  forall expf tanhf fl q k v m p qs ks out,
  (forall x, (0 < expf x)%Q) ->
  attend expf (score tanhf fl) q k v m p qs ks = Some out -> seq_agree k v p ->
  forall c j lo hi, valid (tshape out) (c :: j) ->
  (exists t, t < nth p (tshape k) 0 /\ kept_at m (ins (p - 1) t j) = true) ->
  (forall t, t < nth p (tshape k) 0 -> kept_at m (ins (p - 1) t j) = true ->
             (lo <= bget v (c :: ins (p - 1) t j) <= hi)%Q) ->
  (lo <= tat out (c :: j) <= hi)%Q.
Proof. exact (fun expf tanhf fl => attention_in_kept_range expf (score tanhf fl)). Qed.
Print Assumptions c20_range_every_flavour.

(* "Broadcasting a query against batched keys gives the same result as explicitly expanding
   it, for every legal sequence dimension": the whole output tensor is the same (p arbitrary) *)
Theorem c20_broadcast_query_eq_expanded :
  forall expf sc q k v m p qs ks out es,
  attend expf sc q k v m p qs ks = Some out ->
  bshape (tl (tshape (unsq p q))) (tl (tshape k)) = Some es ->
  attend expf sc (q_expanded q p es) k v m p qs ks = Some out.
Proof. exact broadcast_query_eq_expanded. Qed.
Print Assumptions c20_broadcast_query_eq_expanded.

(* "for every legal sequence dimension": a legal dim resolves to an r-position in range, and
   its negative spelling (dim - rank, legal for dim >= 1) resolves to the same axis *)
Theorem c20_sequence_dimension_resolution :
  forall (dim : Z) (kr : nat),
  (0 <= dim < Z.of_nat kr - 1)%Z ->
  axis_pos dim kr = Some (kr - 1 - Z.to_nat dim)
  /\ 1 <= kr - 1 - Z.to_nat dim < kr
  /\ ((1 <= dim)%Z -> axis_pos (dim - Z.of_nat kr) kr = axis_pos dim kr).
Proof. exact axis_pos_legal. Qed.
Print Assumptions c20_sequence_dimension_resolution.

(* "Multi-headed attention equals projecting ..., running the wrapped single-head attention
   per head, concatenating and projecting again": the model of MultiHeadedAttention.forward
   (projections, unflatten, mask.unsqueeze(-1), ONE call of the wrapped attention on tensors
   with a head axis, flatten, projection) agrees everywhere with [mha_spec] (Spec.v), in which
   the wrapped attention is called once per head on that head's block of features with the
   caller's mask; and each of those per-head calls is accepted *)
Theorem c20_multihead_is_composition :
  forall expf sc P q k v m p qs ks vs out,
  mha expf sc P q k v m p 0 qs ks vs = Some out ->
  length (WQ P) = num_heads P * d_q P ->
  length (WK P) = num_heads P * d_k P ->
  length (WV P) = num_heads P * d_v P ->
  seq_agree k v p ->
  (forall h, h < num_heads P -> exists o, head expf sc P q k v m p h = Some o) /\
  (forall i, valid (tshape out) i ->
             (tat out i == tat (mha_spec expf sc P q k v m p (tl (tshape out))) i)%Q).
Proof. exact multihead_is_composition. Qed.
Print Assumptions c20_multihead_is_composition.

(* "every attention flavour ... multi-headed": the multi-headed output does not change when
   keys and values at masked positions are replaced by anything (whole feature rows, since the
   projections mix features), for arbitrary projection parameters *)
Theorem c20_multihead_blind_to_masked :
  forall expf sc P q k v k' v' m p qs ks vs out out',
  mha expf sc P q k v m p 0 qs ks vs = Some out ->
  mha expf sc P q k' v' m p 0 qs ks vs = Some out' ->
  tshape k' = tshape k -> tshape v' = tshape v ->
  length (WQ P) = num_heads P * d_q P ->
  length (WK P) = num_heads P * d_k P ->
  length (WV P) = num_heads P * d_v P ->
  seq_agree k v p ->
  forall c j, valid (tshape out) (c :: j) ->
  (forall t, t < nth p (tshape k) 0 -> kept_at m (ins (p - 1) t j) = true ->
             brow k' (ins (p - 1) t j) = brow k (ins (p - 1) t j)
             /\ brow v' (ins (p - 1) t j) = brow v (ins (p - 1) t j)) ->
  (tat out' (c :: j) == tat out (c :: j))%Q.
Proof. exact multihead_blind_to_masked. Qed.
Print Assumptions c20_multihead_blind_to_masked.

(* ... and it does not change when the sequence positions are permuted consistently *)
Theorem c20_multihead_permutation_invariant :
  forall expf sc P q k v m k' v' m' p qs ks vs out out' (sigma : nat -> nat),
  mha expf sc P q k v m p 0 qs ks vs = Some out ->
  mha expf sc P q k' v' m' p 0 qs ks vs = Some out' ->
  tshape k' = tshape k -> tshape v' = tshape v -> mask_shape m' = mask_shape m ->
  length (WQ P) = num_heads P * d_q P ->
  length (WK P) = num_heads P * d_k P ->
  length (WV P) = num_heads P * d_v P ->
  seq_agree k v p ->
  Permutation (map sigma (seq 0 (nth p (tshape k) 0))) (seq 0 (nth p (tshape k) 0)) ->
  forall c j, valid (tshape out) (c :: j) ->
  (forall t, t < nth p (tshape k) 0 ->
             brow k' (ins (p - 1) t j) = brow k (ins (p - 1) (sigma t) j)
             /\ brow v' (ins (p - 1) t j) = brow v (ins (p - 1) (sigma t) j)
             /\ kept_at m' (ins (p - 1) t j) = kept_at m (ins (p - 1) (sigma t) j)) ->
  (tat out' (c :: j) == tat out (c :: j))%Q.
Proof. exact multihead_permutation_invariant. Qed.
Print Assumptions c20_multihead_permutation_invariant.

(* "(with a bias exactly on the projections for which one was requested)": a projection
   built without a bias is the bare matrix product, one built with bias b adds b and nothing
   else; [mha] and [mha_spec] use [linear (W? P) (b? P)] for the four projections *)
Theorem c20_projection_bias_exactly_where_requested :
  forall W t c i,
  (forall b, tat (linear W (Some b) t) (c :: i) = (tat (linear W None t) (c :: i) + nth c b 0%Q)%Q)
  /\ tat (linear W None t) (c :: i)
     = dotq (map (fun j => tat t (j :: i)) (seq 0 (hd 0 (tshape t)))) (nth c W []).
Proof. exact linear_bias_exact. Qed.
Print Assumptions c20_projection_bias_exactly_where_requested.

(* the exp-oracle the correspondence check hands to the model (a table of torch's float64
   results, 1 where the table has no entry) is positive, i.e. it is one of the functions the
   theorems above quantify over *)
Theorem c20_oracle_exp_positive :
  forall tbl, (forall kv, In kv tbl -> (0 < snd kv)%Q) -> forall x, (0 < lookup tbl x)%Q.
Proof. exact lookup_positive. Qed.
Print Assumptions c20_oracle_exp_positive.

(* non-vacuity: a concrete masked, batched input is accepted and meets every hypothesis of the
   theorems above (key (T=3, N=2, K=1), query (N=2, Q=1), value (3, 2, D=2), mask (3, 2)) *)
Example c20_nonvacuous :
  let expf := fun x : Q => (x * x + 1)%Q in
  let q0 := qt [1; 2] [1; -2]%Q in
  let k0 := qt [1; 2; 3] [1; 0; 2; 1; -1; 3]%Q in
  let v0 := qt [2; 2; 3] [1; 2; 3; 4; 5; 6; 7; 8; 9; 10; 11; 12]%Q in
  let m0 := Some (bt [2; 3] [true; false; true; true; false; true]) in
  exists out,
    attend expf (score (fun x => x) (Dot 1)) q0 k0 v0 m0 2 1 1 = Some out
    /\ seq_agree k0 v0 2 /\ valid (tshape out) [1; 0]
    /\ (exists t, t < nth 2 (tshape k0) 0 /\ kept_at m0 (ins 1 t [0]) = true)
    /\ kept_at m0 (ins 1 2 [0]) = false
    /\ (forall x, (0 < expf x)%Q)
    /\ (tat out [1%nat; 0%nat] == 34 # 7)%Q.
Proof.
  cbv zeta. eexists. split; [vm_compute; reflexivity|].
  split; [reflexivity|]. split; [repeat constructor|].
  split; [exists 0; split; [cbn; lia|reflexivity]|].
  split; [reflexivity|]. split; [intros x; nra|]. vm_compute. reflexivity.
Qed.

Example c20_mha_nonvacuous :
  let expf := fun x : Q => (x * x + 1)%Q in
  let P := mkMHA 2 1 1 1 [[1; 0]; [0; 1]]%Q (Some [1; 0]%Q) [[1; 0]; [0; 1]]%Q None
                 [[1; 0]; [0; 1]]%Q None [[1; 0]; [0; 1]]%Q None in
  let q0 := qt [2; 2] [1; -2; 0; 1]%Q in
  let k0 := qt [2; 2; 3] [1; 0; 2; 1; -1; 3; 0; 0; 1; 1; 2; 2]%Q in
  let v0 := qt [2; 2; 3] [1; 2; 3; 4; 5; 6; 7; 8; 9; 10; 11; 12]%Q in
  let m0 := Some (bt [2; 3] [true; false; true; true; false; true]) in
  exists out,
    mha expf (score (fun x => x) (Dot 1)) P q0 k0 v0 m0 2 0 2 2 2 = Some out
    /\ seq_agree k0 v0 2 /\ valid (tshape out) [1; 0]
    /\ length (WQ P) = num_heads P * d_q P.
Proof.
  cbv zeta. eexists. split; [vm_compute; reflexivity|].
  split; [reflexivity|]. split; [repeat constructor|]. reflexivity.
Qed.

(* ---- the tie to the source text (GlobalSoftAttention.forward / check_input, DotProductSoftAttention.score) ----
   PV.Gen.C20Src.{gsa_forward, gsa_check_input, dot_score, general_score} are regenerated on every run from
   /repo/src/pydrobert/torch/_attn.py (whole method bodies) by harness/py2coq/translate.py, node for node;
   PV.MiniPy.Interp is the semantics of the translated subset; SrcRun.ext20 interprets `self.check_input(..)` and
   `self.score(..)` by running the other translated bodies, gives the torch calls (dim, shape, unsqueeze,
   broadcasting *, sum, ~, masked_fill(-inf), softmax, ones, broadcast_shapes, tuple slicing/concatenation) the
   meaning defined in PV.MiniTorch.OpsC20 (N-d tensors over bool / rationals / rationals-or-minus-infinity, read
   through the same row-major / broadcasting index vocabulary as Model.v) and treats the exponential inside
   softmax as the ORACLE [expf] (any function), exactly as the model does.  `self` is the dictionary of its
   attributes.  The theorems below are about those regenerated terms and hold for EVERY input the model accepts:
   tensors of any rank with any legal broadcasting (query (A.., Q), key (B.., T, C.., Q), value (B.., T, C.., D),
   optional mask expanding to the score shape), every legal sequence dimension, positive or negative.
   The source sees the materialised tensors [SrcRun.flat t] (shape in torch's order + row-major data) of the
   model's index-function tensors t; for [t = qt s data] that is the tensor with those data. *)
From PV Require MiniPy.Syntax MiniPy.Interp MiniTorch.OpsC07 MiniTorch.OpsC20 Gen.C20Src C20.SrcRun C20.TieOps C20.Tie.

(* interpreting the source of forward (of a DotProductSoftAttention: dim, size qs, scale_factor sc) returns
   exactly the tensor Model.attend computes with the dot-product score: same shape, every entry the same
   rational - for every legal dim (axis_pos resolves it to the r-position p the model works with) *)
Theorem c20_source_forward_is_model :
  forall expf tanhf sc dim qs q k v m p out,
  axis_pos dim (length (tshape k)) = Some p ->
  attend expf (score tanhf (Dot sc)) q k v m p qs qs = Some out ->
  exists st,
    SrcRun.run_forward expf SrcRun.DotCls (SrcRun.self_dot dim qs qs sc)
                       (SrcRun.flat q) (SrcRun.flat k) (SrcRun.flat v) (option_map SrcRun.flat m)
    = Interp.Ok (OpsC20.enc_q (SrcRun.flat out)) st.
Proof. exact Tie.forward_dot_tie. Qed.
Print Assumptions c20_source_forward_is_model.

(* the same for ANY score method whose interpreted body returns the model's score tensor e_at sc (the forward
   pass itself: check_input, mask fill with -inf, softmax over the sequence axis with the negative-dim
   adjustment, weighted sum of the values) *)
Theorem c20_source_forward_any_score :
  forall expf cls d sc q k v m dim p qs ks out,
  axis_pos dim (length (tshape k)) = Some p ->
  attend expf sc q k v m p qs ks = Some out ->
  Interp.dict_get d (Syntax.VStr Tie.attr_dim) = Some (Syntax.VInt dim) ->
  Interp.dict_get d (Syntax.VStr Tie.attr_query_size) = Some (Syntax.VInt (Z.of_nat qs)) ->
  Interp.dict_get d (Syntax.VStr Tie.attr_key_size) = Some (Syntax.VInt (Z.of_nat ks)) ->
  (forall es ps, attend_facts q k v m p es ps ->
     forall st, SrcRun.call_body expf (SrcRun.score_body cls) (Tie.score_vars (Syntax.VDict d) (SrcRun.flat q) (SrcRun.flat k)) st
                = Interp.Ok (OpsC20.enc_q (OpsC20.mat (mkT es (e_at sc q k p)))) st) ->
  exists st,
    SrcRun.run_forward expf cls (Syntax.VDict d) (SrcRun.flat q) (SrcRun.flat k) (SrcRun.flat v) (option_map SrcRun.flat m)
    = Interp.Ok (OpsC20.enc_q (SrcRun.flat out)) st.
Proof. exact Tie.forward_tie_score. Qed.
Print Assumptions c20_source_forward_any_score.

(* composed with c20_attention_in_kept_range: a statement purely about the interpreted source - on inputs of
   legal shapes (Tie.legal_input: ranks, feature sizes and the three broadcasts of check_input; no reference to
   the model's values) the source returns a tensor every cell of which lies within any bounds on the kept
   values at that coordinate *)
Theorem c20_source_attention_in_kept_range :
  forall expf sc dim qs q k v m p,
  (forall x, (0 < expf x)%Q) ->
  axis_pos dim (length (tshape k)) = Some p -> Tie.legal_input q k v m p qs qs -> seq_agree k v p ->
  exists r st,
    SrcRun.run_forward expf SrcRun.DotCls (SrcRun.self_dot dim qs qs sc)
                       (SrcRun.flat q) (SrcRun.flat k) (SrcRun.flat v) (option_map SrcRun.flat m)
    = Interp.Ok (OpsC20.enc_q r) st /\
    forall c j lo hi, valid (rev (OpsC07.shp r)) (c :: j) ->
      (exists t, t < nth p (tshape k) 0 /\ kept_at m (ins (p - 1) t j) = true) ->
      (forall t, t < nth p (tshape k) 0 -> kept_at m (ins (p - 1) t j) = true ->
                 (lo <= bget v (c :: ins (p - 1) t j) <= hi)%Q) ->
      (lo <= tat (OpsC20.rd 0%Q r) (c :: j) <= hi)%Q.
Proof. exact Tie.source_dot_in_kept_range. Qed.
Print Assumptions c20_source_attention_in_kept_range.

(* composed with c20_attention_blind_to_masked: the tensor the interpreted source returns does not change when
   keys and values at masked positions are replaced by anything *)
Theorem c20_source_attention_blind_to_masked :
  forall expf sc dim qs q k v k' v' m p,
  axis_pos dim (length (tshape k)) = Some p ->
  Tie.legal_input q k v m p qs qs -> tshape k' = tshape k -> tshape v' = tshape v ->
  hd 0 (tshape k') = qs -> seq_agree k v p ->
  exists r r' st st',
    SrcRun.run_forward expf SrcRun.DotCls (SrcRun.self_dot dim qs qs sc)
                       (SrcRun.flat q) (SrcRun.flat k) (SrcRun.flat v) (option_map SrcRun.flat m)
    = Interp.Ok (OpsC20.enc_q r) st /\
    SrcRun.run_forward expf SrcRun.DotCls (SrcRun.self_dot dim qs qs sc)
                       (SrcRun.flat q) (SrcRun.flat k') (SrcRun.flat v') (option_map SrcRun.flat m)
    = Interp.Ok (OpsC20.enc_q r') st' /\
    OpsC07.shp r' = OpsC07.shp r /\
    forall c j, valid (rev (OpsC07.shp r)) (c :: j) ->
      (forall t, t < nth p (tshape k) 0 -> kept_at m (ins (p - 1) t j) = true ->
                 brow k' (ins (p - 1) t j) = brow k (ins (p - 1) t j)
                 /\ bget v' (c :: ins (p - 1) t j) = bget v (c :: ins (p - 1) t j)) ->
      (tat (OpsC20.rd 0%Q r') (c :: j) == tat (OpsC20.rd 0%Q r) (c :: j))%Q.
Proof. exact Tie.source_dot_blind_to_masked. Qed.
Print Assumptions c20_source_attention_blind_to_masked.

(* GeneralizedDotProductSoftAttention (weight rows W of length key_size, one per query feature; optional bias):
   `torch.nn.functional.linear(key, self.weight, self.bias)`, the unsqueezed query, the product and the sum over the
   feature axis, then the same forward pass - again exactly Model.attend, now with the "general" score *)
Theorem c20_source_general_forward_is_model :
  forall expf tanhf W b dim qs ks q k v m p out,
  axis_pos dim (length (tshape k)) = Some p ->
  fl_sizes (General W b) qs ks = true ->
  attend expf (score tanhf (General W b)) q k v m p qs ks = Some out ->
  exists st,
    SrcRun.run_forward expf SrcRun.GeneralCls (SrcRun.self_general dim qs ks W b)
                       (SrcRun.flat q) (SrcRun.flat k) (SrcRun.flat v) (option_map SrcRun.flat m)
    = Interp.Ok (OpsC20.enc_q (SrcRun.flat out)) st.
Proof. exact Tie.forward_general_tie. Qed.
Print Assumptions c20_source_general_forward_is_model.

Theorem c20_source_general_in_kept_range :
  forall expf W b dim qs ks q k v m p,
  (forall x, (0 < expf x)%Q) ->
  axis_pos dim (length (tshape k)) = Some p -> fl_sizes (General W b) qs ks = true ->
  Tie.legal_input q k v m p qs ks -> seq_agree k v p ->
  exists r st,
    SrcRun.run_forward expf SrcRun.GeneralCls (SrcRun.self_general dim qs ks W b)
                       (SrcRun.flat q) (SrcRun.flat k) (SrcRun.flat v) (option_map SrcRun.flat m)
    = Interp.Ok (OpsC20.enc_q r) st /\
    forall c j lo hi, valid (rev (OpsC07.shp r)) (c :: j) ->
      (exists t, t < nth p (tshape k) 0 /\ kept_at m (ins (p - 1) t j) = true) ->
      (forall t, t < nth p (tshape k) 0 -> kept_at m (ins (p - 1) t j) = true ->
                 (lo <= bget v (c :: ins (p - 1) t j) <= hi)%Q) ->
      (lo <= tat (OpsC20.rd 0%Q r) (c :: j) <= hi)%Q.
Proof. exact Tie.source_general_in_kept_range. Qed.
Print Assumptions c20_source_general_in_kept_range.

(* where the model rejects, the interpreted source raises (any score class, any mask; the exception comes out of
   the translated check_input, before the score method is reached).  NOT covered: dim = -1 (check_input's test
   reads `key_dim == -1`, so -1 itself is not rejected there; the model, like the documentation, rejects it - no
   generated case uses it), and the failures of the mask / value broadcasts. *)
Theorem c20_source_forward_rejects_rank :
  forall expf cls d (q k v : tensor Q) (m : option (tensor bool)),
  S (length (tshape q)) <> length (tshape k) ->
  exists st,
    SrcRun.run_forward expf cls (Syntax.VDict d) (SrcRun.flat q) (SrcRun.flat k) (SrcRun.flat v) (option_map SrcRun.flat m)
    = Interp.Exc SrcRun.value_error st.
Proof. exact Tie.forward_rejects_rank. Qed.
Print Assumptions c20_source_forward_rejects_rank.

Theorem c20_source_forward_rejects_dim :
  forall expf cls d dim qs ks (q k v : tensor Q) (m : option (tensor bool)),
  Interp.dict_get d (Syntax.VStr Tie.attr_dim) = Some (Syntax.VInt dim) ->
  Interp.dict_get d (Syntax.VStr Tie.attr_query_size) = Some (Syntax.VInt (Z.of_nat qs)) ->
  Interp.dict_get d (Syntax.VStr Tie.attr_key_size) = Some (Syntax.VInt (Z.of_nat ks)) ->
  forall sq' sk',
  S (length (tshape q)) = length (tshape k) -> length (tshape v) = length (tshape k) ->
  tshape q = qs :: sq' -> tshape k = ks :: sk' ->
  axis_pos dim (length (tshape k)) = None -> dim <> (-1)%Z ->
  exists st,
    SrcRun.run_forward expf cls (Syntax.VDict d) (SrcRun.flat q) (SrcRun.flat k) (SrcRun.flat v) (option_map SrcRun.flat m)
    = Interp.Exc SrcRun.value_error st.
Proof. exact Tie.forward_rejects_dim. Qed.
Print Assumptions c20_source_forward_rejects_dim.

Theorem c20_source_forward_rejects_bcast :
  forall expf cls d dim qs ks (q k v : tensor Q) (m : option (tensor bool)),
  Interp.dict_get d (Syntax.VStr Tie.attr_dim) = Some (Syntax.VInt dim) ->
  Interp.dict_get d (Syntax.VStr Tie.attr_query_size) = Some (Syntax.VInt (Z.of_nat qs)) ->
  Interp.dict_get d (Syntax.VStr Tie.attr_key_size) = Some (Syntax.VInt (Z.of_nat ks)) ->
  forall p sq' sk',
  S (length (tshape q)) = length (tshape k) -> length (tshape v) = length (tshape k) ->
  tshape q = qs :: sq' -> tshape k = ks :: sk' ->
  axis_pos dim (length (tshape k)) = Some p ->
  bshape (tl (tshape (unsq p q))) (tl (tshape k)) = None ->
  exists st,
    SrcRun.run_forward expf cls (Syntax.VDict d) (SrcRun.flat q) (SrcRun.flat k) (SrcRun.flat v) (option_map SrcRun.flat m)
    = Interp.Exc SrcRun.runtime_error st.
Proof. exact Tie.forward_rejects_bcast. Qed.
Print Assumptions c20_source_forward_rejects_bcast.

(* non-vacuity: the interpreted source on the concrete masked, batched input of c20_nonvacuous (dim 0; dim -3 is out
   of the documented range for a rank-3 key: ValueError; a generalised score 2 k + 1) returns the model's tensor *)
Example c20_source_nonvacuous :
  let expf := fun x : Q => (x * x + 1)%Q in
  let q0 := qt [1; 2] [1; -2]%Q in
  let k0 := qt [1; 2; 3] [1; 0; 2; 1; -1; 3]%Q in
  let v0 := qt [2; 2; 3] [1; 2; 3; 4; 5; 6; 7; 8; 9; 10; 11; 12]%Q in
  let m0 := Some (bt [2; 3] [true; false; true; true; false; true]) in
  SrcRun.src_attend expf (Dot 1) 1 1 0%Z q0 k0 v0 m0
  = option_map (fun o => Some (SrcRun.flat o)) (attend expf (score (fun x => x) (Dot 1)) q0 k0 v0 m0 2 1 1)
  /\ SrcRun.src_attend expf (Dot 1) 1 1 0%Z q0 k0 v0 m0
     = Some (Some (OpsC07.mkTn [2; 2] [189 # 49; 238 # 49; 97461 # 9261; 106722 # 9261]%Q))
  /\ SrcRun.src_attend expf (Dot 1) 1 1 (-3)%Z q0 k0 v0 m0 = Some None
  /\ SrcRun.src_attend expf (General [[2]]%Q (Some [1]%Q)) 1 1 0%Z q0 k0 v0 m0
     = option_map (fun o => Some (SrcRun.flat o))
                  (attend expf (score (fun x => x) (General [[2]]%Q (Some [1]%Q))) q0 k0 v0 m0 2 1 1)
  /\ Tie.legal_input q0 k0 v0 m0 2 1 1.
Proof.
  cbv zeta. split; [vm_compute; reflexivity|]. split; [vm_compute; reflexivity|]. split; [vm_compute; reflexivity|].
  split; [vm_compute; reflexivity|].
  assert (H : exists out, attend (fun x : Q => (x * x + 1)%Q) (score (fun x => x) (Dot 1))
                                 (qt [1; 2] [1; -2]%Q) (qt [1; 2; 3] [1; 0; 2; 1; -1; 3]%Q)
                                 (qt [2; 2; 3] [1; 2; 3; 4; 5; 6; 7; 8; 9; 10; 11; 12]%Q)
                                 (Some (bt [2; 3] [true; false; true; true; false; true])) 2 1 1 = Some out)
    by (eexists; vm_compute; reflexivity).
  destruct H as [out H]. exact (Tie.attend_legal _ _ _ _ _ _ _ _ _ _ H).
Qed.

(* ---- SECOND tie to the source text: MultiHeadedAttention.forward / check_input, ConcatSoftAttention.score,
   _concat_soft_attention ------------------------------------------------------------------------------------------------
   PV.Gen.C20BSrc.{mha_forward, mha_check_input, concat_score, csa} are regenerated on every run from
   /repo/src/pydrobert/torch/_attn.py (whole bodies).  SrcRunB.ext_mha interprets `self.check_input(..)` by running the
   translated MultiHeadedAttention.check_input, `self.WQ(x)` .. `self.WC(x)` as F.linear with the layer's weight and
   optional bias (data), `self.single_head_attention(..)` by running the translated GlobalSoftAttention.forward of the first
   tie on the wrapped module (whose score method is the translated dot / general / concat body), and gives unflatten,
   flatten(-2), mask.unsqueeze(-1), size, expand, cat, squeeze, tanh the meaning of PV.MiniTorch.OpsC20B / OpsC07; exp and
   tanh are ORACLES.  `torch.jit.is_scripting()` is False (eager text).  A module object is the dictionary of its
   attributes (SrcRunB.self_mha, self_single); parameters are data.  Hypotheses: the parameter SIZES are those the
   constructors build (ModelB.mha_sizes, fl_sizes) and dim >= 0 (MultiHeadedAttention.__init__ raises ValueError for a
   wrapped module with a negative dim). *)
From PV Require MiniTorch.OpsC20B C20.ModelB Gen.C20BSrc C20.SrcRunB C20.TieB C20.TieBOps C20.TieBMha C20.TieBConcat.

(* interpreting the source of MultiHeadedAttention.forward (wrapping a dot-product, generalised or concat attention with
   parameters fl) returns exactly the tensor Model.mha computes: projections with the requested biases, head split,
   mask.unsqueeze(-1), ONE call of the wrapped forward on tensors with a head axis, flatten, W^C *)
Theorem c20_source_mha_forward_is_model :
  forall expf tanhf fl P dim qs ks vs q k v m p out,
  (0 <= dim)%Z ->
  axis_pos dim (length (tshape k)) = Some p ->
  ModelB.mha_sizes P qs ks vs = true -> fl_sizes fl (d_q P) (d_k P) = true ->
  mha expf (score tanhf fl) P q k v m p 0 qs ks vs = Some out ->
  exists st,
    SrcRunB.run_mha expf tanhf (SrcRunB.cls_of fl)
                    (SrcRunB.self_mha dim qs ks vs P (SrcRunB.self_single dim (d_q P) (d_k P) fl))
                    (SrcRun.flat q) (SrcRun.flat k) (SrcRun.flat v) (option_map SrcRun.flat m)
    = Interp.Ok (OpsC20.enc_q (SrcRun.flat out)) st.
Proof. exact TieBConcat.mha_fl_tie. Qed.
Print Assumptions c20_source_mha_forward_is_model.

(* the same for ANY wrapped module object [sha] of class [cls] whose interpreted forward is Model.attend with score sc
   (TieBMha.single_tie): the multi-headed part alone *)
Theorem c20_source_mha_forward_any_score :
  forall expf tanhf cls sha sc P dim qs ks vs q k v m p out,
  TieBMha.single_tie expf tanhf cls sha sc dim (d_q P) (d_k P) ->
  (0 <= dim)%Z ->
  axis_pos dim (length (tshape k)) = Some p ->
  ModelB.mha_sizes P qs ks vs = true ->
  mha expf sc P q k v m p 0 qs ks vs = Some out ->
  exists st,
    SrcRunB.run_mha expf tanhf cls (SrcRunB.self_mha dim qs ks vs P sha)
                    (SrcRun.flat q) (SrcRun.flat k) (SrcRun.flat v) (option_map SrcRun.flat m)
    = Interp.Ok (OpsC20.enc_q (SrcRun.flat out)) st.
Proof. exact TieBMha.mha_forward_tie. Qed.
Print Assumptions c20_source_mha_forward_any_score.

(* ... and every one of the three single-head classes has that property (dot / general: the first tie; concat: below) *)
Theorem c20_source_single_head_every_flavour :
  forall expf tanhf fl dim dq dk,
  fl_sizes fl dq dk = true ->
  TieBMha.single_tie expf tanhf (SrcRunB.cls_of fl) (SrcRunB.self_single dim dq dk fl) (score tanhf fl) dim dq dk.
Proof. exact TieBConcat.single_tie_fl. Qed.
Print Assumptions c20_source_single_head_every_flavour.

(* COMPOSED with c20_multihead_is_composition, purely about the interpreted source: on inputs of legal SHAPES
   (TieBConcat.legal_mha_input: Model.mha_legalb - ranks, feature sizes, the broadcasts of check_input - and a mask that
   expands to the score shape; no reference to the model's values) the interpreted MultiHeadedAttention.forward returns a
   tensor r, every per-head call of the wrapped attention (on that head's block of projected features, with the caller's
   mask) is accepted, and r = W^C [head_1; ...; head_H] (+ b^C) (Spec.mha_spec) at every index *)
Theorem c20_source_mha_is_composition :
  forall expf tanhf fl P dim qs ks vs q k v m p,
  (0 <= dim)%Z -> axis_pos dim (length (tshape k)) = Some p ->
  ModelB.mha_sizes P qs ks vs = true -> fl_sizes fl (d_q P) (d_k P) = true ->
  TieBConcat.legal_mha_input q k v m p qs ks vs -> seq_agree k v p ->
  exists r st,
    SrcRunB.run_mha expf tanhf (SrcRunB.cls_of fl)
                    (SrcRunB.self_mha dim qs ks vs P (SrcRunB.self_single dim (d_q P) (d_k P) fl))
                    (SrcRun.flat q) (SrcRun.flat k) (SrcRun.flat v) (option_map SrcRun.flat m)
    = Interp.Ok (OpsC20.enc_q r) st /\
    (forall h, h < num_heads P -> exists o, head expf (score tanhf fl) P q k v m p h = Some o) /\
    forall i, valid (rev (OpsC07.shp r)) i ->
      (tat (OpsC20.rd 0%Q r) i == tat (mha_spec expf (score tanhf fl) P q k v m p (tl (rev (OpsC07.shp r)))) i)%Q.
Proof. exact TieBConcat.source_mha_is_composition_legal. Qed.
Print Assumptions c20_source_mha_is_composition.

(* composed with c20_multihead_blind_to_masked: two runs of the interpreted MultiHeadedAttention.forward on keys / values
   that differ only at masked positions return the same tensor *)
Theorem c20_source_mha_blind_to_masked :
  forall expf tanhf cls sha sc P dim qs ks vs q k v k' v' m p out out',
  TieBMha.single_tie expf tanhf cls sha sc dim (d_q P) (d_k P) ->
  (0 <= dim)%Z -> axis_pos dim (length (tshape k)) = Some p ->
  ModelB.mha_sizes P qs ks vs = true ->
  mha expf sc P q k v m p 0 qs ks vs = Some out ->
  mha expf sc P q k' v' m p 0 qs ks vs = Some out' ->
  tshape k' = tshape k -> tshape v' = tshape v -> seq_agree k v p ->
  exists r r' st st',
    SrcRunB.run_mha expf tanhf cls (SrcRunB.self_mha dim qs ks vs P sha)
                    (SrcRun.flat q) (SrcRun.flat k) (SrcRun.flat v) (option_map SrcRun.flat m) = Interp.Ok (OpsC20.enc_q r) st /\
    SrcRunB.run_mha expf tanhf cls (SrcRunB.self_mha dim qs ks vs P sha)
                    (SrcRun.flat q) (SrcRun.flat k') (SrcRun.flat v') (option_map SrcRun.flat m) = Interp.Ok (OpsC20.enc_q r') st' /\
    forall c j, valid (rev (OpsC07.shp r)) (c :: j) ->
      (forall t, t < nth p (tshape k) 0 -> kept_at m (ins (p - 1) t j) = true ->
                 brow k' (ins (p - 1) t j) = brow k (ins (p - 1) t j)
                 /\ brow v' (ins (p - 1) t j) = brow v (ins (p - 1) t j)) ->
      (tat (OpsC20.rd 0%Q r') (c :: j) == tat (OpsC20.rd 0%Q r) (c :: j))%Q.
Proof. exact TieBConcat.source_mha_blind_to_masked. Qed.
Print Assumptions c20_source_mha_blind_to_masked.

(* a query of the wrong rank: the translated MultiHeadedAttention.check_input raises RuntimeError out of forward *)
Theorem c20_source_mha_rejects_rank :
  forall expf tanhf cls dim qs ks vs P sha (q k v : tensor Q) (m : option (tensor bool)),
  S (length (tshape q)) <> length (tshape k) ->
  exists st,
    SrcRunB.run_mha expf tanhf cls (SrcRunB.self_mha dim qs ks vs P sha)
                    (SrcRun.flat q) (SrcRun.flat k) (SrcRun.flat v) (option_map SrcRun.flat m)
    = Interp.Exc SrcRun.runtime_error st.
Proof. exact TieBConcat.mha_forward_rejects_rank. Qed.
Print Assumptions c20_source_mha_rejects_rank.

(* ConcatSoftAttention.score -> _concat_soft_attention (unsqueeze, broadcast_shapes, two expands, cat, linear, tanh,
   linear with v.unsqueeze(0), squeeze(-1)), interpreted, returns the model's score tensor
   e[i] = sum_c v_c tanh(W_c . [query_i ; key_i] + b_c) - weight rows of length query_size + key_size, tanh an oracle *)
Theorem c20_source_concat_score_is_model :
  forall expf tanhf W b vv dim qs ks q k v m p es ps,
  axis_pos dim (length (tshape k)) = Some p -> attend_facts q k v m p es ps ->
  hd 0 (tshape q) = qs -> hd 0 (tshape k) = ks -> fl_sizes (Concat W b vv) qs ks = true ->
  exists st,
    Interp.run (SrcRunB.ext_fn expf tanhf) C20BSrc.concat_score
               (Tie.score_vars (SrcRunB.self_concat dim qs ks W b vv) (SrcRun.flat q) (SrcRun.flat k))
    = Interp.Ok (OpsC20.enc_q (OpsC20.mat (mkT es (e_at (score tanhf (Concat W b vv)) q k p)))) st.
Proof. exact TieBConcat.concat_score_tie. Qed.
Print Assumptions c20_source_concat_score_is_model.

(* the forward pass of a ConcatSoftAttention (GlobalSoftAttention.forward with that score method) = Model.attend *)
Theorem c20_source_concat_forward_is_model :
  forall expf tanhf W b vv dim qs ks q k v m p out,
  axis_pos dim (length (tshape k)) = Some p ->
  fl_sizes (Concat W b vv) qs ks = true ->
  attend expf (score tanhf (Concat W b vv)) q k v m p qs ks = Some out ->
  exists st,
    SrcRunB.run_single expf tanhf SrcRunB.ConcatB (SrcRunB.self_concat dim qs ks W b vv)
                       (SrcRun.flat q) (SrcRun.flat k) (SrcRun.flat v) (option_map SrcRun.flat m)
    = Interp.Ok (OpsC20.enc_q (SrcRun.flat out)) st.
Proof. exact TieBConcat.forward_concat_tie. Qed.
Print Assumptions c20_source_concat_forward_is_model.

(* composed with c20_attention_in_kept_range, purely about the interpreted source (legal shapes, positive exp, ANY tanh) *)
Theorem c20_source_concat_in_kept_range :
  forall expf tanhf W b vv dim qs ks q k v m p,
  (forall x, (0 < expf x)%Q) ->
  axis_pos dim (length (tshape k)) = Some p -> fl_sizes (Concat W b vv) qs ks = true ->
  Tie.legal_input q k v m p qs ks -> seq_agree k v p ->
  exists r st,
    SrcRunB.run_single expf tanhf SrcRunB.ConcatB (SrcRunB.self_concat dim qs ks W b vv)
                       (SrcRun.flat q) (SrcRun.flat k) (SrcRun.flat v) (option_map SrcRun.flat m)
    = Interp.Ok (OpsC20.enc_q r) st /\
    forall c j lo hi, valid (rev (OpsC07.shp r)) (c :: j) ->
      (exists t, t < nth p (tshape k) 0 /\ kept_at m (ins (p - 1) t j) = true) ->
      (forall t, t < nth p (tshape k) 0 -> kept_at m (ins (p - 1) t j) = true ->
                 (lo <= bget v (c :: ins (p - 1) t j) <= hi)%Q) ->
      (lo <= tat (OpsC20.rd 0%Q r) (c :: j) <= hi)%Q.
Proof. exact TieBConcat.source_concat_in_kept_range. Qed.
Print Assumptions c20_source_concat_in_kept_range.

(* non-vacuity: the interpreted sources on the concrete input of c20_mha_nonvacuous (2 heads, bias on W^Q only, masked) with
   a dot-product and with a concat wrapped attention, a single-head concat attention on the same data, a query of the wrong
   rank (RuntimeError), and the shape legality of the input *)
Example c20_sourceB_nonvacuous :
  let expf := fun x : Q => (x * x + 1)%Q in
  let tanhf := fun x : Q => (x / (1 + x * x))%Q in
  let P := mkMHA 2 1 1 1 [[1; 0]; [0; 1]]%Q (Some [1; 0]%Q) [[1; 0]; [0; 1]]%Q None
                 [[1; 0]; [0; 1]]%Q None [[1; 0]; [0; 1]]%Q None in
  let cfl := Concat [[1; 0]; [0; 1]; [1; 1]]%Q (Some [1; 0; 1]%Q) [1; 2; 3]%Q in
  let cfl2 := Concat [[1; 0; 1; 1]; [0; 1; 0; 1]; [1; 1; 2; 0]]%Q None [1; 2; 3]%Q in
  let q0 := qt [2; 2] [1; -2; 0; 1]%Q in
  let k0 := qt [2; 2; 3] [1; 0; 2; 1; -1; 3; 0; 0; 1; 1; 2; 2]%Q in
  let v0 := qt [2; 2; 3] [1; 2; 3; 4; 5; 6; 7; 8; 9; 10; 11; 12]%Q in
  let m0 := Some (bt [2; 3] [true; false; true; true; false; true]) in
  SrcRunB.src_mha expf tanhf (Dot 1) P 2 2 2 0%Z q0 k0 v0 m0
  = option_map (fun o => Some (SrcRun.flat o)) (mha expf (score tanhf (Dot 1)) P q0 k0 v0 m0 2 0 2 2 2)
  /\ SrcRunB.src_mha expf tanhf (Dot 1) P 2 2 2 0%Z q0 k0 v0 m0
     = Some (Some (OpsC07.mkTn [2; 2] [75 # 25; 53200 # 9025; 279 # 27; 8262 # 729]%Q))
  /\ SrcRunB.src_mha expf tanhf cfl P 2 2 2 0%Z q0 k0 v0 m0
     = option_map (fun o => Some (SrcRun.flat o)) (mha expf (score tanhf cfl) P q0 k0 v0 m0 2 0 2 2 2)
  /\ SrcRunB.src_single expf tanhf cfl2 2 2 0%Z q0 k0 v0 m0
     = option_map (fun o => Some (SrcRun.flat o)) (attend expf (score tanhf cfl2) q0 k0 v0 m0 2 2 2)
  /\ SrcRunB.src_mha expf tanhf (Dot 1) P 2 2 2 0%Z k0 k0 v0 m0 = Some None
  /\ ModelB.mha_sizes P 2 2 2 = true
  /\ TieBConcat.legal_mha_input q0 k0 v0 m0 2 2 2 2.
Proof.
  cbv zeta. split; [vm_compute; reflexivity|]. split; [vm_compute; reflexivity|]. split; [vm_compute; reflexivity|].
  split; [vm_compute; reflexivity|]. split; [vm_compute; reflexivity|]. split; [reflexivity|].
  split; [vm_compute; reflexivity|].
  intros es H. vm_compute in H. injection H as <-. reflexivity.
Qed.
