(* MiniTorch, unit C01Src, second part — the algebra of OpsC01P.v (and of the OpsC07 / OpsC01 operations on the shapes the
   `return_prf_dsts` path of `_string_matching` meets) needed by the C01 prefix tie.  No new definitions of meaning. *)
From Coq Require Import List ZArith QArith Bool Arith Lia ZifyBool ZifyNat.
From PV Require Import MiniPy.Syntax MiniTorch.Ops MiniTorch.Lemmas MiniTorch.OpsC07 MiniTorch.LemmasC07 MiniTorch.OpsC01
  MiniTorch.LemmasC01 MiniTorch.OpsC01P.
Import ListNotations.
Local Open Scope nat_scope.

Lemma empty2_nat : forall g A B,
  empty2 g (Z.of_nat A) (Z.of_nat B) = Some (mkTn [A; B] (tab2 A B (fun i j => g (i * B + j)))).
Proof.
  intros. unfold empty2. replace ((Z.of_nat A <? 0) || (Z.of_nat B <? 0))%Z with false by lia.
  now rewrite !Nat2Z.id.
Qed.

(* x[t] = v on (A x B) with a row of B entries *)
Lemma set_select0_row : forall {X} A B (f : nat -> nat -> X) (h : nat -> X) t, t < A ->
  set_select0 (mkTn [A; B] (tab2 A B f)) (Z.of_nat t) (mkTn [B] (map h (seq 0 B))) =
  Some (Some (mkTn [A; B] (tab2 A B (fun i j => if i =? t then h j else f i j)))).
Proof.
  intros X A B f h t Ht. unfold set_select0. cbn [shp dat numel].
  replace (Z.of_nat t <? 0)%Z with false by lia.
  replace ((0 <=? Z.of_nat t) && (Z.of_nat t <? Z.of_nat A))%Z with true by lia.
  rewrite Nat2Z.id, nats_eqb_refl, length_row, Nat.eqb_refl. cbn [andb]. do 3 f_equal.
  replace A with (t + S (A - S t)) by lia.
  rewrite firstn_tab2.
  replace (S t * B) with ((t + 1) * B) by lia.
  replace (t + S (A - S t)) with ((t + 1) + (A - S t)) at 1 by lia. rewrite skipn_tab2.
  symmetry.
  replace (t + S (A - S t)) with (t + (1 + (A - S t))) by lia.
  assert (Hsplit : forall (F : nat -> nat -> X) a b, tab2 (a + b) B F = tab2 a B F ++ tab2 b B (fun i j => F (a + i) j)).
  { intros F a b. unfold tab2. rewrite seq_app, flat_map_app. f_equal. cbn [Nat.add].
    rewrite (seq_plus b a), flat_map_concat_map, map_map, <- flat_map_concat_map. reflexivity. }
  rewrite (Hsplit _ t), (Hsplit _ 1). f_equal; [|f_equal].
  - apply tab2_ext. intros i j Hi Hj. replace (i =? t) with false by lia. reflexivity.
  - rewrite tab2_1. apply map_ext_seq. intros j Hj. replace (t + 0 =? t) with true by lia. reflexivity.
  - apply tab2_ext. intros i j Hi Hj. replace (t + (1 + i) =? t) with false by lia. f_equal. lia.
Qed.

(* x[0] = v on a tensor without rows: IndexError *)
Lemma set_select0_empty : forall {X} B (d : list X) v, set_select0 (mkTn [0; B] d) 0 v = Some None.
Proof. reflexivity. Qed.

Lemma size_dim_2_0 : forall {X} A B (d : list X), size_dim (mkTn [A; B] d) 0 = Some A.
Proof. reflexivity. Qed.

Lemma arange_nat : forall n, arange (Z.of_nat n) = Some (mkTn [n] (map Z.of_nat (seq 0 n))).
Proof. intros. unfold arange. replace (Z.of_nat n <? 0)%Z with false by lia. now rewrite Nat2Z.id. Qed.

Lemma expand_as2_col : forall {X} (dflt : X) A B (g : nat -> X),
  expand_as2 dflt (mkTn [A; 1] (map g (seq 0 A))) [A; B] = Some (mkTn [A; B] (tab2 A B (fun i _ => g i))).
Proof. intros. unfold expand_as2. apply expand2_col. Qed.

(* (A x 1) against (B): the outer combination *)
Lemma broadcast_col_vec : forall {X Y W} (f : X -> Y -> W) dx dy A B g h,
  broadcast f dx dy (mkTn [A; 1] (map g (seq 0 A))) (mkTn [B] (map h (seq 0 B))) =
  Some (mkTn [A; B] (tab2 A B (fun i j => f (g i) (h j)))).
Proof.
  intros. unfold broadcast. cbn [rank shp dat length Nat.max pad_shape Nat.sub repeat app bc_shape].
  rewrite bdim_1_r, bdim_1_l. rewrite (bc_data_2 f dx dy A 1 1 B A B) by (apply bdim_1_r || apply bdim_1_l).
  do 2 f_equal. apply tab2_ext. intros i j Hi Hj. change (bidx 1 i) with 0. change (bidx 1 j) with 0.
  rewrite (bidx_same A i), (bidx_same B j) by assumption. cbn [Nat.mul Nat.add].
  replace (i * 1 + 0) with i by lia. now rewrite !nth_map_seq.
Qed.

(* (1 x B) against (A x B) *)
Lemma broadcast_1row_mat : forall {X Y W} (f : X -> Y -> W) dx dy A B g h,
  broadcast f dx dy (mkTn [1; B] (map g (seq 0 B))) (mkTn [A; B] (tab2 A B h)) =
  Some (mkTn [A; B] (tab2 A B (fun i j => f (g j) (h i j)))).
Proof.
  intros. unfold broadcast. cbn [rank shp dat length Nat.max pad_shape Nat.sub repeat app bc_shape].
  rewrite bdim_1_l, bdim_refl. rewrite (bc_data_2 f dx dy 1 B A B A B) by (apply bdim_1_l || apply bdim_refl).
  do 2 f_equal. apply tab2_ext. intros i j Hi Hj. change (bidx 1 i) with 0.
  rewrite (bidx_same A i), (bidx_same B j) by assumption. cbn [Nat.mul Nat.add].
  now rewrite nth_tab2, nth_map_seq.
Qed.

Lemma where_1row_mat : forall A B c g h,
  where_f (mkTn [1; B] (map c (seq 0 B))) (mkTn [A; B] (tab2 A B g)) (mkTn [A; B] (tab2 A B h)) =
  Some (mkTn [A; B] (tab2 A B (fun i j => if c j then g i j else h i j))).
Proof. intros. unfold where_f. rewrite broadcast_1row_mat, broadcast_same2. reflexivity. Qed.

Lemma masked_fill_mat : forall {X} A B (f : nat -> nat -> X) m v,
  masked_fill (mkTn [A; B] (tab2 A B f)) (mkTn [A; B] (tab2 A B m)) v =
  Some (mkTn [A; B] (tab2 A B (fun i j => if m i j then v else f i j))).
Proof.
  intros. unfold masked_fill, zip_same. cbn [shp dat]. rewrite nats_eqb_refl. do 2 f_equal. apply zipw_tab2.
Qed.
