(* C14 - lemmas about _get_bucket_batch_sampler_params ([length_bounds], [class_of], [bucket_params]) *)
From Coq Require Import List Arith Bool ZArith Lia Sorting.Sorted Sorting.Permutation.
From PV Require Import C14.Model C14.Spec.
Import ListNotations.

(* ------------------------------------------------------------------------------------ *)
(* length classes: for ANY list of bounds                                               *)
(* ------------------------------------------------------------------------------------ *)

Lemma class_of_monotone : forall bounds l1 l2, l1 <= l2 -> class_of bounds l1 <= class_of bounds l2.
Proof.
  unfold class_of. induction bounds as [|b t IH]; intros l1 l2 Hle; cbn [filter]; [lia|].
  specialize (IH l1 l2 Hle).
  destruct (Nat.ltb b l1) eqn:E1; destruct (Nat.ltb b l2) eqn:E2; cbn [length]; try lia.
  apply Nat.ltb_lt in E1. apply Nat.ltb_ge in E2. lia.
Qed.

Lemma class_of_eq_le : forall bounds l1 l2, l1 <= l2 -> class_of bounds l1 = class_of bounds l2 ->
  forall b, In b bounds -> Nat.ltb b l1 = Nat.ltb b l2.
Proof.
  unfold class_of. induction bounds as [|b t IH]; intros l1 l2 Hle Heq x Hin; [destruct Hin|].
  cbn [filter] in Heq. pose proof (class_of_monotone t l1 l2 Hle) as Hm. unfold class_of in Hm.
  destruct (Nat.ltb b l1) eqn:E1; destruct (Nat.ltb b l2) eqn:E2; cbn [length] in Heq.
  - destruct Hin as [->|Hin]; [congruence|]. apply IH; [exact Hle|lia|exact Hin].
  - apply Nat.ltb_lt in E1. apply Nat.ltb_ge in E2. lia.
  - lia.
  - destruct Hin as [->|Hin]; [congruence|]. apply IH; [exact Hle|lia|exact Hin].
Qed.

Lemma same_class_ltb : forall bounds l1 l2,
  same_class bounds l1 l2 <-> (forall b, In b bounds -> Nat.ltb b l1 = Nat.ltb b l2).
Proof.
  intros. unfold same_class. split; intros H b Hb; specialize (H b Hb).
  - destruct (Nat.ltb b l1) eqn:E1; destruct (Nat.ltb b l2) eqn:E2; try reflexivity.
    + apply Nat.ltb_lt in E1. apply Nat.ltb_ge in E2. lia.
    + apply Nat.ltb_lt in E2. apply Nat.ltb_ge in E1. lia.
  - destruct (Nat.ltb b l1) eqn:E1; destruct (Nat.ltb b l2) eqn:E2; try discriminate.
    + apply Nat.ltb_lt in E1. apply Nat.ltb_lt in E2. lia.
    + apply Nat.ltb_ge in E1. apply Nat.ltb_ge in E2. lia.
Qed.

(* two lengths get the same bucket exactly when no bound separates them: in particular equal
   lengths (ties at a boundary) are never split *)
Theorem class_of_eq_iff : forall bounds l1 l2,
  class_of bounds l1 = class_of bounds l2 <-> same_class bounds l1 l2.
Proof.
  intros. rewrite same_class_ltb. split.
  - intros Heq. destruct (Nat.le_ge_cases l1 l2) as [Hle|Hle].
    + now apply class_of_eq_le.
    + intros b Hb. symmetry. apply (class_of_eq_le bounds l2 l1); [exact Hle|now symmetry|exact Hb].
  - intros H. unfold class_of. f_equal. apply filter_ext_in. exact H.
Qed.

(* the class index counts the bounds strictly below the length *)
Lemma class_of_lt_length : forall bounds l, l <= last bounds 0 -> bounds <> [] ->
  class_of bounds l < length bounds.
Proof.
  unfold class_of. induction bounds as [|b t IH]; intros l Hle Hne; [congruence|].
  destruct t as [|b' t'].
  - cbn [last filter length] in *. destruct (Nat.ltb b l) eqn:E; [apply Nat.ltb_lt in E; lia|cbn [length]; lia].
  - assert (Hrec : length (filter (fun b0 => Nat.ltb b0 l) (b' :: t')) < length (b' :: t')).
    { apply IH; [exact Hle|discriminate]. }
    remember (b' :: t') as t2. cbn [filter]. destruct (Nat.ltb b l); cbn [length]; lia.
Qed.

(* for strictly increasing bounds the class is the interval the length falls in *)
Lemma class_of_sorted_spec : forall bounds l j,
  StronglySorted lt bounds -> class_of bounds l = j ->
  (forall i, i < j -> nth i bounds 0 < l) /\ (forall i, j <= i -> i < length bounds -> l <= nth i bounds 0).
Proof.
  unfold class_of. induction bounds as [|b t IH]; intros l j Hs Hj.
  - cbn in Hj. subst. split; intros; cbn in *; lia.
  - inversion Hs as [|? ? Ht Hall]; subst. cbn [filter].
    destruct (Nat.ltb b l) eqn:E.
    + apply Nat.ltb_lt in E. cbn [length]. destruct (IH l _ Ht eq_refl) as [H1 H2].
      split; intros i Hi.
      * destruct i; cbn; [exact E|]. apply H1. lia.
      * intros Hl. destruct i; [lia|]. cbn in *. apply H2; lia.
    + apply Nat.ltb_ge in E.
      assert (Hz : filter (fun b0 => Nat.ltb b0 l) t = []).
      { clear IH Ht Hs. induction t as [|y t IH]; [reflexivity|]. inversion Hall; subst. cbn [filter].
        destruct (Nat.ltb y l) eqn:Ey; [apply Nat.ltb_lt in Ey; lia|]. now apply IH. }
      rewrite Hz. cbn [length]. split; intros i Hi; [lia|].
      intros Hl. destruct i; cbn; [exact E|].
      rewrite Forall_forall in Hall. assert (b < nth i t 0); [|lia].
      apply Hall. apply nth_In. cbn in Hl. lia.
Qed.

(* ------------------------------------------------------------------------------------ *)
(* sorted()                                                                             *)
(* ------------------------------------------------------------------------------------ *)

Lemma ins_nat_perm : forall x l, Permutation (ins_nat x l) (x :: l).
Proof.
  induction l as [|y t IH]; cbn [ins_nat]; [reflexivity|].
  destruct (Nat.leb x y); [reflexivity|].
  rewrite IH. apply perm_swap.
Qed.

Lemma sort_nat_perm : forall l, Permutation (sort_nat l) l.
Proof.
  induction l as [|x t IH]; cbn [sort_nat fold_right]; [reflexivity|].
  fold (sort_nat t). rewrite ins_nat_perm. now constructor.
Qed.

Lemma sort_nat_in : forall l x, In x (sort_nat l) <-> In x l.
Proof.
  intros. split; apply Permutation_in; [apply sort_nat_perm|symmetry; apply sort_nat_perm].
Qed.

Lemma sort_nat_length : forall l, length (sort_nat l) = length l.
Proof. intros. apply Permutation_length, sort_nat_perm. Qed.

Lemma ins_nat_sorted : forall x l, StronglySorted le l -> StronglySorted le (ins_nat x l).
Proof.
  induction l as [|y t IH]; intros Hs; cbn [ins_nat].
  - constructor; constructor.
  - inversion Hs as [|? ? Ht Hall]; subst. destruct (Nat.leb x y) eqn:E.
    + apply Nat.leb_le in E. constructor; [exact Hs|]. constructor; [exact E|].
      rewrite Forall_forall in *. intros z Hz. specialize (Hall z Hz). lia.
    + apply Nat.leb_gt in E. constructor; [now apply IH|].
      rewrite Forall_forall in *. intros z Hz.
      apply (Permutation_in _ (ins_nat_perm x t)) in Hz. destruct Hz as [->|Hz]; [lia|now apply Hall].
Qed.

Lemma sort_nat_sorted : forall l, StronglySorted le (sort_nat l).
Proof.
  induction l as [|x t IH]; cbn [sort_nat fold_right]; [constructor|].
  fold (sort_nat t). now apply ins_nat_sorted.
Qed.

Lemma sorted_le_nodup_lt : forall l, StronglySorted le l -> NoDup l -> StronglySorted lt l.
Proof.
  induction l as [|x t IH]; intros Hs Hnd; [constructor|].
  inversion Hs as [|? ? Ht Hall]; subst. inversion Hnd as [|? ? Hx Hn]; subst.
  constructor; [now apply IH|]. rewrite Forall_forall in *. intros z Hz.
  specialize (Hall z Hz). assert (x <> z) by (intros ->; contradiction). lia.
Qed.

Lemma sort_nodup_sorted : forall l, StronglySorted lt (sort_nat (nodup Nat.eq_dec l)).
Proof.
  intros. apply sorted_le_nodup_lt; [apply sort_nat_sorted|].
  eapply Permutation_NoDup; [symmetry; apply sort_nat_perm|apply NoDup_nodup].
Qed.

Lemma sorted_le_last_max : forall l x, StronglySorted le l -> In x l -> x <= last l 0.
Proof.
  induction l as [|y t IH]; intros x Hs Hin; [destruct Hin|].
  inversion Hs as [|? ? Ht Hall]; subst. destruct t as [|z t'].
  - destruct Hin as [->|[]]. cbn. lia.
  - change (last (y :: z :: t') 0) with (last (z :: t') 0).
    destruct Hin as [->|Hin]; [|now apply IH].
    rewrite Forall_forall in Hall.
    assert (z <= last (z :: t') 0) by (apply IH; [exact Ht|now left]).
    specialize (Hall z (or_introl eq_refl)). lia.
Qed.

Lemma sorted_lt_le : forall l, StronglySorted lt l -> StronglySorted le l.
Proof.
  induction 1; constructor; [assumption|]. eapply Forall_impl; [|eassumption]. intros; cbn in *; lia.
Qed.

Lemma last_in : forall (l : list nat) d, l <> [] -> In (last l d) l.
Proof.
  induction l as [|x t IH]; intros d Hne; [congruence|].
  destruct t as [|y t']; [now left|]. right. apply IH. discriminate.
Qed.

(* the last element of a sorted list is its maximum *)
Lemma sorted_last_is : forall l m, StronglySorted le l -> In m l -> (forall x, In x l -> x <= m) ->
  last l 0 = m.
Proof.
  intros l m Hs Hin Hmax.
  assert (Hne : l <> []) by (intros ->; destruct Hin).
  pose proof (sorted_le_last_max l m Hs Hin). pose proof (Hmax _ (last_in l 0 Hne)). lia.
Qed.

(* ------------------------------------------------------------------------------------ *)
(* Python indexing                                                                      *)
(* ------------------------------------------------------------------------------------ *)

Lemma py_index_in : forall l k v, py_index l k = Some v -> In v l.
Proof.
  unfold py_index. intros l k v H.
  destruct ((k <? - Z.of_nat (length l))%Z || (Z.of_nat (length l) <=? k)%Z); [discriminate|].
  eapply nth_error_In; eauto.
Qed.

Lemma py_index_some : forall l k, (- Z.of_nat (length l) <= k < Z.of_nat (length l))%Z ->
  exists v, py_index l k = Some v.
Proof.
  unfold py_index. intros l k Hk.
  destruct (k <? - Z.of_nat (length l))%Z eqn:E1; [apply Z.ltb_lt in E1; lia|].
  destruct (Z.of_nat (length l) <=? k)%Z eqn:E2; [apply Z.leb_le in E2; lia|]. cbn [orb].
  destruct (nth_error l _) eqn:E; [eexists; reflexivity|].
  apply nth_error_None in E. destruct (k <? 0)%Z eqn:E3; [apply Z.ltb_lt in E3|apply Z.ltb_ge in E3]; lia.
Qed.

Lemma py_index_none_nil : forall k, py_index [] k = None.
Proof.
  unfold py_index. intros k. cbn [length Z.of_nat Z.opp].
  destruct (k <? 0)%Z eqn:E1; cbn [orb]; [reflexivity|].
  destruct (0 <=? k)%Z eqn:E2; [reflexivity|]. apply Z.ltb_ge in E1. apply Z.leb_gt in E2. lia.
Qed.

Lemma py_index_last : forall l, l <> [] -> py_index l (-1)%Z = Some (last l 0).
Proof.
  intros l Hne. unfold py_index.
  assert (Hlen : 0 < length l) by (destruct l; [congruence|cbn; lia]).
  destruct (-1 <? - Z.of_nat (length l))%Z eqn:E1; [apply Z.ltb_lt in E1; lia|].
  destruct (Z.of_nat (length l) <=? -1)%Z eqn:E2; [apply Z.leb_le in E2; lia|]. cbn [orb].
  change (-1 <? 0)%Z with true. cbv iota.
  replace (Z.to_nat (-1 + Z.of_nat (length l))) with (length l - 1) by lia.
  clear E1 E2. induction l as [|x t IH]; [congruence|].
  destruct t as [|y t']; [reflexivity|].
  change (last (x :: y :: t') 0) with (last (y :: t') 0).
  rewrite <- IH; [|discriminate|cbn; lia]. cbn [length]. 
  replace (S (S (length t')) - 1) with (S (S (length t') - 1)) by lia. reflexivity.
Qed.

Lemma all_some_map_some : forall {A B} (f : A -> option B) l,
  (forall x, In x l -> exists v, f x = Some v) -> exists r, all_some (map f l) = Some r /\ length r = length l
    /\ forall v, In v r -> exists x, In x l /\ f x = Some v.
Proof.
  induction l as [|x t IH]; intros H.
  - exists []. cbn. repeat split. intros v [].
  - destruct (H x (or_introl eq_refl)) as (v & Hv).
    destruct IH as (r & Hr & Hl & Hin); [intros y Hy; apply H; now right|].
    exists (v :: r). cbn [map all_some]. rewrite Hv, Hr. split; [reflexivity|]. split; [cbn; lia|].
    intros w [<-|Hw]; [exists x; split; [now left|exact Hv]|].
    destruct (Hin w Hw) as (y & Hy & Hfy). exists y. split; [now right|exact Hfy].
Qed.

Lemma all_some_none : forall {A} (l : list (option A)), In None l -> all_some l = None.
Proof.
  induction l as [|[a|] t IH]; intros Hin; [destruct Hin| |reflexivity].
  destruct Hin as [H|Hin]; [discriminate|]. cbn. now rewrite IH.
Qed.

(* ------------------------------------------------------------------------------------ *)
(* length_bounds                                                                        *)
(* ------------------------------------------------------------------------------------ *)

Lemma list_nat_eqb_eq : forall a b, list_nat_eqb a b = true -> a = b.
Proof.
  induction a as [|x a IH]; destruct b as [|y b]; cbn; intros H; try discriminate; [reflexivity|].
  apply andb_true_iff in H. destruct H as [H1 H2]. apply Nat.eqb_eq in H1. subst. f_equal. now apply IH.
Qed.

Lemma in_removelast : forall (l : list nat) x, In x (removelast l) -> In x l.
Proof.
  induction l as [|y t IH]; intros x Hin; [destruct Hin|].
  cbn [removelast] in Hin. destruct t as [|z t']; [destruct Hin|].
  destruct Hin as [->|Hin]; [now left|right; now apply IH].
Qed.

Lemma length_removelast_snoc : forall (l : list nat) v, l <> [] -> length (removelast l ++ [v]) = length l.
Proof.
  intros l v Hne. rewrite app_length. cbn [length].
  induction l as [|y t IH]; [congruence|]. destruct t as [|z t']; [reflexivity|].
  cbn [removelast length] in *. rewrite <- IH by discriminate. lia.
Qed.

Lemma length_nodup_le : forall l : list nat, length (nodup Nat.eq_dec l) <= length l.
Proof.
  intros l. apply NoDup_incl_length; [apply NoDup_nodup|]. intros x Hx. now apply nodup_In in Hx.
Qed.

Lemma all_some_py : forall sl (f : nat -> Z) l r,
  all_some (map (fun n => py_index sl (f n)) l) = Some r ->
  (forall b, In b r -> In b sl) /\ length r = length l.
Proof.
  induction l as [|n t IH]; intros r Hr; cbn [map all_some] in Hr.
  - inversion Hr; subst. split; [intros b []|reflexivity].
  - destruct (py_index sl (f n)) as [v|] eqn:Ev; [|discriminate].
    destruct (all_some _) as [r'|] eqn:Er; [|discriminate]. inversion Hr; subst.
    destruct (IH _ eq_refl) as [Hin Hlen]. split; [|cbn; now rewrite Hlen].
    intros b [<-|Hb]; [eapply py_index_in; eauto|now apply Hin].
Qed.

(* what the bounds are when the function returns: strictly increasing, at most nb of them, all of
   them lengths that occur in the data set, the last one the longest length *)
Theorem length_bounds_ok : forall lens nb lb, length_bounds lens nb = Ok lb ->
  lens <> [] /\ StronglySorted lt lb /\ lb <> [] /\ length lb <= nb /\
  (forall b, In b lb -> In b lens) /\ (forall l, In l lens -> l <= last lb 0) /\ In (last lb 0) lens.
Proof.
  intros lens nb lb H. unfold length_bounds in H.
  set (sl := sort_nat lens) in *.
  destruct (all_some _) as [lb0|] eqn:E0; [|discriminate].
  destruct (py_index sl (-1)%Z) as [mx|] eqn:Emx; [|discriminate].
  destruct lb0 as [|b0 lb0']; [discriminate|].
  set (lb0 := b0 :: lb0') in *. set (lb' := removelast lb0 ++ [mx]) in *.
  set (lb_ := sort_nat (nodup Nat.eq_dec lb')) in *.
  assert (Hres : lb = lb_).
  { destruct (list_nat_eqb lb_ lb') eqn:Eq; inversion H; subst; [|reflexivity].
    symmetry. now apply list_nat_eqb_eq. }
  clear H. subst lb.
  assert (Hslne : sl <> []) by (intros Hn; rewrite Hn, py_index_none_nil in Emx; discriminate).
  assert (Hlne : lens <> []).
  { intros ->. apply Hslne. reflexivity. }
  assert (Hmx : mx = last sl 0) by (rewrite (py_index_last sl Hslne) in Emx; congruence).
  assert (Hmxin : In mx lens).
  { apply (proj1 (sort_nat_in lens mx)). eapply py_index_in; eauto. }
  assert (Hmax : forall l, In l lens -> l <= mx).
  { intros l Hl. rewrite Hmx. apply sorted_le_last_max; [apply sort_nat_sorted|now apply sort_nat_in]. }
  destruct (all_some_py sl (fun n => (Z.of_nat ((n + 1) * (length lens / nb)) - 1)%Z) _ _ E0) as [Hlb0sl Hlb0len].
  assert (Hlb0 : forall b, In b lb0 -> In b lens).
  { intros b Hb. apply (proj1 (sort_nat_in lens b)). now apply Hlb0sl. }
  assert (Hin' : forall b, In b lb' -> In b lens).
  { intros b Hb. unfold lb' in Hb. apply in_app_or in Hb. destruct Hb as [Hb|[<-|[]]]; [|exact Hmxin].
    apply Hlb0. now apply in_removelast. }
  assert (Hin_ : forall b, In b lb_ <-> In b lb').
  { intros b. unfold lb_. rewrite sort_nat_in. apply nodup_In. }
  assert (Hmx_ : In mx lb_) by (apply Hin_; unfold lb'; apply in_or_app; right; now left).
  assert (Hlast : last lb_ 0 = mx).
  { apply sorted_last_is; [apply sorted_lt_le, sort_nodup_sorted|exact Hmx_|].
    intros x Hx. apply Hmax, Hin', Hin_, Hx. }
  split; [exact Hlne|]. split; [apply sort_nodup_sorted|].
  split; [intros Hn; rewrite Hn in Hmx_; destruct Hmx_|].
  split.
  - unfold lb_. rewrite sort_nat_length. etransitivity; [apply length_nodup_le|].
    unfold lb'. rewrite length_removelast_snoc by discriminate.
    fold lb0 in Hlb0len. rewrite Hlb0len, seq_length. lia.
  - split; [intros b Hb; apply Hin', Hin_, Hb|]. rewrite Hlast. split; [exact Hmax|exact Hmxin].
Qed.

(* the function raises exactly on an empty data set (F8, first half) *)
Theorem length_bounds_total : forall lens nb, lens <> [] -> 1 <= nb ->
  exists lb, length_bounds lens nb = Ok lb.
Proof.
  intros lens nb Hne Hnb. unfold length_bounds.
  set (sl := sort_nat lens). set (N := length lens).
  assert (HN : 0 < N) by (unfold N; destruct lens; [congruence|cbn; lia]).
  assert (Hsl : length sl = N) by apply sort_nat_length.
  destruct (all_some_map_some (fun n => py_index sl (Z.of_nat ((n + 1) * (N / nb)) - 1)%Z) (seq 0 nb))
    as (r & Hr & Hlen & _).
  { intros n Hn. apply in_seq in Hn. apply py_index_some. rewrite Hsl.
    assert ((n + 1) * (N / nb) <= N).
    { etransitivity; [apply Nat.mul_le_mono_r with (m := nb); lia|]. apply Nat.mul_div_le. lia. }
    lia. }
  fold N. rewrite Hr.
  assert (Hslne : sl <> []) by (intros Hn; rewrite Hn in Hsl; cbn in Hsl; lia).
  rewrite (py_index_last sl Hslne).
  rewrite seq_length in Hlen. destruct r as [|b0 r']; [cbn in Hlen; lia|].
  eexists. reflexivity.
Qed.

Theorem length_bounds_empty : forall nb, length_bounds [] nb = Err IndexError.
Proof.
  intros nb. unfold length_bounds. cbn [sort_nat fold_right length].
  destruct nb as [|nb].
  - cbn [seq map all_some]. now rewrite py_index_none_nil.
  - rewrite all_some_none; [reflexivity|]. cbn [seq map]. left. apply py_index_none_nil.
Qed.

(* ------------------------------------------------------------------------------------ *)
(* bucket_params                                                                        *)
(* ------------------------------------------------------------------------------------ *)

Lemma class_of_zero : forall bounds, class_of bounds 0 = 0.
Proof. unfold class_of. induction bounds as [|b t IH]; [reflexivity|]. cbn [filter]. exact IH. Qed.

Lemma tbl_map_class : forall lb lens i, tbl (map (class_of lb) lens) i = class_of lb (nth i lens 0).
Proof.
  intros. unfold tbl. rewrite <- (class_of_zero lb) at 1. apply map_nth.
Qed.

Theorem bucket_params_ok : forall lens nb bs dyn i2b b2s,
  bucket_params lens nb bs dyn = Ok (i2b, b2s) ->
  (lens = [] /\ i2b = [] /\ b2s = []) \/
  exists lb, length_bounds lens nb = Ok lb /\ i2b = map (class_of lb) lens /\
             b2s = map (fun b => if dyn then Nat.max (last lb 0 * bs / Nat.max b 1) bs else bs) lb.
Proof.
  intros lens nb bs dyn i2b b2s H. unfold bucket_params in H.
  destruct lens as [|l0 lens']; [inversion H; now left|]. right.
  destruct (length_bounds (l0 :: lens') nb) as [lb|e] eqn:E; [|discriminate]. exists lb.
  split; [reflexivity|]. destruct dyn; inversion H; subst; split; reflexivity.
Qed.

(* the function never raises (for num_buckets >= 1): empty data sets and zero-length utterances
   included *)
Theorem bucket_params_total : forall lens nb bs dyn, 1 <= nb ->
  exists t, bucket_params lens nb bs dyn = Ok t.
Proof.
  intros lens nb bs dyn Hnb. unfold bucket_params.
  destruct lens as [|l0 lens']; [eexists; reflexivity|].
  destruct (length_bounds_total (l0 :: lens') nb) as (lb & Hlb); [discriminate|exact Hnb|].
  rewrite Hlb. destruct dyn; eexists; reflexivity.
Qed.

Lemma nth_map_in : forall (f : nat -> nat) l j d, j < length l -> nth j (map f l) d = f (nth j l 0).
Proof.
  induction l as [|x t IH]; intros j d Hj; [cbn in Hj; lia|].
  destruct j; [reflexivity|]. cbn. apply IH. cbn in Hj. lia.
Qed.

(* bucket sizes: batch_size when fixed; when dynamic the greatest x with x * y <= Y * batch_size
   (y the bucket's bound, Y the longest length), never below batch_size; for a bucket of
   zero-length utterances any size would do and the code takes max(Y * batch_size, batch_size) *)
Theorem bucket_sizes : forall lens nb bs dyn i2b b2s lb j,
  bucket_params lens nb bs dyn = Ok (i2b, b2s) -> length_bounds lens nb = Ok lb -> j < length lb ->
  length b2s = length lb /\ bs <= tbl b2s j /\
  (dyn = false -> tbl b2s j = bs) /\
  (dyn = true -> let y := nth j lb 0 in let Y := last lb 0 in
                 0 < y -> tbl b2s j * y <= Y * bs /\ Y * bs < (tbl b2s j + 1) * y).
Proof.
  intros lens nb bs dyn i2b b2s lb j H Hlb Hj.
  destruct (bucket_params_ok _ _ _ _ _ _ H) as [(-> & _ & _)|(lb' & Hlb' & _ & ->)].
  { rewrite length_bounds_empty in Hlb. discriminate. }
  assert (lb' = lb) by congruence. subst lb'.
  destruct (length_bounds_ok _ _ _ Hlb) as (_ & Hsorted & _ & _ & _ & _ & _).
  split; [apply map_length|].
  assert (Hnth : tbl (map (fun b => if dyn then Nat.max (last lb 0 * bs / Nat.max b 1) bs else bs) lb) j
                 = if dyn then Nat.max (last lb 0 * bs / Nat.max (nth j lb 0) 1) bs else bs).
  { unfold tbl. now rewrite nth_map_in. }
  rewrite Hnth. destruct dyn.
  - split; [lia|]. split; [discriminate|]. intros _. cbv zeta. intros Hpos.
    assert (Hin : In (nth j lb 0) lb) by now apply nth_In.
    assert (Hle : nth j lb 0 <= last lb 0) by (apply sorted_le_last_max; [now apply sorted_lt_le|exact Hin]).
    set (y := nth j lb 0) in *. set (Y := last lb 0) in *.
    replace (Nat.max y 1) with y by lia.
    assert (Hge : bs <= Y * bs / y) by (apply Nat.div_le_lower_bound; nia).
    replace (Nat.max (Y * bs / y) bs) with (Y * bs / y) by lia.
    pose proof (Nat.mul_div_le (Y * bs) y ltac:(lia)) as H1.
    pose proof (Nat.mul_succ_div_gt (Y * bs) y ltac:(lia)) as H2.
    set (q := Y * bs / y) in *. split; lia.
  - split; [lia|]. split; [reflexivity|discriminate].
Qed.
