(* C01 — result values and how an observed float is matched against them.
   Shared by Model.v (what the code computes) and Spec.v (what the property demands).

   Costs are integers (the harness scales the dyadic float costs k/4 by [scale] = 4), so an
   un-normalised distance is an integer number of cost units.  Three kinds of entries occur
   in the tensors returned by edit_distance / prefix_edit_distances:
     Cost v     a distance, v cost units                    (float = v / scale, exact)
     Ratio n d  a distance n divided by a length d > 0      (float = RN(float(n/scale) / float(d)))
     Lit z      a literal number that does not scale with the costs: the padding value, and
                the 0/1 convention for normalising by an empty reference. *)
From Coq Require Import ZArith QArith Qabs List Bool.
Import ListNotations.
Local Open Scope Z_scope.

Inductive val := Cost (v : Z) | Ratio (n : Z) (d : nat) | Lit (z : Z).

Definition val_eqb (a b : val) : bool :=
  match a, b with
  | Cost x, Cost y => x =? y
  | Ratio n d, Ratio n' d' => (n =? n') && Nat.eqb d d'
  | Lit x, Lit y => x =? y
  | _, _ => false
  end.

(* [q] is the implementation's float converted exactly to a rational.  A single IEEE
   division is correctly rounded, so it lies within relative 2^-24 of the exact quotient;
   the bracket used here is 2^-23.  Distinct quotients of the small integers that occur
   differ by far more, so the bracket cannot confuse two different (n, d). *)
Definition match_val (scale : Z) (v : val) (q : Q) : bool :=
  match v with
  | Cost x => Qeq_bool (q * (scale # 1)) (x # 1)
  | Ratio n d =>
      let e := Qabs (q * (scale # 1) * (Z.of_nat d # 1) - (n # 1)) in
      Qle_bool (e * (8388608 # 1)) (Qabs (n # 1))
  | Lit z => Qeq_bool q (z # 1)
  end.

Fixpoint forall2b {A B} (f : A -> B -> bool) (l1 : list A) (l2 : list B) : bool :=
  match l1, l2 with
  | [], [] => true
  | x :: t1, y :: t2 => f x y && forall2b f t1 t2
  | _, _ => false
  end.
