(* C05, second tie — the translated blocks of `CTCPrefixSearch.forward` as executables: the environment [extB], the
   encoding of the loop's carried variables, and the correspondence entry point [src_search_check] (the interface of
   Model.check_search plus the module's configuration).  Definitions only; the lemmas are in TieB*.v.

   PV.Gen.C05BSrc is regenerated from /repo/src/pydrobert/torch/_decoding.py on every run:
     fwd_frame   the BODY of `for t in range(len_max):` (from `valid_mask = ...` to `prev_width = self.width`)
     fwd_final   the epilogue (from `probs_prev = nb_probs_prev + b_probs_prev` to the `return`)
     fwd_loop    the `for` statement itself (the same body under SFor)
     fwd_init    the initialisation of the carried variables (`nb_probs_prev = torch.zeros((N, 1) ...` to `pad_y = ...`)
   NOT translated (hand-written glue, see [src_search]): the head of forward (argument checks, `lens is None`,
   `len_min, len_max = int(lens.min().item()), ...`, `probs = logits.softmax(2)`, the two slices of probs).

   [extB sel lmS beta sos Vv] = SrcRun.ext05 sel (first tie: every tensor call of the step function) plus:
     ctc_prefix_search_advance(...)        the TRANSLATED SOURCE of the step function (Gen.C05Src.cpsa_body) run by the
                                           interpreter on the seven arguments; its result read back as seven tensors
     self.lm.calc_idx_log_probs / extract_by_src / mix_by_mask / update_input, `.softmax(-1)`, `.log_softmax(-1)`,
     `beta * ...`, `.exp()` on the LM's output     the language model as the state machine of C05.ModelB: a state is the
                                           list of inputs fed so far, the row it yields is the ORACLE [lmS] (softmax
                                           of the logits when valid_mixture, exp(beta * log_softmax) otherwise - the
                                           transcendental is inside the oracle, as for Model's [lm]); the value of
                                           `beta * log_softmax` remembers beta and `.exp()` refuses another one
     x[t], expand with -1, view (a*b, c) -> (a, b, c) and (a) -> (a, 1, 1), flatten, repeat, new_full, torch.arange,
     torch.ones, torch.full(bool), float * tensor, number - tensor, int < tensor, torch.where with broadcasting
                                           PV.MiniTorch.OpsC05B
   ASSUMPTIONS beyond SrcRun's: the LM's state is a function of the inputs it was fed (extract_by_src = index_select
   along the batch, mix_by_mask = where along the batch, update_input on an empty dict = the start state of every
   slot); an exception raised inside the step function is Stuck here (forward's own arguments never cause one). *)
From Coq Require Import ZArith QArith Qcanon List String Bool Arith.
From PV Require Import MiniPy.Syntax MiniPy.Interp MiniTorch.Ops MiniTorch.OpsC05 MiniTorch.OpsC05B Gen.C05Src Gen.C05BSrc.
From PV Require Import C05.Model C05.ModelB C05.SrcRun.
Import ListNotations.
Local Open Scope string_scope.
Local Open Scope nat_scope.

(* ---- what the step function returns, as seven tensors (any batch size) ------------------------------------ *)
Record outs7 := mkO7
  { o7_y : tn Z; o7_last : tn Z; o7_lens : tn Z; o7_nb : tn mass; o7_b : tn mass; o7_isp : tn bool; o7_src : tn Z;
    o7_ne : tn bool }.

Definition enc_outs7 (o : outs7) : val :=
  VTuple [enc_i (o7_y o); enc_i (o7_last o); enc_i (o7_lens o); VTuple [enc_f (o7_nb o); enc_f (o7_b o)];
          enc_b (o7_isp o); enc_i (o7_src o); enc_b (o7_ne o)].

Definition dec_outs7 (v : val) : option outs7 :=
  match v with
  | VTuple [vy; vlast; vlens; VTuple [vnb; vb]; visp; vsrc; vne] =>
      match dec vy, dec vlast, dec vlens, dec vnb, dec vb, dec visp, dec vsrc, dec vne with
      | Some (TI y), Some (TI last), Some (TI lens), Some (TF nb), Some (TF b), Some (TB isp), Some (TI src), Some (TB ne) =>
          Some (mkO7 y last lens nb b isp src ne)
      | _, _, _, _, _, _, _, _ => None
      end
  | _ => None
  end.

(* the call `ctc_prefix_search_advance(a0, .., a6)`: the parameters bound positionally, plus the module global `torch` *)
Definition call_vars (args : list val) : option (list (string * val)) :=
  match args with
  | [a0; a1; a2; a3; a4; a5; a6] =>
      Some [("probs_t", a0); ("width", a1); ("probs_prev", a2); ("y_prev", a3); ("y_prev_last", a4);
            ("y_prev_lens", a5); ("prev_is_prefix", a6); ("torch", torch_module)]
  | _ => None
  end.

Definition adv_call (sel : nat -> list mass -> nat -> list nat) (args : list val) : option outs7 :=
  match call_vars args with
  | Some vs => match Interp.run (ext05 sel) cpsa_body vs with
               | Ok v _ => dec_outs7 v
               | _ => None
               end
  | None => None
  end.

(* ---- the language model's values --------------------------------------------------------------------------- *)
Definition tag_lms : string := "$lmstate".
Definition tag_logits : string := "$lmlogits".
Definition tag_logsm : string := "$lmlogsm".
Definition tag_scaled : string := "$lmscaled".

Definition enc_st (s : list nat) : val := VList (map vnat s).
Definition enc_sts (St : list (list nat)) : val := VList (map enc_st St).
Definition enc_lms (St : list (list nat)) : val := VTuple [VStr tag_lms; enc_sts St].
Definition enc_logits (St : list (list nat)) : val := VTuple [VStr tag_logits; enc_sts St].
Definition enc_logsm (St : list (list nat)) : val := VTuple [VStr tag_logsm; enc_sts St].
Definition enc_scaled (b : Q) (St : list (list nat)) : val := VTuple [VStr tag_scaled; VQ b; enc_sts St].

Definition dec_st (v : val) : option (list nat) := match v with VList l => dec_nats l | _ => None end.
Definition dec_sts (v : val) : option (list (list nat)) := match v with VList l => dec_list dec_st l | _ => None end.
Definition dec_tagged (tag : string) (v : val) : option (list (list nat)) :=
  match v with
  | VTuple [VStr t; sts] => if String.eqb t tag then dec_sts sts else None
  | _ => None
  end.

Definition lm_token : val := VStr "$lm".

Section ExtB.
Variable sel : nat -> list mass -> nat -> list nat.
Variable lmS : list nat -> list Qc.
Variable beta : Q.
Variables sos Vv : nat.

(* the (B, V) tensor of the rows of B states *)
Definition lm_rows (St : list (list nat)) : tn mass :=
  tab [List.length St; Vv] (fun ix => Fin (nth (at_ ix 1) (lmS (nth (at_ ix 0) St [])) 0%Qc)).

(* calc_idx_log_probs(hist (T, B), prev, idx (B)): "calculates log probabilities over the token at idx given hist[:idx]":
   slot k is fed hist[idx_k - 1, k] (sos when idx_k = 0); 0 <= idx_k <= T *)
Definition lm_calc (hist : tn Z) (St : list (list nat)) (idx : tn Z) : option (list (list nat)) :=
  match shp hist, shp idx with
  | [T; B], [B'] =>
      if (B =? B') && (List.length St =? B)
         && forallb (fun z => (0 <=? z)%Z && (z <=? Z.of_nat T)%Z) (dat idx)
      then Some (map (fun k => (nth k St [] ++
                              [let i := Z.to_nat (get 0%Z idx [k]) in
                               if i =? 0 then sos else Z.to_nat (get 0%Z hist [i - 1; k])])%list)
                     (seq 0 B))
      else None
  | _, _ => None
  end.

(* extract_by_src(prev, src (M)): "the state of slot src[i] becomes the state of slot i" *)
Definition lm_extract (St : list (list nat)) (src : tn Z) : option (list (list nat)) :=
  match shp src with
  | [_] => if forallb (zin (List.length St)) (dat src)
           then Some (map (fun z => nth (Z.to_nat z) St []) (dat src)) else None
  | _ => None
  end.

(* mix_by_mask(prev_true, prev_false, mask (M)): slot i takes prev_true's state where mask[i], else prev_false's *)
Definition lm_mix (A B : list (list nat)) (mask : tn bool) : option (list (list nat)) :=
  match shp mask with
  | [_] => if (List.length A =? List.length (dat mask)) && (List.length B =? List.length (dat mask))
           then Some (zipw (fun (ab : list nat * list nat) (m : bool) => if m then fst ab else snd ab)
                           (combine A B) (dat mask))
           else None
  | _ => None
  end.

Definition okS (why : string) (f : list (list nat) -> val) (o : option (list (list nat))) (st : state) : outcome val :=
  match o with Some s => Ok (f s) st | None => Stuck (undef why) end.

Definition has_minus1 (l : list val) : bool := existsb (val_eqb (VInt (-1))) l.

Definition as_qc (v : val) : option Qc :=
  match v with VQ q => Some (Q2Qc q) | VInt z => Some (Q2Qc (inject_Z z)) | _ => None end.

Definition extB (f : string) (args : list val) (kw : list (string * val)) (st : state) : outcome val :=
  if is f "ctc_prefix_search_advance" then
    match kw with
    | [] => match adv_call sel args with
            | Some o => Ok (enc_outs7 o) st
            | None => Stuck (undef "ctc_prefix_search_advance")
            end
    | _ => Stuck "ctc_prefix_search_advance: keywords"
    end
  else if is f "self.lm.calc_idx_log_probs" then
    match args, kw with
    | [h; p; i], [] =>
        match dec h, dec_tagged tag_lms p, dec i with
        | Some (TI hist), Some St, Some (TI idx) =>
            okS "calc_idx_log_probs" (fun s => VTuple [enc_logits s; enc_lms s]) (lm_calc hist St idx) st
        | _, _, _ => Stuck "calc_idx_log_probs"
        end
    | _, _ => Stuck "calc_idx_log_probs"
    end
  else if is f "self.lm.extract_by_src" then
    match args, kw with
    | [p; s], [] =>
        match dec_tagged tag_lms p, dec s with
        | Some St, Some (TI src) => okS "extract_by_src" enc_lms (lm_extract St src) st
        | _, _ => Stuck "extract_by_src"
        end
    | _, _ => Stuck "extract_by_src"
    end
  else if is f "self.lm.mix_by_mask" then
    match args, kw with
    | [a; b; m], [] =>
        match dec_tagged tag_lms a, dec_tagged tag_lms b, dec m with
        | Some A, Some B, Some (TB mask) => okS "mix_by_mask" enc_lms (lm_mix A B mask) st
        | _, _, _ => Stuck "mix_by_mask"
        end
    | _, _ => Stuck "mix_by_mask"
    end
  else if is f "self.lm.update_input" then
    (* "update_input(prev, hist)": an empty dictionary becomes the start state (nothing fed) of hist.size(1) slots *)
    match args, kw with
    | [VDict []; h], [] =>
        match dec h with
        | Some a => match any_shape a with
                    | [_; B] => Ok (enc_lms (repeat [] B)) st
                    | _ => Stuck "update_input: hist"
                    end
        | None => Stuck "update_input"
        end
    | _, _ => Stuck "update_input"
    end
  else if is f "$method.softmax" then
    match args, kw with
    | [l; VInt (-1)], [] =>
        match dec_tagged tag_logits l with
        | Some St => Ok (enc_f (lm_rows St)) st
        | None => Stuck "softmax"
        end
    | _, _ => Stuck "softmax"
    end
  else if is f "$method.log_softmax" then
    match args, kw with
    | [l; VInt (-1)], [] =>
        match dec_tagged tag_logits l with
        | Some St => Ok (enc_logsm St) st
        | None => Stuck "log_softmax"
        end
    | _, _ => Stuck "log_softmax"
    end
  else if is f "$method.exp" then
    match args, kw with
    | [VTuple [VStr t; VQ b; sts]], [] =>
        if String.eqb t tag_scaled && Qeq_bool b beta
        then match dec_sts sts with Some St => Ok (enc_f (lm_rows St)) st | None => Stuck "exp" end
        else Stuck "exp: not beta * log_softmax of the language model's output"
    | _, _ => Stuck "exp"
    end
  else if is f "operator" then
    match args, kw with
    | [VStr o; a; b], [] =>
        match as_qc a, dec b with
        | Some c, Some (TF x) =>
            if is o "mul" then okf "mul" (smul c x) st
            else if is o "sub" then okf "rsub" (rsub_s c x) st
            else Stuck ("operator " ++ o)
        | _, _ =>
            match a, dec_tagged tag_logsm b with
            | VQ q, Some St => if is o "mul" then Ok (enc_scaled q St) st else Stuck ("operator " ++ o)
            | _, _ => ext05 sel f args kw st
            end
        end
    | _, _ => ext05 sel f args kw st
    end
  else if is f "compare" then
    match args, kw with
    | [VStr o; VInt t; b], [] =>
        match dec b with
        | Some (TI x) => if is o "lt" then Ok (enc_b (ilt_rs t x)) st else Stuck ("compare " ++ o)
        | _ => Stuck "compare"
        end
    | _, _ => ext05 sel f args kw st
    end
  else if is f "$getitem" then
    match args, kw with
    | [t; VInt i], [] =>
        match dec t with
        | Some a => oka "getitem" (any_map (fun X dx x => select0 dx x i) a) st
        | None => ext05 sel f args kw st
        end
    | _, _ => ext05 sel f args kw st
    end
  else if is f "$method.expand" then
    match args, kw with
    | t :: sizes, [] =>
        if has_minus1 sizes then
          match dec t, dec_list dz sizes with
          | Some a, Some zs => oka "expand" (any_map (fun X dx x => expand_keep dx x zs) a) st
          | _, _ => Stuck "expand"
          end
        else ext05 sel f args kw st
    | _, _ => ext05 sel f args kw st
    end
  else if is f "$method.view" then
    match args, kw with
    | t :: sizes, [] =>
        match dec t, dec_list dz sizes with
        | Some a, Some zs => oka "view" (any_map (fun X dx x => viewB dx x zs) a) st
        | _, _ => Stuck "view"
        end
    | _, _ => Stuck "view"
    end
  else if is f "$method.flatten" then
    match args, kw with
    | [t], [] =>
        match dec t with
        | Some a => oka "flatten" (any_map (fun X dx x => flatten2 dx x) a) st
        | None => Stuck "flatten"
        end
    | [t; VInt 1], [] =>
        match dec t with
        | Some a => oka "flatten" (any_map (fun X dx x => flatten1_3 dx x) a) st
        | None => Stuck "flatten"
        end
    | _, _ => Stuck "flatten"
    end
  else if is f "$method.repeat" then
    match args, kw with
    | t :: reps, [] =>
        match dec t, dec_list dz reps with
        | Some a, Some zs => oka "repeat" (any_map (fun X dx x => repeat_ dx x zs) a) st
        | _, _ => Stuck "repeat"
        end
    | _, _ => Stuck "repeat"
    end
  else if is f "$method.new_full" then
    match args, kw with
    | [t; VTuple sizes; v], [] =>
        match dec t, dec_list dz sizes, dm v with
        | Some (TF _), Some zs, Some m => okf "new_full" (full zs m) st
        | _, _, _ => Stuck "new_full"
        end
    | _, _ => Stuck "new_full"
    end
  else if is f "torch.arange" then
    match args, kw with
    | [VInt s; VInt e; VInt stp], [(k, d)] =>
        if is k "device" && val_eqb d device_token then oki "arange" (arange3 s e stp) st else Stuck "arange: keyword"
    | _, _ => Stuck "arange"
    end
  else if is f "torch.where" then
    match args, kw with
    | [c; a; b], [] =>
        match dec c, dec a, dec b with
        | Some (TB m), Some x, Some y => oka "where" (any_map2 (fun X dx p q => where_b dx m p q) x y) st
        | _, _, _ => Stuck "where"
        end
    | _, _ => Stuck "where"
    end
  else if is f "torch.ones" then
    match args with
    | [VTuple sizes] =>
        match factory_dtype kw, dec_list dz sizes with
        | Some t, Some zs => if val_eqb t dtype_f then okf "ones" (full zs (Fin 1%Qc)) st else Stuck "ones: dtype"
        | _, _ => Stuck "ones: arguments"
        end
    | _ => Stuck "ones"
    end
  else if is f "torch.full" then
    match args with
    | [VTuple sizes; VInt 1] =>
        match factory_dtype kw, dec_list dz sizes with
        | Some t, Some zs => if val_eqb t dtype_b then okb "full" (full zs true) st else Stuck "full: dtype"
        | _, _ => Stuck "full: arguments"
        end
    | _ => ext05 sel f args kw st
    end
  else ext05 sel f args kw st.
End ExtB.

(* ---- the module, the loop's variables ------------------------------------------------------------------------ *)
Definition self_val (has_lm : bool) (beta : Q) (vm : bool) (width : nat) : val :=
  VDict [(VStr "lm", if has_lm then lm_token else VNone); (VStr "beta", VQ beta); (VStr "valid_mixture", VBool vm);
         (VStr "width", vnat width)].

(* the variables the loop carries from one frame to the next (as MiniPy values) *)
Record carried := mkCar
  { cr_pw : val; cr_nb : val; cr_b : val; cr_y : val; cr_last : val; cr_lens : val; cr_isp : val; cr_prev : val }.

Definition frame_vars (self : val) (N V : val) (t len_min : Z) (lens nonext_probs blank_probs pad_y : val) (c : carried)
  : list (string * val) :=
  [("self", self); ("N", N); ("V", V); ("t", VInt t); ("len_min", VInt len_min); ("lens", lens);
   ("nonext_probs", nonext_probs); ("blank_probs", blank_probs); ("pad_y", pad_y);
   ("prev_width", cr_pw c); ("nb_probs_prev", cr_nb c); ("b_probs_prev", cr_b c); ("y_prev", cr_y c);
   ("y_prev_last", cr_last c); ("y_prev_lens", cr_lens c); ("prev_is_prefix", cr_isp c); ("prev", cr_prev c)].

Definition read_carried (vs : list (string * val)) : option carried :=
  match lookup "prev_width" vs, lookup "nb_probs_prev" vs, lookup "b_probs_prev" vs, lookup "y_prev" vs,
        lookup "y_prev_last" vs, lookup "y_prev_lens" vs, lookup "prev_is_prefix" vs, lookup "prev" vs with
  | Some a, Some b, Some c, Some d, Some e, Some f, Some g, Some h => Some (mkCar a b c d e f g h)
  | _, _, _, _, _, _, _, _ => None
  end.

Definition final_vars (self : val) (N : val) (c : carried) : list (string * val) :=
  [("self", self); ("N", N); ("prev_width", cr_pw c); ("nb_probs_prev", cr_nb c); ("b_probs_prev", cr_b c);
   ("y_prev", cr_y c); ("y_prev_lens", cr_lens c)].

(* ---- ONE batch element: the model's values as the loop's variables ------------------------------------------- *)
Definition enc_car (bm : beam) (prev : val) : carried :=
  mkCar (vnat (List.length (b_nb bm))) (enc_f (enc_nb bm)) (enc_f (enc_bb bm)) (enc_i (enc_y bm))
        (enc_i (enc_last bm)) (enc_i (enc_lens bm)) (enc_b (enc_isp bm)) prev.

(* probs[..., :V] and probs[..., V] of all frames, the element's length, pad_y *)
Definition enc_frames_nonext (V : nat) (fs : list (list Qc * Qc)) : tn mass :=
  tab [List.length fs; 1; V] (fun ix => Fin (nth (at_ ix 2) (fst (nth (at_ ix 0) fs ([], 0%Qc))) 0%Qc)).
Definition enc_frames_blank (fs : list (list Qc * Qc)) : tn mass :=
  tab [List.length fs; 1] (fun ix => Fin (snd (nth (at_ ix 0) fs ([], 0%Qc)))).
Definition enc_len (len : nat) : tn Z := tab [1] (fun _ => Z.of_nat len).
Definition enc_pad (width : nat) : tn Z := tab [1; 1; width] (fun _ => 0%Z).

Section Search.
Variables (V width : nat) (has_lm : bool) (beta : Q) (vm : bool).
Variable lmS : list nat -> list Qc.
Variables (len_min len : nat) (fs : list (list Qc * Qc)).

Definition the_self : val := self_val has_lm beta vm width.

(* one interpreted iteration of the loop, frame t, topk answering [choice] *)
Definition run_frame (choice : list nat) (t : nat) (c : carried) : outcome val :=
  Interp.run (extB (sel_given choice) lmS beta V V) fwd_frame
    (frame_vars the_self (VInt 1) (vnat V) (Z.of_nat t) (Z.of_nat len_min) (enc_i (enc_len len))
       (enc_f (enc_frames_nonext V fs)) (enc_f (enc_frames_blank fs)) (enc_i (enc_pad width)) c).

Definition src_frame (choice : list nat) (t : nat) (c : carried) : option carried :=
  match run_frame choice t c with
  | Ok VNone st => read_carried (vars st)
  | _ => None
  end.

(* HAND-WRITTEN GLUE (what the `for` statement does with the body): n iterations from frame t on, the carried
   variables read from the final state of one iteration and handed to the next *)
Fixpoint src_frames (n t : nat) (choices : list (list nat)) (c : carried) : option carried :=
  match n with
  | O => Some c
  | S n' => match src_frame (hd [] choices) t c with
            | Some c' => src_frames n' (S t) (tl choices) c'
            | None => None
            end
  end.

(* the interpreted epilogue *)
Definition run_final (c : carried) : outcome val :=
  Interp.run (extB (sel_given []) lmS beta V V) fwd_final (final_vars the_self (VInt 1) c).

(* (y (S, 1, W), y_lens (1, W), y_probs (1, W)) as the model's (columns, lens, probs) *)
Definition dec_result (v : val) : option (list (list nat) * list nat * list mass) :=
  match v with
  | VTuple [vy; vlens; vp] =>
      match dec vy, dec vlens, dec vp with
      | Some (TI y), Some (TI lens), Some (TF p) =>
          match shp y with
          | [H; 1; W] =>
              if nats_eqb (shp lens) [1; W] && nats_eqb (shp p) [1; W] then
                match sequence (map (fun k => sequence (map (fun s => znat (get 0%Z y [s; 0; k])) (seq 0 H))) (seq 0 W)),
                      sequence (map (fun k => znat (get 0%Z lens [0; k])) (seq 0 W)) with
                | Some cols, Some ls => Some (cols, ls, map (fun k => get NegInf p [0; k]) (seq 0 W))
                | _, _ => None
                end
              else None
          | _ => None
          end
      | _, _, _ => None
      end
  | _ => None
  end.

(* HAND-WRITTEN GLUE (the untranslated head of forward): the initial values of the carried variables
   (= Model.init_beam; `prev` = the start state of one slot when there is a language model, else the empty dict) *)
Definition init_prev : val := if has_lm then enc_lms [[]] else VDict [].
Definition init_car : carried := enc_car init_beam init_prev.

(* CTCPrefixSearch.forward for one element: glue + interpreted frames + interpreted epilogue *)
Definition src_search (choices : list (list nat)) : option (list (list nat) * list nat * list mass) :=
  match src_frames (List.length fs) 0 choices init_car with
  | Some c => match run_final c with
              | Ok v _ => dec_result v
              | _ => None
              end
  | None => None
  end.
End Search.

(* the language model of a Model-side oracle [lm] (prefix -> row) as a state machine: the row of the prefix after the
   start-of-sequence input; any other input sequence (never read by a valid slot) gives a row of zeros *)
Definition lmS_of (V : nat) (lm : list nat -> list Qc) (inputs : list nat) : list Qc :=
  match inputs with
  | s :: p => if s =? V then lm p else repeat 0%Qc V
  | [] => repeat 0%Qc V
  end.

(* same interface as Model.check_search plus the module's configuration (has_lm, beta, valid_mixture) and the batch's
   len_min: the INTERPRETED SOURCE (topk = the observed answers, which the model-side [choices_ok] must accept) against
   the implementation's output *)
Definition src_search_check (V width : nat) (has_lm : bool) (beta : Q) (vm : bool) (lm : list nat -> list Qc)
  (len_min len : nat) (frames : list (list Qc * Qc)) (choices : list (list nat)) (eps : Qc)
  (o_y : list (list nat)) (o_lens : list nat) (o_probs : list mass) : bool :=
  choices_ok V width (fusion_of has_lm beta vm) lm eps len 0 frames choices init_beam
  && match src_search V width has_lm beta vm (lmS_of V lm) len_min len frames choices with
     | Some r => out_close eps r o_y o_lens o_probs
     | None => false
     end.

(* does the interpreted source return exactly what the model returns? (harness statistics) *)
Definition src_search_is_model (V width : nat) (has_lm : bool) (beta : Q) (vm : bool) (lm : list nat -> list Qc)
  (len_min len : nat) (frames : list (list Qc * Qc)) (choices : list (list nat)) : bool :=
  match src_search V width has_lm beta vm (lmS_of V lm) len_min len frames choices with
  | Some r => out_close 0%Qc r (map2 (fun l c => firstn l c) (snd (fst (search V width (fusion_of has_lm beta vm) lm len frames choices)))
                                     (fst (fst (search V width (fusion_of has_lm beta vm) lm len frames choices))))
                        (snd (fst (search V width (fusion_of has_lm beta vm) lm len frames choices)))
                        (snd (search V width (fusion_of has_lm beta vm) lm len frames choices))
  | None => false
  end.
