(* C09 — variable-length padding, chunking, masked compaction, random shift
   (src/pydrobert/torch/_pad.py: _get_padding_buffers, pad_variable, chunk_by_slices,
   pad_masked_sequence;  src/pydrobert/torch/_img.py: random_shift, RandomShift.__init__).

   Executable model of what the code does.  No proofs in this file.

   Normal form: a tensor (N, T, ...) is a list of N rows, each a list of T cells; a cell (type A)
   stands for the flattened trailing dimensions (the code does x.unsqueeze(-1).flatten(2) and
   every mask is expanded over that last axis, so a mask acts on whole cells).  Per-row integer
   tensors (lens, pad[0], pad[1], slices[:,0], slices[:,1]) are read through accessor functions
   of a row record; "tensor op over the batch" = map over the rows.  What is NOT per-row is kept
   as in the code: masked_select produces ONE flat buffer for the whole batch and
   masked_scatter consumes ONE flat buffer, in row-major order.  Whether every row gets its own
   cells back therefore depends on the per-row counts of the masks, which is what the theorems
   establish.  masked_scatter with too short a source is a RuntimeError (None). *)
From Coq Require Import List Arith Bool ZArith QArith Qround.
Import ListNotations.
Local Close Scope Q_scope.
Local Open Scope nat_scope.

Inductive mode := Constant | Reflect | Replicate | OtherMode.

Inductive res (X : Type) : Type :=
| Ok (x : X) | ErrValue | ErrRuntime | ErrNotImpl.
Arguments Ok {X} x.
Arguments ErrValue {X}.
Arguments ErrRuntime {X}.
Arguments ErrNotImpl {X}.

Definition bind {X Y} (r : res X) (f : X -> res Y) : res Y :=
  match r with
  | Ok x => f x
  | ErrValue => ErrValue
  | ErrRuntime => ErrRuntime
  | ErrNotImpl => ErrNotImpl
  end.

(* ---- flat tensor primitives -------------------------------------------------------- *)
Section Flat.
  Context {A : Type}.

  (* torch.masked_select on flattened operands *)
  Fixpoint mselect (m : list bool) (x : list A) : list A :=
    match m, x with
    | b :: m', a :: x' => if b then a :: mselect m' x' else mselect m' x'
    | _, _ => []
    end.

  (* torch.masked_scatter on flattened operands: positions where the mask is true receive
     consecutive source elements; surplus source elements are ignored; None = RuntimeError
     (fewer source elements than true positions) *)
  Fixpoint mscatter (m : list bool) (dst src : list A) : option (list A) :=
    match m, dst with
    | b :: m', d :: dst' =>
        if b then
          match src with
          | s :: src' => option_map (cons s) (mscatter m' dst' src')
          | [] => None
          end
        else option_map (cons d) (mscatter m' dst' src)
    | _, _ => Some []
    end.

  (* view a flat list as n rows of t cells *)
  Fixpoint unflatten (n t : nat) (l : list A) : list (list A) :=
    match n with
    | 0 => []
    | S n' => firstn t l :: unflatten n' t (skipn t l)
    end.

  (* tensor-level masked_scatter on (n, t) operands *)
  Definition scatter2 (n t : nat) (mask : list (list bool)) (dst : list (list A)) (src : list A)
    : res (list (list A)) :=
    match mscatter (concat mask) (concat dst) src with
    | Some l => Ok (unflatten n t l)
    | None => ErrRuntime
    end.

  Definition select2 (mask : list (list bool)) (x : list (list A)) : list A :=
    mselect (concat mask) (concat x).
End Flat.

Definition count_true (m : list bool) : nat := length (filter (fun b => b) m).

(* ---- masks and padding buffers over a batch of rows ------------------------------------ *)
Section Batch.
  Context {A R : Type}.
  Variable cellsf : R -> list A.       (* x[n]            *)
  Variable lenf plf prf : R -> nat.    (* lens[n], left_pad[n], right_pad[n] *)

  (* (f.unsqueeze(1) > arange[:W]) *)
  Definition lt_mask (f : R -> nat) (W : nat) (rows : list R) : list (list bool) :=
    map (fun r => map (fun t => t <? f r) (seq 0 W)) rows.

  (* (hi.unsqueeze(1) > arange[:W]) & ~(lo.unsqueeze(1) > arange[:W]) *)
  Definition between_mask (lo hi : R -> nat) (W : nat) (rows : list R) : list (list bool) :=
    map (fun r => map (fun t => (t <? hi r) && negb (t <? lo r)) (seq 0 W)) rows.

  (* _get_padding_buffers.  [d] is only the out-of-range default of [nth]. *)
  Definition get_padding_buffers (T : nat) (d : A) (md : mode) (rows : list R)
    : res (list A * list A) :=
    match md with
    | Constant => Ok (concat (map cellsf rows), concat (map cellsf rows))
    | Reflect =>
        if existsb (fun r => (lenf r <=? plf r) || (lenf r <=? prf r)) rows then ErrNotImpl
        else match rows with
             | [] => ErrRuntime (* left_pad.max() of an empty tensor *)
             | _ =>
                 let lmax := list_max (map plf rows) in
                 let rmax := list_max (map prf rows) in
                 let ar := seq 0 T in
                 (* left_mask[:, :left_max] *)
                 let left_mask := map (fun r => firstn lmax (map (fun t => t <? plf r) ar)) rows in
                 (* x.gather(1, (left_pad - arange[:left_max]).clamp_(min=0)) *)
                 let left_g := map (fun r => map (fun j => nth (plf r - j) (cellsf r) d)
                                                 (firstn lmax ar)) rows in
                 (* x.gather(1, (lens - arange[:right_max] - 2).clamp_(min=0)) *)
                 let right_g := map (fun r => map (fun j => nth (lenf r - j - 2) (cellsf r) d)
                                                  (firstn rmax ar)) rows in
                 let right_mask := map (fun r => map (fun t => t <? prf r) (firstn rmax ar)) rows in
                 Ok (select2 left_mask left_g, select2 right_mask right_g)
             end
    | Replicate =>
        if existsb (fun r => lenf r <? 1) rows then ErrRuntime
        else match rows with
             | [] => ErrRuntime
             | _ =>
                 let lmax := list_max (map plf rows) in
                 let rmax := list_max (map prf rows) in
                 let ar := seq 0 (Nat.max (Nat.max lmax rmax) 1) in
                 let left_mask := map (fun r => map (fun t => t <? plf r) (firstn lmax ar)) rows in
                 (* x[:, :1].expand(N, left_max, F) *)
                 let left_src := map (fun r => repeat (nth 0 (cellsf r) d) lmax) rows in
                 let right_mask := map (fun r => map (fun t => t <? prf r) (firstn rmax ar)) rows in
                 (* x.gather(1, (lens - 1).view(N,1,1).expand(N, right_max, F)) *)
                 let right_src := map (fun r => repeat (nth (lenf r - 1) (cellsf r) d) rmax) rows in
                 Ok (select2 left_mask left_src, select2 right_mask right_src)
             end
    | OtherMode => ErrValue
    end.
End Batch.

(* ---- pad_variable ------------------------------------------------------------------- *)
Record prow (A : Type) := mkProw { p_cells : list A; p_len : nat; p_l : nat; p_r : nat }.
Arguments mkProw {A}.
Arguments p_cells {A}.
Arguments p_len {A}.
Arguments p_l {A}.
Arguments p_r {A}.

Section PadVariable.
  Context {A : Type}.

  Definition p_new (r : prow A) : nat := p_len r + (p_l r + p_r r).   (* lens + pad.sum(0) *)
  Definition p_mid (r : prow A) : nat := p_l r + p_len r.             (* pad[0] + lens *)

  Definition pad_variable_rows (T : nat) (d fill : A) (md : mode) (rows : list (prow A))
    : res (list (list A)) :=
    bind (get_padding_buffers p_cells p_len p_l p_r T d md rows) (fun bufs =>
    match rows with
    | [] => ErrRuntime (* new_lens.max() of an empty tensor *)
    | _ =>
        let N := length rows in
        let Tp := list_max (map p_new rows) in
        let padded := repeat (repeat fill Tp) N in
        let xs := select2 (lt_mask p_len T rows) (map p_cells rows) in
        bind (scatter2 N Tp (between_mask p_l p_mid Tp rows) padded xs) (fun padded =>
        match md with
        | Constant => Ok padded
        | _ =>
            bind (scatter2 N Tp (lt_mask p_l Tp rows) padded (fst bufs)) (fun padded =>
            scatter2 N Tp (between_mask p_mid p_new Tp rows) padded (snd bufs))
        end)
    end).

  Definition zip_prows (x : list (list A)) (lens pl pr : list nat) : list (prow A) :=
    map (fun n => mkProw (nth n x []) (nth n lens 0) (nth n pl 0) (nth n pr 0)) (seq 0 (length x)).

  (* the shape checks of pad_variable: lens.shape == (N,), pad.shape == (2, N) *)
  Definition pad_variable (T : nat) (d fill : A) (md : mode)
             (x : list (list A)) (lens pl pr : list nat) : res (list (list A)) :=
    if (length lens =? length x) && (length pl =? length x) && (length pr =? length x)
    then pad_variable_rows T d fill md (zip_prows x lens pl pr)
    else ErrValue.
End PadVariable.

(* ---- chunk_by_slices ------------------------------------------------------------------ *)
Record crow (A : Type) := mkCrow { c_cells : list A; c_len : nat; c_start : Z; c_end : Z }.
Arguments mkCrow {A}.
Arguments c_cells {A}.
Arguments c_len {A}.
Arguments c_start {A}.
Arguments c_end {A}.

Section Chunk.
  Context {A : Type}.
  Local Open Scope Z_scope.

  (* clamp_min_(0) followed by use as a count: Z.to_nat *)
  Definition c_chunk (r : crow A) : nat := Z.to_nat (c_end r - c_start r).
  Definition c_empty (r : crow A) : bool := (c_chunk r =? 0)%nat.
  Definition c_lp (r : crow A) : nat := if c_empty r then 0%nat else Z.to_nat (- c_start r).
  Definition c_rp (r : crow A) : nat :=
    if c_empty r then 0%nat else Z.to_nat (c_end r - Z.of_nat (c_len r)).
  Definition c_start_ (r : crow A) : Z := Z.max (c_start r) 0.
  Definition c_end_ (r : crow A) : Z := Z.min (c_end r) (Z.of_nat (c_len r)).
  Definition c_slice (r : crow A) : nat := Z.to_nat (c_end_ r - c_start_ r).
  Definition c_mid (r : crow A) : nat := (c_lp r + c_slice r)%nat.
  Definition c_right (r : crow A) : nat := (c_lp r + c_slice r + c_rp r)%nat.
  Definition c_offset (r : crow A) : nat := Z.to_nat (c_start_ r - Z.of_nat (c_len r)).
  Definition c_keep (r : crow A) : bool := (0 <? c_offset r)%nat.
  (* right_pad -= offset (may go negative) *)
  Definition c_rp' (r : crow A) : Z := Z.of_nat (c_rp r) - Z.of_nat (c_offset r).

  Definition chunk_rows (T : nat) (d fill : A) (md : mode) (rows : list (crow A))
    : res (list (list A) * list nat) :=
    let N := length rows in
    if (N =? 0)%nat
    then Ok ([], [])  (* if not N: return x.new_empty(x.shape), slices.new_zeros((N,)) *)
    else
    bind (get_padding_buffers c_cells c_len c_lp c_rp T d md rows) (fun bufs =>
      let Tp := Nat.max (Nat.max (list_max (map c_lp rows)) (list_max (map c_chunk rows)))
                        (list_max (map c_rp rows)) in
      let slice_mask :=
        map (fun r => map (fun t => (c_start r <=? Z.of_nat t) && (Z.of_nat t <? c_end_ r))
                          (seq 0 T)) rows in
      let xs := select2 slice_mask (map c_cells rows) in
      let chunks := repeat (repeat fill Tp) N in
      bind (match md with
            | Constant => Ok chunks
            | _ =>
                bind (scatter2 N Tp (lt_mask c_lp Tp rows) chunks (fst bufs)) (fun chunks =>
                (* right_mask = ((left_pad+slice_lens+right_pad) > arange) & ~mid_mask *)
                bind (scatter2 N Tp (between_mask c_mid c_right Tp rows) chunks (snd bufs))
                (fun chunks =>
                match md with
                | Reflect =>
                    let sel_mask :=
                      map (fun r => map (fun t => ((t <? c_right r)%nat && negb (t <? c_mid r)%nat)
                                                  && (c_mid r + c_offset r <=? t)%nat && c_keep r)
                                        (seq 0 Tp)) rows in
                    let right_buf := select2 sel_mask chunks in
                    let put_mask :=
                      map (fun r => map (fun t => ((Z.of_nat t <? c_rp' r) && c_keep r)
                                                  && negb (t <? c_mid r)%nat)
                                        (seq 0 Tp)) rows in
                    scatter2 N Tp put_mask chunks right_buf
                | _ => Ok chunks
                end))
            end)
      (fun chunks =>
         bind (scatter2 N Tp (between_mask c_lp c_mid Tp rows) chunks xs) (fun chunks =>
         Ok (chunks, map c_chunk rows)))).

  Definition zip_crows (T : nat) (x : list (list A)) (slices : list (Z * Z))
             (lens : option (list nat)) : list (crow A) :=
    map (fun n => mkCrow (nth n x [])
                         (match lens with Some l => nth n l 0%nat | None => T end)
                         (fst (nth n slices (0, 0))) (snd (nth n slices (0, 0))))
        (seq 0 (length x)).

  (* slices of the wrong shape are outside the model (the harness always passes (N, 2)) *)
  Definition chunk_by_slices (T : nat) (d fill : A) (md : mode)
             (x : list (list A)) (slices : list (Z * Z)) (lens : option (list nat))
    : res (list (list A) * list nat) :=
    let N := length x in
    if (N =? 0)%nat then chunk_rows T d fill md (zip_crows T x slices lens)
    else match lens with
         | Some l => if (length l =? N)%nat then chunk_rows T d fill md (zip_crows T x slices lens)
                     else ErrRuntime
         | None => chunk_rows T d fill md (zip_crows T x slices lens)
         end.
End Chunk.

(* ---- pad_masked_sequence ---------------------------------------------------------------- *)
Section Masked.
  Context {A : Type}.

  (* batch-first core: rows = (x[n], mask[n]) *)
  Definition pad_masked_rows (T : nat) (fill : A) (rows : list (list A * list bool))
    : res (list (list A) * list nat) :=
    let lens := map (fun r => count_true (snd r)) rows in             (* mask.sum(1) *)
    let lmask := lt_mask (fun r => count_true (snd r)) T rows in      (* lens > arange(T) *)
    let x_ := map (fun r => map (fun _ => fill) (fst r)) rows in      (* full_like *)
    bind (scatter2 (length rows) T lmask x_ (select2 (map snd rows) (map fst rows)))
         (fun out => Ok (out, lens)).

  (* x.transpose(0, 1) of a (t, n) tensor *)
  Definition transpose {B} (n : nat) (d : B) (x : list (list B)) : list (list B) :=
    map (fun i => map (fun row => nth i row d) x) (seq 0 n).

  (* N = batch size, T = sequence length; x is (N, T) if batch_first else (T, N) *)
  Definition pad_masked_sequence (N T : nat) (d fill : A) (batch_first : bool)
             (x : list (list A)) (mask : list (list bool)) : res (list (list A) * list nat) :=
    if batch_first then pad_masked_rows T fill (combine x mask)
    else match pad_masked_rows T fill (combine (transpose N d x) (transpose N false mask)) with
         | Ok (o, l) => Ok (transpose T d o, l)
         | ErrValue => ErrValue | ErrRuntime => ErrRuntime | ErrNotImpl => ErrNotImpl
         end.
End Masked.

(* ---- random_shift / RandomShift ---------------------------------------------------------- *)
(* .long(): truncation toward zero *)
Definition trunc (q : Q) : Z := if Qle_bool 0 q then Qfloor q else (- Qfloor (- q))%Z.

(* (prop * in_lens.float() * u).long(); a negative value would be a negative pad, which is
   outside the model (prop >= 0 is enforced by RandomShift.__init__, u is in [0,1)) *)
Definition shift_amount (p : Q) (len : nat) (u : Q) : nat :=
  Z.to_nat (trunc (p * inject_Z (Z.of_nat len) * u)).

Fixpoint map2 {X Y W} (f : X -> Y -> W) (a : list X) (b : list Y) : list W :=
  match a, b with
  | x :: a', y :: b' => f x y :: map2 f a' b'
  | _, _ => []
  end.

(* RandomShift.__init__ *)
Definition random_shift_init (md : mode) (p0 p1 : Q) : res unit :=
  if Qle_bool 0 p0 && Qle_bool 0 p1 then
    match md with
    | OtherMode => ErrValue
    | Reflect => if Qle_bool p0 1 && Qle_bool p1 1 then Ok tt else ErrNotImpl
    | _ => Ok tt
    end
  else ErrValue.

Section Shift.
  Context {A : Type}.
  (* u0, u1: the two rows of torch.rand_like(pad) *)
  Definition random_shift (T : nat) (d fill : A) (md : mode) (p0 p1 : Q) (training : bool)
             (x : list (list A)) (lens : list nat) (u0 u1 : list Q)
    : res (list (list A) * list nat) :=
    if negb (length lens =? length x) then ErrRuntime
    else if training then
      let pl := map2 (shift_amount p0) lens u0 in
      let pr := map2 (shift_amount p1) lens u1 in
      let out_lens := map2 Nat.add lens (map2 Nat.add pl pr) in
      bind (pad_variable T d fill md x lens pl pr) (fun out => Ok (out, out_lens))
    else Ok (x, lens).
End Shift.

(* ---- correspondence entry points (A = list Z: a cell is its F flattened features) -------- *)
Definition zcell := list Z.
Definition cell_eqb (a b : zcell) : bool := if list_eq_dec Z.eq_dec a b then true else false.
Fixpoint list_eqb {X} (e : X -> X -> bool) (a b : list X) : bool :=
  match a, b with
  | [], [] => true
  | x :: a', y :: b' => e x y && list_eqb e a' b'
  | _, _ => false
  end.
Definition tensor_eqb := list_eqb (list_eqb cell_eqb).

(* implementation outcome: 0 = ok, 1 = ValueError, 2 = RuntimeError, 3 = NotImplementedError *)
Definition res_code {X} (r : res X) : nat :=
  match r with Ok _ => 0 | ErrValue => 1 | ErrRuntime => 2 | ErrNotImpl => 3 end.

Definition res_eqb {X} (e : X -> X -> bool) (m : res X) (code : nat) (impl : option X) : bool :=
  match m, impl with
  | Ok a, Some b => Nat.eqb code 0 && e a b
  | Ok _, None => false
  | _, Some _ => false
  | r, None => Nat.eqb (res_code r) code
  end.

Definition pair_eqb (a b : list (list zcell) * list nat) : bool :=
  tensor_eqb (fst a) (fst b) && list_eqb Nat.eqb (snd a) (snd b).

Definition fillc (F : nat) (v : Z) : zcell := repeat v F.

Definition check_pad (T F : nat) (v : Z) (md : mode) x lens pl pr
           (code : nat) (impl : option (list (list zcell))) : bool :=
  res_eqb tensor_eqb (pad_variable T [] (fillc F v) md x lens pl pr) code impl.

Definition check_chunk (T F : nat) (v : Z) (md : mode) x slices lens
           (code : nat) (impl : option (list (list zcell) * list nat)) : bool :=
  res_eqb pair_eqb (chunk_by_slices T [] (fillc F v) md x slices lens) code impl.

Definition check_masked (N T F : nat) (v : Z) (bf : bool) x mask
           (code : nat) (impl : option (list (list zcell) * list nat)) : bool :=
  res_eqb pair_eqb (pad_masked_sequence N T [] (fillc F v) bf x mask) code impl.

Definition check_shift (T F : nat) (v : Z) (md : mode) (p0 p1 : Q) (training : bool) x lens u0 u1
           (code : nat) (impl : option (list (list zcell) * list nat)) : bool :=
  res_eqb pair_eqb
          (bind (random_shift_init md p0 p1) (fun _ =>
                 random_shift T [] (fillc F v) md p0 p1 training x lens u0 u1)) code impl.
