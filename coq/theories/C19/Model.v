(* C19 - estimators (src/pydrobert/torch/_mc.py, _enumerate_estimator.py), relaxed distributions
   (_straight_through.py) and fixed-cardinality sampling / support enumeration (_combinatorics.py).

   Executable model of what the code does.  No proofs in this file.

   Conventions
   * A tensor with gradient is a DUAL number (value, derivative along one fixed but arbitrary direction
     of parameter space).  [detach] zeroes the derivative.  A full gradient is the collection of the
     derivatives along the coordinate directions; the harness checks every coordinate.
   * A finite distribution is a table of (probability, derivative of the probability) per outcome; a sample
     is an outcome index; a Monte-Carlo draw of N samples is a list of N indices.
   * A log-probability that is only ever exponentiated is kept in the exp domain as an LDUAL
     (exp of the value, derivative of the value).  Where the code multiplies by a log-probability itself
     (REINFORCE surrogate), its float value is passed in as data (it cancels; the theorems hold for any value).
   * Formulas with exp/log (relaxed distributions) are written once over an abstract carrier with an
     [arith] record; they are executed over Q with torch's exp/log results supplied as a lookup table and
     reasoned about over R with the real exp/ln (see RProofs.v). *)
From Coq Require Import List ZArith QArith Qabs Bool.
Import ListNotations.
Local Open Scope Q_scope.

(* ------------------------------------------------------------------------------------------ *)
(* generic list helpers                                                                         *)
(* ------------------------------------------------------------------------------------------ *)
Fixpoint map2 {A B C} (f : A -> B -> C) (la : list A) (lb : list B) : list C :=
  match la, lb with
  | a :: ta, b :: tb => f a b :: map2 f ta tb
  | _, _ => []
  end.

Fixpoint forallb2 {A B} (f : A -> B -> bool) (la : list A) (lb : list B) : bool :=
  match la, lb with
  | [], [] => true
  | a :: ta, b :: tb => f a b && forallb2 f ta tb
  | _, _ => false
  end.

(* [Qred] (normalisation of the fraction, == identity) keeps the numbers small when the model is executed *)
Definition Qsum (l : list Q) : Q := fold_right (fun x acc => Qred (x + acc)) 0 l.
Definition Qprod (l : list Q) : Q := fold_right Qmult 1 l.
Definition Qn (n : nat) : Q := inject_Z (Z.of_nat n).

(* ------------------------------------------------------------------------------------------ *)
(* dual numbers                                                                                 *)
(* ------------------------------------------------------------------------------------------ *)
Definition dual := (Q * Q)%type.
Definition dzero : dual := (0, 0).
Definition dconst (q : Q) : dual := (q, 0).
Definition dadd (a b : dual) : dual := (fst a + fst b, snd a + snd b).
Definition dsub (a b : dual) : dual := (fst a - fst b, snd a - snd b).
Definition dmul (a b : dual) : dual := (fst a * fst b, fst a * snd b + snd a * fst b).
Definition dscale (q : Q) (a : dual) : dual := (q * fst a, q * snd a).
Definition detach (a : dual) : dual := (fst a, 0).
Definition dred (a : dual) : dual := (Qred (fst a), Qred (snd a)).
Definition dsum (l : list dual) : dual := fold_right (fun x acc => dred (dadd x acc)) dzero l.
(* tensor.mean(0) = sum / N *)
Definition dmean (l : list dual) : dual := dscale (/ Qn (length l)) (dsum l).

(* log-domain number: (exp of the value, derivative of the value) *)
Definition ldual := (Q * Q)%type.
Definition lsub (a b : ldual) : ldual := (fst a / fst b, snd a - snd b).
Definition lexp (a : ldual) : dual := (fst a, fst a * snd a).
Definition ldetach (a : ldual) : ldual := (fst a, 0).

(* ------------------------------------------------------------------------------------------ *)
(* finite distributions and the sample space                                                    *)
(* ------------------------------------------------------------------------------------------ *)
(* one table entry = (probability, derivative of the probability) *)
Definition ptable := list (Q * Q).

(* joint table of independent variables, first variable slowest (itertools.product order) *)
Fixpoint joint (vs : list ptable) : ptable :=
  match vs with
  | [] => [(1, 0)]
  | v :: rest =>
      let r := joint rest in
      flat_map (fun a => map (fun b => (fst a * fst b, fst a * snd b + snd a * fst b)) r) v
  end.

(* all N-tuples of outcome indices 0..n-1, itertools.product(range(n), repeat=N) order *)
Fixpoint tuples (n N : nat) : list (list nat) :=
  match N with
  | O => [[]]
  | S N' => flat_map (fun i => map (cons i) (tuples n N')) (seq 0 n)
  end.

Definition pr (pd : ptable) (i : nat) : Q := fst (nth i pd (0, 0)).
Definition dpr (pd : ptable) (i : nat) : Q := snd (nth i pd (0, 0)).
(* d log p = dp / p *)
Definition dlogp (pd : ptable) (i : nat) : Q := dpr pd i / pr pd i.
Definition lprob (pd : ptable) (i : nat) : ldual := (pr pd i, dlogp pd i).

(* exact expectation of a table of duals and its exact derivative:  (sum p f, sum dp f + p df) *)
Definition expect_dual (pd : ptable) (f : list dual) : dual :=
  dsum (map2 (fun p fi => (fst p * fst fi, snd p * fst fi + fst p * snd fi)) pd f).

Definition fn (f : list dual) (i : nat) : dual := nth i f dzero.

(* ------------------------------------------------------------------------------------------ *)
(* _mc.py::DirectEstimator.__call__ (is_log = False)                                            *)
(* ------------------------------------------------------------------------------------------ *)
Record draw := mkDraw { d_f : dual; d_cv : dual; d_logp : dual }.

Definition direct (use_cv : bool) (cv_mean : dual) (ds : list draw) : dual :=
  (* fb = func(b); if cv: fb = fb - cv(b) + cv_mean *)
  let fb := map (fun d => if use_cv then dadd (dsub (d_f d) (d_cv d)) cv_mean else d_f d) ds in
  (* deriv = (fb.detach() * log_pb).mean(0) *)
  let deriv := dmean (map2 (fun f d => dmul (detach f) (d_logp d)) fb ds) in
  (* fb = fb.mean(0);  v = fb + deriv - deriv.detach() *)
  let fbm := dmean fb in
  dsub (dadd fbm deriv) (detach deriv).

(* the estimator on the sample tuple [t]; [ell] = float value of log P(b) per outcome (data) *)
Definition direct_at (use_cv : bool) (cv_mean : dual) (pd : ptable) (f cv : list dual) (ell : list Q)
  (t : list nat) : dual :=
  direct use_cv cv_mean
    (map (fun i => mkDraw (fn f i) (fn cv i) (nth i ell 0, dlogp pd i)) t).

(* ------------------------------------------------------------------------------------------ *)
(* _mc.py::ImportanceSamplingEstimator.__call__ (is_log = False)                                *)
(* ------------------------------------------------------------------------------------------ *)
(* log_softmax over dim 0 in the exp domain: x_n / sum x, d_n - sum (x d) / sum x *)
Definition llog_softmax (l : list ldual) : list ldual :=
  let s := Qsum (map fst l) in
  let sd := Qsum (map (fun a => fst a * snd a) l) in
  map (fun a => (fst a / s, snd a - sd / s)) l.

Definition importance (self_norm : bool) (fs : list dual) (lps lqs : list ldual) : dual :=
  (* lqb = lqb.detach() + 0 * lqb.sum() *)
  let z := 0 * Qsum (map snd lqs) in
  let lqs' := map (fun l => (fst (ldetach l), snd (ldetach l) + z)) lqs in
  let lr := map2 lsub lps lqs' in
  (* llr = (lpb - lqb).log_softmax(0)   or   lpb - lqb - log(mc_samples) *)
  let llr := if self_norm then llog_softmax lr
             else map (fun l => lsub l (Qn (length fs), 0)) lr in
  (* v = (fb * llr.exp()).sum(0) *)
  dsum (map2 (fun f l => dmul f (lexp l)) fs llr).

Definition importance_at (self_norm : bool) (pd qd : ptable) (f : list dual) (t : list nat) : dual :=
  importance self_norm (map (fn f) t) (map (lprob pd) t) (map (lprob qd) t).

(* ------------------------------------------------------------------------------------------ *)
(* _enumerate_estimator.py::EnumerateEstimator.__call__ (is_log = False)                        *)
(* ------------------------------------------------------------------------------------------ *)
(* b = enumerate_support(); v = (func(b) * log_prob(b).exp()).sum(0) *)
Definition enumerate_est (pd : ptable) (f : list dual) : dual :=
  dsum (map2 (fun fi i => dmul fi (lexp (lprob pd i))) f (seq 0 (length pd))).

(* ------------------------------------------------------------------------------------------ *)
(* _mc.py::StraightThroughEstimator / RelaxEstimator (is_log = False, no variance-minimising    *)
(* branch).  One record per Monte-Carlo sample n: f(b_n), cv(z_n), cv(zcond_n), tlog_prob(b_n)  *)
(* ------------------------------------------------------------------------------------------ *)
Definition straight_through (fs : list dual) : dual := dmean fs.

Record rdraw := mkRdraw { r_f : dual; r_cvz : dual; r_cvzc : dual; r_logp : dual }.

Definition relax (ds : list rdraw) : dual :=
  (* fb_cvzcond = fb - cvzcond *)
  let fc := map (fun d => dsub (r_f d) (r_cvzc d)) ds in
  (* deriv = fb_cvzcond.detach() * log_pb     (per sample) *)
  let deriv := map2 (fun a d => dmul (detach a) (r_logp d)) fc ds in
  (* fb = (fb_cvzcond + cvz).mean(0) *)
  let fbm := dmean (map2 (fun a d => dadd a (r_cvz d)) fc ds) in
  (* v = fb + deriv - deriv.detach(); return v.mean(0) *)
  dmean (map (fun dv => dsub (dadd fbm dv) (detach dv)) deriv).

(* ------------------------------------------------------------------------------------------ *)
(* _mc.py::IndependentMetropolisHastingsEstimator (is_log = False)                              *)
(* ------------------------------------------------------------------------------------------ *)
(* find_initial_sample, batched: every draw is a list of one outcome per batch element;
   [insupp j i] = density.log_prob is finite on outcome i of element j.
   Returns the initial sample and the number of draws consumed; None = RuntimeError. *)
Definition all_in (insupp : nat -> nat -> bool) (s : list nat) : bool :=
  forallb (fun ji => insupp (fst ji) (snd ji)) (combine (seq 0 (length s)) s).

Fixpoint find_more (insupp : nat -> nat -> bool) (sample : list nat) (draws : list (list nat))
  (tries used : nat) : option (list nat * nat) :=
  match tries with
  | O => None
  | S tries' =>
      match draws with
      | [] => None
      | cur :: rest =>
          (* sample = where(keep, sample, cur_sample) *)
          let sample' := map2 (fun ji c => if insupp (fst ji) (snd ji) then snd ji else c)
                              (combine (seq 0 (length sample)) sample) cur in
          if all_in insupp sample' then Some (sample', S used)
          else find_more insupp sample' rest tries' (S used)
      end
  end.

Definition find_initial (insupp : nat -> nat -> bool) (draws : list (list nat)) (tries : nat)
  : option (list nat * nat) :=
  match draws with
  | [] => None
  | d0 :: rest => if all_in insupp d0 then Some (d0, 1%nat)
                  else find_more insupp d0 rest (tries - 1) 1
  end.

(* the chain of one batch element.  [w i] = P(i)/Q(i) >= 0 is the exponential of the log-ratio
   log P(i) - log Q(i) the code keeps; the ratio of the current state is [Some w] or [None] = NaN.
     accept    = (cur_ratio - last_ratio) > log u        <->  u * w_last < w_cur   (false when NaN)
     cur_ratio = accept * cur_ratio + (~accept) * last_ratio
   so rejecting a proposal of zero target density (cur_ratio = -inf) leaves 0 * -inf = NaN as the
   stored ratio, after which nothing is accepted any more - this is what the code does. *)
Fixpoint imh_chain (w : nat -> Q) (last : nat) (lastw : option Q) (props : list nat) (us : list Q)
  : list nat :=
  match props, us with
  | c :: ps, u :: us' =>
      let acc := match lastw with
                 | None => false
                 | Some wl => negb (Qle_bool (w c) (u * wl))
                 end in
      let nxt := if acc then c else last in
      let nw := if acc then Some (w c) else if Qle_bool (w c) 0 then None else lastw in
      nxt :: imh_chain w nxt nw ps us'
  | _, _ => []
  end.

(* v = sum of func over the chain after burn-in / (mc_samples - burn_in) *)
Definition imh_value (f : nat -> Q) (chain : list nat) (burn : nat) : Q :=
  Qsum (map f (skipn burn chain)) / Qn (length chain - burn).

(* whole call for one batch element j: start (given or found), then the chain *)
Definition imh_element (w : nat -> Q) (f : nat -> Q) (init : nat) (props : list nat) (us : list Q)
  (burn : nat) : Q := imh_value f (imh_chain w init (Some (w init)) props us) burn.

(* ------------------------------------------------------------------------------------------ *)
(* correspondence entry points for the estimators                                               *)
(* ------------------------------------------------------------------------------------------ *)
Definition close (tol a b : Q) : bool := Qle_bool (Qabs (a - b)) (tol * (1 + Qabs b)).
Definition dclose (tol : Q) (a b : dual) : bool := close tol (fst a) (fst b) && close tol (snd a) (snd b).

Definition mkjoint (vars dvars : list (list Q)) : ptable := joint (map2 (@combine Q Q) vars dvars).

(* model outputs for every sample tuple, for one direction *)
Definition direct_all (N : nat) (use_cv : bool) (vars dvars : list (list Q))
  (fval fder cvval cvder ell : list Q) : list dual :=
  let pd := mkjoint vars dvars in
  let f := combine fval fder in
  let cv := combine cvval cvder in
  let cvm := expect_dual pd cv in
  map (direct_at use_cv cvm pd f cv ell) (tuples (length pd) N).

Definition importance_all (N : nat) (self_norm : bool) (pvars dpvars qvars dqvars : list (list Q))
  (fval fder : list Q) : list dual :=
  let pd := mkjoint pvars dpvars in
  let qd := mkjoint qvars dqvars in
  map (importance_at self_norm pd qd (combine fval fder)) (tuples (length qd) N).

Definition check_all (tol : Q) (model impl : list dual) : bool := forallb2 (dclose tol) model impl.

(* impl = per batch element: initial sample found, draws used, estimate *)
Definition imh_check (tol : Q) (w f : list (list Q)) (given : option (list nat)) (draws : list (list nat))
  (tries : nat) (us : list (list Q)) (N burn : nat)
  (impl : option (list Q)) : bool :=
  let insupp := fun j i => negb (Qle_bool (nth i (nth j w []) 0) 0) in
  let start := match given with
               | Some s => Some (s, O)
               | None => find_initial insupp draws tries
               end in
  match start, impl with
  | None, None => true
  | Some (s, used), Some vs =>
      let props := firstn N (skipn used draws) in
      forallb2 (fun j v =>
                  close tol
                    (imh_element (fun i => nth i (nth j w []) 0) (fun i => nth i (nth j f []) 0)
                       (nth j s O) (map (fun d => nth j d O) props) (map (fun u => nth j u 0) us) burn)
                    v)
               (seq 0 (length s)) vs
  | _, _ => false
  end.
