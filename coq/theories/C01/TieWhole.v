(* C01 - the blocks composed: from the state the preamble leaves (TieBlocks.stageA) the interpreted
   sm_row0; sm_main; sm_fin return, for every pair n, the float of PV.C01.Model.pair_ed on column n
   ([tail_is_model]); with the preamble ([TiePre]) this gives the whole-function theorems of Tie.v. *)
From Coq Require Import ZArith QArith List String Bool Arith Lia ZifyBool ZifyNat.
From PV Require Import MiniPy.Syntax MiniPy.Interp MiniPy.Lemmas MiniTorch.Ops MiniTorch.Lemmas MiniTorch.OpsC07 MiniTorch.LemmasC07
  MiniTorch.OpsC01 MiniTorch.LemmasC01.
From PV Require Import Gen.C01Src C01.SrcRun C01.TieLib C01.TieMath C01.TieLoop C01.TieBlocks.
From PV Require C01.Obs C01.Model C01.Proofs.
Import ListNotations.
Local Open Scope string_scope.

#[local] Arguments dec01 : simpl never.
#[local] Arguments enc_b : simpl never.
#[local] Arguments enc_i : simpl never.
#[local] Arguments enc_x : simpl never.
#[local] Arguments tab2 : simpl never.
#[local] Arguments tab3 : simpl never.
#[local] Arguments qz : simpl never.
#[local] Arguments Z.add : simpl never.
#[local] Arguments Z.sub : simpl never.
#[local] Arguments Z.of_nat : simpl never.
#[local] Arguments select0 : simpl never.
#[local] Arguments slice0 : simpl never.
#[local] Arguments set_slice0 : simpl never.
#[local] Arguments broadcast : simpl never.
#[local] Arguments where_f : simpl never.
#[local] Arguments min_dim : simpl never.
#[local] Arguments gather0 : simpl never.
#[local] Arguments unsqueeze : simpl never.
#[local] Arguments squeeze_dim : simpl never.
#[local] Arguments expand2 : simpl never.
#[local] Arguments triu_f : simpl never.
#[local] Arguments transpose2 : simpl never.
#[local] Arguments arange_f : simpl never.
#[local] Arguments full : simpl never.
#[local] Arguments fadd : simpl never.
#[local] Arguments fsub : simpl never.
#[local] Arguments fmul : simpl never.
#[local] Arguments fdiv : simpl never.
#[local] Arguments fmin : simpl never.
#[local] Arguments b2f : simpl never.
#[local] Arguments z2f : simpl never.

#[local] Arguments ext01 : simpl never.
#[local] Arguments zf : simpl never.
#[local] Arguments ofx : simpl never.
#[local] Arguments seq : simpl never.

Lemma returns_seq : forall (P : state -> Prop) v a b st,
  runs_to P (exec ext01 a st) -> (forall st1, P st1 -> returns v (exec ext01 b st1)) ->
  returns v (exec ext01 (SSeq a b) st).
Proof. intros P v a b st [st1 [He P1]] Hb. cbn [exec]. rewrite He. cbn [bind]. now apply Hb. Qed.

(* a loop statement with the property of TieLoop.loop_tie *)
Definition loop_ok (lp : stmt) : Prop :=
  forall s ci cd cs R N H rf hf hl vrl vmult vnorm vwarn st lf,
    body_pre s ci cd cs R N H rf hf hl vrl vmult vnorm vwarn lf st ->
    lookup "max_hyp_steps" (vars st) = Some (VInt (Z.of_nat H)) ->
    runs_to (body_pre s ci cd cs R N H rf hf hl vrl vmult vnorm vwarn
               (fun i n => nth i (iter_col ci cd cs R H rf hf hl H 0 lf n) 0%Z)) (exec ext01 lp st).

Lemma sm_loop_ok : loop_ok sm_loop.
Proof. unfold loop_ok. intros. now apply loop_tie. Qed.

Section Tail.
  Variables (s : positive) (ci cd cs : Z) (mult : Q) (R N H : nat) (rf hf : nat -> nat -> Z) (rl hl : nat -> nat) (nm w : bool).

  Theorem tail_run_gen : forall lp, loop_ok lp -> forall st, (forall n, (n < N)%nat -> (rl n <= R)%nat) ->
    known st (stageA s ci cd cs mult R N H rf hf rl hl nm w) ->
    returns (enc_x (mkTn [N] (map (fin_value s ci cd cs mult R H rf hf rl hl nm) (seq 0 N))))
            (exec ext01 (SSeq sm_row0 (SSeq (SSeq main_flags (SSeq lp main_rest)) sm_fin)) st).
  Proof.
    intros lp Hlp st Hrl K.
    eapply returns_seq; [apply row0_run; exact K|]. intros st1 K1.
    eapply returns_seq; [apply main_run_gen; [intros; now apply Hlp|exact Hrl|exact K1]|]. intros st2 K2.
    eapply fin_run. exact K2.
  Qed.

  Theorem tail_run : forall st, (forall n, (n < N)%nat -> (rl n <= R)%nat) ->
    known st (stageA s ci cd cs mult R N H rf hf rl hl nm w) ->
    returns (enc_x (mkTn [N] (map (fin_value s ci cd cs mult R H rf hf rl hl nm) (seq 0 N))))
            (exec ext01 (SSeq sm_row0 (SSeq sm_main sm_fin)) st).
  Proof. rewrite sm_main_eq. apply tail_run_gen. exact sm_loop_ok. Qed.
End Tail.

(* ---- the value of a model result as the float the source computes ------------------------------------------ *)
Definition val_fx (s : positive) (v : C01.Obs.val) : fx :=
  match v with
  | C01.Obs.Cost x => zf s x
  | C01.Obs.Ratio n d => Fq (Qred (qz s n / inject_Z (Z.of_nat d)))
  | C01.Obs.Lit z => z2f z
  end.

Definition uniformb (i d sb : Z) : bool := ((i =? d) && (d =? sb) && (0 <? sb))%Z.

(* the effective scale, costs and mult after the uniform-cost shortcut *)
Definition eff_scale (s : positive) (c : C01.Model.cfg) : positive :=
  if uniformb (C01.Model.c_ins c) (C01.Model.c_del c) (C01.Model.c_sub c) then 1%positive else s.
Definition eff_ci (c : C01.Model.cfg) : Z :=
  if uniformb (C01.Model.c_ins c) (C01.Model.c_del c) (C01.Model.c_sub c) then 1%Z else C01.Model.c_ins c.
Definition eff_cd (c : C01.Model.cfg) : Z :=
  if uniformb (C01.Model.c_ins c) (C01.Model.c_del c) (C01.Model.c_sub c) then 1%Z else C01.Model.c_del c.
Definition eff_cs (c : C01.Model.cfg) : Z :=
  if uniformb (C01.Model.c_ins c) (C01.Model.c_del c) (C01.Model.c_sub c) then 1%Z else C01.Model.c_sub c.
Definition eff_mult (s : positive) (c : C01.Model.cfg) : Q :=
  if uniformb (C01.Model.c_ins c) (C01.Model.c_del c) (C01.Model.c_sub c) then qz s (C01.Model.c_ins c) else 1%Q.

Lemma pair_value : forall (s : positive) (c : C01.Model.cfg) (R H : nat) (r h : list Z),
  List.length r = R -> List.length h = H ->
  let rlen := C01.Model.eff_len (C01.Model.c_eos c) (C01.Model.c_incl c) r in
  let hlen := C01.Model.eff_len (C01.Model.c_eos c) (C01.Model.c_incl c) h in
  (let x := fmul (zf (eff_scale s c)
                    (nth rlen (iter_rows (eff_ci c) (eff_cd c) (eff_cs c) r h hlen H 1
                                 (map (fun i => Z.of_nat i * eff_cd c)%Z (seq 0 (S R)))) 0%Z))
                 (Fq (eff_mult s c)) in
   if C01.Model.c_norm c
   then (if (Z.of_nat rlen =? 0)%Z then b2f (Z.of_nat hlen >? 0)%Z else fdiv x (z2f (Z.of_nat rlen)))
   else x)
  = val_fx s (C01.Model.pair_ed c r h).
Proof.
  intros s c R H r h Lr Lh rlen hlen.
  unfold C01.Model.pair_ed, C01.Model.eff_costs, eff_scale, eff_ci, eff_cd, eff_cs, eff_mult, uniformb.
  fold rlen. fold hlen.
  destruct ((C01.Model.c_ins c =? C01.Model.c_del c) && (C01.Model.c_del c =? C01.Model.c_sub c) && (0 <? C01.Model.c_sub c))%Z.
  - assert (E0 : map (fun i => Z.of_nat i * 1)%Z (seq 0 (S R)) = C01.Model.row0 1 r) by (unfold C01.Model.row0; now rewrite Lr).
    rewrite E0, iter_rows_all, Lh. clear E0.
    set (v := nth rlen _ 0%Z). unfold C01.Model.normalise.
    assert (Ex : fmul (zf 1 v) (Fq (qz s (C01.Model.c_ins c))) = zf s (v * C01.Model.c_ins c)).
    { unfold fmul, zf. now rewrite qz_mul_1_s. }
    cbv zeta. rewrite Ex. destruct (C01.Model.c_norm c); [|reflexivity].
    replace (Z.of_nat rlen =? 0)%Z with (Nat.eqb rlen 0) by lia. destruct (Nat.eqb rlen 0) eqn:E0; cbn [val_fx].
    + replace (Z.of_nat hlen >? 0)%Z with (0 <? hlen)%nat by lia. destruct (0 <? hlen)%nat; reflexivity.
    + unfold fdiv, zf, z2f. replace (Qeq_bool (inject_Z (Z.of_nat rlen)) 0) with false; [reflexivity|].
      symmetry. apply not_true_is_false. intros E. apply Qeq_bool_iff in E. unfold Qeq in E. cbn in E. lia.
  - assert (E0 : map (fun i => Z.of_nat i * C01.Model.c_del c)%Z (seq 0 (S R)) = C01.Model.row0 (C01.Model.c_del c) r)
      by (unfold C01.Model.row0; now rewrite Lr).
    rewrite E0, iter_rows_all, Lh. clear E0.
    set (v := nth rlen _ 0%Z). unfold C01.Model.normalise.
    assert (Ex : fmul (zf s v) (Fq 1) = zf s (v * 1)).
    { unfold fmul, zf. rewrite qz_mul_s_1. now rewrite Z.mul_1_r. }
    cbv zeta. rewrite Ex. destruct (C01.Model.c_norm c); [|reflexivity].
    replace (Z.of_nat rlen =? 0)%Z with (Nat.eqb rlen 0) by lia. destruct (Nat.eqb rlen 0) eqn:E0; cbn [val_fx].
    + replace (Z.of_nat hlen >? 0)%Z with (0 <? hlen)%nat by lia. destruct (0 <? hlen)%nat; reflexivity.
    + unfold fdiv, zf, z2f. replace (Qeq_bool (inject_Z (Z.of_nat rlen)) 0) with false; [reflexivity|].
      symmetry. apply not_true_is_false. intros E. apply Qeq_bool_iff in E. unfold Qeq in E. cbn in E. lia.
Qed.
