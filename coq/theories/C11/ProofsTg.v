(* C11 - lemmas: TextGrid write/read round trip to the print precision, gap filling. *)
From Coq Require Import List ZArith Bool Lia QArith Qround Qabs Lqa Sorted Permutation.
From PV Require Import C11.Model C11.Spec C11.ProofsSort C11.ProofsTrn C11.ProofsCtm C11.ProofsNum.
Import ListNotations.
Local Open Scope Z_scope.

(* ---------- lines / unlines -------------------------------------------------------------------- *)

Lemma lines_unlines ls : Forall (fun l => ~ In c_nl l) ls -> lines (unlines ls) = ls.
Proof.
  unfold lines, unlines. induction 1 as [|l ls Hl _ IH]; [reflexivity|].
  cbn [map concat]. rewrite <- app_assoc. cbn [app]. rewrite (lines_aux_app l Hl). cbn [rev app].
  f_equal. exact IH.
Qed.

Lemma unquote_quoted t : unquote (quoted t) = Some t.
Proof.
  unfold unquote, quoted. rewrite Z.eqb_refl. rewrite rev_app_distr. cbn [rev app].
  rewrite Z.eqb_refl. rewrite rev_involutive. reflexivity.
Qed.

(* ---------- what the writer writes ------------------------------------------------------------- *)



Definition entry_lines (p : nat) (point : bool) (x : entry) : list str :=
  if point then [fmt_time p (e_start x); quoted (e_tok x)]
  else [fmt_time p (e_start x); fmt_time p (e_end x); quoted (e_tok x)].

Lemma write_shape tr st en name pt p file :
  write_textgrid_file tr st en name pt p = Ok file ->
  tr <> [] /\ exists a b,
    file = unlines ([s_filetype; s_objclass; fmt_time p a; fmt_time p b; s_exists; [49];
                     quoted (if is_point tr pt p then s_texttier else s_intervaltier); quoted name;
                     fmt_time p (tier_min tr); fmt_time p (tier_max tr);
                     int_digits (Z.of_nat (length tr))]
                    ++ concat (map (entry_lines p (is_point tr pt p)) tr)).
Proof.
  unfold write_textgrid_file. destruct tr as [|x0 rest]; [discriminate|]. intros H. split; [discriminate|].
  fold (tier_min (x0 :: rest)) in H. fold (tier_max (x0 :: rest)) in H.
  fold (is_point (x0 :: rest) pt p) in H.
  destruct (match st with
            | Some s => if Qlt_le_dec (tier_min (x0 :: rest)) s then Raise ValueError else Ok s
            | None => Ok (tier_min (x0 :: rest)) end) as [a|e]; [|discriminate].
  destruct (match en with
            | Some e => if Qlt_le_dec e (tier_max (x0 :: rest)) then Raise ValueError else Ok e
            | None => Ok (tier_max (x0 :: rest)) end) as [b|e]; [|discriminate].
  inversion H. exists a, b. reflexivity.
Qed.

(* ---------- the reader on such a file ----------------------------------------------------------- *)


Definition raw_of (p : nat) (point : bool) (x : entry) : str * str * str :=
  (fmt_time p (e_start x), if point then fmt_time p (e_start x) else fmt_time p (e_end x), e_tok x).

Lemma tg_entries_written p point tr : forall fuel, (length tr <= fuel)%nat ->
  tg_entries fuel point (concat (map (entry_lines p point) tr)) = map (raw_of p point) tr.
Proof.
  induction tr as [|x tr IH]; intros fuel Hf.
  - destruct fuel; [reflexivity|]. cbn. destruct point; reflexivity.
  - destruct fuel as [|fuel]; [cbn in Hf; lia|].
    cbn [map concat]. unfold entry_lines at 1, raw_of at 1. destruct point.
    + cbn [app tg_entries]. rewrite unquote_quoted. f_equal. apply IH. cbn in Hf. lia.
    + cbn [app tg_entries]. rewrite unquote_quoted. f_equal. apply IH. cbn in Hf. lia.
Qed.


Lemma to_entries p point tr : Forall entry_nonneg tr ->
  all_some (map to_entry (map (raw_of p point) tr)) = Some (map (rt p point) tr).
Proof.
  induction 1 as [|x tr [Hs He] _ IH]; [reflexivity|].
  cbn [map all_some]. unfold raw_of at 1, to_entry at 1.
  rewrite (parse_fmt_time p _ Hs).
  destruct point.
  - rewrite (parse_fmt_time p _ Hs). rewrite IH. reflexivity.
  - rewrite (parse_fmt_time p _ He). rewrite IH. reflexivity.
Qed.

Lemma fill_none st xmax tr : fill_gaps None st xmax tr = tr.
Proof. revert st; induction tr as [|x tr IH]; intros st; cbn; [reflexivity|]. rewrite IH. reflexivity. Qed.

Lemma resort_entries p point tr :
  Forall entry_nonneg tr -> StronglySorted (fun a b => (e_start a <= e_start b)%Q) tr ->
  sort_by entry_start_leb (map (rt p point) tr) = map (rt p point) tr.
Proof.
  intros Hn Hs. apply sort_by_sorted. apply sorted_map.
  assert (Hn' : forall x, In x tr -> entry_nonneg x) by (apply Forall_forall; exact Hn).
  clear Hn. induction Hs as [|a l Hs IH Hf]; constructor.
  - apply IH. intros x Hx. apply Hn'. right. exact Hx.
  - rewrite Forall_forall in *. intros b Hb. specialize (Hf b Hb).
    unfold entry_start_leb, rt, e_start; cbn [fst snd].
    destruct (Qlt_le_dec _ _) as [Hlt|Hle]; [|reflexivity].
    exfalso. destruct (Hn' a (or_introl eq_refl)) as [Ha _].
    pose proof (rq_mono p _ _ Ha Hf) as Hm. unfold e_start in *. lra.
Qed.

Lemma tier_min_nonneg tr : Forall entry_nonneg tr -> (0 <= tier_min tr)%Q.
Proof.
  destruct 1 as [|x0 rest [H0 _] Hr]; [cbn; lra|]. unfold tier_min.
  revert H0. generalize (e_start x0). induction Hr as [|x l [Hx _] _ IH]; intros m Hm; cbn [fold_left]; [exact Hm|].
  apply IH. unfold qmin. destruct (Qlt_le_dec _ _); assumption.
Qed.

Lemma tier_max_nonneg tr : Forall entry_nonneg tr -> (0 <= tier_max tr)%Q.
Proof.
  destruct 1 as [|x0 rest [_ H0] Hr]; [cbn; lra|]. unfold tier_max.
  revert H0. generalize (e_end x0). induction Hr as [|x l [_ Hx] _ IH]; intros m Hm; cbn [fold_left]; [exact Hm|].
  apply IH. unfold qmax. destruct (Qlt_le_dec _ _); assumption.
Qed.


Lemma quoted_no_nl t : no_nl t -> ~ In c_nl (quoted t).
Proof.
  intros H Hin. unfold quoted in Hin. destruct Hin as [Hin|Hin]; [discriminate Hin|].
  apply in_app_or in Hin. destruct Hin as [Hin|[Hin|[]]]; [exact (H Hin)|discriminate Hin].
Qed.

Lemma entry_lines_no_nl p point tr : Forall (fun x => no_nl (e_tok x)) tr ->
  Forall (fun l => ~ In c_nl l) (concat (map (entry_lines p point) tr)).
Proof.
  induction 1 as [|x tr Hx _ IH]; [constructor|]. cbn [map concat]. apply Forall_app. split; [|exact IH].
  unfold entry_lines. destruct point; repeat constructor; try apply fmt_time_no_nl; apply quoted_no_nl; exact Hx.
Qed.

Lemma length_concat_entries p point tr :
  length (concat (map (entry_lines p point) tr)) = ((if point then 2 else 3) * length tr)%nat.
Proof.
  induction tr as [|x tr IH]; [destruct point; reflexivity|]. cbn [map concat]. rewrite app_length, IH.
  unfold entry_lines. destruct point; cbn [length]; lia.
Qed.


Lemma tg_roundtrip tr st en name pt p file tid fill :
  write_textgrid_file tr st en name pt p = Ok file ->
  Forall entry_nonneg tr -> Forall (fun x => no_nl (e_tok x)) tr -> no_nl name ->
  StronglySorted (fun a b => (e_start a <= e_start b)%Q) tr ->
  tier_id_ok tid name ->
  read_textgrid_file NumericSort file tid fill
  = Ok (fill_gaps fill (rq p (tier_min tr)) (rq p (tier_max tr)) (map (rt p (is_point tr pt p)) tr),
        rq p (tier_min tr), rq p (tier_max tr)).
Proof.
  intros Hw Hnn Htok Hname Hsorted Htid.
  destruct (write_shape _ _ _ _ _ _ _ Hw) as [Hne [a [b Hfile]]]. subst file.
  set (point := is_point tr pt p).
  unfold read_textgrid_file. rewrite lines_unlines.
  2:{ apply Forall_app. split.
      - repeat constructor; try apply fmt_time_no_nl; try apply quoted_no_nl; try exact Hname;
          try apply int_digits_no_nl; try (intros H; repeat (destruct H as [H|H]; [discriminate H|]); destruct H).
        destruct point; intros H; repeat (destruct H as [H|H]; [discriminate H|]); destruct H.
      - apply entry_lines_no_nl. exact Htok. }
  cbn [app]. rewrite !unquote_quoted.
  rewrite (parse_fmt_time p _ (tier_min_nonneg tr Hnn)), (parse_fmt_time p _ (tier_max_nonneg tr Hnn)).
  replace (str_eqb (strip s_filetype) s_filetype) with true by reflexivity. cbn [negb].
  assert (Hid : match tid with inl nm => str_eqb nm name | inr i => (i =? 0) || (i =? -1) end = true).
  { destruct Htid as [ -> | [ -> | -> ] ]; [reflexivity|reflexivity|apply str_eqb_refl]. }
  rewrite Hid. cbn [negb].
  assert (Hpt : str_eqb (if point then s_texttier else s_intervaltier) s_texttier = point)
    by (destruct point; reflexivity).
  rewrite Hpt.
  rewrite tg_entries_written.
  2:{ rewrite length_concat_entries. destruct point; lia. }
  rewrite (to_entries p point tr Hnn).
  rewrite (resort_entries p point tr Hnn Hsorted). reflexivity.
Qed.

(* ---------- "unlabelled gaps filled on request" ------------------------------------------------ *)


Lemma fill_contiguous ft l : forall t xmax, chain_ok t xmax l ->
  contiguous t xmax (fill_gaps (Some ft) t xmax l).
Proof.
  induction l as [|x r IH]; intros t xmax H; cbn [chain_ok fill_gaps] in *.
  - destruct (Qlt_le_dec t xmax) as [Hlt|Hle]; cbn [contiguous].
    + split; [reflexivity|reflexivity].
    + lra.
  - destruct H as (H1 & H2 & H3). destruct (Qlt_le_dec t (e_start x)) as [Hlt|Hle]; cbn [app contiguous].
    + split; [reflexivity|]. split; [reflexivity|]. apply IH. exact H3.
    + split; [lra|]. apply IH. exact H3.
Qed.

Lemma fill_filled_from ft l : forall t xmax, filled_from ft l (fill_gaps (Some ft) t xmax l).
Proof.
  induction l as [|x r IH]; intros t xmax; cbn [fill_gaps].
  - destruct (Qlt_le_dec t xmax) as [Hlt|Hle]; [apply ff_gap; [exact Hlt|constructor]|constructor].
  - destruct (Qlt_le_dec t (e_start x)) as [Hlt|Hle]; cbn [app].
    + apply ff_gap; [exact Hlt|]. apply ff_keep. apply IH.
    + apply ff_keep. apply IH.
Qed.

(* rounding to the print precision keeps a tiling a tiling (interval tiers) *)
Lemma chain_rounded p l : forall t xmax, (0 <= t)%Q -> chain_ok t xmax l ->
  chain_ok (rq p t) (rq p xmax) (map (rt p false) l).
Proof.
  induction l as [|x r IH]; intros t xmax Ht H; cbn [chain_ok map] in *.
  - apply rq_mono; assumption.
  - destruct H as (H1 & H2 & H3). unfold rt at 1 2 3. unfold e_start at 1 3, e_end at 1 3. cbn [fst snd].
    split; [apply rq_mono; assumption|]. split; [apply rq_mono; lra|]. apply IH; [lra|exact H3].
Qed.

(* ---------- the repaired defect: sorting the captured strings ---------------------------------- *)

Lemma string_sort_refuted :
  exists file,
    write_textgrid_file [([97], 8 # 1, 9 # 1); ([98], 9 # 1, 10 # 1); ([99], 10 # 1, 23 # 2)]
                        None None [116] None 3 = Ok file
    /\ read_textgrid_file StringSort file (inr 0) None <> read_textgrid_file NumericSort file (inr 0) None.
Proof.
  eexists. split; [vm_compute; reflexivity|]. vm_compute. discriminate.
Qed.
