(* C06 — tie, part 1 (continued): the statements around the loop.  [main_run]: everything from the context window
   to `return last_logps.view(B, V)` is [TieRun.main_fn]; [top_run] / [lookup_run]: the whole body of
   `_lookup_calc_idx_log_probs` is [TieRun.lookup_fn] - for EVERY tensor argument and all integers, whenever the
   tensor program yields a tensor the interpreted source returns exactly that tensor.  The loop is entered through
   MiniPy.Lemmas.exec_for / for_loop with the invariant [TieRun.Inv] ([TieRun.loop_run]). *)
From Coq Require Import ZArith QArith List String Bool Arith Lia ZifyBool ZifyNat.
From PV Require Import MiniPy.Syntax MiniPy.Interp MiniPy.Lemmas MiniTorch.OpsC06 Gen.C06Src.
From PV Require Import C06.SrcRun C06.TieRun.
Import ListNotations.
Local Open Scope string_scope.

#[local] Arguments exec : simpl never.
#[local] Arguments ext06_ops : simpl never.
#[local] Arguments enc6 : simpl never.
#[local] Arguments enc_shape : simpl never.
#[local] Arguments cmp_eval : simpl never.
#[local] Arguments foreign : simpl never.
#[local] Arguments extreme_of : simpl never.
#[local] Arguments val_eqb : simpl never.
#[local] Arguments method : simpl never.
#[local] Arguments subscript : simpl never.
#[local] Arguments binop_eval : simpl never.
#[local] Arguments attribute : simpl never.
#[local] Arguments lookup : simpl never.
#[local] Arguments update : simpl never.
#[local] Arguments size : simpl never.
#[local] Arguments numel : simpl never.
#[local] Arguments arange : simpl never.
#[local] Arguments full : simpl never.
#[local] Arguments ones_bool : simpl never.
#[local] Arguments zeros_like : simpl never.
#[local] Arguments unsqueeze : simpl never.
#[local] Arguments view : simpl never.
#[local] Arguments transpose : simpl never.
#[local] Arguments expand : simpl never.
#[local] Arguments repeat1 : simpl never.
#[local] Arguments repeat_interleave : simpl never.
#[local] Arguments cat0 : simpl never.
#[local] Arguments slice0 : simpl never.
#[local] Arguments select0 : simpl never.
#[local] Arguments index1 : simpl never.
#[local] Arguments masked_select : simpl never.
#[local] Arguments tmin : simpl never.
#[local] Arguments item : simpl never.
#[local] Arguments any1 : simpl never.
#[local] Arguments sum1 : simpl never.
#[local] Arguments add_s : simpl never.
#[local] Arguments sub_s : simpl never.
#[local] Arguments clamp_max : simpl never.
#[local] Arguments eq_s : simpl never.
#[local] Arguments ge_s : simpl never.
#[local] Arguments invert : simpl never.
#[local] Arguments isfinite : simpl never.
#[local] Arguments add : simpl never.
#[local] Arguments lt : simpl never.
#[local] Arguments gt : simpl never.
#[local] Arguments eq : simpl never.
#[local] Arguments band : simpl never.
#[local] Arguments masked_fill : simpl never.
#[local] Arguments twhere : simpl never.
#[local] Arguments as_int : simpl never.
#[local] Arguments ret6 _ !_ _ /.
#[local] Arguments retn _ !_ _ /.
#[local] Arguments Z.add : simpl never.
#[local] Arguments Z.sub : simpl never.
#[local] Arguments Z.mul : simpl never.
#[local] Arguments Z.min : simpl never.
#[local] Arguments Z.opp : simpl never.
#[local] Arguments Z.eqb : simpl never.
#[local] Arguments Z.ltb : simpl never.
#[local] Arguments Z.leb : simpl never.
#[local] Arguments Z.of_nat : simpl never.
#[local] Arguments Z.modulo : simpl never.


Lemma loop_run c : forall ns s s' st, loop_fn c ns s = Some s' -> Inv c s st ->
  exists st', for_loop ext06_ops "n" loop_body (map VInt ns) st = Ok CNormal st' /\ Inv c s' st'.
Proof.
  induction ns as [|n r IH]; intros s s' st H HI.
  - injection H as <-. exists st. split; [reflexivity|exact HI].
  - cbn [loop_fn] in H. destruct (body_fn c n s) as [s1|] eqn:E; [cbn [bo] in H|discriminate H].
    destruct (body_run c n s s1 st E HI) as (st1 & R1 & HI1).
    destruct (IH s1 s' st1 H HI1) as (st2 & R2 & HI2).
    exists st2. split; [|exact HI2]. cbn [map for_loop]. rewrite R1. cbn [bind]. exact R2.
Qed.

Fixpoint nth_tail (k : nat) (s : stmt) : stmt :=
  match k, s with
  | O, _ => s
  | S k', SSeq _ b => nth_tail k' b
  | S _, _ => SPass
  end.
Definition main_stmts : stmt := Eval cbv in nth_tail 13 lookup_body.

Record MainInv (hist hidx offsets ids logps logbs last_logps : tens6) (sos V N S B M O P U shift hidx_min rem : Z)
  (st : state) : Prop := mkMainInv
  { m_hist : lookup "hist" (vars st) = Some (enc6 hist);
    m_hidx : lookup "hidx" (vars st) = Some (enc6 hidx);
    m_offsets : lookup "offsets" (vars st) = Some (enc6 offsets);
    m_ids : lookup "ids" (vars st) = Some (enc6 ids);
    m_logps : lookup "logps" (vars st) = Some (enc6 logps);
    m_logbs : lookup "logbs" (vars st) = Some (enc6 logbs);
    m_last_logps : lookup "last_logps" (vars st) = Some (enc6 last_logps);
    m_sos : lookup "sos" (vars st) = Some (VInt sos);
    m_V : lookup "V" (vars st) = Some (VInt V);
    m_N : lookup "N" (vars st) = Some (VInt N);
    m_S : lookup "S" (vars st) = Some (VInt S);
    m_B : lookup "B" (vars st) = Some (VInt B);
    m_M : lookup "M" (vars st) = Some (VInt M);
    m_O : lookup "O" (vars st) = Some (VInt O);
    m_P : lookup "P" (vars st) = Some (VInt P);
    m_U : lookup "U" (vars st) = Some (VInt U);
    m_shift : lookup "shift" (vars st) = Some (VInt shift);
    m_hidx_min : lookup "hidx_min" (vars st) = Some (VInt hidx_min);
    m_rem : lookup "rem" (vars st) = Some (VInt rem);
    m_device : lookup "device" (vars st) = Some device_token;
    m_torch : lookup "torch" (vars st) = Some torch_module }.

Lemma foreign_shape sh : foreign (VTuple (enc_shape sh)) = false.
Proof. destruct sh; reflexivity. Qed.
Lemma foreign_tuple_int z l : foreign (VTuple (VInt z :: l)) = false. Proof. reflexivity. Qed.
Lemma cmp_eq_any a b : cmp_eval Eq a b = Some (val_eqb a b). Proof. reflexivity. Qed.
Lemma val_eqb_shape2 sh a b :
  negb (shape_eqb sh [Z.to_nat a; Z.to_nat b] && (0 <=? a)%Z && (0 <=? b)%Z) = false ->
  val_eqb (VTuple (enc_shape sh)) (VTuple [VInt a; VInt b]) = true.
Proof.
  intros H. apply negb_false_iff in H. apply andb_prop in H as [H Hb]. apply andb_prop in H as [H Ha].
  destruct sh as [|x [|y [|z r]]]; cbn [shape_eqb] in H; rewrite ?andb_false_r in H; try discriminate H.
  apply andb_prop in H as [H1 H2]. apply andb_prop in H2 as [H2 _].
  apply Nat.eqb_eq in H1, H2. subst x y.
  unfold enc_shape. cbn [map]. unfold val_eqb. cbn.
  rewrite !Z2Nat.id by lia. rewrite !Z.eqb_refl. reflexivity.
Qed.

Lemma attr_torch_long st : attribute ext06_ops torch_module "long" st = Ok long_token st. Proof. reflexivity. Qed.
Lemma attr_torch_bool st : attribute ext06_ops torch_module "bool" st = Ok bool_token st. Proof. reflexivity. Qed.
Ltac dif2 :=
  match goal with
  | H : bo (if ?c then _ else _) _ = Some _ |- _ => let E := fresh "C" in destruct c eqn:E
  | H : (if ?c then _ else _) = Some _ |- _ => let E := fresh "C" in destruct c eqn:E; try discriminate H
  end.
Ltac rw2 :=
  repeat match goal with
  | |- context [attribute ext06_ops torch_module "long" _] => rewrite attr_torch_long
  | |- context [attribute ext06_ops torch_module "bool" _] => rewrite attr_torch_bool
  | |- context [foreign (VTuple (enc_shape _))] => rewrite foreign_shape
  | |- context [foreign (VTuple (VInt _ :: _))] => rewrite foreign_tuple_int
  | C : negb (shape_eqb (sh6 ?t) _ && _ && _) = false |- context [cmp_eval Eq (VTuple (enc_shape (sh6 ?t))) _] =>
      rewrite cmp_eq_any, (val_eqb_shape2 _ _ _ C)
  end.
Ltac run2 := first [ run1 | progress rw2; go ].

Lemma zrange_map lo hi : Interp.zrange lo hi = map VInt (zrange_z lo hi).
Proof. unfold Interp.zrange, zrange_z. rewrite map_map. reflexivity. Qed.
#[local] Arguments Interp.zrange : simpl never.

Lemma main_run hist hidx offsets ids logps logbs last_logps sos V N S B M O P U shift hidx_min rem out st :
  main_fn hist hidx offsets ids logps logbs last_logps sos V N S B M O P U shift hidx_min rem = Some out ->
  MainInv hist hidx offsets ids logps logbs last_logps sos V N S B M O P U shift hidx_min rem st ->
  exists st', exec ext06_ops main_stmts st = Ok (CReturn (enc6 out)) st'.
Proof.
  intros H [].
  unfold main_fn, window_fn in H. unfold main_stmts.
  repeat first [dif2 | dopt].
  all: repeat run2.
  all: match goal with |- context [exec ext06_ops (SFor ?x ?e ?b) ?st] => rewrite (exec_for ext06_ops x e b st) end; go.
  all: rewrite zrange_map.
  all: match goal with
       | E : loop_fn ?c ?ns ?s0 = Some ?s1 |- context [for_loop ext06_ops "n" ?b (map VInt ?ns) ?st1] =>
           let HI := fresh "HI" in
           assert (HI : Inv c s0 st1)
             by (constructor; cbn [vars c_hist c_hidx c_offsets c_ids c_logps c_logbs c_srange c_V c_N c_M c_O c_P c_U c_B
                                   l_desc l_found l_lastp l_lastb]; rw; reflexivity);
           destruct (loop_run c ns s0 s1 st1 E HI) as (st2 & R & HI2); unfold loop_body in R; rewrite R; cbn [bind];
           destruct HI2
       end.
  all: repeat run2.
  all: eexists; reflexivity.
Qed.

(* ---- the statements before the window ---- *)
Lemma lookup_cons x y v l : lookup x ((y, v) :: l) = if String.eqb x y then Some v else lookup x l.
Proof. reflexivity. Qed.
Lemma sub_t2_0 a b st : subscript (VTuple [a; b]) (VInt 0) st = Ok a st. Proof. reflexivity. Qed.
Lemma sub_t2_1 a b st : subscript (VTuple [a; b]) (VInt 1) st = Ok b st. Proof. reflexivity. Qed.
Lemma sub_t3_0 t b c st : subscript (VTuple [enc6 t; b; c]) (VInt 0) st = Ok (enc6 t) st. Proof. reflexivity. Qed.
Lemma sub_t3_1 t b c st : subscript (VTuple [enc6 t; b; c]) (VInt 1) st = Ok b st. Proof. reflexivity. Qed.
Lemma sub_t3_2 t b c st : subscript (VTuple [enc6 t; b; c]) (VInt 2) st = Ok c st. Proof. reflexivity. Qed.
Lemma bin_mod_int a b st : binop_eval Mod (VInt a) (VInt b) st =
  if Z.eqb b 0 then Exc "ZeroDivisionError" st else Ok (VInt (a mod b)) st.
Proof. reflexivity. Qed.
Lemma val_eqb_t3 a b c x y z :
  val_eqb (VTuple [VInt a; VInt b; VInt c]) (VTuple [VInt x; VInt y; VInt z]) = ((a =? x) && ((b =? y) && ((c =? z) && true)))%Z.
Proof. reflexivity. Qed.

Ltac rw3 :=
  repeat match goal with
  | |- context [lookup _ (_ :: _)] => rewrite lookup_cons
  | |- context [subscript (VTuple [_; _]) (VInt 0) _] => rewrite sub_t2_0
  | |- context [subscript (VTuple [_; _]) (VInt 1) _] => rewrite sub_t2_1
  | |- context [subscript (VTuple [enc6 _; _; _]) (VInt 0) _] => rewrite sub_t3_0
  | |- context [subscript (VTuple [enc6 _; _; _]) (VInt 1) _] => rewrite sub_t3_1
  | |- context [subscript (VTuple [enc6 _; _; _]) (VInt 2) _] => rewrite sub_t3_2
  | |- context [binop_eval Mod (VInt _) (VInt _) _] => rewrite bin_mod_int
  | |- context [cmp_eval Eq (VTuple [VInt _; VInt _; VInt _]) (VTuple [VInt _; VInt _; VInt _])] => rewrite cmp_eq_any, val_eqb_t3
  | E : item ?t = Some _ |- context [item ?t] => rewrite E
  end.
Ltac dif3 :=
  match goal with
  | H : match ?c with CI _ => _ | CB _ => _ | CF _ => _ end = Some _ |- _ => destruct c; try discriminate H
  end.
Ltac run3 := first [ run2 | progress rw3; go ].
Ltac at_main :=
  lazymatch goal with
  | |- context [bind _ _] => fail
  | _ => match goal with
         | H : ?r = ?body |- context [exec ext06_ops ?r _] => is_var r; unify body main_stmts
         end
  end.

Definition first_stmt (s : stmt) : stmt := match s with SSeq a _ => a | _ => s end.
Definition shift_stmt : stmt := Eval cbv in first_stmt (nth_tail 2 lookup_body).

Lemma shift_run sos V st : lookup "sos" (vars st) = Some (VInt sos) -> lookup "V" (vars st) = Some (VInt V) ->
  exec ext06_ops shift_stmt st =
  Ok CNormal (set_var "shift" (VInt (if (0 <=? sos)%Z && (sos <? V)%Z then 0 else 1)) st).
Proof.
  intros H1 H2. unfold shift_stmt. step. go.
  destruct (0 <=? sos)%Z; cbn; rw; cbn; [destruct (sos <? V)%Z| ]; reflexivity.
Qed.

Record TopInv (hist hidx offsets ids logps logbs : tens6) (sos V N G S : Z) (st : state) : Prop := mkTopInv
  { t_hist : lookup "hist" (vars st) = Some (enc6 hist);
    t_hidx : lookup "hidx" (vars st) = Some (enc6 hidx);
    t_offsets : lookup "offsets" (vars st) = Some (enc6 offsets);
    t_ids : lookup "ids" (vars st) = Some (enc6 ids);
    t_logps : lookup "logps" (vars st) = Some (enc6 logps);
    t_logbs : lookup "logbs" (vars st) = Some (enc6 logbs);
    t_sos : lookup "sos" (vars st) = Some (VInt sos);
    t_V : lookup "V" (vars st) = Some (VInt V);
    t_N : lookup "N" (vars st) = Some (VInt N);
    t_G : lookup "G" (vars st) = Some (VInt G);
    t_S : lookup "S" (vars st) = Some (VInt S);
    t_torch : lookup "torch" (vars st) = Some torch_module }.

Ltac shift_step :=
  match goal with
  | |- context [exec ext06_ops (SAssign [TName "shift"] ?e) ?st] =>
      let R := fresh "R" in
      pose proof (shift_run _ _ st ltac:(cbn [vars]; rw; reflexivity) ltac:(cbn [vars]; rw; reflexivity)) as R;
      unfold shift_stmt in R; rewrite R; clear R;
      try match goal with Hs : ?x = (if _ then _ else _)%Z |- _ => rewrite <- Hs end
  end.

Lemma top_run hist hidx offsets ids logps logbs sos V N G S out st :
  lookup_fn hist hidx offsets ids logps logbs sos V N G S = Some out ->
  TopInv hist hidx offsets ids logps logbs sos V N G S st ->
  exists st', exec ext06_ops lookup_body st = Ok (CReturn (enc6 out)) st'.
Proof.
  intros H []. unfold lookup_fn in H. cbv zeta in H.
  unfold lookup_body.
  remember (if (0 <=? sos)%Z && (sos <? V)%Z then 0 else 1)%Z as shift eqn:Hshift.
  repeat first [dif2 | dif3 | dopt].
  all: repeat (tryif at_main then fail else first [shift_step; go | run3]).
  all: try (eexists; reflexivity).
  all: match goal with Hr : ?r = _ |- context [exec ext06_ops ?r _] => subst r end.
  all: eapply main_run; [exact H | constructor; cbn [vars]; rw; reflexivity].
Qed.

Theorem lookup_run hist hidx offsets ids logps logbs sos V N G S out :
  lookup_fn hist hidx offsets ids logps logbs sos V N G S = Some out ->
  exists st, Interp.run ext06_ops lookup_body (vars06 hist hidx offsets ids logps logbs sos V N G S) = Ok (enc6 out) st.
Proof.
  intros H.
  destruct (top_run _ _ _ _ _ _ _ _ _ _ _ _ (mkState (vars06 hist hidx offsets ids logps logbs sos V N G S) []) H) as (st' & R).
  { constructor; reflexivity. }
  exists st'. unfold Interp.run. rewrite R. reflexivity.
Qed.
