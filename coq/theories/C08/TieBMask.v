(* C08, second tie - symbolic runs of the masking blocks of `spec_augment_apply_parameters`
   (unit C08BSrc: apply_minit, apply_tmask, apply_fmask, apply_fill).

   Each lemma runs one block with [Interp.exec] from an ARBITRARY state in which the variables the block reads hold
   the stated values, under [ext_core a spl gso nested] for ANY [nested] (the blocks make no nested call), and
   gives the variables the block assigns in closed form; every other variable is untouched (frame). *)
From Coq Require Import ZArith QArith Qround List String Bool Arith Lia.
From PV Require Import MiniPy.Syntax MiniPy.Interp MiniTorch.Ops MiniTorch.OpsC08 MiniTorch.LemmasC08.
From PV Require Import MiniTorch.OpsC08B MiniTorch.LemmasC08B.
From PV Require Import Gen.C08BSrc C08.SrcRun C08.TieLib C08.SrcRunB C08.TieBLib.
From PV Require C08.Model.
Import ListNotations.
Local Open Scope string_scope.

#[local] Arguments Z.of_nat : simpl never.
#[local] Arguments Z.add : simpl never.
#[local] Arguments Z.geb : simpl never.
#[local] Arguments Z.ltb : simpl never.
#[local] Arguments Z.eqb : simpl never.
#[local] Arguments cmp_eval : simpl never.
#[local] Arguments numel : simpl never.

(* `a & b`, `a | b` on tensors: MiniPy's own operators are stuck, [ext] is asked *)
Lemma binop_stuck_bits op a b st : foreign a = true -> match op with BitAnd | BitOr => true | _ => false end = true ->
  exists w, binop_eval op a b st = Stuck w.
Proof.
  intros Hf Ho. destruct a; try discriminate Hf.
  destruct op; try discriminate Ho; destruct b; cbn; eauto.
Qed.

Lemma cmp_isnot_none_none : cmp_eval IsNot VNone VNone = Some false.  Proof. reflexivity. Qed.
Lemma cmp_is_none_none : cmp_eval Is VNone VNone = Some true.  Proof. reflexivity. Qed.

Ltac bin_stepB :=
  match goal with
  | |- context [binop_eval ?op ?x ?y ?s] =>
      first [ destruct (binop_stuck_l op x y s eq_refl eq_refl) as [?w ->]
            | destruct (binop_stuck_r op x y s eq_refl eq_refl eq_refl) as [?w ->]
            | destruct (binop_stuck_bits op x y s eq_refl eq_refl) as [?w ->] ]
  end.

Ltac extB_rw := progress rewrite ?extB_arange_l, ?extB_unsqueeze_l, ?extB_unsqueeze_b, ?extB_add_l, ?extB_and_b, ?extB_or_b,
  ?extB_ge_l, ?extB_lt_l, ?extB_any, ?extB_any_keep, ?extB_masked_fill.
Ltac opsB_rw := progress (unfold arange_l, add_l, ge_l, lt_l, and_b, or_b;
  rewrite ?unsqueeze_T1_0, ?unsqueeze_T2_2, ?unsqueeze_T2_1, ?bc3_T2_T2, ?bc3_row_cols, ?bc3_T3_T3, ?bc3_col_row, ?any_last_T3,
          ?masked_fill_c_col, ?masked_fill_c_row, ?masked_fill_c_full;
  cbn [ret_f ret_l ret_b ret_c]).
Ltac cmpB_rw := progress rewrite ?cmp_isnot_none_f, ?cmp_isnot_none_l, ?cmp_isnot_none_b, ?cmp_isnot_none_c,
  ?cmp_is_none_f, ?cmp_is_none_l, ?cmp_is_none_b, ?cmp_is_none_c, ?cmp_isnot_none_none, ?cmp_is_none_none.
Ltac runB1 := first [ lookB | bin_stepB | extB_rw | opsB_rw | cmpB_rw | progress istepB ].
Ltac runB := repeat runB1.
Ltac stmtB := erewrite exec_seq_okB; [ | solve [runB; reflexivity] ].

(* the interval test as the source computes it: (idx >= start) & (idx < start + width), any over the mask columns *)
Definition s_in (f0 f : nat -> nat -> Z) (n x h : nat) : bool :=
  ((Z.of_nat x >=? f0 n h)%Z && (Z.of_nat x <? f0 n h + f n h)%Z)%bool.
Definition s_any (M : nat) (f0 f : nat -> nat -> Z) (n x : nat) : bool := existsb (s_in f0 f n x) (seq 0 M).

Section Mask.
  Variable a : Model.arith.
  Variable spl : nat -> list val -> list Q.
  Variable gso : nat -> list val -> list val.
  Variable nested : string -> list val -> state -> option (outcome val).
  Notation ext := (ext_core a spl gso nested).

  Lemma minit_run vs ev :
    exec ext apply_minit (mkState vs ev) = Ok CNormal (mkState (update "fmask" VNone (update "tmask" VNone vs)) ev).
  Proof. unfold apply_minit. runB. reflexivity. Qed.

  (* ---- time masks ---------------------------------------------------------------------------------------- *)
  Lemma tmask_off_run vs ev p0 p :
    lookup "t_0" vs = Some (enc_par p0) -> lookup "t" vs = Some (enc_par p) -> (par_on p0 && par_on p)%bool = false ->
    exec ext apply_tmask (mkState vs ev) = Ok CNormal (mkState vs ev).
  Proof.
    intros H0 H1 Hoff. unfold apply_tmask.
    destruct (group_cond a spl gso nested vs ev "t_0" "t" p0 p H0 H1) as [v [Ev Tv]].
    unfold group_test in Ev. erewrite exec_if_valB by exact Ev. rewrite Tv, Hoff. reflexivity.
  Qed.

  Lemma tmask_on_run vs ev N M T f0 f :
    lookup "t_0" vs = Some (enc_l (T2 N M f0)) -> lookup "t" vs = Some (enc_l (T2 N M f)) ->
    Nat.eqb (numel [N; M]) 0 = false ->
    lookup "T" vs = Some (VInt (Z.of_nat T)) -> lookup "device" vs = Some device_token ->
    exists vs', exec ext apply_tmask (mkState vs ev) = Ok CNormal (mkState vs' ev)
      /\ lookup "tmask" vs' = Some (enc_b (T3 N T 1 (fun n t _ => s_any M f0 f n t)))
      /\ forall x, String.eqb x "tmask" = false -> String.eqb x "t_1" = false -> lookup x vs' = lookup x vs.
  Proof.
    intros H0 H1 Hn HT Hd. unfold apply_tmask.
    destruct (group_cond a spl gso nested vs ev "t_0" "t" (PL (T2 N M f0)) (PL (T2 N M f)) H0 H1) as [v [Ev Tv]].
    unfold group_test in Ev. erewrite exec_if_valB by exact Ev. rewrite Tv. cbn [par_on shp T2]. rewrite Hn. cbn [negb andb].
    eexists. split; [|split].
    - stmtB. stmtB. stmtB. runB. reflexivity.
    - unfold set_var; cbn [vars events]. rewrite !lookup_update. cbn. reflexivity.
    - intros x Hx1 Hx2. unfold set_var; cbn [vars events]. rewrite !lookup_update, Hx1, Hx2. reflexivity.
  Qed.

  (* ---- frequency masks ------------------------------------------------------------------------------------- *)
  Lemma fmask_off_run vs ev p0 p :
    lookup "f_0" vs = Some (enc_par p0) -> lookup "f" vs = Some (enc_par p) -> (par_on p0 && par_on p)%bool = false ->
    exec ext apply_fmask (mkState vs ev) = Ok CNormal (mkState vs ev).
  Proof.
    intros H0 H1 Hoff. unfold apply_fmask.
    destruct (group_cond a spl gso nested vs ev "f_0" "f" p0 p H0 H1) as [v [Ev Tv]].
    unfold group_test in Ev. erewrite exec_if_valB by exact Ev. rewrite Tv, Hoff. reflexivity.
  Qed.

  Lemma fmask_on_run vs ev N M F g0 g :
    lookup "f_0" vs = Some (enc_l (T2 N M g0)) -> lookup "f" vs = Some (enc_l (T2 N M g)) ->
    Nat.eqb (numel [N; M]) 0 = false ->
    lookup "F" vs = Some (VInt (Z.of_nat F)) -> lookup "device" vs = Some device_token ->
    exists vs', exec ext apply_fmask (mkState vs ev) = Ok CNormal (mkState vs' ev)
      /\ lookup "fmask" vs' = Some (enc_b (T3 N 1 F (fun n _ x => s_any M g0 g n x)))
      /\ forall x, String.eqb x "fmask" = false -> String.eqb x "f_1" = false -> lookup x vs' = lookup x vs.
  Proof.
    intros H0 H1 Hn HF Hd. unfold apply_fmask.
    destruct (group_cond a spl gso nested vs ev "f_0" "f" (PL (T2 N M g0)) (PL (T2 N M g)) H0 H1) as [v [Ev Tv]].
    unfold group_test in Ev. erewrite exec_if_valB by exact Ev. rewrite Tv. cbn [par_on shp T2]. rewrite Hn. cbn [negb andb].
    eexists. split; [|split].
    - stmtB. stmtB. stmtB. runB. reflexivity.
    - unfold set_var; cbn [vars events]. rewrite !lookup_update. cbn. reflexivity.
    - intros x Hx1 Hx2. unfold set_var; cbn [vars events]. rewrite !lookup_update, Hx1, Hx2. reflexivity.
  Qed.

  (* ---- masked_fill and return ------------------------------------------------------------------------------ *)
  Definition opt_mask (o : option (tn bool)) : val := match o with Some m => enc_b m | None => VNone end.

  (* cell (n, t, f) is masked: by the time mask (N, T, 1) or by the frequency mask (N, 1, F) *)
  Definition mk (tp fq : option (nat -> nat -> nat -> bool)) (n t f : nat) : bool :=
    (match tp with Some p => p n t 0%nat | None => false end || match fq with Some q => q n 0%nat f | None => false end)%bool.

  Definition filled (tp fq : option (nat -> nat -> nat -> bool)) (cells : nat -> nat -> nat -> val) (n t f : nat) : val :=
    if mk tp fq n t f then VQ 0 else cells n t f.

  Lemma fill_run vs ev eps N T F cells tp fq :
    lookup "new_feats" vs = Some (enc_c eps (T3 N T F cells)) ->
    lookup "tmask" vs = Some (opt_mask (option_map (T3 N T 1) tp)) ->
    lookup "fmask" vs = Some (opt_mask (option_map (T3 N 1 F) fq)) ->
    exists vs', exec ext apply_fill (mkState vs ev)
                = Ok (CReturn (enc_c eps (T3 N T F (filled tp fq cells)))) (mkState vs' ev).
  Proof.
    intros Hn Ht Hf. unfold apply_fill, filled, mk.
    destruct tp as [p|], fq as [q|]; cbn [option_map opt_mask] in Ht, Hf.
    - eexists. runB.
      match goal with |- Ok (CReturn (enc_c _ ?x)) _ = Ok (CReturn (enc_c _ ?y)) _ => replace x with y; [reflexivity|] end.
      apply T3_ext. intros. reflexivity.
    - eexists. runB.
      match goal with |- Ok (CReturn (enc_c _ ?x)) _ = Ok (CReturn (enc_c _ ?y)) _ => replace x with y; [reflexivity|] end.
      apply T3_ext. intros. now rewrite orb_false_r.
    - eexists. runB. reflexivity.
    - eexists. runB. reflexivity.
  Qed.
End Mask.
