"""C14 - second source tie (harness side): the batching functions besides BucketBatchSampler.__iter__

    extract_window, ContextWindowDataSet.get_windowed_utterance           (_datasets.py,    unit C14BWinSrc)
    context_window_seq_to_batch, spect_seq_to_batch,
    _get_bucket_batch_sampler_params                                      (_dataloaders.py, unit C14BSrc)

translated to MiniPy on every run (harness/py2coq) and INTERPRETED INSIDE COQ (PV.C14.SrcRunB.src_check_*:
MiniPy.Interp, torch / builtin calls = PV.MiniTorch.OpsC14B through SrcRunB.extB), are run on this run's cases and
compared with what the Python functions returned:

    window      every `window` case                 src_check_window        vs extract_window's result
    cwcollate   every `cwcollate` case              src_check_cw_collate    vs context_window_seq_to_batch's result
    collate     every `collate` case                src_check_spect_collate vs spect_seq_to_batch's result
    params      every spect / lang loader case that built a BucketBatchSampler
                                                    src_check_params        vs the loader's idx2bucket / bucket2size
    windowed    the first utterances of every `cw` loader case: the data directory is written again and
                ContextWindowDataSet(...).get_windowed_utterance(i) is called here
                                                    src_check_windowed      vs its result

This validates translator + interpreter + extB + OpsC14B against CPython + torch on every run and works whether or
not the TieB*.v lemmas still compile.  A disagreement is reported as a violation without a failing input of the
property itself ("tie:C14:py2coq+MiniPy.Interp+MiniTorch:batching"), as the other ties do."""
import json
import time
import warnings

import torch

from vlib import CoqError, cb, cl, cln, cn, co, cp, coq_eval_bools

IMPORTS_SRC = "From PV Require Import C14.Model C14.SrcRunB.\n"
CORR = "tie:C14:py2coq+MiniPy.Interp+MiniTorch:batching"
SRC_TIE_THEOREMS = ["c14_source_extract_window_is_model", "c14_source_extract_window_edge_replication",
                    "c14_source_windowed_is_model", "c14_source_windowed_every_frame_once",
                    "c14_source_cw_collate_is_model", "c14_source_cw_collate_lossless",
                    "c14_source_cw_batch_is_model_partial", "c14_source_spect_collate_is_model",
                    "c14_source_spect_collate_lossless"]     # _get_bucket_batch_sampler_params: executed only
WINDOWED_PER_CASE = 2      # utterances of a cw case whose get_windowed_utterance is replayed
MAX_CELLS = 40000          # a term larger than this (size stream) is left to the model check


def _cells(x):
    if isinstance(x, (list, tuple)):
        return sum(_cells(y) for y in x) + 1
    return 1


def t_window(P, case, out):
    feat = P.feat_of(0, case["T"], case["F"])
    return (f"src_check_window {P.llz(feat)} {cn(case['idx'])} {cn(case['left'])} {cn(case['right'])} "
            f"{cb(case['reverse'])} {P.llz(out['ok'])}")


def t_cwcollate(P, case, out):
    c = out["ok"]
    if "bad_arity" in c:
        return None
    items = []
    for (i, T, ali) in case["items"]:
        win = P.windows_of(P.feat_of(i, T, case["F"]), case["left"], case["right"], False)
        items.append((win, P.ali_of(i, T) if ali else None, i))
    sq = cl([cp(P.lllz(w), co(None if a is None else P.lz(a)), cn(i)) for w, a, i in items])
    impl = cp(P.lllz(c["windows"]), co(None if c["alis"] is None else P.lz(c["alis"])), cln(c["sizes"]), cln(c["ids"]))
    return f"src_check_cw_collate {cb(case['has_ids'])} {sq} {impl}"


def t_collate(P, case, out):
    t = P.sbatch_term(out["ok"])
    if t is None:
        return None
    items = []
    for (i, T, ali, R) in case["items"]:
        a = P.ali_of(i, T) if ali else None
        r = P.ref_rows(i, R, case["W"]) if R is not None else None
        items.append((P.feat_of(i, T, case["F"]), a if case["has_alis"] else None, r, i))
    sq = cl([P.utt_term(*it) for it in items])
    return (f"src_check_spect_collate {cb(case['bf'])} {cb(case['sort'])} {cb(case['has_alis'])} {cb(case['has_ids'])} "
            f"{cn(case['W'])} {sq} {t}")


def t_params(P, case, out):
    o = out["ok"]
    tb = o.get("tables")
    if not isinstance(tb, list) or o.get("n") != len(case["lens"]):
        return None
    bare = case["kind"] == "lang" and bool(case.get("su"))
    return (f"src_check_params {cb(bare)} {cln(case['lens'])} {cn(case['nb'])} {cn(case['bs'])} {cb(case['dyn'])} "
            f"(Ok {cp(cln(tb[0]), cln(tb[1]))})")


def windowed_terms(P, chk, case):
    """-> [term]: ContextWindowDataSet.get_windowed_utterance(i) called here on the case's directory"""
    from pydrobert.torch import data as D

    picks = [i for i, T in enumerate(case["lens"]) if T > 0][:WINDOWED_PER_CASE]
    if not picks:
        return []
    root = str(chk.workdir / "data_tieB")
    P.set_names(case)
    P.make_dir(root, case)
    left, right, rev, su = case["left"], case["right"], case["reverse"], case["su"]
    p = P._set_subset(D.ContextWindowDataParams(context_left=left, context_right=right, reverse=rev), case)
    ds = D.ContextWindowDataSet(root, params=p, suppress_uttids=su)
    if len(ds) != len(case["lens"]):
        return []
    model_ds = cl([P.utt_term(P.feat_of(i, T, case["F"]), P.ali_of(i, T) if case["alis"] else None, None, i)
                   for i, T in enumerate(case["lens"])])
    out = []
    for i in picks:
        got = ds.get_windowed_utterance(i)
        if len(got) != (2 if su else 3):
            out.append("false")
            continue
        win = [[[int(v) for v in r] for r in w] for w in got[0].tolist()]
        ali = None if got[1] is None else [int(v) for v in got[1].tolist()]
        uid = 0 if su else P.ids_of([got[2]])[0]
        impl = cp(P.lllz(win), co(None if ali is None else P.lz(ali)), cn(uid))
        out.append(f"src_check_windowed 1 {model_ds} {cn(left)} {cn(right)} {cb(rev)} {cb(su)} {cn(i)} {impl}")
    return out


def source_tie(chk, cases, outs):
    from props import c14 as P

    t0 = time.time()
    terms, owners, kinds, skipped = [], [], {}, 0

    def add(ci, kind, t):
        nonlocal skipped
        if t is None:
            return
        if len(t) > 12 * MAX_CELLS:
            skipped += 1
            return
        terms.append(t)
        owners.append((ci, kind))
        kinds[kind] = kinds.get(kind, 0) + 1

    with warnings.catch_warnings():
        warnings.simplefilter("ignore")
        for ci, (c, out) in enumerate(zip(cases, outs)):
            k = c["kind"]
            if k not in ("window", "cwcollate", "collate", "spect", "lang", "cw"):
                continue
            P.set_names(c)
            try:
                if k == "cw":
                    if "ok" in out:
                        for t in windowed_terms(P, chk, c):
                            add(ci, "windowed", t)
                    continue
                if "ok" not in out:
                    continue        # the code raised: the model check and the spec judge that
                if k == "window":
                    add(ci, "window", t_window(P, c, out))
                elif k == "cwcollate":
                    add(ci, "cwcollate", t_cwcollate(P, c, out))
                elif k == "collate":
                    add(ci, "collate", t_collate(P, c, out))
                else:
                    add(ci, "params", t_params(P, c, out))
            except Exception as e:  # a case this module cannot rebuild is not a verdict on the code
                kinds["not-rebuilt"] = kinds.get("not-rebuilt", 0) + 1
                chk.extra.setdefault("source_tieB_notes", []).append("%s: %s" % (k, str(e)[:120]))
    chk.extra["source_tieB"] = {
        "units": ["C14BSrc", "C14BWinSrc"],
        "functions": ["extract_window", "ContextWindowDataSet.get_windowed_utterance", "context_window_seq_to_batch",
                      "spect_seq_to_batch", "_get_bucket_batch_sampler_params"],
        "theorems": SRC_TIE_THEOREMS}
    if not terms:
        chk.extra["source_tieB_run"] = {"cases": 0, "disagreements": 0}
        return
    t1 = time.time()
    try:
        res = coq_eval_bools(chk.workdir, IMPORTS_SRC, terms, shard=40, tag="srcB")
    except CoqError as e:
        chk.extra["source_tieB_run"] = "not evaluated: " + str(e)[-400:]
        return
    bad = [j for j in range(len(terms)) if not res[j]]
    chk.extra["source_tieB_run"] = dict(cases=len(terms), by_kind=kinds, disagreements=len(bad), too_large=skipped,
                                        python_s=round(t1 - t0, 1), coq_s=round(time.time() - t1, 1))
    chk.count("source_tieB_cases", len(terms))
    if bad:
        labels = sorted({owners[j][1] for j in bad})
        j = min(bad, key=lambda q: len(terms[q]))
        rec = {"what": "the Python source of the batching functions (%s) as translated to MiniPy and interpreted in Coq "
                       "(PV.C14.SrcRunB, torch calls = PV.MiniTorch.OpsC14B) does not reproduce what the functions return on "
                       "this case: translator / interpreter / extB / MiniTorch no longer describe the code" % ", ".join(labels),
               "disagreeing_calls": len(bad), "by_kind": {k: sum(1 for q in bad if owners[q][1] == k) for k in labels},
               "first_term": terms[j][:800], "correspondence": CORR, "theorems_at_stake": SRC_TIE_THEOREMS,
               "case": {k: v for k, v in cases[owners[j][0]].items() if k != "stream"}}
        chk.report(rec, no_failing_input=True)
