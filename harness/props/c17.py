"""C17 - command-line conversions: correspondence between /repo's console functions (called
in-process) and PV.C17.Model, plus the metamorphic relations the property states (round trips,
batch-size / worker-count / schedule independence, non-default prefixes and suffixes)."""
import contextlib
import io
import itertools
import json
import os
import random
import shutil
import warnings
from fractions import Fraction
from unittest import mock

import torch

from vlib import (cb, cl, cn, co, cp, cq, cz, clz, coq_eval_bools, coq_eval_print, exc_kind, shrink,
                  load_corpus, digest)

IMPORTS = "From PV Require Import C11.Model C01.Spec C17.Model C17.Spec.\nLocal Open Scope Z_scope.\n"
CORR = "corr:C17:command_line"
ERR = {"ValueError": "EValue", "ZeroDivisionError": "EZeroDiv", "TypeError": "EType", "KeyError": "EKey",
       "IndexError": "EIndex", "RuntimeError": "ERuntime", "OSError": "EOS", "IOError": "EOS",
       "other:AttributeError": "EAttr", "rc1": "ERc"}
PREFIXES = ["", "p_", "x.", "ab", "pt"]
SUFFIXES = [".pt", "", ".x", "_s.pt", "ab"]
THEOREMS = {
    "ali": ["c17_rle_decode_encode", "c17_rle_encode_decode", "c17_ali_of_ref_of_ali", "c17_ali_dir_roundtrip",
            "c17_effects_schedule_invariant", "c17_select_written"],
    "ref2ali": ["c17_ali_of_ref_accepts_iff_partition", "c17_ali_of_ref_result"],
    "trn": ["c17_trn_dir_roundtrip", "c17_select_written", "c17_effects_schedule_invariant", "c17_save_transcript_is_write"],
    "ctm": ["c17_timed_dir_roundtrip", "c17_select_written", "c17_save_transcript_is_write"],
    "tg": ["c17_timed_dir_roundtrip", "c17_select_written", "c17_effects_schedule_invariant"],
    "er": ["c17_er_total_is_spec", "c17_er_batch_size_irrelevant", "c17_lev_rename_invariant", "c17_ids_are_filtered_numbering",
           "c17_pairs_are_aligned"],
    "subset": ["c17_subset_is_filter"],
    "mom_ali": ["c17_moments_pooled", "c17_moments_schedule_invariant"],
    "mom_ref": [],
    "mvn": [],
    "chunk": [],
    "tokdir": ["c17_trn_dir_roundtrip", "c17_timed_dir_roundtrip", "c17_select_written"],
}


# ----------------------------------------------------------------------------------------
# Coq literals
# ----------------------------------------------------------------------------------------


def cs(s):
    return "[" + "; ".join(str(ord(c)) for c in s) + "]"


def ctensor(t):
    """t: {'v': [...]} or {'w': n, 'rows': [[...]]}"""
    if "v" in t:
        return f"(Vec {clz(t['v'])})"
    return f"(Mat {cn(t['w'])} {cl([clz(r) for r in t['rows']])})"


def cdir(entries):
    """entries: list of (name, tensor-dict) in listing order"""
    return cl([cp(cs(n), ctensor(t)) for n, t in entries])


def cout(kind, okterm):
    if kind is None:
        return f"(Done {okterm})"
    return f"(Fail {ERR[kind]})" if kind in ERR else None


def ctk(t):
    return f"(TInt {cz(t)})" if isinstance(t, int) else f"(TStr {cs(t)})"


def citems(tr):
    out = []
    for it in tr:
        if isinstance(it, (list, tuple)):
            out.append(f"Timed {ctk(it[0])} {cq(Fraction(it[1]))} {cq(Fraction(it[2]))}")
        else:
            out.append(f"Plain {ctk(it)}")
    return cl(out)


def ctranscripts(ts):
    return cl([cp(cs(u), citems(tr)) for u, tr in ts])


def celem(x):
    if isinstance(x, str):
        return f"Tok {cs(x)}"
    return "Alt " + cl([cl(["(" + celem(y) + ")" for y in br]) for br in x["alt"]])


def canon_elem(x):
    if isinstance(x, str):
        return x
    if isinstance(x, tuple):
        x = x[0]
    return {"alt": [[canon_elem(y) for y in br] for br in x]}


def py_elem(x, top):
    if isinstance(x, str):
        return x
    alts = [[py_elem(y, False) for y in br] for br in x["alt"]]
    return (alts, -1, -1) if top else alts


def cqopt(x):
    return "None" if x is None else f"(Some {cq(Fraction(x))})"


# ----------------------------------------------------------------------------------------
# scratch directories of tensors
# ----------------------------------------------------------------------------------------


_LAY = {"on": False, "k": 0}   # set per case by execute(): store tensors as non-contiguous views (robustness audit)
_ENTRY = {"argv": False}       # set per case by execute(): call the console function the way the installed script does


def relayout(x, k):
    """the same logical tensor as a view: transposed-contiguous-transposed (2-D), a slice of a larger buffer with a
    storage offset, or every second cell of a larger buffer.  torch.save keeps the view, torch.load returns it."""
    k = k % 3
    if k == 0 and x.ndim == 2:
        return x.t().contiguous().t()
    if k == 2 and x.ndim >= 1:
        big = torch.full([2 * n for n in x.shape], 5, dtype=x.dtype)
        v = big[tuple(slice(None, None, 2) for _ in x.shape)]
        v.copy_(x)
        return v
    big = torch.full((x.numel() + 6,), 5, dtype=x.dtype)
    v = big[3:3 + x.numel()].view(x.shape)
    v.copy_(x)
    return v


def to_torch(t, float_=False):
    dt = torch.float if float_ else torch.long
    if "v" in t:
        x = torch.tensor(t["v"], dtype=dt)
    elif not t["rows"]:
        x = torch.zeros((0, t["w"]), dtype=dt)
    else:
        x = torch.tensor(t["rows"], dtype=dt)
    if _LAY["on"]:
        _LAY["k"] += 1
        x = relayout(x, _LAY["k"])
    return x


def from_torch(x):
    if not isinstance(x, torch.Tensor):
        return {"other": repr(type(x))}
    if x.ndim == 1:
        return {"v": [int(v) for v in x.tolist()]}
    if x.ndim == 2:
        return {"w": int(x.size(1)), "rows": [[int(v) for v in r] for r in x.tolist()]}
    return {"other": list(x.shape)}


def write_dir(path, files, strays=(), float_=False):
    """files: {name: tensor-dict}; strays: {name: text} (not tensors)"""
    os.makedirs(path, exist_ok=True)
    for n, t in files.items():
        torch.save(to_torch(t, float_), os.path.join(path, n))
    for n, text in dict(strays).items():
        with open(os.path.join(path, n), "w") as f:
            f.write(text)


def read_dir(path, strays=()):
    """listing order; stray (non-tensor) files appear as empty vectors"""
    out = []
    for n in os.listdir(path):
        p = os.path.join(path, n)
        if os.path.isdir(p):
            continue
        if n in strays:
            out.append((n, {"v": []}))
        else:
            out.append((n, from_torch(torch.load(p))))
    return out


class Scratch:
    def __init__(self, chk):
        self.root = os.path.join(str(chk.workdir), "fs")
        self.n = 0

    def new(self):
        self.n += 1
        p = os.path.join(self.root, str(self.n))
        shutil.rmtree(p, ignore_errors=True)
        os.makedirs(p)
        return p

    def clean(self):
        shutil.rmtree(self.root, ignore_errors=True)


# ----------------------------------------------------------------------------------------
# running a console function in-process, with a substituted pool
# ----------------------------------------------------------------------------------------


class _FakePool:
    """imap_unordered that completes the chunks in a seeded order, in-process."""

    def __init__(self, seed, log, init, initargs):
        self.rng, self.log = random.Random(seed), log
        if init is not None:
            init(*initargs)

    def __enter__(self):
        return self

    def __exit__(self, *a):
        return False

    def imap_unordered(self, f, it, chunksize=1):
        items = []
        try:
            for x in it:
                items.append(("ok", x))
        except Exception as e:  # the generator dies here; the pool re-raises when it gets there
            items.append(("exc", e))
        idx = list(range(len(items)))
        chunks = [idx[i:i + chunksize] for i in range(0, len(idx), chunksize)]
        self.rng.shuffle(chunks)
        flat = [i for c in chunks for i in c]
        self.log.append(flat)
        for i in flat:
            kind, x = items[i]
            if kind == "exc":
                raise x
            yield f(x)


class _FakeCtx:
    def __init__(self, seed, log):
        self.seed, self.log = seed, log

    def Pool(self, n, initializer=None, initargs=()):
        return _FakePool(self.seed, self.log, initializer, initargs)


def run_cmd(name, args, pool=None, capture=()):
    """pool: None (leave alone) or a seed for the fake pool.  capture: names of pydrobert.torch.data
    functions whose calls are recorded (arguments and results) while still being executed.
    -> dict(exc, rc, out, err, order, calls)"""
    import pydrobert.torch.command_line as cmd
    import pydrobert.torch.data as data

    log, calls, pats = [], {}, []
    if pool is not None:
        pats.append(mock.patch.object(torch.multiprocessing, "get_context", lambda m: _FakeCtx(pool, log)))
    for fn in capture:
        orig = getattr(data, fn)

        def wrapper(*a, __orig=orig, __fn=fn, **k):
            a = list(a)
            if __fn in ("write_trn", "write_ctm"):
                # the transcripts are a generator: materialise (the data-set errors surface here)
                a[0] = list(a[0])
                calls.setdefault(__fn, []).append((json.loads(json.dumps(a[0])), a[2:] if len(a) > 2 else []))
                return __orig(*a, **k)
            if __fn == "read_textgrid":
                try:
                    res = __orig(*a, **k)
                except Exception as e:  # noqa: BLE001
                    calls.setdefault(__fn, []).append((os.path.basename(str(a[0])), None, exc_kind(e), a[1:]))
                    raise
                calls.setdefault(__fn, []).append((os.path.basename(str(a[0])), json.loads(json.dumps(res[0])), None, a[1:]))
                return res
            res = __orig(*a, **k)
            if __fn == "read_trn_iter":
                res = list(res)
                calls.setdefault(__fn, []).append(([(u, [canon_elem(x) for x in tr]) for u, tr in res], a[1:]))
                return iter(res)
            calls.setdefault(__fn, []).append((json.loads(json.dumps(res)), a[1:]))
            return res

        pats.append(mock.patch.object(data, fn, wrapper))
    so, se = io.StringIO(), io.StringIO()
    exc = rc = None
    for p in pats:
        p.start()
    try:
        with warnings.catch_warnings(), contextlib.redirect_stdout(so), contextlib.redirect_stderr(se):
            warnings.simplefilter("ignore")
            if _ENTRY["argv"]:
                # the console script calls the function without arguments: they are taken from sys.argv
                import sys
                with mock.patch.object(sys, "argv", [name] + [str(a) for a in args]):
                    rc = getattr(cmd, name)()
            else:
                rc = getattr(cmd, name)([str(a) for a in args])
    except Exception as e:  # noqa: BLE001
        exc = exc_kind(e)
    finally:
        for p in pats:
            p.stop()
    if exc is None and rc not in (None, 0):
        exc = "rc1" if rc == 1 else f"rc{rc}"
    return dict(exc=exc, rc=rc, out=so.getvalue(), err=se.getvalue(), order=log[0] if log else None, calls=calls)


def pool_args(case):
    """-> (cli args, fake-pool seed or None).  case['workers']: 0 serial; n>0 with case['pool'] in
    {'fake','real'}"""
    w = case.get("workers", 0)
    a = ["--num-workers", w]
    if w:
        a += ["--mp-chunk-size", case.get("chunk", 1)]
    return a, (case.get("sched", 0) if w and case.get("pool", "fake") == "fake" else None)


def corder(case, res, n_items):
    """the model's (workers, order) arguments"""
    if not case.get("workers", 0):
        return "0%nat []"
    order = res["order"] if res["order"] is not None else list(range(n_items))
    return f"1%nat {cl([cn(i) for i in order])}"


def fix_args(case):
    a = []
    if case["pre"] != "":
        a += ["--file-prefix", case["pre"]]
    if case["suf"] != ".pt" or case.get("explicit_suf"):
        a += ["--file-suffix=" + case["suf"]]
    return a


def real_pool(case):
    return bool(case.get("workers")) and case.get("pool") == "real"


def write_map(path, pairs, swap):
    with open(path, "w") as f:
        for a, b in pairs:
            f.write(f"{b} {a}\n" if swap else f"{a} {b}\n")


# ----------------------------------------------------------------------------------------
# kind "ali": alignments -> token segments -> alignments;  kind "ref2ali": validation branches
# ----------------------------------------------------------------------------------------


def g_name_parts(rng):
    pre = rng.choice(PREFIXES) if rng.random() < 0.75 else ""
    suf = rng.choice(SUFFIXES) if rng.random() < 0.75 else ".pt"
    return pre, suf


def g_utts(rng, n):
    pool = ["a", "b", "utt1", "utt2", "u.3", "u-4", "zz", "A", "p_q", "u10", "u9", "x.pt", "ab", "pt"]
    rng.shuffle(pool)
    out = pool[:n]
    # ids that extend another id by a character sorting before '.', the first character of the usual suffix
    # ("a" < "a-1" as ids, but "a-1.pt" < "a.pt" as file names): order by id and order by file name differ
    if n >= 2 and rng.random() < 0.4:
        base = out[0]
        out[1] = base + rng.choice(["-1", "+x", "-b", "#2", ",c"])
    return out


def g_strays(rng, pre, suf, tensors=True):
    """names that must NOT be selected (each fails the prefix or the suffix test)"""
    cands = ["README", "zzz.txt", "other_utt1.pt", "q" + pre + "x" + suf, pre + "x" + suf + "~",
             "x" + suf + pre, "k" + pre]
    out = {}
    for c in cands:
        if rng.random() < 0.35 and not (c.startswith(pre) and c.endswith(suf)):
            out[c] = "not a tensor"
    return out


def g_pool(rng, case):
    if rng.random() < 0.12:
        case["argv"] = True      # entry point: arguments through sys.argv, as the installed console script passes them
    r = rng.random()
    if r < 0.45:
        case["workers"] = 0
    else:
        case.update(workers=rng.choice([1, 2, 3]), pool="fake", chunk=rng.choice([1, 1, 2, 3]),
                    sched=rng.randint(0, 10 ** 6))


def g_layout(rng, case, p=0.3):
    """with probability p every tensor of the case is stored as a non-contiguous view (kind rotates per file)"""
    if rng.random() < p:
        case["views"] = rng.randint(1, 3)
    return case


def g_ali_vec(rng):
    n = rng.choice([0, 1, 1, 2, 3, 5, 8, 12])
    v, cur = [], rng.randint(0, 3)
    for _ in range(n):
        if rng.random() < 0.45:
            cur = rng.randint(0, 3)
        v.append(cur)
    return v


def g_ali(rng):
    pre, suf = g_name_parts(rng)
    utts = g_utts(rng, rng.choice([0, 1, 2, 3, 4, 5]))
    case = dict(kind="ali", pre=pre, suf=suf, files={pre + u + suf: {"v": g_ali_vec(rng)} for u in utts})
    case["strays"] = g_strays(rng, pre, suf)
    case["feat"] = rng.random() < 0.4
    case["dst0"] = rng.random() < 0.2
    g_pool(rng, case)
    return g_layout(rng, case)


def ali_feats(case, scale=1):
    return {n: {"w": 2, "rows": [[0, 1]] * (len(t["v"]) * scale)} for n, t in case["files"].items()}


def x_ali(chk, sc, case):
    root = sc.new()
    a, r, b, fd = (os.path.join(root, x) for x in ("ali", "ref", "ali2", "feat"))
    write_dir(a, case["files"], case["strays"])
    pa, seed = pool_args(case)
    dst0 = {}
    if case.get("dst0") and case["files"]:
        n0 = sorted(case["files"])[0]
        dst0 = {n0: {"v": [7, 7]}, "stale" + case["suf"]: {"v": [1]}}
        write_dir(r, dst0)
    src = read_dir(a, case["strays"])
    res1 = run_cmd("torch_ali_data_dir_to_torch_token_data_dir", [a, r] + fix_args(case) + pa, seed)
    terms, meta = [], []
    sel = [n for n, _ in src if n.startswith(case["pre"]) and n.endswith(case["suf"])]
    model1 = (f"ali_to_ref_dir {cs(case['pre'])} {cs(case['suf'])} {corder(case, res1, len(sel))} "
              f"{cdir(src)} {cdir(list(dst0.items()))}")
    out1 = read_dir(r) if res1["exc"] is None else None
    impl1 = cout(res1["exc"], cdir(out1) if out1 is not None else "")
    terms.append(("ali->ref", f"check_dir ({model1}) {impl1}" if impl1 else "false"))
    if res1["exc"] is None:
        # spec-level judgement of every produced segmentation
        byname = dict(out1)
        for n, t in case["files"].items():
            if n in byname and "rows" in byname[n]:
                terms.append(("spec:ali->ref", f"ref_of_ali_okb {clz(t['v'])} {ctensor(byname[n])}"))
            else:
                meta.append(f"selected file {n!r} was not converted")
        extra = sorted(set(byname) - set(case["files"]) - set(dst0))
        if extra:
            meta.append(f"unselected files were converted: {extra}")
        # and back
        fargs = []
        if case.get("feat"):
            write_dir(fd, ali_feats(case), float_=True)
            fargs = ["--feat-dir", fd]
        for s in case["strays"]:
            with open(os.path.join(r, s), "w") as f:
                f.write("stray")
        src2 = read_dir(r, case["strays"])
        res2 = run_cmd("torch_token_data_dir_to_torch_ali_data_dir", [r, b] + fargs + fix_args(case) + pa, seed)
        sel2 = [n for n, _ in src2 if n.startswith(case["pre"]) and n.endswith(case["suf"])]
        feats = co(cdir(read_dir(fd))) if fargs else "None"
        model2 = (f"ref_to_ali_dir {cs(case['pre'])} {cs(case['suf'])} {feats} {corder(case, res2, len(sel2))} "
                  f"{cdir(src2)} []")
        out2 = read_dir(b) if res2["exc"] is None else None
        impl2 = cout(res2["exc"], cdir(out2) if out2 is not None else "")
        terms.append(("ref->ali", f"check_dir ({model2}) {impl2}" if impl2 else "false"))
        nonempty = all(len(t["v"]) > 0 for n, t in case["files"].items()) and not dst0
        if nonempty:
            if res2["exc"] is not None:
                meta.append(f"round trip of non-empty alignments raised {res2['exc']}")
            elif dict(out2) != case["files"]:
                meta.append("ali -> ref -> ali did not return the original alignments")
    return dict(terms=terms, meta=meta,
                nontrivial=bool(case["files"]) and (case["pre"] != "" or case["suf"] != ".pt" or bool(case["strays"])))


def g_ref_rows(rng, valid):
    n = rng.choice([1, 1, 2, 3, 4])
    rows, t = [], 0
    for _ in range(n):
        ln = rng.choice([0, 1, 1, 2, 3]) if not valid else rng.choice([1, 1, 2, 3])
        rows.append([rng.randint(0, 3), t, t + ln])
        t += ln
    return rows


def g_ref2ali(rng):
    pre, suf = g_name_parts(rng)
    utts = g_utts(rng, rng.choice([1, 2, 3]))
    files, Ts = {}, {}
    for u in utts:
        rows = g_ref_rows(rng, rng.random() < 0.5)
        t = {"w": 3, "rows": rows}
        m = rng.choice(["ok", "ok", "neg", "start", "gap", "w", "empty", "vec", "rev", "T", "T"])
        if m == "neg":
            rows[rng.randrange(len(rows))][rng.choice([1, 2])] = -1
        elif m == "start":
            for r in rows:
                r[1] += 1
                r[2] += 1
        elif m == "gap" and len(rows) > 1:
            rows[-1][1] += 1
            rows[-1][2] += 1
        elif m == "w":
            t = {"w": 2, "rows": [r[:2] for r in rows]}
        elif m == "empty":
            t = {"w": 3, "rows": []}
        elif m == "vec":
            t = {"v": [r[0] for r in rows]}
        elif m == "rev" and len(rows) > 1:
            # contiguous, non-negative, but a segment that ends before it starts
            rows[-1][2] = max(rows[-1][1] - 1, 0)
        files[pre + u + suf] = t
        end = t["rows"][-1][2] if t.get("rows") and len(t["rows"][-1]) == 3 else 0
        Ts[pre + u + suf] = max(end, 0) + (1 if m == "T" and rng.random() < 0.7 else 0)
    case = dict(kind="ref2ali", pre=pre, suf=suf, files=files, strays=g_strays(rng, pre, suf),
                feat=rng.random() < 0.5, Ts=Ts)
    g_pool(rng, case)
    return g_layout(rng, case)


def x_ref2ali(chk, sc, case):
    root = sc.new()
    r, b, fd = (os.path.join(root, x) for x in ("ref", "ali", "feat"))
    write_dir(r, case["files"], case["strays"])
    pa, seed = pool_args(case)
    fargs = []
    if case.get("feat"):
        write_dir(fd, {n: {"w": 1, "rows": [[0]] * T} for n, T in case["Ts"].items()}, float_=True)
        fargs = ["--feat-dir", fd]
    src = read_dir(r, case["strays"])
    res = run_cmd("torch_token_data_dir_to_torch_ali_data_dir", [r, b] + fargs + fix_args(case) + pa, seed)
    sel = [n for n, _ in src if n.startswith(case["pre"]) and n.endswith(case["suf"])]
    feats = co(cdir(read_dir(fd))) if fargs else "None"
    model = (f"ref_to_ali_dir {cs(case['pre'])} {cs(case['suf'])} {feats} {corder(case, res, len(sel))} "
             f"{cdir(src)} []")
    out = read_dir(b) if res["exc"] is None else None
    impl = cout(res["exc"], cdir(out) if out is not None else "")
    terms = [("ref->ali", f"check_dir ({model}) {impl}" if impl else "false")]
    return dict(terms=terms, meta=[], nontrivial=len(case["files"]) > 0)


# ----------------------------------------------------------------------------------------
# kind "trn": trn file -> token directory -> trn
# ----------------------------------------------------------------------------------------

WORDS = ["a", "b", "cat", "dog", "e", "the", "x1", "<unk>", "-", "0"]


# (round-4 miss C17-g) token names of two and more characters that are prefixes of each other, the first character of a
# name being a name itself: indexing a bare name where a (name, start, end) triple is expected yields another token
NAME_FAMILIES = [["a", "an", "and", "ant"], ["t", "th", "the", "then", "them"], ["he", "hel", "help", "hello"],
                 ["c", "ca", "cat", "cats"], ["x", "x1", "x12"], ["wo", "wor", "word", "world"], ["1", "12", "123"]]


def g_names(rng, n):
    """n distinct token names: at least two from one prefix family, the rest from a second family and WORDS"""
    fams = rng.sample(NAME_FAMILIES, 2)
    pool = list(fams[0])
    rng.shuffle(pool)
    k = max(1, min(n, rng.randint(2, len(pool))))
    out = pool[:k]
    rest = [w for w in dict.fromkeys(fams[1] + WORDS) if w not in out]
    rng.shuffle(rest)
    out += rest[:n - k]
    rng.shuffle(out)
    return out


TIMINGS = ["vec", "col1", "timed", "neg", "mixed", "mixed", "first_unk", "first_unk", "first_only", "first_only", "last_unk",
           "last_only", "one_bound"]


def g_timing(rng, ids, kind=None):
    """a stored token sequence (tensor-dict) whose token column is `ids`: (R,), (R,1) or (R,3) with the boundaries of ANY
    subset of the tokens unknown (negative start, end or both); known boundaries strictly increase along the sequence"""
    kind = kind or rng.choice(TIMINGS)
    if kind == "vec":
        return {"v": list(ids)}
    if kind == "col1":
        return {"w": 1, "rows": [[i] for i in ids]}
    rows, t = [], rng.randint(0, 5)
    for i in ids:
        dur = rng.choice([1, 1, 2, 3, 7, 0 if rng.random() < 0.2 else 2])
        rows.append([i, t, t + dur])
        t += dur + rng.choice([1, 1, 2, 6])
    unk = rng.choice([-1, -1, -1, -1, -1, -2, -7])

    def lose(r, both=False):
        what = "b" if both else rng.choice("seb")
        if what in "sb":
            r[1] = unk
        if what in "eb":
            r[2] = unk

    n = len(rows)
    for k, r in enumerate(rows):
        if kind == "neg":
            lose(r, True)
        elif kind == "mixed" and rng.random() < 0.5:
            lose(r)
        elif kind == "first_unk" and k == 0:
            lose(r)
        elif kind == "first_only" and k > 0:
            lose(r)
        elif kind == "last_unk" and k == n - 1:
            lose(r)
        elif kind == "last_only" and k < n - 1:
            lose(r)
        elif kind == "one_bound":
            r[rng.choice([1, 2])] = unk
    return {"w": 3, "rows": rows}


def tok_col(t):
    return list(t["v"]) if "v" in t else [r[0] for r in t["rows"]]


def timing_class(t):
    """how the tokens of a stored sequence are timed (histogram key)"""
    if "v" in t or t["w"] != 3:
        return "no-columns"
    known = [r[1] >= 0 and r[2] >= 0 for r in t["rows"]]
    if not known:
        return "empty"
    if all(known):
        return "all"
    if not any(known):
        return "none"
    return ("first-known" if known[0] else "first-unknown") + ("/rest-mixed" if len(set(known[1:])) > 1 else "/rest-other")


def g_vocab(rng):
    if rng.random() < 0.35:
        words = g_names(rng, rng.randint(2, 6))
        ids = rng.sample(range(0, 12), len(words))
        if rng.random() < 0.1:
            ids[0] = -3
        return [[w, i] for w, i in zip(words, ids)]
    words = WORDS[:]
    rng.shuffle(words)
    words = words[:rng.randint(2, 6)]
    ids = rng.sample(range(0, 12), len(words))
    if rng.random() < 0.1:
        ids[0] = ids[-1]
    if rng.random() < 0.1:
        ids[0] = -3
    return [[w, i] for w, i in zip(words, ids)]


def g_elem(rng, vocab, depth, oov):
    if depth > 0 and rng.random() < 0.25:
        return {"alt": [[g_elem(rng, vocab, depth - 1, oov) for _ in range(rng.randint(1, 2))]
                        for _ in range(rng.randint(1, 3))]}
    if rng.random() < oov:
        return "oov"
    return rng.choice(vocab)[0]


def g_trn(rng):
    pre, suf = g_name_parts(rng)
    vocab = g_vocab(rng)
    alts = rng.random() < 0.3
    oov = rng.choice([0, 0, 0, 0.15])
    utts = [[u, [g_elem(rng, vocab, 2 if alts else 0, oov) for _ in range(rng.choice([0, 1, 2, 3, 5]))]]
            for u in g_utts(rng, rng.choice([0, 1, 2, 3, 4, 5]))]
    unk = None
    if rng.random() < 0.3:
        unk = rng.choice(vocab)[0] if rng.random() < 0.85 else "nope"
    shape = rng.choice(["full", "full", "skip", "featsz"])
    case = dict(kind="trn", pre=pre, suf=suf, vocab=vocab, utts=utts, swap=rng.random() < 0.3, unk=unk,
                shape=shape, alt=rng.choice(["error", "first"]) if alts else "error",
                dst0=rng.random() < 0.15, strays=g_strays(rng, pre, suf),
                back_swap=rng.random() < 0.3, back_drop=rng.random() < 0.12, back_workers=2 if rng.random() < 0.04 else 0)
    g_pool(rng, case)
    return case


def vocab_dict(vocab):
    d = {}
    for w, i in vocab:
        d[w] = i
    return d


def ct2i(vocab):
    return cl([cp(ctk(w), cz(i)) for w, i in vocab_dict(vocab).items()])


def inv_vocab(vocab, drop=False):
    d = {}
    for w, i in vocab_dict(vocab).items():
        d[i] = w
    items = list(d.items())
    if drop and items:
        items = items[1:]
    return items


def ci2t(items):
    return cl([cp(cz(i), ctk(w)) for i, w in items])


def shape_args(case):
    return {"full": [], "skip": ["--skip-frame-times"], "featsz": ["--feat-sizing"]}[case["shape"]]


def cshape(case):
    return f"{cb(case['shape'] == 'skip')} {cb(case['shape'] == 'featsz')}"


def has_alt(utts):
    return any(not isinstance(x, str) for _, tr in utts for x in tr)


def x_trn(chk, sc, case):
    import pydrobert.torch.data as data
    root = sc.new()
    trn, t2i, d, i2t, trn2 = (os.path.join(root, x) for x in ("in.trn", "t2i", "ref", "i2t", "out.trn"))
    data.write_trn([(u, [py_elem(x, True) for x in tr]) for u, tr in case["utts"]], trn)
    write_map(t2i, case["vocab"], case["swap"])
    dst0 = {}
    if case.get("dst0") and case["utts"]:
        dst0 = {case["pre"] + case["utts"][0][0] + case["suf"]: {"v": [9, 9, 9]}}
        write_dir(d, dst0)
    pa, seed = pool_args(case)
    args = [trn, t2i, d] + fix_args(case) + pa + shape_args(case)
    if case["swap"]:
        args.append("--swap")
    if case["unk"] is not None:
        args += ["--unk-symbol", case["unk"]]
    if case["alt"] != "error":
        args += ["--alt-handler", case["alt"]]
    res = run_cmd("trn_to_torch_token_data_dir", args, seed, capture=["read_trn_iter"])
    terms, meta = [], []
    cnt = {"trn_outcome=" + str(res["exc"]): 1}
    if case["unk"] is not None and case["unk"] not in vocab_dict(case["vocab"]):
        if res["exc"] != "rc1":
            meta.append(f"unknown --unk-symbol accepted (outcome {res['exc']})")
        return dict(terms=terms, meta=meta, nontrivial=False, count=cnt)
    ts = res["calls"].get("read_trn_iter", [[None]])[0][0]
    if ts is None:
        return dict(terms=[("trn->dir", "false")], meta=meta, nontrivial=False, count=cnt)
    cts = cl([cp(cs(u), cl(["(" + celem(x) + ")" for x in tr])) for u, tr in ts])
    unk = co(ctk(case["unk"])) if case["unk"] is not None else "None"
    model = (f"trn_to_dir {'AltFirst' if case['alt'] == 'first' else 'AltError'} {cs(case['pre'])} {cs(case['suf'])} "
             f"{ct2i(case['vocab'])} {unk} {cshape(case)} {corder(case, res, len(ts))} {cts} {cdir(list(dst0.items()))}")
    out = read_dir(d) if res["exc"] is None else None
    impl = cout(res["exc"], cdir(out) if out is not None else "")
    terms.append(("trn->dir", f"check_dir ({model}) {impl}" if impl else "false"))
    if res["exc"] is None:
        write_dir(d, {}, case["strays"])
        src = read_dir(d, case["strays"])
        items = inv_vocab(case["vocab"], case["back_drop"])
        write_map(i2t, items, case["back_swap"])
        bargs = [d, i2t, trn2] + fix_args(case) + ["--num-workers", case.get("back_workers", 0)]
        if case["back_swap"]:
            bargs.append("--swap")
        res2 = run_cmd("torch_token_data_dir_to_trn", bargs, None, capture=["write_trn"])
        cnt["trn_back_outcome=" + str(res2["exc"])] = 1
        got = res2["calls"].get("write_trn", [[None]])[0][0]
        model2 = f"dir_to_trn {ci2t(items)} {cs(case['pre'])} {cs(case['suf'])} {cdir(src)}"
        if res2["exc"] is None and got is not None:
            impl2 = cout(None, ctranscripts(got))
        else:
            impl2 = cout(res2["exc"], "")
        terms.append(("dir->trn", f"check_transcripts ({model2}) {impl2}" if impl2 else "false"))
        plain = (not has_alt(case["utts"]) and not dst0 and not case["back_drop"]
                 and len(set(i for _, i in case["vocab"])) == len(case["vocab"])
                 and all(x in vocab_dict(case["vocab"]) for _, tr in case["utts"] for x in tr))
        if plain:
            # the property itself: the file that comes back holds the original transcripts
            if res2["exc"] is not None:
                meta.append(f"trn -> dir -> trn raised {res2['exc']}")
            else:
                back = data.read_trn(trn2)
                want = sorted(([u, tr] for u, tr in case["utts"]), key=lambda x: x[0])
                if [[u, list(tr)] for u, tr in back] != want:
                    meta.append("trn -> dir -> trn did not return the original transcripts (sorted by utterance)")
    return dict(terms=terms, meta=meta, count=cnt,
                nontrivial=bool(case["utts"]) and (case["pre"] != "" or case["suf"] != ".pt" or bool(case.get("workers"))))


# ----------------------------------------------------------------------------------------
# kind "ctm": ctm file -> token directory -> ctm
# ----------------------------------------------------------------------------------------

SHIFTS = [None, None, 10.0, 12.5, 15.625, 20.0, 1.0, 31.25]


def g_ctm(rng):
    pre, suf = g_name_parts(rng)
    vocab = g_vocab(rng)
    oov = rng.choice([0, 0, 0, 0.15])
    utts = []
    for u in g_utts(rng, rng.choice([0, 1, 2, 3, 4])):
        toks, t = [], rng.randint(0, 40)
        for _ in range(rng.choice([1, 1, 2, 3, 4])):
            dur = rng.choice([0, 1, 2, 5, 16, 33, 64, 100])
            toks.append(["oov" if rng.random() < oov else rng.choice(vocab)[0], t, dur])
            t += dur + rng.choice([0, 0, 3, 20])
        rng.shuffle(toks)
        utts.append([u, toks])
    shape = rng.choice(["full", "full", "full", "skip", "featsz"])
    fs = rng.choice(SHIFTS) if shape == "full" else None
    unk = None
    if rng.random() < 0.25:
        unk = rng.choice(vocab)[0]
    case = dict(kind="ctm", pre=pre, suf=suf, vocab=vocab, utts=utts, swap=rng.random() < 0.3, unk=unk, shape=shape,
                fs=fs, wc=rng.choice(["none", "none", "wc2utt", "utt2wc"]), strays=g_strays(rng, pre, suf),
                back_fs=fs if rng.random() < 0.8 else rng.choice(SHIFTS), back_wc=rng.choice(["channel", "chan:B", "wc2utt", "utt2wc"]),
                back_swap=rng.random() < 0.3, back_drop=rng.random() < 0.1)
    g_pool(rng, case)
    return case


def _wc(case, u):
    return ("w_" + u, "B" if len(u) % 2 else "A") if case["wc"] != "none" else (u, "A")


def _write_wc(path, utts, kind, wcf):
    with open(path, "w") as f:
        for u in utts:
            w, c = wcf(u)
            f.write(f"{w} {c} {u}\n" if kind == "wc2utt" else f"{u} {w} {c}\n")


def x_ctm(chk, sc, case):
    root = sc.new()
    ctm, t2i, d, i2t, ctm2, wcp, wcp2 = (os.path.join(root, x) for x in ("in.ctm", "t2i", "ref", "i2t", "out.ctm", "wc", "wc2"))
    with open(ctm, "w") as f:
        for u, toks in case["utts"]:
            w, c = _wc(case, u)
            for tok, st, du in toks:
                f.write(f"{w} {c} {st / 64} {du / 64} {tok}\n")
    write_map(t2i, case["vocab"], case["swap"])
    pa, seed = pool_args(case)
    args = [ctm, t2i, d] + fix_args(case) + pa + shape_args(case)
    if case["fs"] is not None:
        args += ["--frame-shift-ms", case["fs"]]
    if case["swap"]:
        args.append("--swap")
    if case["unk"] is not None:
        args += ["--unk-symbol", case["unk"]]
    names = [u for u, _ in case["utts"]]
    if case["wc"] != "none":
        _write_wc(wcp, names, case["wc"], lambda u: _wc(case, u))
        args += ["--" + case["wc"], wcp]
    res = run_cmd("ctm_to_torch_token_data_dir", args, seed, capture=["read_ctm"])
    terms, meta = [], []
    cnt = {"ctm_outcome=" + str(res["exc"]): 1}
    call = res["calls"].get("read_ctm", [None])[0]
    if call is None:
        return dict(terms=[("ctm->dir", "false")], meta=meta, nontrivial=False, count=cnt)
    ts, rest = call
    want_wc = None if case["wc"] == "none" else {_wc(case, u): u for u in names}
    got_wc = rest[0] if rest else None
    if got_wc is not None:
        got_wc = dict(got_wc) if not isinstance(got_wc, dict) else got_wc
    fs = 10.0 if case["fs"] is None else case["fs"]
    cts = cl([cp(cs(u), cl([cp(cs(x[0]), cq(Fraction(x[1])), cq(Fraction(x[2]))) for x in tr])) for u, tr in ts])
    unk = co(ctk(case["unk"])) if case["unk"] is not None else "None"
    model = (f"ctm_to_dir {cs(case['pre'])} {cs(case['suf'])} {ct2i(case['vocab'])} {cqopt(fs)} {unk} {cshape(case)} "
             f"{corder(case, res, len(ts))} {cts} []")
    out = read_dir(d) if res["exc"] is None else None
    impl = cout(res["exc"], cdir(out) if out is not None else "")
    terms.append(("ctm->dir", f"check_dir ({model}) {impl}" if impl else "false"))
    if res["exc"] is None:
        write_dir(d, {}, case["strays"])
        src = read_dir(d, case["strays"])
        items = inv_vocab(case["vocab"], case["back_drop"])
        write_map(i2t, items, case["back_swap"])
        bargs = [d, i2t, ctm2] + fix_args(case)
        bfs = 10.0 if case["back_fs"] is None else case["back_fs"]
        if case["back_fs"] is not None:
            bargs += ["--frame-shift-ms", case["back_fs"]]
        if case["back_swap"]:
            bargs.append("--swap")
        bw = case["back_wc"]
        wcf = lambda u: ("v_" + u, "C")
        if bw in ("wc2utt", "utt2wc"):
            _write_wc(wcp2, names, bw, wcf)
            bargs += ["--" + bw, wcp2]
            want_u2wc = {u: list(wcf(u)) for u in names}
        elif bw.startswith("chan:"):
            bargs += ["--channel", bw[5:]]
            want_u2wc = bw[5:]
        else:
            want_u2wc = "A"
        res2 = run_cmd("torch_token_data_dir_to_ctm", bargs, None, capture=["write_ctm"])
        cnt["ctm_back_outcome=" + str(res2["exc"])] = 1
        call2 = res2["calls"].get("write_ctm", [None])[0]
        model2 = f"dir_to_ctm {ci2t(items)} {cs(case['pre'])} {cs(case['suf'])} {cqopt(bfs)} {cdir(src)}"
        if call2 is not None:
            got, rest2 = call2
            impl2 = cout(None, ctranscripts(got))
            g = rest2[0] if rest2 else None
            if isinstance(g, dict):
                g = {k: list(v) for k, v in g.items()}
            if g != want_u2wc:
                meta.append(f"write_ctm received utt2wc={g!r}, expected {want_u2wc!r}")
        else:
            got = None
            impl2 = cout(res2["exc"], "")
        terms.append(("dir->ctm", f"check_transcripts_tol ({model2}) {impl2}" if impl2 else "false"))
        # the same directory (it has real boundaries) to trn: the times must be stripped
        trn3 = os.path.join(root, "out.trn")
        res3 = run_cmd("torch_token_data_dir_to_trn", [d, i2t, trn3] + fix_args(case) + ["--num-workers", 0]
                       + (["--swap"] if case["back_swap"] else []), None, capture=["write_trn"])
        got3 = res3["calls"].get("write_trn", [[None]])[0][0]
        model3 = f"dir_to_trn {ci2t(items)} {cs(case['pre'])} {cs(case['suf'])} {cdir(src)}"
        impl3 = cout(None, ctranscripts(got3)) if (res3["exc"] is None and got3 is not None) else cout(res3["exc"], "")
        terms.append(("timed dir->trn", f"check_transcripts ({model3}) {impl3}" if impl3 else "false"))
        vd = vocab_dict(case["vocab"])
        plain = (case["shape"] == "full" and not case["back_drop"] and case["back_fs"] == case["fs"]
                 and len(set(vd.values())) == len(vd) and all(x[0] in vd for _, tr in case["utts"] for x in tr))
        if plain:
            # the property itself: same utterances, same tokens, times within one frame
            if got is None:
                meta.append(f"ctm -> dir -> ctm raised {res2['exc']}")
            else:
                want = {u: sorted(tr, key=lambda x: x[1]) for u, tr in ts}
                gotd = {u: tr for u, tr in got}
                ok = set(want) == set(gotd) and [u for u, _ in got] == sorted(gotd)
                one = Fraction(fs) / 1000
                for u in want if ok else []:
                    a, b = want[u], gotd[u]
                    ok = ok and len(a) == len(b) and all(
                        x[0] == y[0] and abs(Fraction(x[1]) - Fraction(y[1])) < one
                        and abs(Fraction(x[2]) - Fraction(y[2])) < one for x, y in zip(a, b))
                if not ok:
                    meta.append("ctm -> dir -> ctm did not return the original transcripts to within one frame")
    if want_wc is not None or got_wc is not None:
        g = None if got_wc is None else {tuple(k) if not isinstance(k, str) else k: v for k, v in got_wc.items()}
        if g != want_wc:
            meta.append(f"read_ctm received wc2utt={g!r}, expected {want_wc!r}")
    return dict(terms=terms, meta=meta, count=cnt,
                nontrivial=bool(case["utts"]) and (case["pre"] != "" or case["suf"] != ".pt" or bool(case.get("workers"))))


# ----------------------------------------------------------------------------------------
# kind "er": error rates
# ----------------------------------------------------------------------------------------

COSTS = [None, None, None, [2.0, 2.0, 2.0], "nist", [1.0, 2.0, 3.0], [3.0, 1.0, 2.0]]


def g_seq(rng, hi):
    return [rng.randint(0, hi) for _ in range(rng.choice([0, 1, 2, 3, 4, 6]))]


def g_er(rng):
    pre, suf = g_name_parts(rng)
    hi = rng.choice([2, 3, 5])
    utts = g_utts(rng, rng.choice([0, 1, 2, 3, 4, 5, 6]))
    ref, hyp = {}, {}
    for u in utts:
        r = g_seq(rng, hi)
        h = list(r) if rng.random() < 0.3 else g_seq(rng, hi)
        if rng.random() < 0.4 and r:
            h = list(r)
            for _ in range(rng.randint(1, 2)):
                k = rng.randrange(len(h) + 1)
                op = rng.choice("ids")
                if op == "i":
                    h.insert(k, rng.randint(0, hi))
                elif h:
                    k = min(k, len(h) - 1)
                    if op == "d":
                        del h[k]
                    else:
                        h[k] = rng.randint(0, hi)
        ref[u], hyp[u] = r, h
    missing = rng.random() < 0.25 and utts
    if missing:
        for u in utts:
            if rng.random() < 0.3:
                (ref if rng.random() < 0.5 else hyp).pop(u)
    mode = rng.choice(["int", "int", "str", "str_swap"])
    toks = [f"t{i}" for i in range(hi + 1)]
    if mode != "int" and rng.random() < 0.1:
        toks = toks[:-1]          # an id without a token: ValueError
    rep = [[rng.randint(0, hi), rng.randint(0, hi)] for _ in range(rng.choice([0, 0, 1, 2]))]
    ign = [rng.randint(0, hi) for _ in range(rng.choice([0, 0, 1, 2]))]
    n = len(utts)
    case = dict(kind="er", pre=pre, suf=suf, ref=ref, hyp=hyp, mode=mode, toks=toks, rep=rep, ign=ign,
                timing={u: rng.random() < 0.3 for u in utts},
                batch=rng.choice([None, 1, 1, 2, 3, max(n, 1), n + 1]), batch2=rng.choice([1, 2, 3, 100]),
                per_utt=rng.random() < 0.35, distances=rng.random() < 0.3, warn=bool(missing) and rng.random() < 0.7,
                costs=rng.choice(COSTS), layout=rng.choice(["two", "two", "parent"]), strays=g_strays(rng, pre, suf))
    r_ = rng.random()
    if r_ < 0.15 and len(utts) >= 2:
        # (audit) an id that extends another id, present in one directory only, with --warn-missing: the pairing loop
        # walks both listings in ID order ("a" < "a-1"), which is not the order of the file names ("a-1.pt" < "a.pt")
        base = utts[0]
        ext = utts[1] if utts[1].startswith(base) and utts[1] != base else base + rng.choice(["-1", "+x", "#2", ",c"])
        if ext != utts[1]:
            for d_ in (ref, hyp, case["timing"]):
                if utts[1] in d_:
                    d_[ext] = d_.pop(utts[1])
            utts[1] = ext
        for u in utts:
            ref.setdefault(u, g_seq(rng, hi))
            hyp.setdefault(u, list(ref[u]) if rng.random() < 0.5 else g_seq(rng, hi))
            case["timing"].setdefault(u, False)
        gone, side = rng.choice([base, ext, ext]), rng.choice([ref, hyp])
        side.pop(gone)
        if rng.random() < 0.3 and len(utts) > 2:
            (hyp if side is ref else ref).pop(utts[2], None)
        case["warn"] = rng.random() < 0.85
        if case["suf"] == "":
            case["suf"] = rng.choice([".pt", ".x", "_s.pt"])
    elif r_ < 0.33 and len(utts) >= 3:
        # (audit) --distances in total mode over several batches, the last one shorter: N not divisible by the batch size
        for u in utts:
            ref.setdefault(u, g_seq(rng, hi))
            hyp.setdefault(u, g_seq(rng, hi))
            case["timing"].setdefault(u, False)
        n_ = len(utts)
        bs = [b for b in range(2, n_) if n_ % b]
        case.update(distances=True, per_utt=rng.random() < 0.15, warn=False, batch=rng.choice(bs) if bs else 2,
                    batch2=rng.choice([1, n_, 100]))
    if rng.random() < 0.4:
        # (round-4 miss C17-g) per-token attributes: the boundaries of any subset of the tokens of a reference - and of a
        # hypothesis - are unknown; only the token column counts.  Token names come from prefix families
        case["timing"] = {u: timing_only(g_timing(rng, v)) for u, v in case["ref"].items()}
        case["htiming"] = {u: timing_only(g_timing(rng, v, rng.choice([None, None, "vec"]))) for u, v in case["hyp"].items()}
        if mode != "int" and rng.random() < 0.8:
            case["toks"] = g_names(rng, len(toks))
    if mode == "int" and rng.random() < 0.5:
        # stored ids are arbitrary integers: negative ones (-1, -2, ...) and large ones are ordinary tokens
        sh = rng.choice([1, 2, 3, -1000])
        f = lambda x: x - sh  # noqa: E731
        case["ref"] = {u: [f(x) for x in v] for u, v in ref.items()}
        case["hyp"] = {u: [f(x) for x in v] for u, v in hyp.items()}
        case["rep"] = [[f(a), f(b)] for a, b in rep]
        case["ign"] = [f(x) for x in ign]
        case["shift"] = sh
    if rng.random() < 0.12:
        case["argv"] = True
    return g_layout(rng, case, 0.25)


def timing_only(t):
    """the shape and the boundary columns of a stored sequence, without its token column"""
    if "v" in t:
        return {"shape": "vec"}
    if t["w"] != 3:
        return {"shape": "col1"}
    return {"shape": "w3", "se": [r[1:] for r in t["rows"]]}


def _er_tensor(seq, timing):
    """timing: falsy (a vector), True (every token timed) or a timing_only() descriptor for len(seq) tokens"""
    if isinstance(timing, dict):
        if timing["shape"] == "vec":
            return {"v": list(seq)}
        if timing["shape"] == "col1":
            return {"w": 1, "rows": [[x] for x in seq]}
        return {"w": 3, "rows": [[x] + list(se) for x, se in zip(seq, timing["se"])]}
    if timing:
        return {"w": 3, "rows": [[x, 2 * i, 2 * i + 1] for i, x in enumerate(seq)]}
    return {"v": list(seq)}


def _parse_er(text, per_utt):
    if per_utt:
        rows = []
        for line in text.splitlines():
            u, v = line.rsplit(" ", 1)
            rows.append((u, Fraction(float(v))))
        return "(ObsPerUtt " + cl([cp(cs(u), cq(v)) for u, v in rows]) + ")"
    return f"(ObsTotal {cq(Fraction(float(text.strip())))})"


def _er_run(case, root, batch, tag):
    """-> (res, output text)"""
    out = os.path.join(root, "out" + tag)
    if case["layout"] == "parent":
        args = [root]
    else:
        args = [os.path.join(root, "ref"), os.path.join(root, "hyp"), out]
    args += fix_args(case) + ["--quiet"]
    if batch is not None:
        args += ["--batch-size", batch]
    if case["mode"] != "int":
        args += ["--id2token", os.path.join(root, "i2t")]
        if case["mode"] == "str_swap":
            args.append("--swap")
    if case["rep"]:
        args += ["--replace", os.path.join(root, "rep")]
    if case["ign"]:
        args += ["--ignore", os.path.join(root, "ign")]
    for k in ("per_utt", "distances"):
        if case[k]:
            args.append("--" + k.replace("_", "-"))
    if case["warn"]:
        args.append("--warn-missing")
    if case["costs"] == "nist":
        args.append("--nist-costs")
    elif case["costs"]:
        args += ["--costs"] + case["costs"]
    res = run_cmd("compute_torch_token_data_dir_error_rates", args)
    text = res["out"] if case["layout"] == "parent" else (open(out).read() if os.path.exists(out) else "")
    return res, text


def x_er(chk, sc, case):
    import pydrobert.torch.functional as F
    root = sc.new()
    rd, hd = os.path.join(root, "ref"), os.path.join(root, "hyp")
    pre, suf = case["pre"], case["suf"]
    write_dir(rd, {pre + u + suf: _er_tensor(v, case["timing"].get(u)) for u, v in case["ref"].items()}, case["strays"])
    write_dir(hd, {pre + u + suf: _er_tensor(v, case.get("htiming", {}).get(u)) for u, v in case["hyp"].items()}, case["strays"])
    name = (lambda i: case["toks"][i] if i < len(case["toks"]) else i) if case["mode"] != "int" else (lambda i: i)
    if case["mode"] != "int":
        write_map(os.path.join(root, "i2t"), list(enumerate(case["toks"])), case["mode"] == "str_swap")
    if case["rep"]:
        with open(os.path.join(root, "rep"), "w") as f:
            for a, b in case["rep"]:
                f.write(f"{name(a)} {name(b)}\n")
    if case["ign"]:
        with open(os.path.join(root, "ign"), "w") as f:
            f.write(" ".join(str(name(x)) for x in case["ign"]) + "\n")
    res, text = _er_run(case, root, case["batch"], "1")
    cnt = {"er_outcome=" + str(res["exc"]): 1, "er_costs=" + str(case["costs"]): 1,
           "er_id_shift=" + str(case.get("shift", 0)): 1}
    both = set(case["ref"]) & set(case["hyp"])
    every = set(case["ref"]) | set(case["hyp"])
    if case["distances"] and not case["per_utt"] and case["batch"] and len(both) > case["batch"] and len(both) % case["batch"]:
        cnt["er_audit=distances total, several batches, last one shorter"] = 1
    if case["warn"] and any(v != u and v.startswith(u) and ((u in both) != (v in both)) for u in every for v in every):
        cnt["er_audit=--warn-missing, an id and its extension, one of them unpaired"] = 1
    for side, tm in (("ref", case["timing"]), ("hyp", case.get("htiming", {}))):
        for u in case[side]:
            if isinstance(tm.get(u), dict):
                cnt[f"er_{side}_timing=" + timing_class(_er_tensor(case[side][u], tm[u]))] = 1
    if case["mode"] != "int" and any(len(a) > 1 and a != b and a.startswith(b) for a in case["toks"] for b in case["toks"]):
        cnt["er_names=a name is a proper prefix of another"] = 1
    terms, meta = [], []
    # the pairing and the filtering, read off the property (for the oracle table and the spec term)
    common = sorted(set(case["ref"]) & set(case["hyp"]))
    repd = {}
    for a, b in case["rep"]:
        repd[name(a)] = name(b)
    ign = {name(x) for x in case["ign"]}
    filt = lambda seq: [repd.get(name(t), name(t)) for t in seq if repd.get(name(t), name(t)) not in ign]
    pairs = [(filt(case["ref"][u]), filt(case["hyp"][u])) for u in common]
    costs = [3.0, 3.0, 4.0] if case["costs"] == "nist" else (case["costs"] or [1.0, 1.0, 1.0])
    uniform = costs[0] == costs[1] == costs[2]
    if uniform:
        edits = "unit_edits"
    else:
        tbl = []
        for r, h in pairs:
            enc = {}
            rr = [enc.setdefault(t, len(enc)) for t in r]
            hh = [enc.setdefault(t, len(enc)) for t in h]
            with warnings.catch_warnings():
                warnings.simplefilter("ignore")
                e = F.error_rate(torch.tensor(rr + [-1]).unsqueeze(1), torch.tensor(hh + [-1]).unsqueeze(1), eos=-1,
                                 norm=False, ins_cost=costs[0], del_cost=costs[1], sub_cost=costs[2], warn=False)
            tbl.append(int(e.item()))
        edits = f"(table_edits {clz(tbl)})"
    i2t = "None" if case["mode"] == "int" else co(cl([cp(cz(i), ctk(t)) for i, t in enumerate(case["toks"])]))
    ctok = lambda x: ctk(name(x))
    opts = (f"(mkEr {cb(case['warn'])} {cb(case['distances'])} {cb(case['per_utt'])} "
            f"{cn(100 if case['batch'] is None else case['batch'])} "
            f"{cl([cp(ctok(a), ctok(b)) for a, b in repd_items(case, name)])} {cl([ctk(x) for x in sorted(ign, key=str)])})")
    model = (f"error_rates {edits} {opts} {i2t} {cs(pre)} {cs(suf)} {cdir(read_dir(rd, case['strays']))} "
             f"{cdir(read_dir(hd, case['strays']))}")
    impl = None
    if res["exc"] is None:
        try:
            impl = f"(Done {_parse_er(text, case['per_utt'])})"
        except Exception:
            impl = None
    else:
        impl = cout(res["exc"], "")
    terms.append(("er", f"check_er ({model}) {impl}" if impl else "false"))
    if res["exc"] is not None:
        # the command raised: a concrete failure of "the command prints ..." unless the stored data make the model raise too
        terms.append(("spec:er-raises", f"match ({model}) with Done _ => false | Fail _ => true end"))
    if res["exc"] is None and not case["per_utt"] and uniform and impl:
        alltok = sorted({t for r, h in pairs for t in r + h}, key=str)
        enc = cl([cp(ctk(t), cz(i)) for i, t in enumerate(alltok)])
        cpairs = cl([cp(cl([ctk(t) for t in r]), cl([ctk(t) for t in h])) for r, h in pairs])
        # the spec is applied to the raw pairs: it does the replace / ignore itself
        raw = cl([cp(cl([ctk(name(t)) for t in case["ref"][u]]), cl([ctk(name(t)) for t in case["hyp"][u]])) for u in common])
        allraw = sorted({name(t) for u in common for t in case["ref"][u] + case["hyp"][u]} | set(alltok), key=str)
        enc = cl([cp(ctk(t), cz(i)) for i, t in enumerate(allraw)])
        terms.append(("spec:er-total", f"er_total_okb {enc} {cl([cp(ctk(a), ctk(b)) for a, b in repd.items()])} "
                      f"{cl([ctk(x) for x in sorted(ign, key=str)])} {cb(case['distances'])} {raw} "
                      f"{cq(Fraction(float(text.strip())))}"))
    if res["exc"] is None:
        res2, text2 = _er_run(case, root, case["batch2"], "2")
        if res2["exc"] is not None or text2 != text:
            meta.append(f"batch size {case['batch']} printed {text!r}, batch size {case['batch2']} printed "
                        f"{text2!r} ({res2['exc']})")
    return dict(terms=terms, meta=meta, count=cnt,
                nontrivial=len(common) >= 2 and (case["batch"] or 100) < len(common))


def repd_items(case, name):
    d = {}
    for a, b in case["rep"]:
        d[a] = b
    return list(d.items())


# ----------------------------------------------------------------------------------------
# kind "subset"
# ----------------------------------------------------------------------------------------

RATIOS = [0.0, 0.125, 0.25, 0.5, 0.75, 1.0]
CRITS = ["utt_list", "utt_list_file", "first_n", "first_ratio", "last_n", "last_ratio", "shortest_n",
         "shortest_ratio", "longest_n", "longest_ratio", "rand_n", "rand_ratio"]


def g_subset(rng):
    pre, suf = g_name_parts(rng)
    utts = g_utts(rng, rng.choice([0, 1, 2, 3, 4, 5, 6, 7]))
    lens = {u: rng.choice([0, 1, 2, 2, 2, 3, 3, 5]) for u in utts}
    extra = ["extra1", "extra2"]
    ali = None if rng.random() < 0.3 else [u for u in utts + extra if rng.random() < 0.8]
    ref = None if rng.random() < 0.3 else [u for u in utts + extra if rng.random() < 0.8]
    crit = rng.choice(CRITS)
    n = len(utts)
    if crit.startswith("utt_list"):
        cand = utts + ["ghost"]
        rng.shuffle(cand)
        param = cand[:rng.randint(1, len(cand))]
    elif crit.endswith("_n"):
        param = rng.choice([0, 1, 2, max(n - 1, 0), n, n + 2])
    else:
        param = rng.choice(RATIOS)
    if rng.random() < 0.2 and n >= 2:
        # (audit) an id that extends another id, and a first/last criterion that cuts exactly between the two: the
        # listing is ordered by ID ("a" < "a-1"), not by file name ("a-1.pt" < "a.pt")
        base = utts[0]
        if not (utts[1].startswith(base) and utts[1] != base):
            ext = base + rng.choice(["-1", "+x", "-b", "#2", ",c"])
            lens[ext] = lens.pop(utts[1])
            ali = None if ali is None else [ext if u == utts[1] else u for u in ali]
            ref = None if ref is None else [ext if u == utts[1] else u for u in ref]
            utts[1] = ext
        ext = utts[1]
        k = sorted(utts).index(ext)          # ids before the extension, the base among them
        crit = rng.choice(["first_n", "last_n", "first_ratio", "last_ratio"])
        param = {"first_n": k, "last_n": n - k, "first_ratio": (k + 0.5) / n, "last_ratio": (n - k + 0.5) / n}[crit]
        if suf == "":
            suf = rng.choice([".pt", ".x", "_s.pt", "ab"])
    case = dict(kind="subset", pre=pre, suf=suf, lens=lens, ali=ali, ref=ref, crit=crit, param=param,
                only=rng.random() < 0.25, style=rng.choice(["link", "copy", "symlink"]), seed=rng.choice([0, rng.randint(0, 999)]),
                subdirs=rng.choice([None, None, ["f", "a", "r"]]), strays=g_strays(rng, pre, suf))
    g_pool(rng, case)
    return g_layout(rng, case, 0.2)


def _sub_dirs(case):
    return case["subdirs"] or ["feat", "ali", "ref"]


def _sds_term(parts):
    """parts: [feat entries, ali entries or None, ref entries or None]; entries (name, (len, id))"""
    def d(e):
        return cl([cp(cs(n), cp(cz(a), cz(b))) for n, (a, b) in e])
    return f"(mkSds {d(parts[0])} {co(d(parts[1])) if parts[1] is not None else 'None'} " \
           f"{co(d(parts[2])) if parts[2] is not None else 'None'})"


def x_subset(chk, sc, case):
    root = sc.new()
    src, dst = os.path.join(root, "src"), os.path.join(root, "dst")
    pre, suf = case["pre"], case["suf"]
    fd, ad, rd = _sub_dirs(case)
    rng = random.Random(case["seed"])
    have = {fd: list(case["lens"]), ad: case["ali"], rd: case["ref"]}
    ids, blobs = {}, {}
    for sub, utts in have.items():
        if utts is None:
            continue
        p = os.path.join(src, sub)
        os.makedirs(p)
        for u in utts:
            T = case["lens"].get(u, 3)
            if sub == fd:
                t = torch.tensor([[rng.randint(-3, 3), rng.randint(-3, 3)] for _ in range(T)], dtype=torch.float).view(T, 2)
            elif sub == ad:
                t = torch.tensor([rng.randint(0, 3) for _ in range(T)], dtype=torch.long)
            else:
                t = torch.tensor([[rng.randint(0, 3), i, i + 1] for i in range(T)], dtype=torch.long).view(T, 3)
            fn = os.path.join(p, pre + u + suf)
            if case.get("views"):
                t = relayout(t, case["views"] + len(ids))
            torch.save(t, fn)
            ids[(sub, pre + u + suf)] = len(ids)
            blobs[(sub, pre + u + suf)] = (open(fn, "rb").read(), T)
    write_dir(os.path.join(src, fd), {}, case["strays"])

    def listing(base, sub, only_feat=False):
        p = os.path.join(base, sub) if sub else base
        if not os.path.isdir(p):
            return None
        out = []
        for n in os.listdir(p):
            fp = os.path.join(p, n)
            if os.path.isdir(fp):
                continue
            key = (sub or fd, n)
            if key in blobs and open(fp, "rb").read() == blobs[key][0]:
                out.append((n, (blobs[key][1], ids[key])))
            elif n in case["strays"]:
                out.append((n, (0, -5)))
            else:
                out.append((n, (-1, -1)))
        return out

    pa, seed = pool_args(case)
    if case["only"]:
        args = [os.path.join(src, fd), dst, "--only"]
    else:
        args = [src, dst]
        if case["subdirs"]:
            args += ["--feat-subdir", fd, "--ali-subdir", ad, "--ref-subdir", rd]
    args += fix_args(case) + pa
    if case["style"] != "link":
        args.append("--" + case["style"])
    flag = "--" + case["crit"].replace("_", "-")
    if case["crit"] == "utt_list":
        args += [flag] + case["param"]
    elif case["crit"] == "utt_list_file":
        lf = os.path.join(root, "list")
        with open(lf, "w") as f:
            f.write("".join(u + "\n" for u in case["param"]))
        args += [flag, lf]
    else:
        args += [flag, case["param"]]
    if case["crit"].startswith("rand"):
        args += ["--seed", case["seed"]]
    res = run_cmd("subset_torch_spect_data_dir", args, seed)
    cnt = {"subset_outcome=" + str(res["exc"]): 1, "subset_crit=" + case["crit"]: 1}
    if case["crit"].split("_")[0] in ("first", "last"):
        so = sorted(case["lens"])
        kk = case["param"] if case["crit"].endswith("_n") else int(len(so) * case["param"])
        if case["crit"].startswith("last"):
            kk = len(so) - kk
        if 0 < kk < len(so) and so[kk].startswith(so[kk - 1]):
            cnt["subset_audit=first/last cut between an id and its extension"] = 1
    n = len(case["lens"])
    kind, par = case["crit"], case["param"]
    perm = "[]"
    if kind.startswith("rand"):
        random.seed(str(case["seed"]))
        lst = list(range(n))
        random.shuffle(lst)
        perm = cl([cn(i) for i in lst])
    cons = {"first": "First", "last": "Last", "shortest": "Short", "longest": "Long", "rand": "Rand"}
    if kind.startswith("utt_list"):
        crit = "(UttList " + cl([cs(u) for u in par]) + ")"
    else:
        stem, what = kind.rsplit("_", 1)
        arg = cn(par) if what == "n" else cq(Fraction(par))
        crit = f"({cons[stem]}{'N' if what == 'n' else 'R'} {arg}{' ' + perm if stem == 'rand' else ''})"
    if case["only"]:
        msrc = [listing(os.path.join(src, fd), None), None, None]
        mimpl = [listing(dst, None) or [], None, None]
        mdst0 = [[], None, None]
    else:
        msrc = [listing(src, fd), listing(src, ad), listing(src, rd)]
        mimpl = [listing(dst, fd) or [], listing(dst, ad), listing(dst, rd)]
        mdst0 = [[], [] if msrc[1] is not None else None, [] if msrc[2] is not None else None]
    terms, meta = [], []
    if res["exc"] is None:
        sel_n = len([1 for nme, _ in msrc[0] if nme.startswith(pre) and nme.endswith(suf)])
        terms.append(("subset", f"check_subset {crit} {cs(pre)} {cs(suf)} {corder(case, res, sel_n)} "
                      f"{_sds_term(msrc)} {_sds_term(mdst0)} {_sds_term(mimpl)}"))
        # link style
        for sub in ([None] if case["only"] else [fd, ad, rd]):
            p = os.path.join(dst, sub) if sub else dst
            if not os.path.isdir(p):
                continue
            for nme in os.listdir(p):
                fp = os.path.join(p, nme)
                sp = os.path.join(src, sub or fd, nme)
                if case["style"] == "symlink":
                    ok = os.path.islink(fp) and not os.path.isabs(os.readlink(fp))
                elif case["style"] == "copy":
                    ok = not os.path.islink(fp) and os.path.exists(sp) and not os.path.samefile(fp, sp)
                else:
                    ok = not os.path.islink(fp) and os.path.exists(sp) and os.path.samefile(fp, sp)
                if not ok:
                    meta.append(f"{nme!r} was not placed with style {case['style']}")
    else:
        terms.append(("subset", "false"))
    return dict(terms=terms, meta=meta, count=cnt,
                nontrivial=n >= 2 and (pre != "" or suf != ".pt" or bool(case.get("workers"))))


# ----------------------------------------------------------------------------------------
# kinds "mom_ali", "mom_ref", "mvn": pooled statistics
# ----------------------------------------------------------------------------------------


def fmt_mv(s, ss, c, p, bessel, std):
    """the documented line "<mean> (<var>)" from the pooled sums"""
    import math
    if c <= 0:
        return "n/a (n/a)\n"
    mean = s / c
    var = ss / c - mean ** 2
    ms = f"{mean:0.0{p}f}"
    if bessel and c == 1:
        vs = "n/a"
    else:
        if bessel:
            var *= c / (c - 1)
        if std:
            var = math.sqrt(var)
        vs = f"{var:0.0{p}f}"
    return f"{ms} ({vs})\n"


def g_mom_common(rng, case):
    case.update(precision=rng.choice([None, 0, 1, 3, 6, 9]), bessel=rng.random() < 0.4, std=rng.random() < 0.4,
                excl=None if rng.random() < 0.5 else [rng.randint(0, 3) for _ in range(rng.randint(1, 3))],
                stdout=rng.random() < 0.3)
    g_pool(rng, case)


def g_mom_ali(rng):
    pre, suf = g_name_parts(rng)
    utts = g_utts(rng, rng.choice([0, 1, 2, 3, 4, 5]))
    case = dict(kind="mom_ali", pre=pre, suf=suf, files={pre + u + suf: {"v": g_ali_vec(rng)} for u in utts},
                strays=g_strays(rng, pre, suf))
    g_mom_common(rng, case)
    return g_layout(rng, case)


def g_mom_ref(rng):
    pre, suf = g_name_parts(rng)
    utts = g_utts(rng, rng.choice([0, 1, 2, 3, 4, 5]))
    files = {}
    for u in utts:
        r = rng.random()
        if r < 0.1:
            files[pre + u + suf] = {"v": [1, 2]}
        elif r < 0.15:
            files[pre + u + suf] = {"w": 2, "rows": [[1, 2]]}
        else:
            rows = []
            for _ in range(rng.choice([0, 1, 2, 3, 4])):
                st = rng.choice([0, 1, 2, 5, 5, -1]) if rng.random() < 0.25 else rng.randint(0, 6)
                en = st + rng.choice([0, 1, 2, 3, 7]) if rng.random() < 0.85 else rng.choice([-1, st - 1])
                rows.append([rng.randint(0, 3), st, en])
            files[pre + u + suf] = {"w": 3, "rows": rows}
    case = dict(kind="mom_ref", pre=pre, suf=suf, files=files, strays=g_strays(rng, pre, suf),
                err=rng.choice([None, None, "strict", "quiet"]))
    g_mom_common(rng, case)
    return g_layout(rng, case)


def _mom_args(case, d, out):
    args = [d] + ([] if case["stdout"] else [out]) + fix_args(case)
    if case["precision"] is not None:
        args += ["--precision", case["precision"]]
    for k in ("bessel", "std"):
        if case[k]:
            args.append("--" + k)
    if case["excl"] is not None:
        args += ["--exclude-ids"] + case["excl"]
    return args


def _cexcl(case):
    return "None" if case["excl"] is None else co(clz(case["excl"]))


def x_mom(chk, sc, case):
    root = sc.new()
    d, out = os.path.join(root, "d"), os.path.join(root, "out")
    write_dir(d, case["files"], case["strays"])
    pa, seed = pool_args(case)
    ali = case["kind"] == "mom_ali"
    args = _mom_args(case, d, out) + pa
    if not ali and case["err"]:
        args.append("--" + case["err"])
    res = run_cmd("print_torch_ali_data_dir_length_moments" if ali else "print_torch_ref_data_dir_length_moments",
                  args, seed)
    text = res["out"] if case["stdout"] else (open(out).read() if os.path.exists(out) else "")
    src = read_dir(d, case["strays"])
    sel = [n for n, _ in src if n.startswith(case["pre"]) and n.endswith(case["suf"])]
    excl = set(case["excl"] or [])
    lens, bad = [], False
    for n in sel:
        t = case["files"][n]
        if ali:
            lens += [len(list(g)) for v, g in itertools.groupby(t["v"]) if v not in excl]
        elif t.get("w") == 3:
            for tok, st, en in t["rows"]:
                valid = 0 <= st <= en
                if tok in excl:
                    continue
                if valid:
                    lens.append(en - st)
                else:
                    bad = True
        else:
            bad = True
    s_, ss_, c_ = sum(lens), sum(x * x for x in lens), len(lens)
    p = 3 if case["precision"] is None else case["precision"]
    terms, meta = [], []
    cnt = {case["kind"] + "_outcome=" + str(res["exc"]): 1}
    strict = (not ali) and case["err"] == "strict"
    fn = (f"ali_dir_moments {cs(case['pre'])} {cs(case['suf'])} {_cexcl(case)}" if ali else
          f"ref_dir_moments {cs(case['pre'])} {cs(case['suf'])} {_cexcl(case)} {cb(strict)}")
    model = f"{fn} {corder(case, res, len(sel))} {cdir(src)}"
    if res["exc"] is None:
        terms.append(("moments", f"check_mom ({model}) (Done {cp(cz(s_), cz(ss_), cz(c_))})"))
        want = fmt_mv(s_, ss_, c_, p, case["bessel"], case["std"])
        if text != want:
            meta.append(f"printed {text!r}; the pooled moments of the stored lengths give {want!r}")
        if strict and bad:
            meta.append("--strict accepted a directory with missing boundaries")
    else:
        impl = cout(res["exc"], "")
        terms.append(("moments", f"check_mom ({model}) {impl}" if impl else "false"))
    return dict(terms=terms, meta=meta, count=cnt,
                nontrivial=len(sel) >= 2 and (case["pre"] != "" or case["suf"] != ".pt" or bool(case.get("workers"))))


def g_mvn(rng):
    pre, suf = g_name_parts(rng)
    utts = g_utts(rng, rng.choice([0, 1, 2, 3, 4]))
    F_ = rng.choice([1, 2, 3])
    files = {pre + u + suf: {"w": F_, "rows": [[rng.randint(-4, 4) for _ in range(F_)] for _ in range(rng.choice([0, 1, 2, 3, 5]))]}
             for u in utts}
    id2gid = None
    if rng.random() < 0.5:
        gids = ["g1", "g2", "g3"]
        id2gid = [[u, rng.choice(gids)] for u in utts if rng.random() < 0.93] + ([["nobody", "g9"]] if rng.random() < 0.4 else [])
        rng.shuffle(id2gid)
    return g_layout(rng, dict(kind="mvn", pre=pre, suf=suf, files=files, id2gid=id2gid, bessel=rng.random() < 0.4,
                              strays=g_strays(rng, pre, suf), workers=2 if rng.random() < 0.04 else 0))


def x_mvn(chk, sc, case):
    root = sc.new()
    d, out, gp = os.path.join(root, "d"), os.path.join(root, "out.pt"), os.path.join(root, "id2gid")
    write_dir(d, case["files"], case["strays"], float_=True)
    args = [d, out] + fix_args(case) + ["--num-workers", case.get("workers", 0)]
    if case["bessel"]:
        args.append("--bessel")
    cg = "None"
    if case["id2gid"] is not None:
        with open(gp, "w") as f:
            f.write("".join(f"{u} {g}\n" for u, g in case["id2gid"]))
        args += ["--id2gid", gp]
        cg = co(cl([cp(cs(u), cs(g)) for u, g in case["id2gid"]]))
    res = run_cmd("compute_mvn_stats_for_torch_feat_data_dir", args)
    cnt = {"mvn_outcome=" + str(res["exc"]): 1}
    src = read_dir(d, case["strays"])
    model = f"mvn_command {cs(case['pre'])} {cs(case['suf'])} {cg} {cdir(src)}"
    if res["exc"] is None:
        st = torch.load(out)
        if "mean" in st and isinstance(st["mean"], torch.Tensor):
            st = {None: st}
        lq = lambda t: cl([cq(Fraction(float(v))) for v in t.flatten().tolist()])
        impl = "(Done " + cl([cp("None" if g is None else co(cs(g)), cp(lq(v["mean"]), lq(v["std"]))) for g, v in st.items()]) + ")"
    else:
        impl = cout(res["exc"], "")
    terms = [("mvn", f"check_mvn {cb(case['bessel'])} ({model}) {impl}" if impl else "false")]
    return dict(terms=terms, meta=[], count=cnt, nontrivial=len(case["files"]) >= 2)


# ----------------------------------------------------------------------------------------
# kind "tg": TextGrid directory -> token directory (modelled) -> TextGrid directory (round trip)
# ----------------------------------------------------------------------------------------


def g_tg(rng):
    pre, suf = g_name_parts(rng)
    vocab = g_vocab(rng)
    point = rng.random() < 0.25
    utts = []
    for u in g_utts(rng, rng.choice([0, 1, 2, 3, 4])):
        toks, t = [], rng.randint(0, 20)
        for _ in range(rng.choice([1, 1, 2, 3, 4])):
            dur = 0 if point else rng.choice([1, 2, 5, 16, 33, 64])
            toks.append([rng.choice(vocab)[0] if rng.random() < 0.93 else "oov", t, t + dur])
            t += dur + rng.choice([0, 0, 3, 20]) + (1 if point else 0)
        utts.append([u, toks])
    shape = rng.choice(["full", "full", "full", "skip", "featsz"])
    fill = None
    if rng.random() < 0.3:
        fill = rng.choice(vocab)[0] if rng.random() < 0.85 else "nofill"
    case = dict(kind="tg", pre=pre, suf=suf, tgsuf=rng.choice([None, None, ".tg", "_t.TextGrid"]), vocab=vocab, utts=utts,
                point=point, shape=shape, fs=rng.choice(SHIFTS) if shape == "full" else None, fill=fill,
                tier=rng.choice([None, None, "name", "idx", "badname"]), swap=rng.random() < 0.3,
                unk=rng.choice(vocab)[0] if rng.random() < 0.2 else None, strays=g_strays(rng, pre, ".TextGrid"),
                back_feat=rng.random() < 0.4)
    g_pool(rng, case)
    return case


def x_tg(chk, sc, case):
    import pydrobert.torch.data as data
    root = sc.new()
    tg, t2i, d, i2t, tg2, tg3, fdir, d2 = (os.path.join(root, x) for x in ("tg", "t2i", "ref", "i2t", "tg2", "tg3", "feat", "ref2"))
    pre, suf = case["pre"], case["suf"]
    tgsuf = case["tgsuf"] or ".TextGrid"
    os.makedirs(tg)
    for u, toks in case["utts"]:
        with open(os.path.join(tg, pre + u + tgsuf), "w") as f:
            data.write_textgrid([(t, a / 64, b / 64) for t, a, b in toks], f, None, (max(b for _, _, b in toks) + 8) / 64,
                                "tier1", case["point"], 6)
    for n, text in case["strays"].items():
        if not (n.startswith(pre) and n.endswith(tgsuf)):
            with open(os.path.join(tg, n), "w") as f:
                f.write(text)
    write_map(t2i, case["vocab"], case["swap"])
    pa, seed = pool_args(case)
    args = [tg, t2i, d] + fix_args(case) + pa + shape_args(case)
    if case["tgsuf"]:
        args += ["--textgrid-suffix", case["tgsuf"]]
    if case["fs"] is not None:
        args += ["--frame-shift-ms", case["fs"]]
    if case["swap"]:
        args.append("--swap")
    if case["unk"] is not None:
        args += ["--unk-symbol", case["unk"]]
    if case["fill"] is not None:
        args += ["--fill-symbol", case["fill"]]
    if case["tier"] in ("name", "badname"):
        args += ["--tier-name", "tier1" if case["tier"] == "name" else "nope"]
    elif case["tier"] == "idx":
        args += ["--tier-idx", 0]
    res = run_cmd("textgrids_to_torch_token_data_dir", args, seed, capture=["read_textgrid"])
    terms, meta = [], []
    cnt = {"tg_outcome=" + str(res["exc"]): 1}
    vd = vocab_dict(case["vocab"])
    if case["fill"] is not None and case["fill"] not in vd:
        if res["exc"] != "rc1":
            meta.append(f"unknown --fill-symbol accepted (outcome {res['exc']})")
        return dict(terms=terms, meta=meta, nontrivial=False, count=cnt)
    calls = {c[0]: c for c in res["calls"].get("read_textgrid", [])}
    want_tier = {"name": "tier1", "badname": "nope", "idx": 0, None: 0}[case["tier"]]
    for c in calls.values():
        if list(c[3]) != [want_tier, case["fill"]]:
            meta.append(f"read_textgrid received {c[3]!r}, expected {[want_tier, case['fill']]!r}")
            break
    listing = [n for n in os.listdir(tg)]
    ents = []
    for n in listing:
        c = calls.get(n)
        if c is None:
            ents.append(cp(cs(n), "(Done [])"))
        elif c[2] is not None:
            ents.append(cp(cs(n), cout(c[2], "") or "(Fail EOS)"))
        else:
            ents.append(cp(cs(n), "(Done " + cl([cp(cs(x[0]), cq(Fraction(x[1])), cq(Fraction(x[2]))) for x in c[1]]) + ")"))
    fs = 10.0 if case["fs"] is None else case["fs"]
    unk = co(ctk(case["unk"])) if case["unk"] is not None else "None"
    nsel = len([n for n in listing if n.startswith(pre) and n.endswith(tgsuf)])
    model = (f"tg_to_dir {cs(pre)} {cs(suf)} {cs(tgsuf)} {ct2i(case['vocab'])} {cqopt(fs)} {unk} {cshape(case)} "
             f"{corder(case, res, nsel)} {cl(ents)} []")
    out = read_dir(d) if res["exc"] is None else None
    impl = cout(res["exc"], cdir(out) if out is not None else "")
    terms.append(("tg->dir", f"check_dir ({model}) {impl}" if impl else "false"))
    if res["exc"] is None:
        # every selected TextGrid must have been read, nothing else
        if set(calls) != {n for n in listing if n.startswith(pre) and n.endswith(tgsuf)}:
            meta.append(f"TextGrid files read: {sorted(calls)}")
        # back: token directory -> TextGrids, serial and through the pool; then TextGrids -> tokens again
        write_map(i2t, inv_vocab(case["vocab"]), False)
        anyid = case["vocab"][0][1]
        extra = {"zz_other" + suf: {"w": 3, "rows": [[anyid, 0, 2]]}, pre + "x.other": {"w": 3, "rows": [[anyid, 0, 2]]}}
        write_dir(d, {n: t for n, t in extra.items() if not (n.startswith(pre) and n.endswith(suf))})
        out = read_dir(d)
        bargs = [d, i2t] + fix_args(case) + ["--quiet"]
        if case["tgsuf"]:
            bargs += ["--textgrid-suffix", case["tgsuf"]]
        if case["fs"] is not None:
            bargs += ["--frame-shift-ms", case["fs"]]
        if case["back_feat"]:
            write_dir(fdir, {n: {"w": 1, "rows": [[0]] * (max([r[2] for r in t.get("rows", []) if len(r) == 3] + [0]) + 2)}
                             for n, t in out}, float_=True)
            bargs += ["--feat-dir", fdir]
        else:
            bargs.append("--infer")
        r0 = run_cmd("torch_token_data_dir_to_textgrids", bargs[:2] + [tg2] + bargs[2:] + ["--num-workers", 0])
        r1 = run_cmd("torch_token_data_dir_to_textgrids",
                     bargs[:2] + [tg3] + bargs[2:] + ["--num-workers", 2, "--mp-chunk-size", case.get("chunk", 1)],
                     case.get("sched", 1))
        cnt["tg_back_outcome=" + str(r0["exc"])] = 1
        if (r0["exc"] is None) != (r1["exc"] is None):
            meta.append(f"token dir -> TextGrids: serial outcome {r0['exc']}, pool outcome {r1['exc']}")
        elif r0["exc"] is None:
            a = {n: open(os.path.join(tg2, n)).read() for n in os.listdir(tg2)}
            b = {n: open(os.path.join(tg3, n)).read() for n in os.listdir(tg3)}
            want_names = {n[:len(n) - len(suf)] + tgsuf for n, _ in out if n.startswith(pre) and n.endswith(suf)}
            if a != b:
                meta.append("token dir -> TextGrids: the pool wrote different files than the serial run")
            if set(a) != want_names:
                meta.append(f"token dir -> TextGrids wrote {sorted(a)}, expected {sorted(want_names)}")
            inj = len(set(vd.values())) == len(vd)
            if case["shape"] == "full" and not case["point"] and inj and set(a) == want_names:
                bargs2 = [tg2, t2i, d2] + fix_args(case)
                if case["tgsuf"]:
                    bargs2 += ["--textgrid-suffix", case["tgsuf"]]
                if case["fs"] is not None:
                    bargs2 += ["--frame-shift-ms", case["fs"]]
                if case["swap"]:
                    bargs2.append("--swap")
                if case["unk"] is not None:
                    bargs2 += ["--unk-symbol", case["unk"]]
                r2 = run_cmd("textgrids_to_torch_token_data_dir", bargs2 + ["--num-workers", 0])
                if r2["exc"] is not None:
                    meta.append(f"tokens -> TextGrids -> tokens raised {r2['exc']}")
                else:
                    o1 = {n: t for n, t in out if n.startswith(pre) and n.endswith(suf)}
                    o2 = dict(read_dir(d2))
                    ok = set(o1) == set(o2)
                    for n in o1 if ok else []:
                        r1_, r2_ = o1[n].get("rows", []), o2[n].get("rows", [])
                        ok = ok and len(r1_) == len(r2_) and all(
                            x[0] == y[0] and abs(x[1] - y[1]) <= 1 and abs(x[2] - y[2]) <= 1 for x, y in zip(r1_, r2_))
                    if not ok:
                        meta.append("tokens -> TextGrids -> tokens changed tokens or moved a boundary by more than one frame")
    return dict(terms=terms, meta=meta, count=cnt,
                nontrivial=bool(case["utts"]) and (pre != "" or suf != ".pt" or bool(case["tgsuf"]) or bool(case.get("workers"))))


# ----------------------------------------------------------------------------------------
# kind "chunk": worker-count independence of chunk-torch-spect-data-dir (its content is C10's)
# ----------------------------------------------------------------------------------------


def g_chunk(rng):
    pre, suf = g_name_parts(rng)
    utts = g_utts(rng, rng.choice([1, 2, 3, 4]))
    case = dict(kind="chunk", pre=pre, suf=suf, lens={u: rng.choice([1, 2, 3, 5, 8]) for u in utts},
                policy=rng.choice(["fixed", "fixed", "ali", "ref"]), lobe=rng.choice([0, 1, 2]),
                window=rng.choice(["symmetric", "causal", "future"]), pad=rng.choice([None, "constant", "replicate"]),
                seed=rng.randint(0, 999), workers=2, pool="fake", chunk=rng.choice([1, 2]), sched=rng.randint(0, 10 ** 6))
    return case


def _tree(root):
    out = {}
    for dp, _, fns in os.walk(root):
        for fn in fns:
            t = torch.load(os.path.join(dp, fn))
            out[os.path.relpath(os.path.join(dp, fn), root)] = (list(t.shape), t.flatten().tolist())
    return out


def x_chunk(chk, sc, case):
    root = sc.new()
    src = os.path.join(root, "src")
    rng = random.Random(case["seed"])
    pre, suf = case["pre"], case["suf"]
    for sub in ("feat", "ali", "ref"):
        os.makedirs(os.path.join(src, sub))
    for u, T in case["lens"].items():
        torch.save(torch.tensor([[float(rng.randint(-3, 3)) for _ in range(2)] for _ in range(T)]).view(T, 2),
                   os.path.join(src, "feat", pre + u + suf))
        ali = [rng.randint(0, 2) for _ in range(T)]
        torch.save(torch.tensor(ali, dtype=torch.long), os.path.join(src, "ali", pre + u + suf))
        segs = [[v, i, i + 1] for i, v in enumerate(ali)]
        torch.save(torch.tensor(segs, dtype=torch.long).view(-1, 3), os.path.join(src, "ref", pre + u + suf))
    outs = []
    for k, (w, seed) in enumerate([(0, None), (case["workers"], case["sched"])]):
        dst = os.path.join(root, "dst%d" % k)
        args = [src, dst] + fix_args(case) + ["--policy", case["policy"], "--lobe-size", case["lobe"],
                                              "--window-type", case["window"], "--quiet", "--num-workers", w]
        if w:
            args += ["--mp-chunk-size", case["chunk"]]
        if case["pad"]:
            args += ["--pad-mode", case["pad"]]
        r = run_cmd("chunk_torch_spect_data_dir", args, seed)
        outs.append((r["exc"], _tree(dst) if r["exc"] is None and os.path.isdir(dst) else None))
    meta = []
    if outs[0] != outs[1]:
        meta.append(f"chunk-torch-spect-data-dir: serial outcome {outs[0][0]}, pool outcome {outs[1][0]}, or different files")
    return dict(terms=[], meta=meta, count={"chunk_outcome=" + str(outs[0][0]): 1}, nontrivial=len(case["lens"]) >= 2)


# ----------------------------------------------------------------------------------------
# kind "tokdir" (round-4 miss C17-g): a hand-made token directory whose utterances carry boundaries on ANY subset of their
# tokens, names from prefix families -> every command that reads such a directory, and the inverse command on its output.
# Judged by the model (arguments of write_trn / write_ctm), by the property's round trip (what comes back is the stored
# token column, known boundaries within one frame) and by the documented rejections (ctm needs every boundary; the
# TextGrid writer picks intervals / points / one interval according to what is known).
# ----------------------------------------------------------------------------------------


def g_tokdir(rng):
    pre, suf = g_name_parts(rng)
    names = g_names(rng, rng.randint(2, 6))
    ids = rng.sample(range(0, 12), len(names))
    if rng.random() < 0.1:
        ids[0] = -3
    tg = rng.random() < 0.55
    regime = rng.choice(["any", "any", "any", "timed", "points"])
    files = {}
    for u in g_utts(rng, rng.choice([1, 2, 3, 4, 5])):
        seq = [rng.choice(ids) for _ in range(rng.choice([1, 2, 2, 3, 4, 5] if tg else [0, 1, 2, 2, 3, 4, 5]))]
        kind = {"timed": "timed", "points": rng.choice(["one_bound", "timed", "first_unk"])}.get(regime)
        while kind is None or (tg and kind == "col1"):
            kind = rng.choice(TIMINGS)
        files[pre + u + suf] = g_timing(rng, seq, kind)
    used = sorted({i for t in files.values() for i in tok_col(t)})
    case = dict(kind="tokdir", pre=pre, suf=suf, vocab=[[w, i] for w, i in zip(names, ids)], files=files,
                strays=g_strays(rng, pre, suf), swap=rng.random() < 0.3, fs=rng.choice(SHIFTS),
                drop=rng.choice(used) if used and not tg and rng.random() < 0.12 else None,
                back_shape=rng.choice(["full", "skip", "featsz"]), trn_workers=2 if rng.random() < 0.04 else 0)
    if tg:
        case["tg"] = dict(tgsuf=rng.choice([None, None, ".tg"]), infer=rng.random() < 0.6,
                          force=rng.choice([1, 2, 3]) if rng.random() < 0.2 else None)
        case.update(chunk=rng.choice([1, 2]), sched=rng.randint(0, 10 ** 6))
    if rng.random() < 0.12:
        case["argv"] = True
    return g_layout(rng, case, 0.25)


def _tg_allows(t, m):
    """the three ways torch-token-data-dir-to-textgrids documents: 1 every boundary known and every segment non-empty;
    2 at least one boundary of every token known; 3 always"""
    rows3 = t.get("rows") if t.get("w") == 3 else None
    if m == 1:
        return rows3 is not None and all(r[1] >= 0 and r[2] > r[1] for r in rows3)
    if m == 2:
        return rows3 is not None and all(max(r[1], r[2]) >= 0 for r in rows3)
    return True


def x_tokdir(chk, sc, case):
    import pydrobert.torch.data as data
    root = sc.new()
    d, i2t, t2i = (os.path.join(root, x) for x in ("ref", "i2t", "t2i"))
    pre, suf, files = case["pre"], case["suf"], case["files"]
    utt = {n: n[len(pre):len(n) - len(suf)] for n in files}
    write_dir(d, files, case["strays"])
    src = read_dir(d, case["strays"])
    items = [(i, w) for w, i in case["vocab"] if i != case.get("drop")]
    id2 = dict(items)
    write_map(i2t, items, case["swap"])
    write_map(t2i, case["vocab"], False)
    swap = ["--swap"] if case["swap"] else []
    order = sorted(files, key=lambda n: utt[n])          # the data set yields the utterances sorted by id
    unknown_id = any(i not in id2 for t in files.values() for i in tok_col(t))
    fs = 10.0 if case["fs"] is None else case["fs"]
    fsa = [] if case["fs"] is None else ["--frame-shift-ms", case["fs"]]
    sec = lambda x: x * fs / 1000  # noqa: E731
    terms, meta, cnt = [], [], {}
    for t in files.values():
        cnt["tokdir_timing=" + timing_class(t)] = 1
    if any(len(a) > 1 and a != b and a.startswith(b) for a, _ in case["vocab"] for b, _ in case["vocab"]):
        cnt["tokdir_names=a name is a proper prefix of another"] = 1

    def close_rows(got, want, point=False):
        """same token column, known boundaries within one frame (unknown ones are not compared)"""
        if got.get("w") != 3 or len(got["rows"]) != len(want):
            return False
        for g, w in zip(got["rows"], want):
            ws, we = (max(w[1], w[2]),) * 2 if point else (w[1], w[2])
            if g[0] != w[0] or abs(g[1] - ws) > 1 or abs(g[2] - we) > 1:
                return False
        return True

    # ---- torch-token-data-dir-to-trn, then trn-to-torch-token-data-dir -------------------------------------------------
    trn, bd = os.path.join(root, "out.trn"), os.path.join(root, "back")
    res = run_cmd("torch_token_data_dir_to_trn", [d, i2t, trn] + fix_args(case) + ["--num-workers", case.get("trn_workers", 0)]
                  + swap, None, capture=["write_trn"])
    cnt["tokdir_trn_outcome=" + str(res["exc"])] = 1
    got = res["calls"].get("write_trn", [[None]])[0][0]
    model = f"dir_to_trn {ci2t(items)} {cs(pre)} {cs(suf)} {cdir(src)}"
    impl = cout(None, ctranscripts(got)) if (res["exc"] is None and got is not None) else cout(res["exc"], "")
    terms.append(("dir->trn", f"check_transcripts ({model}) {impl}" if impl else "false"))
    if unknown_id:
        if res["exc"] != "ValueError":
            meta.append(f"token dir -> trn with an id that has no name: outcome {res['exc']}, expected ValueError")
    elif res["exc"] is not None:
        meta.append(f"token dir -> trn raised {res['exc']}")
    else:
        want = [[utt[n], [id2[i] for i in tok_col(files[n])]] for n in order]
        back = [[u, list(tr)] for u, tr in data.read_trn(trn)]
        if back != want:
            meta.append(f"token dir -> trn wrote {back!r}; the stored token columns are {want!r}")
        else:
            r2 = run_cmd("trn_to_torch_token_data_dir", [trn, t2i, bd] + fix_args(case) + ["--num-workers", 0]
                         + shape_args({"shape": case["back_shape"]}))
            mk = {"full": lambda c: {"w": 3, "rows": [[i, -1, -1] for i in c]}, "skip": lambda c: {"v": c},
                  "featsz": lambda c: {"w": 1, "rows": [[i] for i in c]}}[case["back_shape"]]
            if r2["exc"] is not None or dict(read_dir(bd)) != {n: mk(tok_col(t)) for n, t in files.items()}:
                meta.append(f"token dir -> trn -> token dir ({case['back_shape']}) did not return the stored token columns "
                            f"(outcome {r2['exc']})")

    # ---- torch-token-data-dir-to-ctm (every token needs both boundaries), then ctm-to-torch-token-data-dir ----------------
    ctm, bd2 = os.path.join(root, "out.ctm"), os.path.join(root, "back2")
    res2 = run_cmd("torch_token_data_dir_to_ctm", [d, i2t, ctm] + fix_args(case) + fsa + swap, None, capture=["write_ctm"])
    cnt["tokdir_ctm_outcome=" + str(res2["exc"])] = 1
    call2 = res2["calls"].get("write_ctm", [None])[0]
    model2 = f"dir_to_ctm {ci2t(items)} {cs(pre)} {cs(suf)} {cqopt(fs)} {cdir(src)}"
    impl2 = cout(None, ctranscripts(call2[0])) if call2 is not None else cout(res2["exc"], "")
    terms.append(("dir->ctm", f"check_transcripts_tol ({model2}) {impl2}" if impl2 else "false"))
    all_timed = all(not tok_col(t) or (t.get("w") == 3 and all(r[1] >= 0 and r[2] >= 0 for r in t["rows"])) for t in files.values())
    if unknown_id or not all_timed:
        if res2["exc"] != "ValueError":
            meta.append(f"token dir -> ctm with a token lacking a boundary (or a name): outcome {res2['exc']}, expected ValueError")
    elif res2["exc"] is not None:
        meta.append(f"token dir -> ctm raised {res2['exc']} although every token has both boundaries")
    else:
        full = {n: t for n, t in files.items() if tok_col(t)}
        gotc = {u: tr for u, tr in data.read_ctm(ctm)}
        ok = set(gotc) == {utt[n] for n in full}
        for n, t in full.items() if ok else []:
            tr = gotc[utt[n]]
            ok = ok and len(tr) == len(t["rows"]) and all(
                x[0] == id2[r[0]] and abs(x[1] - sec(r[1])) < 1e-6 and abs(x[2] - sec(r[2])) < 1e-6 for x, r in zip(tr, t["rows"]))
        if not ok:
            meta.append(f"token dir -> ctm wrote {gotc!r}: not the stored tokens with their boundaries in seconds")
        else:
            r3 = run_cmd("ctm_to_torch_token_data_dir", [ctm, t2i, bd2] + fix_args(case) + fsa + ["--num-workers", 0])
            o3 = dict(read_dir(bd2)) if r3["exc"] is None else {}
            if set(o3) != set(full) or not all(close_rows(o3[n], t["rows"]) for n, t in full.items()):
                meta.append(f"token dir -> ctm -> token dir changed a token or moved a boundary by more than one frame "
                            f"(outcome {r3['exc']})")

    # ---- torch-token-data-dir-to-textgrids: intervals / points / one interval, then textgrids-to-torch-token-data-dir ----
    if case.get("tg") and not unknown_id and all(tok_col(t) and "other" not in t and t.get("w", 3) == 3 for t in files.values()):
        o = case["tg"]
        tgsuf = o["tgsuf"] or ".TextGrid"
        maxb = {n: max([max(r[1:]) for r in t["rows"]] if "rows" in t else [-1]) for n, t in files.items()}
        # --infer only where some boundary is positive: with no known boundary at all the command infers a NEGATIVE length
        # and writes a TextGrid nobody can read (documented: 0) - finding kept in corpus/C17/tokdir_infer_no_boundary.json.pending
        infer = o["infer"] and (o.get("infer_raw") or all(m > 0 for m in maxb.values()))
        bargs = fix_args(case) + fsa + swap + ["--quiet"] + (["--textgrid-suffix", o["tgsuf"]] if o["tgsuf"] else [])
        if infer:
            bargs.append("--infer")
            T = {n: sec(max(m, 0)) for n, m in maxb.items()}
        else:
            fd = os.path.join(root, "feat")
            write_dir(fd, {n: {"w": 1, "rows": [[0]] * (max(m, 0) + 2)} for n, m in maxb.items()}, float_=True)
            bargs += ["--feat-dir", fd]
            T = {n: sec(max(m, 0) + 2) for n, m in maxb.items()}
        if o["force"]:
            bargs += ["--force-method", o["force"]]
        eps = 0.51e-3     # times are printed with 3 digits (--precision does not reach the writer: known finding C11 K5)
        meth = {n: (o["force"] if _tg_allows(t, o["force"]) else None) if o["force"]
                else next(m for m in (1, 2, 3) if _tg_allows(t, m)) for n, t in files.items()}
        tg2, tg3 = os.path.join(root, "tg2"), os.path.join(root, "tg3")
        r0 = run_cmd("torch_token_data_dir_to_textgrids", [d, i2t, tg2] + bargs + ["--num-workers", 0])
        r1 = run_cmd("torch_token_data_dir_to_textgrids", [d, i2t, tg3] + bargs + ["--num-workers", 2, "--mp-chunk-size",
                                                                                   case.get("chunk", 1)], case.get("sched", 1))
        cnt["tokdir_tg_outcome=" + str(r0["exc"])] = 1
        for m in meth.values():
            cnt["tokdir_tg_method=" + str(m)] = 1
        if None in meth.values():
            if r0["exc"] != "ValueError" or r1["exc"] != "ValueError":
                meta.append(f"--force-method {o['force']} on a sequence without the boundaries it needs: serial outcome "
                            f"{r0['exc']}, pool outcome {r1['exc']}, expected ValueError")
        elif r0["exc"] is not None or r1["exc"] is not None:
            meta.append(f"token dir -> TextGrids raised (serial {r0['exc']}, pool {r1['exc']})")
        else:
            a = {n: open(os.path.join(tg2, n)).read() for n in os.listdir(tg2)}
            b = {n: open(os.path.join(tg3, n)).read() for n in os.listdir(tg3)}
            if a != b:
                meta.append("token dir -> TextGrids: the pool wrote different files than the serial run")
            if set(a) != {pre + utt[n] + tgsuf for n in files}:
                meta.append(f"token dir -> TextGrids wrote {sorted(a)}")
            else:
                sel = os.path.join(root, "tgsel")
                os.makedirs(sel)
                for n, t in files.items():
                    p = os.path.join(tg2, pre + utt[n] + tgsuf)
                    try:
                        tr = [list(x) for x in data.read_textgrid(p)[0]]
                    except Exception as e:  # noqa: BLE001
                        meta.append(f"TextGrid written for {n!r} cannot be read back ({exc_kind(e)})")
                        continue
                    nm = [id2[i] for i in tok_col(t)]
                    if meth[n] == 1:
                        ok = "IntervalTier" in a[pre + utt[n] + tgsuf] and len(tr) == len(nm) and all(
                            x[0] == w and abs(x[1] - sec(r[1])) < eps and abs(x[2] - sec(r[2])) < eps
                            for x, w, r in zip(tr, nm, t["rows"]))
                    elif meth[n] == 2:
                        ok = "TextTier" in a[pre + utt[n] + tgsuf] and len(tr) == len(nm) and all(
                            x[0] == w and abs(x[1] - sec(max(r[1:]))) < eps and abs(x[2] - sec(max(r[1:]))) < eps
                            for x, w, r in zip(tr, nm, t["rows"]))
                    else:
                        ok = ("IntervalTier" in a[pre + utt[n] + tgsuf] and len(tr) == 1 and tr[0][0] == " ".join(nm)
                              and abs(tr[0][1]) < eps and abs(tr[0][2] - T[n]) < eps)
                    if not ok:
                        meta.append(f"TextGrid of {n!r} (stored {t!r}, way {meth[n]}) holds {tr!r}: not the stored tokens "
                                    f"with the boundaries that are known")
                    elif meth[n] in (1, 2):
                        shutil.copy(p, os.path.join(sel, pre + utt[n] + tgsuf))
                if not meta and os.listdir(sel):
                    bd3 = os.path.join(root, "back3")
                    r4 = run_cmd("textgrids_to_torch_token_data_dir", [sel, t2i, bd3] + fix_args(case) + fsa + ["--num-workers", 0]
                                 + (["--textgrid-suffix", o["tgsuf"]] if o["tgsuf"] else []))
                    o4 = dict(read_dir(bd3)) if r4["exc"] is None else {}
                    wantn = {n for n in files if meth[n] in (1, 2)}
                    if set(o4) != wantn or not all(close_rows(o4[n], files[n]["rows"], meth[n] == 2) for n in wantn):
                        meta.append(f"token dir -> TextGrids -> token dir changed a token or moved a known boundary by more "
                                    f"than one frame (outcome {r4['exc']})")
    mixed = any(timing_class(t).startswith("first-") for t in files.values())
    return dict(terms=terms, meta=meta, count=cnt, nontrivial=mixed)


# ----------------------------------------------------------------------------------------
# driver
# ----------------------------------------------------------------------------------------

EXEC = {"ali": x_ali, "ref2ali": x_ref2ali, "trn": x_trn, "ctm": x_ctm, "er": x_er, "subset": x_subset, "mom_ali": x_mom, "mom_ref": x_mom, "mvn": x_mvn, "tg": x_tg, "chunk": x_chunk, "tokdir": x_tokdir}
GEN = {"ali": g_ali, "ref2ali": g_ref2ali, "trn": g_trn, "ctm": g_ctm, "er": g_er, "subset": g_subset, "mom_ali": g_mom_ali, "mom_ref": g_mom_ref, "mvn": g_mvn, "tg": g_tg, "chunk": g_chunk, "tokdir": g_tokdir}
QUICK = {"ali": 90, "ref2ali": 70, "trn": 120, "ctm": 100, "er": 180, "subset": 220, "mom_ali": 70, "mom_ref": 90, "mvn": 80, "tg": 80, "chunk": 16, "tokdir": 110}


def g_real(rng, k):
    """cases run through real spawn pools (slow, few)"""
    kind = ["ali", "subset", "mom_ali", "mom_ref", "trn"][k % 5]
    for _ in range(200):
        c = GEN[kind](rng)
        n = len(c.get("files", c.get("lens", c.get("utts", []))))
        if n < 3 or (kind == "mom_ref" and c["err"] == "strict"):
            continue
        if kind == "trn" and (has_alt(c["utts"]) or c["unk"] == "nope"
                              or any(x not in vocab_dict(c["vocab"]) for _, tr in c["utts"] for x in tr)):
            continue
        c.update(workers=2, pool="real", chunk=rng.choice([1, 2]))
        return c
    raise RuntimeError("no real-pool case")


def gen_cases(chk):
    cases = []
    for c in load_corpus("C17"):
        c = dict(c.get("case", c))
        c["stream"] = "corpus"
        cases.append(c)
    mult = 8 if chk.tier == "thorough" else 1
    only = os.environ.get("C17_KINDS")
    for kind, n in QUICK.items():
        if only and kind not in only.split(","):
            continue
        for _ in range(n * mult):
            c = GEN[kind](chk.rng)
            c["stream"] = "random"
            cases.append(c)
    if not only or "real" in only.split(","):
        for k in range(12 if chk.tier == "thorough" else 3):
            c = g_real(chk.rng, k + chk.seed)
            c["stream"] = "real-pool"
            cases.append(c)
    return cases


def execute(chk, sc, case):
    _LAY["on"], _LAY["k"] = bool(case.get("views")), int(case.get("views") or 0)
    _ENTRY["argv"] = bool(case.get("argv"))
    try:
        return EXEC[case["kind"]](chk, sc, case)
    finally:
        _LAY["on"] = _ENTRY["argv"] = False


def _cands(case):
    """smaller cases: drop one file / utterance, drop strays, serial pool"""
    for key in ("files", "lens"):
        if isinstance(case.get(key), dict):
            for k in list(case[key]):
                c = json.loads(json.dumps(case))
                del c[key][k]
                yield c
    if isinstance(case.get("ref"), dict) and isinstance(case.get("hyp"), dict):
        for k in sorted(set(case["ref"]) | set(case["hyp"])):
            c = json.loads(json.dumps(case))
            c["ref"].pop(k, None)
            c["hyp"].pop(k, None)
            yield c
    if isinstance(case.get("utts"), list):
        for k in range(len(case["utts"])):
            c = json.loads(json.dumps(case))
            del c["utts"][k]
            yield c
    if case.get("strays"):
        c = json.loads(json.dumps(case))
        c["strays"] = {}
        yield c
    if case.get("workers") and case.get("pool") != "real":
        c = json.loads(json.dumps(case))
        c["workers"] = 0
        yield c
    for key in ("rep", "ign"):
        if case.get(key):
            c = json.loads(json.dumps(case))
            c[key] = []
            yield c
    for key in ("tg", "views", "htiming"):
        if case.get(key):
            c = json.loads(json.dumps(case))
            del c[key]
            yield c


def _outcome(chk, sc, case):
    """-> (failing labels, metamorphic messages)"""
    res = execute(chk, sc, json.loads(json.dumps(case)))
    vals = coq_eval_bools(chk.workdir, IMPORTS, [t for _, t in res["terms"]], tag="shr") if res["terms"] else []
    return [lb for (lb, _), ok in zip(res["terms"], vals) if not ok], res["meta"]


def run(chk, cases=None):
    chk.rule = ("case = a generated corpus (directories of small tensors, transcript files) + the flags of one console "
                "function of pydrobert.torch.command_line, called in-process; outputs (directories as name->tensor maps, "
                "arguments handed to the C11 writers, printed figures) are compared with PV.C17.Model evaluated by vm_compute; "
                "non-trivial = a non-default prefix/suffix, stray files, a pool schedule or several batches are involved")
    chk.assumptions += [
        "multiprocessing pools are substituted in-process by a pool that completes chunks in a seeded permuted order (a few real spawn pools run besides)",
        "the C11 readers/writers are observed at their call boundary (arguments and results recorded, call still executed)",
        "os.listdir order is data handed to the model; torch.save/torch.load are trusted",
        "per-pair edit counts under non-uniform costs are taken from functional.error_rate (C02); unit/uniform costs use lev from PV.C01.Spec",
        "token-dir -> TextGrid command and chunk-torch-spect-data-dir: metamorphic relations only (no model)"]
    chk.extra["trusted_base"] = ["PV.C11.Model (transcript_to_token / token_to_transcript) and PV.C01.Spec (lev) are imported definitions"]
    cases = cases if cases is not None else gen_cases(chk)
    sc = Scratch(chk)
    terms, owners, metas = [], [], []
    for ci, c in enumerate(cases):
        stream = c.pop("stream", "random")
        res = execute(chk, sc, c)
        if ci % 20 == 19:
            sc.clean()
        chk.note_case(c, res["nontrivial"], stream)
        chk.count("kind=" + c["kind"])
        chk.count("pre=%r" % c.get("pre", ""))
        chk.count("suf=%r" % c.get("suf", ".pt"))
        chk.count("workers=%s/%s" % (c.get("workers", 0), c.get("pool", "-") if c.get("workers") else "-"))
        for k, v in res.get("count", {}).items():
            chk.count(k, v)
        for label, t in res["terms"]:
            terms.append(t)
            owners.append((ci, label))
        for m in res["meta"]:
            metas.append((ci, m))
    sc.clean()
    vals = coq_eval_bools(chk.workdir, IMPORTS, terms)
    bad = {}
    for (ci, label), ok in zip(owners, vals):
        if not ok:
            bad.setdefault(ci, []).append(label)
    chk.extra["model_disagreements"] = len(bad)
    chk.extra["metamorphic_failures"] = len(metas)
    failing = {}
    for ci, m in metas:
        failing.setdefault(ci, {"labels": [], "meta": []})["meta"].append(m)
    for ci, labels in bad.items():
        failing.setdefault(ci, {"labels": [], "meta": []})["labels"] += labels
    # concrete failures (a metamorphic relation of the property, or a spec judgement) first
    order = sorted(failing, key=lambda ci: (not failing[ci]["meta"], not any(lb.startswith("spec:") for lb in failing[ci]["labels"]), ci))
    for ci in order[:5]:
        case = cases[ci]

        def still(c, _kind=case["kind"]):
            lb, mt = _outcome(chk, sc, c)
            return bool(lb or mt)

        small = shrink(case, still, _cands, budget=14) if case.get("pool") != "real" else case
        labels, meta = _outcome(chk, sc, small)
        if not (labels or meta):
            small, labels, meta = case, failing[ci]["labels"], failing[ci]["meta"]
        sc.clean()
        model_only = bool(labels) and not meta and not any(lb.startswith("spec:") for lb in labels)
        # where a separate boolean reading of the property exists (segmentations, printed totals) and accepts the
        # output, the disagreement is between code and model only
        has_spec = small["kind"] in ("ali",) or (small["kind"] == "er" and not small.get("per_utt")
                                                  and small.get("costs") in (None, [2.0, 2.0, 2.0]))
        rec = {"case": small, "failing_checks": labels, "metamorphic": meta, "correspondence": CORR,
               "kind": small["kind"], "theorems_at_stake": THEOREMS.get(small["kind"], [])}
        if meta:
            rec["what"] = "the property fails on this input: " + "; ".join(meta[:3])
        elif any(lb.startswith("spec:") for lb in labels):
            rec["what"] = "implementation output rejected by the boolean reading of the property (%s)" % ", ".join(labels)
        else:
            rec["what"] = "implementation output differs from PV.C17.Model (%s)" % ", ".join(labels)
        chk.report(rec, no_failing_input=bool(model_only and has_spec))
    from props import c17_tie      # source tie: the translated workers interpreted in Coq on this run's tensors
    c17_tie.source_tie(chk, cases, None)


def replay(chk, path):
    rec = json.loads(open(path).read())
    case = dict(rec["case"])
    case.pop("stream", None)
    run(chk, [case])
