"""C01 — edit distance = weighted Levenshtein distance, per pair and per prefix.

Correspondence between /repo's edit_distance / prefix_edit_distances (functional and module
forms) and PV.C01.Model, evaluated inside Coq with vm_compute.  Regime E: costs k/4 (the
model works on the integers k, scale = 4), so every un-normalised output is compared exactly;
a normalised output (one IEEE division) is bracketed by 2^-23 relative inside Coq and, on the
implementation side, recomputed bit-exactly from the un-normalised output.
"""
import itertools
import json
import warnings
from fractions import Fraction

import torch

torch.set_num_threads(1)  # tiny tensors: threads only add contention on a shared machine

from vlib import cb, cl, clz, cn, co, cq, cz, coq_eval_bools, coq_eval_print, exc_kind, load_corpus, shrink

IMPORTS = "From PV Require Import C01.Obs C01.Spec C01.Model.\n"
SCALE = 4
THEOREMS = ["c01_lev_is_min_edit_cost", "c01_del_fold_is_sweep", "c01_row_invariant", "c01_edit_distance_correct",
            "c01_edit_distance_norm", "c01_prefix_edit_distances_correct", "c01_uniform_cost_shortcut",
            "c01_post_eos_irrelevant", "c01_batch_pointwise"]


# ------------------------------------------------------------------------------------------
# cases
# ------------------------------------------------------------------------------------------
# case = dict(api="ed"|"prefix", module=bool, ref=[N seqs of length R], hyp=[N seqs of length H],
#             eos=int|None, include_eos, norm, batch_first, exclude_last, costs=[ki,kd,ks] (quarters),
#             padding=int, warn=bool)


def _dims(case):
    N = len(case["ref"])
    R = len(case["ref"][0]) if N else 0
    H = len(case["hyp"][0]) if N else 0
    return N, R, H


def _tensor(seqs, width, batch_first, dtype=torch.long):
    t = torch.tensor(seqs, dtype=dtype).reshape(len(seqs), width)
    return t if batch_first else t.t().contiguous()


# ---- robustness dimension: integer dtype of each token tensor (notes/AUDIT_GUIDE.md, "dtype combination") ----------
# name -> (smallest id, largest id, bits).  A case may carry dtypes = [ref dtype, hyp dtype]; absent = int64 for both.
DTYPES = {"uint8": (0, 255, 8), "int8": (-128, 127, 8), "int16": (-2 ** 15, 2 ** 15 - 1, 16),
          "int32": (-2 ** 31, 2 ** 31 - 1, 32), "int64": (-2 ** 63, 2 ** 63 - 1, 64)}


def _fits(v, dt):
    return DTYPES[dt][0] <= v <= DTYPES[dt][1]


def _case_dtypes(case):
    return tuple(case.get("dtypes") or ("int64", "int64"))


def _eos_wraps_onto_token(case):
    """the one signature of the dtype dimension that the unchanged code gets wrong (reported, corpus/C01/*.pending):
    an eos that is NOT representable in a tensor's dtype while that tensor holds a token congruent to it modulo
    2^bits - `tok.eq(eos)` converts the python scalar to the tensor's dtype, wrapping it onto that token"""
    if case["eos"] is None:
        return False
    for which, dt in zip(("ref", "hyp"), _case_dtypes(case)):
        if not _fits(case["eos"], dt):
            mod = 2 ** DTYPES[dt][2]
            if any((t - case["eos"]) % mod == 0 for s_ in case[which] for t in s_):
                return True
    return False


def k9_signature(entry, rec):
    """known finding K9 (known_findings.d/C01.json): exactly the inputs whose eos does not fit a token tensor's dtype
    while that tensor holds a token congruent to it - nothing else is suppressed"""
    case = rec.get("case") or {}
    return bool(entry.get("id") == "K9" and case.get("dtypes") and _eos_wraps_onto_token(case))


# ---- robustness dimensions: memory layout, entry point, call history, aliasing ---------------------
LAYOUTS = ("contig", "t", "offset", "step", "expand")


def _tensor_l(seqs, width, batch_first, layout, junk=0, dtype=torch.long):
    """the same logical tensor as _tensor, in another memory layout (all legal inputs):
    't' = storage of the other batch layout, viewed transposed; 'offset' = interior slice of a larger buffer (storage
    offset, padded rows); 'step' = every 2nd row / 3rd column of a larger buffer; 'expand' = one sequence broadcast
    over the batch with stride 0 (only when all sequences are equal)"""
    n = len(seqs)
    if layout in (None, "contig") or n == 0 or width == 0:
        return _tensor(seqs, width, batch_first, dtype)
    base = torch.tensor(seqs, dtype=dtype).reshape(n, width)
    want = base if batch_first else base.t()
    rows, cols = want.shape
    if layout == "t":
        return want.t().contiguous().t()
    if layout == "offset":
        buf = torch.full((rows + 2, cols + 3), junk, dtype=dtype)
        buf[1:1 + rows, 2:2 + cols] = want
        return buf[1:1 + rows, 2:2 + cols]
    if layout == "step":
        buf = torch.full((2 * rows + 1, 3 * cols + 1), junk, dtype=dtype)
        buf[1::2, 1::3] = want
        return buf[1::2, 1::3]
    if layout == "expand":
        e = torch.tensor(seqs[0], dtype=dtype).reshape(1, width).expand(n, width)
        return e if batch_first else e.t()
    raise ValueError(layout)


# the documented defaults of the four public entry points (signature / docstring of the pinned version); an option
# that a 'sparse' call leaves out must behave as if this value had been passed
DEFAULTS = {
    "ed": dict(eos=None, include_eos=False, norm=False, batch_first=False, ins_cost=1.0, del_cost=1.0, sub_cost=1.0,
               warn=True),
    "prefix": dict(eos=None, include_eos=True, norm=False, batch_first=False, ins_cost=1.0, del_cost=1.0,
                   sub_cost=1.0, padding=-100, exclude_last=False, warn=True),
}


def _scale(case):
    return case.get("scale", SCALE)


def _opts(case, norm):
    """every option of the call, in positional order"""
    ci, cd, cs = (k / _scale(case) for k in case["costs"])
    o = dict(eos=case["eos"], include_eos=case["include_eos"], norm=norm, batch_first=case["batch_first"],
             ins_cost=ci, del_cost=cd, sub_cost=cs)
    if case["api"] == "prefix":
        o.update(padding=case["padding"], exclude_last=case["exclude_last"])
    o["warn"] = case["warn"]
    return o


def sparse_kwargs(opts, defaults, keep):
    """only the options that differ from the documented default (or are listed in keep)"""
    return {k: v for k, v in opts.items()
            if k in keep or not (v == defaults[k] and type(v) is type(defaults[k]))}


def _fn(case, norm=None):
    """the callable (ref, hyp) -> tensor of the case's entry point"""
    import pydrobert.torch.functional as F
    import pydrobert.torch.modules as M

    norm = case["norm"] if norm is None else norm
    o = _opts(case, norm)
    Fn = F.edit_distance if case["api"] == "ed" else F.prefix_edit_distances
    Mod = M.EditDistance if case["api"] == "ed" else M.PrefixEditDistances
    entry = case.get("entry")
    if entry == "sparse":
        kw = sparse_kwargs(o, DEFAULTS[case["api"]], case.get("keep", ()))
        if case["module"]:
            return Mod(**kw)
        return lambda ref, hyp: Fn(ref, hyp, **kw)
    if entry == "script":
        return torch.jit.script(Mod(*o.values()))
    if entry == "trace":
        ex = torch.full((1, 1), 0 if case["eos"] is None else case["eos"], dtype=torch.long)
        if case.get("dtypes"):  # traced on example inputs of the dtypes it is then called with
            return torch.jit.trace(Mod(*o.values()), tuple(
                torch.full((1, 1), case["eos"] if case["eos"] is not None and _fits(case["eos"], dt) else 0,
                           dtype=getattr(torch, dt)) for dt in _case_dtypes(case)))
        return torch.jit.trace(Mod(*o.values()), (ex, ex))
    if entry == "script_fn":
        f = torch.jit.script(Fn)
        return lambda ref, hyp: f(ref, hyp, *o.values())
    if case["module"]:
        return Mod(*o.values())
    if case.get("kw"):
        rev = dict(reversed(list(o.items())))
        return lambda ref, hyp: Fn(hyp=hyp, ref=ref, **rev)
    return lambda ref, hyp: Fn(ref, hyp, *o.values())


def _call(case, ref, hyp, norm=None):
    """ref, hyp: tensors already in the case's layout.  Returns a float tensor."""
    with warnings.catch_warnings():
        warnings.simplefilter("ignore")
        return _fn(case, norm)(ref, hyp)


def _canon(t):
    """float tensor -> nested lists of exact rationals as 'p/q' strings, or 'nonfinite'."""
    if not bool(torch.isfinite(t).all()):
        return "nonfinite"

    def f(x):
        fr = Fraction(float(x))
        return f"{fr.numerator}/{fr.denominator}"

    if t.dim() == 1:
        return [f(x) for x in t.tolist()]
    return [[f(x) for x in row] for row in t.tolist()]


def call_with_history(case, fn, args, seq_dims):
    """Runs fn(*args) the way the case's 'history' / 'entry' fields ask for and returns (out, flags).
    history: the very same callable and the very same tensor objects are first used on other contents (every sequence
    reversed), then overwritten in place with the real contents.  jit entry points are called three times (profiling
    runs, then the optimised graph) and must return the same tensor each time."""
    flags = {}
    orig = [a.clone() for a in args]
    with warnings.catch_warnings():
        warnings.simplefilter("ignore")
        if case.get("history"):
            for a, o, d in zip(args, orig, seq_dims):
                a.copy_(o.flip(d))
            fn(*args)
            for a, o in zip(args, orig):
                a.copy_(o)
        out = fn(*args)
        if case.get("entry") in JIT:
            for _ in range(2):
                again = fn(*args)
                if again.shape != out.shape or not torch.equal(again, out):
                    flags["unstable"] = "a repeated call of the same compiled callable on the same input differs"
    return out, flags


def run_impl(case, norm=None):
    N, R, H = _dims(case)
    try:
        bf = case["batch_first"]
        lay = case.get("layout") or ("contig", "contig")
        junk = 0 if case["eos"] is None else case["eos"]
        dts = _case_dtypes(case)
        jr, jh = (junk if _fits(junk, dt) else 0 for dt in dts)
        ref = _tensor_l(case["ref"], R, bf, lay[0], jr, getattr(torch, dts[0]))
        hyp = ref if (case.get("alias") and case["ref"] == case["hyp"]) else _tensor_l(
            case["hyp"], H, bf, lay[1], jh, getattr(torch, dts[1]))
        with warnings.catch_warnings():
            warnings.simplefilter("ignore")
            fn = _fn(case, norm)
        sd = 1 if bf else 0
        out, flags = call_with_history(case, fn, [ref, hyp], [sd, sd])
        res = {"shape": list(out.shape), "dtype": str(out.dtype), "val": _canon(out)}
        res.update(flags)
        return res
    except Exception as e:  # no exception is a legal outcome inside the input space
        return {"exc": exc_kind(e), "msg": str(e)[:200]}


# ---- Coq terms --------------------------------------------------------------------------------


def _q(s):
    return cq(Fraction(s))


def _mat(seqs, width, batch_first):
    """the matrix exactly as handed to the implementation, as a list of rows"""
    if batch_first:
        return cl([clz(s) for s in seqs])
    return cl([clz([s[i] for s in seqs]) for i in range(width)])


def _cfg(case):
    ki, kd, ks = case["costs"]
    eos = co(None if case["eos"] is None else cz(case["eos"]))
    return (f"(mkCfg {eos} {cb(case['include_eos'])} {cb(case['norm'])} {cb(case['batch_first'])} "
            f"{cz(ki)} {cz(kd)} {cz(ks)} {cz(case['padding'])} {cb(case['exclude_last'])})")


def _shape_ok(case, out):
    N, R, H = _dims(case)
    if case["api"] == "ed":
        return out["shape"] == [N]
    T = H + (0 if case["exclude_last"] else 1)
    return out["shape"] == ([N, T] if case["batch_first"] else [T, N])


def _exact_scale(case):
    sc = _scale(case)
    return sc & (sc - 1) == 0  # a power of two: costs k/scale are dyadic, every float32 step is exact (regime E)


SNAP_TOL = Fraction(1, 100000)


def _snap(case, out):
    """Costs off the dyadic grid (scale 3, 7, 10: 0.1, 0.3, 1/3, ...; only generated with norm=False): every float32
    addition / multiplication rounds, so a distance is only within ~1e-6 relative of a multiple of 1/scale.  Entries
    that are distances (not padding) are moved to the nearest multiple of 1/scale if that is within 1e-5 relative -
    distinct multiples differ by more than 1e-3 relative here - and left alone otherwise (the exact comparison inside
    Coq then fails).  Returns the output with the canonicalised values."""
    if _exact_scale(case) or "exc" in out or out["val"] == "nonfinite" or case["norm"]:
        return out
    sc = _scale(case)

    def snap(x):
        fr = Fraction(x)
        g = Fraction(round(fr * sc), sc)
        if abs(g - fr) <= SNAP_TOL * abs(fr):
            return f"{g.numerator}/{g.denominator}"
        return x

    N, R, H = _dims(case)
    if case["api"] == "ed":
        return dict(out, val=[snap(x) for x in out["val"]])
    val = [list(row) for row in out["val"]]
    for n in range(N):
        hl = len(_cut(case["hyp"][n], case["eos"], case["include_eos"]))
        for k in range(min(hl + (0 if case["exclude_last"] else 1), H + 1)):
            try:
                if case["batch_first"]:
                    val[n][k] = snap(val[n][k])
                else:
                    val[k][n] = snap(val[k][n])
            except IndexError:
                pass
    return dict(out, val=val)


def _usable(case, out):
    return not ("exc" in out or out["val"] == "nonfinite" or not _shape_ok(case, out) or out["dtype"] != "torch.float32"
                or "unstable" in out)


def model_term(case, out):
    if not _usable(case, out):
        return "false"
    if case.get("long"):
        return "(" + " && ".join(pair_term(case, out, n) for n in range(len(case["ref"]))) + ")"
    out = _snap(case, out)
    N, R, H = _dims(case)
    ref, hyp = _mat(case["ref"], R, case["batch_first"]), _mat(case["hyp"], H, case["batch_first"])
    if case["api"] == "ed":
        obs = cl([_q(x) for x in out["val"]])
        return f"check_ed {_cfg(case)} {cz(_scale(case))} {cn(N)} {ref} {hyp} {obs}"
    obs = cl([cl([_q(x) for x in row]) for row in out["val"]])
    return f"check_prefix {_cfg(case)} {cz(_scale(case))} {cn(N)} {ref} {hyp} {obs}"


def pair_term(case, out, n):
    """Pair n of a batch, judged by the same check_ed / check_prefix term on the canonicalised logical input: the pair
    alone (N = 1, batch-first) with its reference column cut right after its first eos.  By c01_post_eos_irrelevant and
    c01_batch_pointwise the model's value for the pair is the same as inside the padded batch; the model's cost is cubic
    in the padded reference width, so this is how batches with references longer than 256 are judged."""
    r, h = list(case["ref"][n]), list(case["hyp"][n])
    if case["eos"] is not None and case["eos"] in r:
        r = r[: r.index(case["eos"]) + 1]
    cfg = _cfg(dict(case, batch_first=True))
    col = _col_of(case, out, n)
    if case["api"] == "ed":
        return f"check_ed {cfg} {cz(_scale(case))} 1 {cl([clz(r)])} {cl([clz(h)])} {cl([_q(col[0])])}"
    return f"check_prefix {cfg} {cz(_scale(case))} 1 {cl([clz(r)])} {cl([clz(h)])} {cl([cl([_q(x) for x in col])])}"


def spec_term(case, out):
    """Judge the implementation's output by Spec.v alone (lev on the denoted sequences), pair by pair."""
    if "exc" in out or out["val"] == "nonfinite" or not _shape_ok(case, out) or "unstable" in out:
        return "false"
    out = _snap(case, out)
    N, R, H = _dims(case)
    ki, kd, ks = case["costs"]
    eos = co(None if case["eos"] is None else cz(case["eos"]))
    common = f"{eos} {cb(case['include_eos'])} {cb(case['norm'])} {cz(ki)} {cz(kd)} {cz(ks)}"
    parts = []
    for n in range(N):
        r, h = clz(case["ref"][n]), clz(case["hyp"][n])
        if case["api"] == "ed":
            parts.append(f"spec_ed_okb {common} {cz(_scale(case))} {r} {h} {_q(out['val'][n])}")
        else:
            colv = out["val"][n] if case["batch_first"] else [row[n] for row in out["val"]]
            parts.append(f"spec_prefix_okb {common} {cb(case['exclude_last'])} {cz(case['padding'])} {cz(_scale(case))} "
                         f"{r} {h} {cl([_q(x) for x in colv])}")
    return "(" + " && ".join(parts or ["true"]) + ")"


def model_show(case):
    N, R, H = _dims(case)
    ref, hyp = _mat(case["ref"], R, case["batch_first"]), _mat(case["hyp"], H, case["batch_first"])
    fn = "edit_distance" if case["api"] == "ed" else "prefix_edit_distances"
    return f"{fn} {_cfg(case)} {cn(N)} {ref} {hyp}"


# ---- python-side helpers (used for the non-triviality rule and the metamorphic relations only) ----


def _cut(seq, eos, include_eos):
    if eos is None or eos not in seq:
        return list(seq)
    i = seq.index(eos)
    return list(seq[: i + (1 if include_eos else 0)])


def nontrivial(case):
    for r, h in zip(case["ref"], case["hyp"]):
        a, b = _cut(r, case["eos"], case["include_eos"]), _cut(h, case["eos"], case["include_eos"])
        if a and b and a != b:
            return True
    return False


def in_space(case):
    N, R, H = _dims(case)
    if N < 1:
        return False
    if R == 0 or H == 0:  # zero-width tensors: only without eos (with eos _lens_from_eos raises)
        if case["eos"] is not None:
            return False
        if H == 0 and case["api"] == "prefix" and case["exclude_last"]:
            return False
    if case.get("alias") and (case["ref"] != case["hyp"]):
        return False  # the same tensor object is handed over for both arguments
    if case.get("dtypes"):
        dts = _case_dtypes(case)
        if case.get("alias") and dts[0] != dts[1]:
            return False
        if any(not _fits(t, dt) for which, dt in zip(("ref", "hyp"), dts) for s_ in case[which] for t in s_):
            return False  # a tensor only holds ids of its dtype
        if _eos_wraps_onto_token(case) and not case.get("k9"):
            return False  # known finding K9 of the unchanged code: only the two corpus cases marked k9 exercise it
    lay = case.get("layout") or ("contig", "contig")
    for which, l in zip(("ref", "hyp"), lay):
        if l == "expand" and (any(x != case[which][0] for x in case[which]) or case.get("history")):
            return False  # a stride-0 broadcast denotes equal sequences and cannot be overwritten in place
    if not _exact_scale(case) and case["norm"]:
        return False  # off-grid costs are only compared un-normalised (see _snap)
    return all(k > 0 for k in case["costs"])


# ------------------------------------------------------------------------------------------
# metamorphic relations stated by the property, on the implementation
# ------------------------------------------------------------------------------------------


def _col_of(case, out, n):
    if case["api"] == "ed":
        return [out["val"][n]]
    return out["val"][n] if case["batch_first"] else [row[n] for row in out["val"]]


def metamorphic(case, out, rng):
    """Returns a list of (what, variant_case, variant_out) failures."""
    fails = []
    if "exc" in out or out["val"] == "nonfinite":
        return fails
    if case.get("alias"):  # the variants change ref / hyp separately: two tensor objects from here on
        case = {k: v for k, v in case.items() if k != "alias"}
    if "expand" in (case.get("layout") or ()):  # ... and the stride-0 reference becomes an ordinary tensor
        case = dict(case, layout=[l if l != "expand" else "contig" for l in case["layout"]])
    N, R, H = _dims(case)
    # (1) a pair's result does not depend on the other pairs
    if N > 1:
        n = rng.randrange(N)
        c1 = dict(case, ref=[case["ref"][n]], hyp=[case["hyp"][n]])
        o1 = run_impl(c1)
        if "exc" in o1 or o1["val"] == "nonfinite" or _col_of(c1, o1, 0) != _col_of(case, out, n):
            fails.append((f"pair {n} alone differs from pair {n} inside the batch", c1, o1))
    # (2) ... nor on tokens after its end-of-sequence
    if case["eos"] is not None:
        def refill(seq):
            if case["eos"] not in seq:
                return list(seq)
            i = seq.index(case["eos"])
            return list(seq[: i + 1]) + [rng.choice([case["eos"], 0, 1, 5, -3]) for _ in seq[i + 1:]]
        c2 = dict(case, ref=[refill(s) for s in case["ref"]], hyp=[refill(s) for s in case["hyp"]])
        if case.get("dtypes"):  # the filler has to be representable in the tensor's dtype
            for which, dt in zip(("ref", "hyp"), _case_dtypes(case)):
                c2[which] = [[t if _fits(t, dt) else case["eos"] for t in s_] for s_ in c2[which]]
        if (c2["ref"] != case["ref"] or c2["hyp"] != case["hyp"]) and in_space(c2):
            o2 = run_impl(c2)
            if o2 != out:
                fails.append(("changing tokens after the first eos changes the result", c2, o2))
    # (3) normalisation is one float division of the un-normalised result by the reference length
    if case["norm"]:
        ou = run_impl(case, norm=False)
        if "exc" not in ou and ou["val"] != "nonfinite":
            for n in range(N):
                rl = len(_cut(case["ref"][n], case["eos"], case["include_eos"]))
                hl = len(_cut(case["hyp"][n], case["eos"], case["include_eos"]))
                got, un = _col_of(case, out, n), _col_of(case, ou, n)
                for k, (g, u) in enumerate(zip(got, un)):
                    if case["api"] == "prefix" and k >= hl + (0 if case["exclude_last"] else 1):
                        exp = Fraction(case["padding"])
                    elif rl == 0:
                        exp = Fraction(1 if (hl if case["api"] == "ed" else k) > 0 else 0)
                    else:
                        exp = Fraction(float(torch.tensor(float(Fraction(u)), dtype=torch.float32)
                                             / torch.tensor(float(rl), dtype=torch.float32)))
                    if Fraction(g) != exp:
                        fails.append((f"normalised value of pair {n} position {k} is not distance / reference length",
                                      case, out))
                        break
    # (4) the other layout gives the transposed result
    cT = dict(case, batch_first=not case["batch_first"])
    oT = run_impl(cT)
    if "exc" in oT or oT["val"] == "nonfinite" or any(_col_of(cT, oT, n) != _col_of(case, out, n) for n in range(N)):
        fails.append(("the two batch layouts disagree", cT, oT))
    # (5) functional and module forms agree
    cM = dict(case, module=not case["module"])
    oM = run_impl(cM)
    if oM != out:
        fails.append(("functional and module forms disagree", cM, oM))
    # (6) the same ids handed over as int64 tensors give the same result (a sequence is its ids, not its storage type)
    if case.get("dtypes") and _case_dtypes(case) != ("int64", "int64"):
        cD = {k: v for k, v in case.items() if k != "dtypes"}
        oD = run_impl(cD)
        if oD != out:
            fails.append(("the same token ids in tensors of dtypes %s and as int64 tensors give different results"
                          % "/".join(_case_dtypes(case)), cD, oD))
    return fails


# ------------------------------------------------------------------------------------------
# generators
# ------------------------------------------------------------------------------------------
COST_GRID = [2, 4, 6]  # 1/2, 1, 3/2
PADS = [-100, -1, 0, 7]


def _exh_pairs(R, H):
    """every column over {0,1,eos=2}: all eos placements and all fillers"""
    return list(itertools.product(itertools.product([0, 1, 2], repeat=R), itertools.product([0, 1, 2], repeat=H)))


def gen_exhaustive(chk):
    cases = []
    thorough = chk.tier == "thorough"
    flags = list(itertools.product([False, True], repeat=4))  # include_eos, norm, batch_first, exclude_last
    costs = list(itertools.product(COST_GRID, repeat=3))
    k = 0
    for R, H in itertools.product([1, 2, 3], repeat=2):
        pairs = _exh_pairs(R, H)
        chunk = 27 if thorough else 9
        batches = [pairs[i:i + chunk] for i in range(0, len(pairs), chunk)]
        for bi, b in enumerate(batches):
            if thorough:
                combos = [(f, c) for f in flags for c in costs]
                # every pair meets every flag setting and every cost triple; the two APIs alternate over the
                # combos (and swap on the next batch) so each (flags, costs) is seen by both APIs for each (R,H)
            else:
                combos = [(flags[(k + j * 7) % 16], costs[(k * 5 + j * 11) % 27]) for j in range(2)]
            for j, (f, c) in enumerate(combos):
                k += 1
                api = "prefix" if (k + bi) % 2 else "ed"
                if api == "ed" and f[3]:
                    api = "prefix"  # exclude_last only exists there
                cases.append(dict(api=api, module=(k % 5 == 0), ref=[list(p[0]) for p in b], hyp=[list(p[1]) for p in b],
                                  eos=2, include_eos=f[0], norm=f[1], batch_first=f[2], exclude_last=f[3],
                                  costs=list(c), padding=PADS[k % 4], warn=(k % 7 == 0),
                                  stream="exhaustive" if thorough else "exhaustive-slice"))
    if thorough:
        chk.extra["exhaustive"] = True
        chk.extra["exhaustive_scope"] = ("alphabet {0,1} + eos, tensor widths R,H in 1..3, every column in {0,1,eos}^R x "
                                         "{0,1,eos}^H (all eos placements and fillers), cost triples {1/2,1,3/2}^3, "
                                         "include_eos/norm/batch_first/exclude_last in all 16 settings")
    return cases


def _rand_seq(rng, width, alphabet, eos, p_noeos=0.25):
    """structured: true length, then eos, then garbage (which may contain eos again)"""
    if eos is None or rng.random() < p_noeos or width == 0:
        return [rng.choice(alphabet) for _ in range(width)]
    L = rng.randint(0, width - 1)
    body = [rng.choice(alphabet) for _ in range(L)]
    fill = [rng.choice(alphabet + [eos, eos]) for _ in range(width - L - 1)]
    return body + [eos] + fill


def _mutate(rng, seq, alphabet, eos, width):
    """hypothesis = reference after a few random edits (keeps distances small and ties frequent)"""
    body = _cut(seq, eos, False)
    out = []
    for t in body:
        u = rng.random()
        if u < 0.15:
            continue
        if u < 0.3:
            out.append(rng.choice(alphabet))
        elif u < 0.4:
            out += [t, rng.choice(alphabet)]
        else:
            out.append(t)
    out = out[:width]
    if eos is not None and len(out) < width and rng.random() < 0.8:
        out.append(eos)
    while len(out) < width:
        out.append(rng.choice(alphabet + ([eos] if eos is not None else [])))
    return out


def gen_random(chk, n):
    rng = chk.rng
    cases = []
    for _ in range(n):
        V = rng.randint(1, 4)
        alphabet = list(range(V))
        eos_kind = rng.choice(["none", "outside", "outside", "inside", "negative", "negative"])
        eos = {"none": None, "outside": V + rng.randint(0, 2), "inside": rng.randrange(V), "negative": -rng.randint(1, 3)}[eos_kind]
        if eos_kind == "inside":
            alphabet = [a for a in alphabet if a != eos] or [eos + 1]
        N = rng.randint(1, 5)
        R, H = rng.randint(1, 8), rng.randint(1, 8)
        if rng.random() < 0.25:
            R = rng.randint(1, 2)
        if rng.random() < 0.25:
            H = rng.randint(1, 2)
        ref = [_rand_seq(rng, R, alphabet, eos) for _ in range(N)]
        hyp = [(_mutate(rng, r, alphabet, eos, H) if rng.random() < 0.6 else _rand_seq(rng, H, alphabet, eos)) for r in ref]
        u = rng.random()
        if u < 0.3:
            k = rng.randint(1, 12)
            costs = [k, k, k]
        elif u < 0.45:
            costs = [rng.choice([2, 4]) for _ in range(3)]
        else:
            costs = [rng.randint(1, 12) for _ in range(3)]
        api = rng.choice(["ed", "prefix", "prefix"])
        cases.append(dict(api=api, module=rng.random() < 0.3, ref=ref, hyp=hyp, eos=eos,
                          include_eos=rng.random() < 0.5, norm=rng.random() < 0.4, batch_first=rng.random() < 0.5,
                          exclude_last=(api == "prefix" and rng.random() < 0.5), costs=costs,
                          padding=rng.choice(PADS + [rng.randint(-9, 9)]), warn=rng.random() < 0.2,
                          kw=rng.random() < 0.5, stream="random", eos_kind=eos_kind))
    return cases


def gen_zero_width(chk, n):
    """zero-width tensors are inside the input space only without eos"""
    rng = chk.rng
    cases = []
    for _ in range(n):
        N = rng.randint(1, 3)
        R, H = rng.choice([(0, rng.randint(0, 3)), (rng.randint(1, 3), 0)])
        api = rng.choice(["ed", "prefix"])
        cases.append(dict(api=api, module=False, ref=[[rng.randrange(2) for _ in range(R)] for _ in range(N)],
                          hyp=[[rng.randrange(2) for _ in range(H)] for _ in range(N)], eos=None,
                          include_eos=rng.random() < 0.5, norm=rng.random() < 0.3, batch_first=rng.random() < 0.5,
                          exclude_last=(api == "prefix" and H > 0 and rng.random() < 0.5),
                          costs=[rng.randint(1, 8) for _ in range(3)], padding=-100, warn=False, stream="zero-width"))
    return cases

# ---- robustness streams (notes/AUDIT_GUIDE.md) -------------------------------------------------------
# ids that only differ beyond float32 / float64 precision, the documented padding value, int32 / int64 extremes
EXOTIC_IDS = [2 ** 24, 2 ** 24 + 1, 2 ** 53, 2 ** 53 + 1, -2 ** 62, 2 ** 62, -2 ** 62 - 1, -100, -1, 0, 2 ** 31 - 1,
              2 ** 31, -2 ** 31]
JIT = ("script", "trace", "script_fn")


def _rand_entry(rng):
    """scripting / tracing a module costs 25 / 60 ms: a few dozen per quick run"""
    u = rng.random()
    return "script" if u < 0.12 else "trace" if u < 0.16 else "script_fn" if u < 0.32 else "sparse" if u < 0.46 else None


def _rand_nonuniform(rng):
    while True:
        c = [rng.randint(1, 12) for _ in range(3)]
        if len(set(c)) > 1:
            return c


def _rand_costs(rng, p_uniform=0.3):
    if rng.random() < p_uniform:
        k = rng.randint(1, 12)
        return [k, k, k]
    return _rand_nonuniform(rng)


def gen_eos_mix(chk, n):
    """batch interaction of the include_eos length fix-up: inside one batch every combination of (reference has eos,
    hypothesis has eos) - always some hypothesis WITHOUT eos next to another pair whose reference lacks eos while its
    hypothesis has one - so that a fix-up driven by the wrong mask / by any() instead of the element shows"""
    rng = chk.rng
    cases = []
    for _ in range(n):
        V = rng.randint(1, 3)
        eos = rng.choice([V, V + 2, -1, 0])
        alphabet = [a + (1 if eos == 0 else 0) for a in range(V)]
        N = rng.randint(2, 5)
        R, H = rng.randint(1, 6), rng.randint(1, 6)
        kinds = [(True, False), (False, True)] + [(rng.random() < 0.5, rng.random() < 0.5) for _ in range(N - 2)]
        rng.shuffle(kinds)
        ref = [_rand_seq(rng, R, alphabet, eos, p_noeos=0.0 if k[0] else 1.0) for k in kinds]
        hyp = []
        for r, k in zip(ref, kinds):
            if k[1]:
                h = _mutate(rng, r, alphabet, eos, H) if rng.random() < 0.5 else _rand_seq(rng, H, alphabet, eos, 0.0)
                if eos not in h:
                    h[rng.randrange(H)] = eos
            else:
                h = [rng.choice(alphabet) for _ in range(H)]
            hyp.append(h)
        api = rng.choice(["ed", "prefix", "prefix"])
        cases.append(dict(api=api, module=rng.random() < 0.3, ref=ref, hyp=hyp, eos=eos,
                          include_eos=rng.random() < 0.9, norm=rng.random() < 0.3, batch_first=rng.random() < 0.5,
                          exclude_last=(api == "prefix" and rng.random() < 0.5), costs=_rand_costs(rng),
                          padding=rng.choice(PADS), warn=rng.random() < 0.2, kw=rng.random() < 0.5, stream="eos-mix"))
    return cases


def _sparse_fields(rng, api, defaults):
    """option values that sit on the documented default with probability ~0.6 each, plus the list of default-valued
    options that are passed explicitly all the same"""
    d = defaults[api]
    f = {}
    for k in ("include_eos", "norm", "batch_first", "exclude_last"):
        if k in d:
            f[k] = d[k] if rng.random() < 0.6 else not d[k]
    f.setdefault("exclude_last", False)
    f["padding"] = d.get("padding", -100) if rng.random() < 0.6 else rng.choice([-1, 0, 7, -3])
    f["costs"] = [4, 4, 4] if rng.random() < 0.5 else _rand_costs(rng, 0.2)
    f["warn"] = rng.random() < 0.7
    f["keep"] = [k for k in d if rng.random() < 0.2]
    return f


def gen_sparse(chk, n):
    """calls that leave out every option sitting on its documented default (functional: keywords, module: constructor
    keywords): the defaults themselves are part of the entry points (include_eos defaults to True in the prefix forms,
    to False in edit_distance).  The eos sits before the last row most of the time, so include_eos is observable."""
    rng = chk.rng
    cases = []
    for _ in range(n):
        V = rng.randint(1, 3)
        eos = rng.choice([None, V, V, -1, 0])
        alphabet = [a + (1 if eos == 0 else 0) for a in range(V)]
        N, R, H = rng.randint(1, 4), rng.randint(1, 6), rng.randint(2, 6)
        ref = [_rand_seq(rng, R, alphabet, eos, 0.15) for _ in range(N)]
        hyp = [(_mutate(rng, r, alphabet, eos, H) if rng.random() < 0.4 else _rand_seq(rng, H, alphabet, eos, 0.15))
               for r in ref]
        api = rng.choice(["ed", "prefix", "prefix"])
        cases.append(dict(api=api, module=rng.random() < 0.5, kw=False, ref=ref, hyp=hyp, eos=eos, entry="sparse",
                          stream="sparse-defaults", **_sparse_fields(rng, api, DEFAULTS)))
    return cases


def _decorate(rng, case, p_exotic=0.3, defaults=None):
    """memory layout, entry point, call history, argument aliasing, unusual ids - on top of an ordinary case"""
    defaults = defaults or DEFAULTS
    N, R, H = _dims(case)
    if rng.random() < p_exotic:  # re-label all tokens (and eos) injectively with unusual ids
        toks = sorted({t for s_ in case["ref"] + case["hyp"] for t in s_} | ({case["eos"]} if case["eos"] is not None else set()))
        ids = rng.sample(EXOTIC_IDS, len(toks)) if len(toks) <= len(EXOTIC_IDS) else toks
        m = dict(zip(toks, ids))
        case["ref"] = [[m[t] for t in s_] for s_ in case["ref"]]
        case["hyp"] = [[m[t] for t in s_] for s_ in case["hyp"]]
        if case["eos"] is not None:
            case["eos"] = m[case["eos"]]
        case["ids"] = "exotic"
    u = rng.random()
    if u < 0.12:
        case["hyp"] = [list(s_) for s_ in case["ref"]]
        case["alias"] = True
    elif u < 0.24:
        case["ref"] = [list(case["ref"][0]) for _ in range(N)]  # one reference for the whole batch, stride 0
        case["layout"] = ["expand", rng.choice(LAYOUTS[:4])]
    if "layout" not in case:
        case["layout"] = [rng.choice(LAYOUTS[:4]), rng.choice(LAYOUTS[:4])]
    case["entry"] = _rand_entry(rng)
    if case["entry"] == "sparse":
        case["keep"] = [k for k in defaults[case["api"]] if rng.random() < 0.3]
    case["history"] = rng.random() < 0.4 and "expand" not in case["layout"]
    return case


def gen_entry_layout(chk, n):
    rng = chk.rng
    cases = []
    for c in gen_random(chk, n):
        c = _decorate(rng, c)
        c["stream"] = "entry-layout"
        cases.append(c)
    return cases


def gen_numeric(chk, n):
    """cost magnitudes: dyadic costs scaled by 2^10..2^20 or 2^-8..2^-14 (still exact in float32), three costs 12 binary
    orders apart, and costs off the dyadic grid (scale 3, 7, 10: 0.1, 0.3, 1/3, 1.1 ...; un-normalised, see _snap)"""
    rng = chk.rng
    cases = []
    for c in gen_random(chk, n):
        kind = rng.choice(["big", "small", "spread", "offgrid", "offgrid"])
        uni = len(set(c["costs"])) == 1
        if kind == "big":
            e = rng.choice([10, 16, 20])
            c["costs"] = [k * 2 ** e for k in c["costs"]]
        elif kind == "small":
            c["scale"] = SCALE * 2 ** rng.choice([8, 14])
        elif kind == "spread":
            c["scale"] = SCALE * 2 ** 6
            c["costs"] = [k * 2 ** (0 if uni else rng.choice([0, 6, 12])) for k in c["costs"]]
        else:
            c["scale"] = rng.choice([3, 7, 10, 10])
            c["norm"] = False
        c["numeric"] = kind
        c["stream"] = "numeric"
        cases.append(c)
    return cases


def gen_long(chk, n_ref, n_hyp, big=()):
    """size-dependent code paths: padded reference / hypothesis widths around and above 256 (255, 256, 257, ...), mostly
    non-uniform costs.  long-ref: one pair whose reference really is that long (hypothesis of 1-3 tokens), batched with
    short pairs (eos early, garbage up to the padded width); judged pair by pair on the canonicalised input
    (pair_term).  'big': widths 513 / 1025 with short references only.  long-hyp: the same for the hypothesis side,
    judged by the ordinary whole-batch term."""
    rng = chk.rng
    cases = []
    sizes = [255, 256, 257, 257, 258, 260, 300]
    for i in range(n_ref + len(big)):
        R = big[i - n_ref] if i >= n_ref else sizes[i % len(sizes)] if i < len(sizes) else rng.choice(sizes)
        alphabet = [0, 1, 2]
        eos = rng.choice([None, 9, 9, 9, -1]) if i < n_ref else 9
        H = rng.randint(1, 3) if i < n_ref else rng.randint(2, 5)
        N = rng.randint(2, 3) if eos is not None else 1
        ref, hyp = [], []
        for n in range(N):
            if n == 0 and i < n_ref:
                L = R if eos is None else R - rng.randint(0, 3)
                r = [rng.choice(alphabet) for _ in range(L)] + [eos] * (R - L)
            else:
                L = rng.randint(0, 6)
                r = [rng.choice(alphabet) for _ in range(L)] + [eos] + [rng.choice(alphabet + [eos]) for _ in range(R - L - 1)]
            ref.append(r)
            hyp.append(_rand_seq(rng, H, alphabet, eos, 0.4))
        api = rng.choice(["ed", "prefix"])
        cases.append(dict(api=api, module=rng.random() < 0.3, kw=rng.random() < 0.5, ref=ref, hyp=hyp, eos=eos,
                          include_eos=rng.random() < 0.5, norm=rng.random() < 0.3, batch_first=rng.random() < 0.5,
                          exclude_last=(api == "prefix" and rng.random() < 0.5), costs=_rand_costs(rng, 0.15),
                          padding=rng.choice(PADS), warn=False, long=True, stream="long-ref"))
    for i in range(n_hyp):
        H = sizes[i % len(sizes)] if i < len(sizes) else rng.choice(sizes)
        alphabet = [0, 1, 2]
        eos = rng.choice([None, 9, 9, -1])
        R = rng.randint(1, 5)
        N = 2
        hyp = []
        for n in range(N):
            if n == 0 or eos is None:
                L = H if eos is None else H - rng.randint(0, 3)
                hyp.append([rng.choice(alphabet) for _ in range(L)] + [eos] * (H - L))
            else:
                L = rng.randint(0, 6)
                hyp.append([rng.choice(alphabet) for _ in range(L)] + [eos] + [rng.choice(alphabet + [eos]) for _ in range(H - L - 1)])
        ref = [_rand_seq(rng, R, alphabet, eos, 0.3) for _ in range(N)]
        api = rng.choice(["ed", "prefix"])
        cases.append(dict(api=api, module=rng.random() < 0.3, kw=rng.random() < 0.5, ref=ref, hyp=hyp, eos=eos,
                          include_eos=rng.random() < 0.5, norm=rng.random() < 0.3, batch_first=rng.random() < 0.5,
                          exclude_last=(api == "prefix" and rng.random() < 0.5), costs=_rand_costs(rng, 0.15),
                          padding=rng.choice(PADS), warn=False, slow=True, stream="long-hyp"))
    return cases


def gen_block(chk, n):
    """size-dependent code paths at block boundaries: a reduction or sweep done in column blocks (16/32/64/128 wide) goes
    wrong exactly when a dimension is a multiple of the block - and only for a pair that fills the whole dimension and
    whose best alignment runs down the diagonal to the last cell.  Reference (or hypothesis) widths at and next to powers
    of two, the first pair's reference filling the padded width, its hypothesis an edited copy of about the same length
    (so the optimal alignment ends in a match / substitution, not a deletion); judged pair by pair by the model."""
    rng = chk.rng
    cases = []
    sizes = [64, 128, 32, 16, 63, 65, 127, 129, 31, 33, 64, 128]
    for i in range(n):
        R = sizes[i % len(sizes)]
        alphabet = [0, 1, 2, 3]
        eos = rng.choice([None, None, 9, -1])
        incl = rng.random() < 0.5
        N = rng.randint(1, 2)
        ref, hyp = [], []
        for nn in range(N):
            if nn == 0:
                # with an eos: the eos in the very last slot (counts only with include_eos) or none at all
                L = R if eos is None or rng.random() < 0.5 else R - 1
                r = [rng.choice(alphabet) for _ in range(L)] + [eos] * (R - L)
            else:
                L = rng.randint(0, R - 1) if eos is not None else R
                r = [rng.choice(alphabet) for _ in range(L)] + ([eos] + [rng.choice(alphabet) for _ in range(R - L - 1)] if L < R else [])
            ref.append(r)
        # hypothesis of the first pair: its reference's tokens with a few edits, the last tokens kept
        base = [x for x in ref[0] if x != eos or eos is None]
        h = list(base)
        for _ in range(rng.randint(0, 4)):
            if len(h) > 4:
                j = rng.randint(0, len(h) - 3)
                op = rng.choice(["sub", "del", "ins"])
                if op == "sub":
                    h[j] = rng.choice(alphabet)
                elif op == "del":
                    del h[j]
                else:
                    h.insert(j, rng.choice(alphabet))
        H = max(len(h) + (1 if eos is not None else 0), 1)
        hyp.append(h + ([eos] * (H - len(h)) if eos is not None else []))
        for nn in range(1, N):
            hyp.append(_rand_seq(rng, H, alphabet, eos, 0.3) if eos is not None else [rng.choice(alphabet) for _ in range(H)])
        if rng.random() < 0.3:   # the same on the hypothesis side: swap the roles
            ref, hyp = hyp, ref
        api = rng.choice(["ed", "ed", "prefix"])
        cases.append(dict(api=api, module=rng.random() < 0.3, kw=rng.random() < 0.5, ref=ref, hyp=hyp, eos=eos,
                          include_eos=incl, norm=rng.random() < 0.3, batch_first=rng.random() < 0.5,
                          exclude_last=(api == "prefix" and rng.random() < 0.5), costs=_rand_costs(rng, 0.3),
                          padding=rng.choice(PADS), warn=False, long=True, stream="block-boundary"))
    return cases


def _reps(x, m, dt):
    """the ids congruent to x modulo 2^m that a tensor of dtype dt can hold (x itself first)"""
    return [v for v in (x, x + 2 ** m, x - 2 ** m, x + 2 * 2 ** m, x - 2 * 2 ** m, x + 3 * 2 ** m) if _fits(v, dt)]


def gen_dtype_mix(chk, n):
    """dtype combinations of the two token tensors (uint8 / int8 / int16 / int32 / int64 in every pairing, both
    directions, and equal) with ids beyond the narrower range: the alphabet is a few residue classes modulo 2^m
    (m = 8 / 16 / 32, at least the width of the narrower dtype), each tensor holds the representatives of a class
    that fit ITS dtype - so a token of the wider tensor is frequently congruent to, but different from, the token
    of the narrower tensor it is aligned with (263 vs 7 under uint8, x + 2^16 under int16, x + 2^32 under int32; 200 vs
    -56 for uint8 vs int8), and likewise congruent to the eos without being it.  Any conversion of one tensor to the
    other's (or a fixed narrower) dtype, instead of comparing after type promotion, identifies such ids.  The eos is
    absent, representable in both dtypes, or representable in one of them only (that tensor then simply has no eos).
    Every entry point, layout and call history of the other streams; judged by the same check_ed / check_prefix terms
    on the ids (the model's tokens are integers)."""
    rng = chk.rng
    names = list(DTYPES)
    cases = []
    for i in range(n):
        u = rng.random()
        if u < 0.05:
            dr = dh = "int64"
        elif u < 0.10:
            dr = dh = rng.choice(names[:4])
        else:
            dr, dh = rng.sample(names, 2)
            if i % 4 == 0 and DTYPES[dr][2] > DTYPES[dh][2]:
                dr, dh = dh, dr  # the narrower reference a little more often than the narrower hypothesis
        br, bh = DTYPES[dr][2], DTYPES[dh][2]
        narrow = dr if (br < bh or (br == bh and rng.random() < 0.5)) else dh
        nb, wb = min(br, bh), max(br, bh)
        ms = [b for b in (8, 16, 32) if nb <= b < wb] or ([nb] if nb < 64 else [8, 16, 32])
        m = ms[0] if rng.random() < 0.7 else rng.choice(ms)
        lo, hi = (DTYPES[narrow][0], DTYPES[narrow][1]) if nb < 64 else (-300, 300)
        lo, hi = max(lo, -2 ** (m - 1)), min(hi, 2 ** m - 1)
        pool = [x for x in (0, 1, 2, 7, -1, -2, -56, lo, lo + 1, hi, hi - 1, 100, 127, 128, 200) if lo <= x <= hi]
        V = rng.randint(1, 3)
        xs = []
        while len(xs) < V + 1:  # V token classes + the class of the eos, pairwise incongruent modulo 2^min(nb, m)
            x = rng.choice(pool) if rng.random() < 0.7 else rng.randint(lo, hi)
            if all((x - y) % 2 ** min(nb, m) for y in xs):
                xs.append(x)
        reps = {dt: [_reps(x, m, dt) for x in xs] for dt in (dr, dh)}
        eos_kind = rng.choice(["none", "both", "both", "both", "one", "one"])
        eos = None
        if eos_kind != "none":
            cand = sorted(set(reps[dr][V]) | set(reps[dh][V]))
            both = [v for v in cand if _fits(v, dr) and _fits(v, dh)]
            one = [v for v in cand if v not in both]
            eos = rng.choice(both if (eos_kind == "both" and both) or not one else one)
        p_alias = rng.choice([0.15, 0.5, 0.85])

        def alphabet(dt):
            a = [c for c in range(V) if reps[dt][c]]
            if eos is not None and _fits(eos, dt) and [v for v in reps[dt][V] if v != eos]:
                a.append(V + 1)  # an ordinary token that is congruent to the eos
            return a or [0]

        def value(c, dt):
            if c == V:
                return eos
            r = [v for v in reps[dt][V] if v != eos] if c == V + 1 else reps[dt][c]
            return r[0] if rng.random() >= p_alias else rng.choice(r)

        N, R, H = rng.randint(1, 4), rng.randint(1, 6), rng.randint(1, 6)
        er = V if eos is not None and _fits(eos, dr) else None
        eh = V if eos is not None and _fits(eos, dh) else None
        ar, ah = alphabet(dr), alphabet(dh)
        ref_c = [_rand_seq(rng, R, ar, er, 0.25) for _ in range(N)]
        hyp_c = []
        for r in ref_c:
            if rng.random() < 0.7:
                body = [c for c in _cut(r, er, False) if c in ah]
                hyp_c.append(_mutate(rng, body + ([eh] if eh is not None else []), ah, eh, H))
            else:
                hyp_c.append(_rand_seq(rng, H, ah, eh, 0.25))
        api = rng.choice(["ed", "prefix", "prefix"])
        c = dict(api=api, module=rng.random() < 0.3, ref=[[value(t, dr) for t in s_] for s_ in ref_c],
                 hyp=[[value(t, dh) for t in s_] for s_ in hyp_c], eos=eos, dtypes=[dr, dh],
                 include_eos=rng.random() < 0.5, norm=rng.random() < 0.3, batch_first=rng.random() < 0.5,
                 exclude_last=(api == "prefix" and rng.random() < 0.5), costs=_rand_costs(rng),
                 padding=rng.choice(PADS), warn=rng.random() < 0.2, kw=rng.random() < 0.5)
        c = _decorate(rng, c, p_exotic=0.0)
        if c.get("alias"):  # one tensor object for both arguments: one dtype (hyp is a copy of ref)
            c["dtypes"] = [dr, dr]
        c["stream"] = "dtype-mix"
        cases.append(c)
    return cases


def _py_lev(r, h, ci, cd, cs):
    row = [j * cd for j in range(len(r) + 1)]
    for t in h:
        new = [row[0] + ci]
        for j in range(1, len(r) + 1):
            new.append(min(row[j] + ci, new[j - 1] + cd, row[j - 1] + (0 if r[j - 1] == t else cs)))
        row = new
    return row[-1]


def _alias_sensitive(case):
    """histogram only: would identifying ids that are congruent modulo 2^8 / 2^16 / 2^32 change some pair's distance
    (or where a sequence ends)?"""
    for m in (8, 16, 32):
        f = lambda t: t % 2 ** m
        e = None if case["eos"] is None else f(case["eos"])
        for r, h in zip(case["ref"], case["hyp"]):
            a, b = _cut(r, case["eos"], case["include_eos"]), _cut(h, case["eos"], case["include_eos"])
            a2 = _cut([f(t) for t in r], e, case["include_eos"])
            b2 = _cut([f(t) for t in h], e, case["include_eos"])
            if _py_lev(a, b, *case["costs"]) != _py_lev(a2, b2, *case["costs"]) or len(b) != len(b2):
                return True
    return False


def gen_cases(chk):
    cases = gen_exhaustive(chk)
    for c in load_corpus("C01"):
        c = dict(c.get("case", c))
        c["stream"] = "corpus"
        cases.append(c)
    thorough = chk.tier == "thorough"
    cases += gen_random(chk, 20000 if thorough else 1800)
    cases += gen_zero_width(chk, 400 if thorough else 60)
    # robustness streams: drawn after the older streams so that those stay what they were for a given seed
    cases += gen_eos_mix(chk, 1500 if thorough else 150)
    cases += gen_sparse(chk, 1500 if thorough else 160)
    cases += gen_entry_layout(chk, 3000 if thorough else 260)
    cases += gen_numeric(chk, 1200 if thorough else 120)
    cases += gen_long(chk, 28 if thorough else 5, 21 if thorough else 3, big=(513, 1025) if thorough else (513,))
    cases += gen_block(chk, 48 if thorough else 12)
    cases += gen_dtype_mix(chk, 3000 if thorough else 300)
    return [c for c in cases if in_space(c)]


# ------------------------------------------------------------------------------------------
# shrinking, judging
# ------------------------------------------------------------------------------------------


def _strip(case):
    return {k: v for k, v in case.items() if k not in ("stream", "eos_kind")}


def _fails(chk, case):
    if not in_space(case):
        return False
    out = run_impl(case)
    return not coq_eval_bools(chk.workdir, IMPORTS, [model_term(case, out)], tag="shr")[0]


def _cands(case):
    N, R, H = _dims(case)
    for key in ("history", "alias", "entry", "layout", "ids"):
        if case.get(key):
            yield {k: v for k, v in case.items() if k != key}
    if case.get("dtypes"):
        yield {k: v for k, v in case.items() if k != "dtypes"}
        for j in (0, 1):
            if case["dtypes"][j] != "int64":
                yield dict(case, dtypes=[("int64" if k == j else d) for k, d in enumerate(case["dtypes"])])
    for n in range(N):
        if N > 1:
            yield dict(case, ref=case["ref"][:n] + case["ref"][n + 1:], hyp=case["hyp"][:n] + case["hyp"][n + 1:])
    if R > 1:
        yield dict(case, ref=[s[:-1] for s in case["ref"]])
        yield dict(case, ref=[s[1:] for s in case["ref"]])
    if H > 1:
        yield dict(case, hyp=[s[:-1] for s in case["hyp"]])
        yield dict(case, hyp=[s[1:] for s in case["hyp"]])
    for key in ("norm", "batch_first", "exclude_last", "include_eos", "module", "warn", "kw"):
        if case.get(key):
            yield dict(case, **{key: False})
    if case["costs"] != [4, 4, 4]:
        yield dict(case, costs=[4, 4, 4])
        for i in range(3):
            if case["costs"][i] != 4:
                c = list(case["costs"])
                c[i] = 4
                yield dict(case, costs=c)
    if case["padding"] != -100:
        yield dict(case, padding=-100)
    for which in ("ref", "hyp"):
        for n, s in enumerate(case[which]):
            for i, t in enumerate(s):
                if t != 0 and t != case["eos"]:
                    s2 = list(s)
                    s2[i] = 0
                    yield dict(case, **{which: case[which][:n] + [s2] + case[which][n + 1:]})


def judge(chk, case, out):
    spec_ok = coq_eval_bools(chk.workdir, IMPORTS, [spec_term(case, out)], tag="spec")[0]
    rec = {"case": case, "impl": out,
           "model": coq_eval_print(chk.workdir, IMPORTS, model_show(case)),
           "scale": "model values are in cost units of 1/scale (scale = %d): Cost v = v/scale, Ratio n d = (n/scale)/d, "
                    "Lit z = z" % _scale(case),
           "spec_accepts_impl": spec_ok,
           "correspondence": "corr:C01:edit_distance/prefix_edit_distances/EditDistance/PrefixEditDistances",
           "theorems_at_stake": THEOREMS}
    if spec_ok:
        rec["what"] = ("implementation differs from the model but every value equals the weighted Levenshtein distance "
                       "of the spec (lev on the sequences cut at eos)")
    elif "exc" in out:
        rec["what"] = f"implementation raised {out['exc']} on an input inside the property's input space"
    elif "unstable" in out:
        rec["what"] = out["unstable"]
    else:
        rec["what"] = ("reported edit distance / prefix table differs from the minimum edit cost (Spec.lev on the "
                       "sequences cut at the first eos), the padding rule or the output shape")
    return rec, spec_ok


def judge_long(chk, case, out):
    """A batch with a very long reference: Spec.lev (the textbook recursion) is not evaluable at that size, the verdict
    is the model's (= the minimum edit cost by c01_edit_distance_correct / c01_prefix_edit_distances_correct), pair by
    pair; the pairs alone - short references cut after their eos - are re-run as a second witness."""
    N = len(case["ref"])
    rec = {"case": case, "impl": out, "correspondence": "corr:C01:long-reference batch, pair by pair (pair_term)",
           "theorems_at_stake": THEOREMS, "spec_accepts_impl": False}
    if not _usable(case, out):
        rec["what"] = ("implementation raised / returned a non-finite value or a wrong shape on a batch with a padded "
                       "reference width of %d" % len(case["ref"][0]))
        return rec
    res = coq_eval_bools(chk.workdir, IMPORTS, [pair_term(case, out, n) for n in range(N)], shard=1, tag="longj")
    rec["failing_pairs"] = [n for n, ok in enumerate(res) if not ok]
    alone = []
    for n in rec["failing_pairs"]:
        r = list(case["ref"][n])
        if case["eos"] is not None and case["eos"] in r and r.index(case["eos"]) < 16:
            c1 = dict(case, ref=[r[: r.index(case["eos"]) + 1]], hyp=[case["hyp"][n]])
            o1 = run_impl(c1)
            alone.append({"pair": n, "case": _strip(c1), "impl_alone": o1, "impl_in_batch": _col_of(case, out, n)})
    rec["pairs_alone"] = alone
    rec["what"] = ("pair(s) %s of a batch whose padded reference width is %d differ from the minimum edit cost of the pair "
                   "(model on the pair alone, reference cut after its eos)" % (rec["failing_pairs"], len(case["ref"][0])))
    return rec


def run(chk, cases=None):
    from concurrent.futures import ThreadPoolExecutor

    chk.rule = ("case = one call of edit_distance / prefix_edit_distances (functional positional / keyword / defaults "
                "left out, module, scripted or traced module, scripted function) on a batch; ref/hyp are stored as N "
                "sequences of the tensor widths R/H (padding and post-eos garbage included) and handed over in the "
                "case's batch layout and memory layout with costs k/scale (scale 4 unless stated); every output entry is "
                "matched inside Coq against PV.C01.Model.{edit_distance,prefix_edit_distances} on integer costs k (Cost: "
                "exact; Ratio: 2^-23 bracket of the one float division; Lit: exact). non-trivial = some pair whose two "
                "sequences, cut at the first eos, are both non-empty and differ")
    chk.assumptions += ["costs are on a dyadic grid k/2^m (k<=12 times one power of two, or spread over 12 binary orders), "
                        "lengths <= 8 (<= 300 in the long streams, where values stay below 2^24 grid units): every float32 "
                        "operation before the final division is exact (regime E)",
                        "numeric stream, scale 3/7/10 (costs off the dyadic grid, un-normalised only): an output entry is "
                        "moved to the nearest multiple of 1/scale when that is within 1e-5 relative (distinct multiples "
                        "differ by > 1e-3 relative) and then compared exactly",
                        "long-ref stream: each pair is judged on the canonicalised input (alone, reference cut after its "
                        "first eos) - the model's cost is cubic in the padded width",
                        "tokens are int64 ('a long tensor' in the docs) except in the dtype-mix stream: ref and hyp as uint8 / "
                        "int8 / int16 / int32 / int64 tensors in every pairing, ids congruent modulo 2^8 / 2^16 / 2^32 across "
                        "the two tensors; an eos that is not representable in a tensor's dtype while that tensor holds an id "
                        "congruent to it modulo 2^bits is excluded (the unchanged code wraps the scalar: "
                        "corpus/C01/dtype_eos_wraps_onto_token.json.pending); float token tensors are not exercised",
                        "zero-width tensors are in the input space only without eos (with eos _lens_from_eos raises)",
                        "the batch dimension of the model is a map over columns; independence of the vectorised code across "
                        "the batch is covered by the correspondence and the single-column metamorphic relation"]
    replaying = cases is not None
    cases = cases if cases is not None else gen_cases(chk)
    outs, terms, streams = [], [], []
    for c in cases:
        stream = c.pop("stream", "random")
        eos_kind = c.pop("eos_kind", None)
        streams.append(stream)
        out = run_impl(c)
        outs.append(out)
        terms.append(model_term(c, out))
        chk.note_case(c, nontrivial(c), stream)
        N, R, H = _dims(c)
        chk.count("api=" + c["api"] + ("/module" if c["module"] else ""))
        chk.count("flags=" + "".join(ch if c[k] else "-" for ch, k in
                                     (("E", "include_eos"), ("N", "norm"), ("B", "batch_first"), ("X", "exclude_last"))))
        chk.count("costs=" + ("uniform" if len(set(c["costs"])) == 1 else "nonuniform"))
        chk.count("eos=" + (eos_kind or ("none" if c["eos"] is None else "given")))
        chk.count("N=%d" % N)
        chk.count("R=%s" % (R if R <= 8 else ">8" if R < 255 else R))
        chk.count("H=%s" % (H if H <= 8 else ">8" if H < 255 else H))
        chk.count("outcome=" + ("exc:" + out["exc"] if "exc" in out else "ok"))
        chk.count("pairs", N)
        chk.count("empty_ref_pairs", sum(1 for r in c["ref"] if not _cut(r, c["eos"], c["include_eos"])))
        chk.count("empty_hyp_pairs", sum(1 for h in c["hyp"] if not _cut(h, c["eos"], c["include_eos"])))
        chk.count("no_eos_seqs", sum(1 for s in c["ref"] + c["hyp"] if c["eos"] is not None and c["eos"] not in s))
        chk.count("entry=" + (c.get("entry") or "legacy"))
        chk.count("layout=" + "/".join(c.get("layout") or ("contig", "contig")))
        for key in ("history", "alias", "ids", "numeric"):
            if c.get(key):
                chk.count(key + "=" + str(c[key]))
        if c.get("dtypes"):
            chk.count("dtypes=" + "/".join(c["dtypes"]))
            bits = [DTYPES[d][2] for d in c["dtypes"]]
            chk.count("dtypes:" + ("ref narrower" if bits[0] < bits[1] else "hyp narrower" if bits[1] < bits[0] else "same width"))
            if c["eos"] is not None and not all(_fits(c["eos"], d) for d in c["dtypes"]):
                chk.count("dtypes: eos representable in one tensor only")
            if _alias_sensitive(c):
                chk.count("dtypes: result changes if ids congruent mod 2^8/2^16/2^32 are identified")
        if c.get("scale"):
            chk.count("scale=%d" % c["scale"])
        if c["eos"] is not None and c["include_eos"] and N > 1:
            noe_h = [c["eos"] not in h for h in c["hyp"]]
            if any(noe_h[m] and any(c["eos"] not in c["ref"][n] and not noe_h[n] for n in range(N) if n != m)
                   for m in range(N)):
                chk.count("eos_fixup_interaction(hyp w/o eos + other pair: ref w/o eos, hyp with)")
        if c["api"] == "prefix" and c["eos"] is not None and c["include_eos"] and any(
                c["eos"] in h[:-1] for h in c["hyp"]):
            chk.count("prefix_include_eos_with_eos_before_last_row")
    # the Coq evaluation runs beside the metamorphic phase; terms that take seconds each get their own shards
    slow = [i for i, c in enumerate(cases) if c.get("long") or c.get("slow")]
    fast = [i for i in range(len(cases)) if i not in set(slow)]
    pool = ThreadPoolExecutor(max_workers=2)
    fut_fast = pool.submit(coq_eval_bools, chk.workdir, IMPORTS, [terms[i] for i in fast])
    fut_slow = pool.submit(coq_eval_bools, chk.workdir, IMPORTS, [terms[i] for i in slow], 1, None, 1800, "long")

    # metamorphic relations on the implementation (all cases when replaying, a seeded subset otherwise)
    mrng = __import__("random").Random(chk.seed + 1)
    meta_n = 0
    meta_fail = []
    OLD = ("random", "corpus")
    NEW = ("eos-mix", "sparse-defaults", "entry-layout", "numeric", "long-ref", "long-hyp", "block-boundary", "dtype-mix")
    for i, c in enumerate(cases):
        if c.get("long") or c.get("slow") or not _exact_scale(c) or (c.get("entry") in JIT and not replaying):
            continue
        if streams[i] in NEW and not replaying and i % (8 if chk.tier != "thorough" else 24) != 0:
            continue
        if replaying or chk.tier != "thorough" and streams[i] in OLD or i % (3 if streams[i] != "exhaustive" else 12) == 0:
            meta_n += 1
            for what, vc, vo in metamorphic(c, outs[i], mrng):
                meta_fail.append((i, what, vc, vo))
    chk.extra["metamorphic_cases"] = meta_n
    chk.extra["metamorphic_failures"] = len(meta_fail)

    res = [True] * len(cases)
    for i, ok in zip(fast, fut_fast.result()):
        res[i] = ok
    for i, ok in zip(slow, fut_slow.result()):
        res[i] = ok
    pool.shutdown()
    bad = [i for i, ok in enumerate(res) if not ok]
    chk.extra["model_disagreements"] = len(bad)
    # known finding K9: the corpus cases marked k9 are judged here, each on its own, against the signature of the
    # known-findings file; they take no part in the shrinking / metamorphic / source-tie steps below (the interpreted source
    # has unbounded integers and does not show the wrap)
    for i in [i for i in bad if cases[i].get("k9")]:
        rec, spec_ok = judge(chk, cases[i], outs[i])
        if not spec_ok and chk.report(rec, k9_signature) == "known":
            bad.remove(i)
    meta_fail = [m for m in meta_fail if not cases[m[0]].get("k9")]

    found_concrete = False
    for i in [i for i in bad if cases[i].get("long")][:2]:
        found_concrete = True
        chk.report(judge_long(chk, cases[i], outs[i]))
    bad_small = [i for i in bad if not cases[i].get("long")]
    # small inputs first: their shrinking is cheap
    bad_small.sort(key=lambda i: (bool(cases[i].get("slow")), i))
    for i in bad_small[:4]:
        if cases[i].get("slow"):
            if found_concrete:
                continue
            case = cases[i]
        else:
            case = shrink(cases[i], lambda c: _fails(chk, c), _cands, budget=60)
        out = run_impl(case)
        if max(_dims(case)[1:]) > 40:  # Spec.lev is not evaluable there; the model's verdict stands (model = spec proved)
            rec = {"case": case, "impl": out, "spec_accepts_impl": False, "theorems_at_stake": THEOREMS,
                   "correspondence": "corr:C01:long-hypothesis batch",
                   "what": "output differs from the model (= minimum edit cost) on a batch with a very long hypothesis"}
            spec_ok = False
        else:
            rec, spec_ok = judge(chk, case, out)
        if not spec_ok:
            if chk.report(rec, k9_signature) != "known":
                found_concrete = True
    if bad_small and not found_concrete:
        small = [i for i in bad_small if max(_dims(cases[i])[1:]) <= 40]
        sres = coq_eval_bools(chk.workdir, IMPORTS, [spec_term(cases[i], outs[i]) for i in small], tag="specall")
        hit = [small[j] for j, ok in enumerate(sres) if not ok]
        if hit:
            rec, _ = judge(chk, cases[hit[0]], outs[hit[0]])
            chk.report(rec)
            found_concrete = True
    for i, what, vc, vo in meta_fail[:3]:
        found_concrete = True
        chk.report({"case": cases[i], "impl": outs[i], "variant_case": _strip(vc), "variant_impl": vo,
                    "what": "metamorphic relation of the property fails on the implementation: " + what,
                    "correspondence": "corr:C01:metamorphic", "theorems_at_stake": THEOREMS})
    if bad and not found_concrete:
        rec, _ = judge(chk, cases[bad[0]], outs[bad[0]])
        chk.report(rec, no_failing_input=True)
    keep = [i for i in range(len(cases)) if not cases[i].get("k9")]
    source_tie(chk, [cases[i] for i in keep], [outs[i] for i in keep])


# ------------------------------------------------------------------------------------------
# source tie: the translated Python text of _string_matching, interpreted inside Coq, on the run's cases
# ------------------------------------------------------------------------------------------
IMPORTS_SRC = IMPORTS + "From PV Require C01.SrcRun C01.SrcRunP.\n"
SRC_TIE_SAMPLE = 1500  # per entry point (ed / prefix)
SRC_THEOREMS = ["c01_source_loop_body_is_step_row", "c01_source_loop_is_rows", "c01_source_edit_distance_is_model",
                "c01_source_string_matching_is_model", "c01_source_string_matching_is_lev",
                "c01_source_edit_distance_is_lev", "c01_source_prefix_is_model", "c01_source_prefix_blocks_is_model",
                "c01_source_prefix_is_spec", "c01_source_prefix_is_lev", "c01_source_prefix_loop_body_is_step_row"]


def _src_tie_eligible(case, out):
    """edit_distance calls (return_mask = return_prf_dsts = return_mistakes = False) and prefix_edit_distances calls
    (return_prf_dsts = True, exclude_last, padding) whose costs are exact rationals k/scale in float32 and whose tensors
    are small enough for the interpreter (its cost is cubic in R)"""
    N, R, H = _dims(case)
    return (case["api"] in ("ed", "prefix") and _usable(case, out) and _exact_scale(case) and not case.get("long")
            and not case.get("slow") and R <= 12 and H <= 12)


def src_term(case, out):
    N, R, H = _dims(case)
    ref, hyp = _mat(case["ref"], R, case["batch_first"]), _mat(case["hyp"], H, case["batch_first"])
    if case["api"] == "prefix":  # the table row by row as returned ((N x T) when batch_first, else (T x N))
        obs = cl([cl([_q(x) for x in row]) for row in out["val"]])
        return f"SrcRunP.src_prefix_check {_cfg(case)} {cz(_scale(case))} {cn(N)} {ref} {hyp} {obs}"
    obs = cl([_q(x) for x in out["val"]])
    return f"SrcRun.src_edit_distance_check {_cfg(case)} {cz(_scale(case))} {cn(N)} {ref} {hyp} {obs}"


def source_tie(chk, cases, outs):
    """run the translated source (PV.Gen.C01Src: the blocks in sequence and the whole body) inside Coq on a sample of the
    plain edit-distance cases of this run: validates the translator, MiniPy's semantics, ext01 and the MiniTorch definitions
    against CPython + torch; independent of whether the tie lemmas still compile"""
    from vlib import CoqError
    import time
    idx = []
    for api in ("ed", "prefix"):
        sub = [i for i, (c, o) in enumerate(zip(cases, outs)) if c["api"] == api and _src_tie_eligible(c, o)]
        if len(sub) > SRC_TIE_SAMPLE:  # evenly spaced over the streams
            step = len(sub) / SRC_TIE_SAMPLE
            sub = [sub[int(j * step)] for j in range(SRC_TIE_SAMPLE)]
        idx += sub
    idx.sort()
    if not idx:
        chk.extra["source_tie_run"] = {"cases": 0, "disagreements": 0}
        return
    t0 = time.time()
    try:
        res = coq_eval_bools(chk.workdir, IMPORTS_SRC, [src_term(cases[i], outs[i]) for i in idx], shard=24, tag="src")
    except CoqError as e:
        chk.extra["source_tie_run"] = "not evaluated: " + str(e)[-400:]
        return
    bad = [idx[j] for j, ok in enumerate(res) if not ok]
    chk.extra["source_tie_run"] = {
        "cases": len(idx), "disagreements": len(bad), "wall_s": round(time.time() - t0, 1),
        "prefix": sum(1 for i in idx if cases[i]["api"] == "prefix"),
        "exclude_last": sum(1 for i in idx if cases[i]["api"] == "prefix" and cases[i]["exclude_last"]),
        "with_eos": sum(1 for i in idx if cases[i]["eos"] is not None),
        "include_eos": sum(1 for i in idx if cases[i]["include_eos"]), "norm": sum(1 for i in idx if cases[i]["norm"]),
        "batch_first": sum(1 for i in idx if cases[i]["batch_first"]),
        "uniform_costs": sum(1 for i in idx if len(set(cases[i]["costs"])) == 1),
        "zero_width": sum(1 for i in idx if 0 in _dims(cases[i])[1:]),
        "max_R": max(_dims(cases[i])[1] for i in idx), "max_H": max(_dims(cases[i])[2] for i in idx)}
    chk.count("source_tie_cases", len(idx))
    if bad:
        i = bad[0]
        chk.report({"case": cases[i], "impl": outs[i],
                    "what": "the Python source of _string_matching as translated to MiniPy and interpreted in Coq "
                            "(PV.C01.SrcRun.src_edit_distance_check / SrcRunP.src_prefix_check, torch calls = "
                            "PV.MiniTorch.OpsC01/OpsC01P/OpsC07) does not "
                            "reproduce the implementation's output: translator / interpreter / ext01 / MiniTorch no longer "
                            "describe the code",
                    "disagreeing_cases": len(bad),
                    "correspondence": "tie:C01:py2coq+MiniPy.Interp+MiniTorch:_string_matching",
                    "theorems_at_stake": SRC_THEOREMS}, no_failing_input=True)


def replay(chk, path):
    rec = json.loads(open(path).read())
    todo = [_strip(dict(rec["case"]))]
    if "variant_case" in rec:
        todo.append(_strip(dict(rec["variant_case"])))
    run(chk, todo)
