(* C18 — Normalisation statistics, deltas and returns equal their defining formulas.
   Property theorems only: each is closed by [exact <lemma of the Proofs files>] and followed
   by [Print Assumptions].  The harness re-checks this file on every run.

   Numbers are exact rationals (IEEE rounding is not modelled); [==] is equality of rationals.
   [sqrt] is an oracle: the model's store() returns variances, and wherever a standard
   deviation is needed the theorems quantify over any [std] whose square is that variance. *)
From Coq Require Import List ZArith QArith Permutation.
From PV Require Import C18.Model C18.Spec C18.Proofs.
Import ListNotations.
Local Open Scope Q_scope.

(* ---- statistics ----------------------------------------------------------------------- *)

(* the running count / sum / sum of squares after accumulating ANY non-empty list of tensors
   (any shapes, any number of dimensions, as long as dim is legal and they agree on the number
   X of coefficients) are the frame count and the per-coefficient sums of the pooled data *)
Theorem c18_accumulate_pooled_sums : forall dim X xs,
  xs <> [] -> uniform dim X xs ->
  exists s, accumulate_all dim None xs = Ok (Some s) /\
    length (ssum s) = X /\ length (ssq s) = X /\
    cnt s == qofnat (frames dim xs) /\
    forall i, (i < X)%nat ->
      nth i (ssum s) 0 == Qsum (pooled dim xs i) /\
      nth i (ssq s) 0 == Qsum (map qsq (pooled dim xs i)).
Proof. exact accumulate_pooled_sums. Qed.
Print Assumptions c18_accumulate_pooled_sums.

(* "Mean-variance statistics accumulated over any partition of the data ... equal the pooled
   population mean and (biased or Bessel-corrected) standard deviation of all frames"
   (var = std^2; the clamp at 0 that store() applies never bites in exact arithmetic) *)
Theorem c18_store_is_pooled_mean_var : forall dim X xs b,
  xs <> [] -> uniform dim X xs -> (2 <= frames dim xs)%nat ->
  exists mean var,
    bind (accumulate_all dim None xs) (fun s => store s b) = Ok (mean, var) /\
    length mean = X /\ length var = X /\
    forall i, (i < X)%nat ->
      nth i mean 0 == pop_mean (pooled dim xs i) /\ nth i var 0 == pop_var b (pooled dim xs i).
Proof. exact store_is_pooled_mean_var. Qed.
Print Assumptions c18_store_is_pooled_mean_var.

(* with fewer than two frames store() raises (for either setting of bessel: as coded) *)
Theorem c18_store_needs_two_frames : forall dim X xs b,
  xs <> [] -> uniform dim X xs -> (frames dim xs < 2)%nat ->
  bind (accumulate_all dim None xs) (fun s => store s b) = Err ERuntime.
Proof. exact store_too_few_frames. Qed.
Print Assumptions c18_store_needs_two_frames.

(* "over any partition of the data, in any order": two histories whose pooled coefficient
   values are permutations of each other - different chunking, order, tensor shapes, numbers
   of dimensions, even a different dim argument - store the same mean and variance *)
Theorem c18_stats_partition_order_invariant : forall dim dim' X xs xs' b,
  (0 < X)%nat -> xs <> [] -> xs' <> [] -> uniform dim X xs -> uniform dim' X xs' ->
  (forall i, (i < X)%nat -> Permutation (pooled dim xs i) (pooled dim' xs' i)) ->
  same_result (bind (accumulate_all dim None xs) (fun s => store s b))
              (bind (accumulate_all dim' None xs') (fun s => store s b)).
Proof. exact stats_partition_order_invariant. Qed.
Print Assumptions c18_stats_partition_order_invariant.

(* "normalising with them gives each coefficient zero mean and unit variance over the pooled
   data": accumulate, store, take std with std^2 = var (positive and not below eps), normalise
   every accumulated tensor; the pooled result has mean 0 and (biased resp. Bessel) variance 1 *)
Theorem c18_normalised_zero_mean_unit_var : forall dim X xs ys b mean var std eps i,
  xs <> [] -> uniform dim X xs -> (2 <= frames dim xs)%nat ->
  bind (accumulate_all dim None xs) (fun s => store s b) = Ok (mean, var) ->
  length std = X -> (i < X)%nat ->
  nth i std 0 * nth i std 0 == nth i var 0 ->
  0 < nth i std 0 -> eps <= nth i std 0 ->
  Forall2 (fun x y => exists sg ov, mean_var_norm x dim (Some mean) (Some std) eps sg = Ok (y, ov)) xs ys ->
  pop_mean (pooled dim ys i) == 0 /\ pop_var b (pooled dim ys i) == 1.
Proof. exact accumulate_store_normalise. Qed.
Print Assumptions c18_normalised_zero_mean_unit_var.

(* the same for statistics handed to the module directly, whatever their origin *)
Theorem c18_normalised_given_stats : forall dim X mean std eps b xs ys i,
  uniform dim X xs -> length mean = X -> length std = X -> (i < X)%nat ->
  Forall2 (fun x y => exists sg ov, mean_var_norm x dim (Some mean) (Some std) eps sg = Ok (y, ov)) xs ys ->
  (0 < frames dim xs)%nat ->
  nth i mean 0 == pop_mean (pooled dim xs i) ->
  nth i std 0 * nth i std 0 == pop_var b (pooled dim xs i) ->
  0 < nth i std 0 -> eps <= nth i std 0 ->
  pop_mean (pooled dim ys i) == 0 /\ pop_var b (pooled dim ys i) == 1.
Proof. exact normalised_zero_mean_unit_var. Qed.
Print Assumptions c18_normalised_given_stats.

(* what the normalisation does to every coefficient: y = (x - mean_i) / max(std_i, eps) *)
Theorem c18_normalisation_formula : forall x dim d mean std eps sigma y ov i,
  norm_dim (length (shape x)) dim = Some d ->
  length mean = nth d (shape x) 0%nat -> length std = nth d (shape x) 0%nat ->
  mean_var_norm x dim (Some mean) (Some std) eps sigma = Ok (y, ov) ->
  (i < nth d (shape x) 0)%nat ->
  shape y = shape x /\
  coeff_vals y d i = map (fun q => (q - nth i mean 0) / qmax (nth i std 0) eps) (coeff_vals x d i).
Proof. exact coeff_vals_norm_given. Qed.
Print Assumptions c18_normalisation_formula.

(* "without stored statistics the input's own statistics are used": the subtracted mean is
   the population mean of the coefficient, the variance whose root is taken is its biased
   population variance, and the division is by max(sigma_i, eps) *)
Theorem c18_own_stats_when_none : forall x dim d eps sigma y ov i,
  norm_dim (length (shape x)) dim = Some d ->
  mean_var_norm x dim None None eps sigma = Ok (y, ov) ->
  (i < nth d (shape x) 0)%nat -> (0 < rows_width x d)%nat ->
  exists mu,
    mu == pop_mean (coeff_vals x d i) /\
    nth i ov 0 == pop_var false (coeff_vals x d i) /\
    shape y = shape x /\
    coeff_vals y d i = map (fun q => (q - mu) / qmax (nth i sigma 0) eps) (coeff_vals x d i).
Proof. exact own_stats_when_none. Qed.
Print Assumptions c18_own_stats_when_none.

Theorem c18_own_stats_normalised : forall x dim d eps sigma y ov i,
  norm_dim (length (shape x)) dim = Some d ->
  mean_var_norm x dim None None eps sigma = Ok (y, ov) ->
  (i < nth d (shape x) 0)%nat -> (0 < rows_width x d)%nat ->
  nth i sigma 0 * nth i sigma 0 == nth i ov 0 -> 0 < nth i sigma 0 -> eps <= nth i sigma 0 ->
  pop_mean (coeff_vals y d i) == 0 /\ pop_var false (coeff_vals y d i) == 1.
Proof. exact own_stats_normalised. Qed.
Print Assumptions c18_own_stats_normalised.

(* ---- deltas --------------------------------------------------------------------------- *)

(* the model's list-building padding is the position-wise extension of the specification *)
Theorem c18_padding_is_extension : forall m v p x j,
  (1 <= length x)%nat -> pad_ok m p (length x) = true -> (j < length x + 2 * p)%nat ->
  nth j (pad m v p x) 0 = ext m v x (Z.of_nat j - Z.of_nat p).
Proof. exact pad_spec. Qed.
Print Assumptions c18_padding_is_extension.

(* "Delta features of every order equal the recursive regression formula applied to the input
   extended by the chosen edge padding": one convolution with the composite FIR filters, for
   every order o, width w, padding mode, line length T >= 1 the padding accepts *)
Theorem c18_delta_line_eq_regression : forall m v o w x u t,
  (1 <= length x)%nat -> pad_ok m (w * o) (length x) = true -> (u <= o)%nat -> (t < length x)%nat ->
  nth t (nth u (delta_line m v o w x) []) 0 == regress w u (ext m v x) (Z.of_nat t).
Proof. exact delta_line_eq_regression. Qed.
Print Assumptions c18_delta_line_eq_regression.

(* ---- returns -------------------------------------------------------------------------- *)

(* "Discounted returns satisfy R_t = r_t + gamma * R_(t+1) with R beyond the horizon equal to
   zero, for either layout": every gamma (0, negative, above 1 included) *)
Theorem c18_return_recursion : forall r g (bf : bool) T N out,
  shape r = (if bf then [N; T] else [T; N]) ->
  time_distributed_return r g bf = Ok out ->
  shape out = shape r /\
  forall t n, (t < T)%nat -> (n < N)%nat ->
    at2 bf out t n == at2 bf r t n + g * (if (S t <? T)%nat then at2 bf out (S t) n else 0).
Proof. exact return_recursion. Qed.
Print Assumptions c18_return_recursion.

(* ... hence it is THE return: the fold of the declarative recursion over each reward column *)
Theorem c18_return_eq_spec : forall r g (bf : bool) T N out,
  shape r = (if bf then [N; T] else [T; N]) ->
  time_distributed_return r g bf = Ok out ->
  forall t n, (t < T)%nat -> (n < N)%nat ->
    at2 bf out t n == nth t (ret_rec g (map (fun k => at2 bf r k n) (seq 0 T))) 0.
Proof. exact return_eq_spec. Qed.
Print Assumptions c18_return_eq_spec.

(* the only error: an input that is not two-dimensional *)
Theorem c18_return_error_iff : forall r g bf,
  time_distributed_return r g bf = Err ERuntime <-> length (shape r) <> 2%nat.
Proof. exact return_error_iff. Qed.
Print Assumptions c18_return_error_iff.
