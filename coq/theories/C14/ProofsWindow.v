(* C14 - extract_window replicates the edge frames *)
From Coq Require Import List Arith Bool Lia.
From PV Require Import C14.Model C14.Spec.
Import ListNotations.

Section Window.
  Context {A : Type}.

  Lemma nth_firstn_lt : forall (l : list A) n k d, k < n -> nth k (firstn n l) d = nth k l d.
  Proof.
    induction l as [|x t IH]; intros n k d Hk; [now rewrite firstn_nil|].
    destruct n; [lia|]. destruct k; [reflexivity|]. cbn. apply IH. lia.
  Qed.

  Lemma nth_skipn_add : forall (l : list A) a k d, nth k (skipn a l) d = nth (a + k) l d.
  Proof.
    induction l as [|x t IH]; intros a k d.
    - rewrite skipn_nil. destruct k, a; reflexivity.
    - destruct a; [reflexivity|]. cbn. apply IH.
  Qed.

  Lemma last_nth : forall (l : list A) d, last l d = nth (length l - 1) l d.
  Proof.
    induction l as [|x t IH]; intros d; [reflexivity|].
    destruct t as [|y t']; [reflexivity|].
    change (last (x :: y :: t') d) with (last (y :: t') d). rewrite IH. cbn [length].
    replace (S (S (length t')) - 1) with (S (S (length t') - 1)) by lia. reflexivity.
  Qed.

  Lemma hd_nth : forall (l : list A) d, hd d l = nth 0 l d.
  Proof. destruct l; reflexivity. Qed.

  Lemma slice_length : forall (l : list A) a b, length (slice l a b) = Nat.min (b - a) (length l - a).
  Proof. intros. unfold slice. now rewrite firstn_length, skipn_length. Qed.

  Lemma slice_nth : forall (l : list A) a b k d, k < b - a -> nth k (slice l a b) d = nth (a + k) l d.
  Proof. intros. unfold slice. rewrite nth_firstn_lt by assumption. apply nth_skipn_add. Qed.

  Lemma nth_three : forall (X Y Z : list A) k d,
    nth k (X ++ Y ++ Z) d =
    if Nat.ltb k (length X) then nth k X d
    else if Nat.ltb k (length X + length Y) then nth (k - length X) Y d
    else nth (k - length X - length Y) Z d.
  Proof.
    intros X Y Z k d. destruct (Nat.ltb k (length X)) eqn:E1.
    - apply Nat.ltb_lt in E1. now apply app_nth1.
    - apply Nat.ltb_ge in E1. rewrite app_nth2 by exact E1.
      destruct (Nat.ltb k (length X + length Y)) eqn:E2.
      + apply Nat.ltb_lt in E2. apply app_nth1. lia.
      + apply Nat.ltb_ge in E2. rewrite app_nth2 by lia. reflexivity.
  Qed.

  Lemma nth_repeat_lt : forall (x : A) n k d, k < n -> nth k (repeat x n) d = x.
  Proof.
    induction n as [|n IH]; intros k d Hk; [lia|]. destruct k; [reflexivity|]. cbn. apply IH. lia.
  Qed.

  (* the unreversed window *)
  Lemma window_length : forall d (feat : list A) idx left right, idx < length feat ->
    length (extract_window d feat idx left right false) = 1 + left + right.
  Proof.
    intros d feat idx left right Hidx. unfold extract_window.
    destruct (Nat.ltb idx left || Nat.ltb (length feat) (idx + right + 1)) eqn:E.
    - rewrite !app_length, !repeat_length, slice_length. lia.
    - apply orb_false_iff in E. destruct E as [E1 E2]. apply Nat.ltb_ge in E1, E2.
      rewrite slice_length. lia.
  Qed.

  (* "edge-replicated context windows": entry k of the window around frame idx is frame
     clamp(idx - left + k) of the utterance *)
  Theorem window_nth : forall d (feat : list A) idx left right k, idx < length feat ->
    k < 1 + left + right ->
    nth k (extract_window d feat idx left right false) d
    = nth (clamp_frame (length feat) idx left k) feat d.
  Proof.
    intros d feat idx left right k Hidx Hk. unfold extract_window, clamp_frame.
    set (T := length feat) in *.
    destruct (Nat.ltb idx left || Nat.ltb T (idx + right + 1)) eqn:E.
    - rewrite nth_three, !repeat_length, slice_length. fold T.
      destruct (Nat.ltb k (left - idx)) eqn:E1.
      + apply Nat.ltb_lt in E1. rewrite nth_repeat_lt by exact E1. rewrite hd_nth. f_equal. lia.
      + apply Nat.ltb_ge in E1.
        destruct (Nat.ltb k (left - idx + Nat.min (idx + right + 1 - (idx - left)) (T - (idx - left)))) eqn:E2.
        * apply Nat.ltb_lt in E2. rewrite slice_nth by lia. f_equal. lia.
        * apply Nat.ltb_ge in E2.
          destruct (Nat.lt_ge_cases (k - (left - idx) - Nat.min (idx + right + 1 - (idx - left)) (T - (idx - left)))
                                    (idx + right + 1 - T)) as [H|H].
          -- rewrite nth_repeat_lt by exact H. rewrite last_nth. fold T. f_equal. lia.
          -- exfalso. lia.
    - apply orb_false_iff in E. destruct E as [E1 E2]. apply Nat.ltb_ge in E1, E2.
      rewrite slice_nth by lia. f_equal. lia.
  Qed.

  Theorem window_reverse : forall d (feat : list A) idx left right,
    extract_window d feat idx left right true = rev (extract_window d feat idx left right false).
  Proof. reflexivity. Qed.

  Theorem window_nth_reverse : forall d (feat : list A) idx left right k, idx < length feat ->
    k < 1 + left + right ->
    nth k (extract_window d feat idx left right true) d
    = nth (clamp_frame (length feat) idx left (left + right - k)) feat d.
  Proof.
    intros d feat idx left right k Hidx Hk. rewrite window_reverse.
    pose proof (window_length d feat idx left right Hidx) as Hlen.
    rewrite rev_nth by lia. rewrite Hlen.
    replace (1 + left + right - S k) with (left + right - k) by lia.
    apply window_nth; [exact Hidx|lia].
  Qed.

  (* one window per frame *)
  Theorem windowed_length : forall d (feat : list A) left right reverse,
    length (windowed d feat left right reverse) = length feat.
  Proof. intros. unfold windowed. now rewrite map_length, seq_length. Qed.
End Window.
