(* C06 — build_trie_ok, part 9: load_state_dict's shape inference recovers the constants of the
   saved model ([infer_shape_roundtrip]): walking from dummy node to dummy node counts the levels and
   ends exactly at len(offsets) + max_ngram_nodes. *)
From Coq Require Import List ZArith Bool Arith Lia ZifyBool ZifyNat Permutation Sorted.
From PV Require Import C06.Model C06.Spec C06.Proofs C06.BuildBase C06.BuildSort C06.BuildLevels
  C06.BuildDescent C06.BuildClosure C06.BuildTrie C06.BuildEnd C06.BuildTotal.
Import ListNotations.
Local Open Scope Z_scope.

Lemma infer_loop_levels b nuni U : forall ds n prev Lpos fuel Nc Gc,
  LevOK b U prev Lpos ds -> chain_wf nuni n prev ds -> sorted_level n prev -> 0 <= Lpos ->
  (ds <> [] -> Lpos + zlen prev < zlen (offsets b)) ->
  (ds = [] -> zlen (offsets b) <= Lpos + zlen prev) -> (length ds < fuel)%nat ->
  infer_loop fuel (offsets b) (Lpos + zlen prev) Nc Gc =
  Some (Lpos + zlen prev + tot ds, (Nc + length ds)%nat,
        match ds with [] => Gc | _ => zlen (last ds []) end).
Proof.
  induction ds as [|d rest IH]; intros n prev Lpos fuel Nc Gc HLev Hch Hprev HL Hin Hend Hf.
  - destruct fuel as [|f]; [cbn in Hf; lia|]. cbn [infer_loop tot length].
    specialize (Hend eq_refl). replace (zlen (offsets b) <=? Lpos + zlen prev) with true by lia.
    replace (Lpos + zlen prev + 0) with (Lpos + zlen prev) by lia. rewrite Nat.add_0_r. reflexivity.
  - destruct fuel as [|f]; [cbn in Hf; lia|]. cbn [infer_loop length] in *.
    specialize (Hin ltac:(discriminate)). assert (0 <= zlen prev) by (unfold zlen; lia).
    replace (zlen (offsets b) <=? Lpos + zlen prev) with false by lia.
    cbn [LevOK] in HLev. destruct HLev as (Hoffs & _ & (_ & Hfit & Hlast) & HLev).
    destruct Hch as [Hwf Hch].
    set (lv := sort_rev d) in *. set (Lm := Lpos + zlen prev + 1) in *.
    assert (Hc : zlen lv = zlen d) by (unfold zlen, lv; rewrite sort_rev_length; reflexivity).
    assert (Ho : zget (offsets b) (Lpos + zlen prev) 0 = zlen lv + 1).
    { rewrite Hoffs by lia. rewrite count_lt_all.
      - replace (zlen (ppos (map fst prev) Lpos lv)) with (zlen lv) by (unfold zlen; rewrite ppos_length; reflexivity).
        unfold Lm. lia.
      - pose proof (ppos_range nuni n prev d Lpos Hwf) as Hr. rewrite Forall_forall in *.
        intros p Hp. specialize (Hr p Hp). lia. }
    rewrite Ho. assert (0 <= zlen lv) by (unfold zlen; lia).
    replace (zlen lv + 1 <=? 0) with false by lia.
    replace (Lpos + zlen prev + (zlen lv + 1)) with (Lm + zlen lv) by (unfold Lm; lia).
    replace (zlen lv + 1 - 1) with (zlen lv) by lia.
    rewrite (IH (S n) lv Lm f (S Nc) (zlen lv) HLev Hch); try assumption; try lia;
      try (apply (sort_rev_level nuni n (map fst prev) d Hwf)); try (unfold Lm; lia);
      try (intros Hr; specialize (Hlast Hr); lia).
    cbn [tot]. f_equal. f_equal; [f_equal; [unfold Lm; lia|lia]|].
    destruct rest as [|d' r']; [cbn [last]; exact Hc|]. rewrite !last_cons. reflexivity.
Qed.

Lemma asc_chain_last_ne T : forall (higher : list dict) m uni, asc T m (uni :: higher) -> higher <> [] ->
  exists e r, last higher [] = e :: r.
Proof.
  induction higher as [|d rest IH]; intros m uni Hasc Hne; [congruence|].
  cbn [asc] in Hasc. destruct Hasc as (_ & _ & Hrest). destruct rest as [|d' r'].
  - cbn [last]. destruct Hrest as ([_ Hd] & _). destruct d as [|e r]; [congruence|]. exists e, r. reflexivity.
  - rewrite !last_cons. destruct (IH (S m) d Hrest ltac:(discriminate)) as (e & r & E).
    rewrite last_cons in E. exists e, r. exact E.
Qed.

Lemma build_tail_infer V s N G U O I P uni higher bt :
  1 <= V -> N = S (length higher) -> asc (in_range (V + shiftz V s)) 1 (uni :: higher) ->
  (forall x, 0 <= x < V + shiftz V s -> In [x] (map fst uni)) ->
  U = V + shiftz V s + (if Nat.eqb N 1 then 0 else 1) -> I = P - U -> zlen uni + tot higher = P ->
  O = P - G -> G = zlen (last (uni :: higher) []) -> zlen uni = V + shiftz V s ->
  build_tail V s N G U O I P uni higher = Some bt ->
  infer_shape V s (bt_bufs bt) = Some (N, G, bt_maxdesc bt).
Proof.
  intros HV HN Hasc Hcomp HU HI HP HO HG Huni H. set (nuni := V + shiftz V s) in *.
  pose proof (nuni_pos' V s HV) as Hn1. fold nuni in Hn1.
  destruct higher as [|d rest] eqn:Eh.
  - (* unigram model *)
    assert (HNe : Nat.eqb N 1 = true) by (apply Nat.eqb_eq; rewrite HN; reflexivity).
    assert (HN1 : N = 1%nat) by (apply Nat.eqb_eq; exact HNe).
    rewrite HNe in HU. cbn [tot last] in *.
    assert (HPn : P = nuni) by lia. assert (HGn : G = nuni) by lia.
    assert (HO0 : O = 0) by lia. assert (HI0 : I = 0) by lia.
    unfold build_tail in H. rewrite HNe in H. cbv zeta in H. replace (U - 0) with nuni in H by lia.
    destruct (opt_all (map (fun x => dget uni [x]) (zrange nuni))) as [uvals|] eqn:Euv; [|discriminate].
    destruct (uvals_spec' nuni uni uvals Euv) as [Hulen _].
    rewrite HO0, HI0 in H. cbn [build_levels Z.to_nat repeat b_offs b_ids b_lps b_lbs] in H.
    cbn [infer_maxdesc zlen length Z.of_nat Z.eqb] in H. injection H as <-.
    cbn [bt_bufs bt_maxdesc]. unfold infer_shape. cbn [ids offsets logps zlen length Z.of_nat Z.eqb negb andb].
    cbn [infer_maxdesc zlen length Z.of_nat Z.eqb].
    fold nuni.
    replace (zlen (map fst uvals ++ repeat (Fin 0) (Z.to_nat (P - nuni))) =? nuni) with true
      by (unfold zlen; rewrite app_length, map_length, repeat_length, Hulen; lia).
    cbn [negb]. rewrite HN1, HGn. reflexivity.
  - rewrite <- Eh in *. assert (Hhne : higher <> []) by (rewrite Eh; discriminate).
    destruct (tail_levels V s N G U O I P uni higher HV HN Hasc Hcomp HU HI HP HO HG Huni Hhne)
      as (uvals & st' & Euv & Hb & HLev & Hch & Hlo & Hli & Hlp & Hlb & HU' & HGh & Htl & HG0).
    rewrite (build_tail_unfold2 V s N G U O I P uni higher HN Hasc Hcomp HU HP HG uvals st' Hhne Euv Hb) in H.
    destruct (infer_maxdesc V s (b_offs st')) as [S_|] eqn:ES; [|discriminate]. injection H as <-.
    cbn [bt_bufs bt_maxdesc]. unfold infer_shape. cbn [bufs_of ids offsets logps].
    assert (HGpos : 1 <= G).
    { rewrite HGh. destruct (asc_chain_last_ne (in_range nuni) higher 1 uni Hasc Hhne) as (e & r & Hx).
      unfold zlen. rewrite Hx. cbn [length]. lia. }
    assert (HI1 : 1 <= I) by (fold nuni in HU'; lia).
    replace (negb (zlen (b_ids st') =? 0) && negb (zlen (b_offs st') =? 0)) with true by lia.
    fold nuni. fold nuni in HU'. rewrite <- HU'.
    replace (zlen (b_offs st') <? U) with false by lia.
    pose proof (infer_loop_levels (bufs_of st') nuni U higher 1 (uni_level nuni uvals) 0
                  (S (length (b_offs st'))) 1%nat (U - 1) HLev Hch (uni_level_sorted nuni uvals)) as Hloop.
    rewrite (uni_level_length nuni uvals ltac:(lia)) in Hloop. cbn [bufs_of offsets] in Hloop.
    replace (0 + nuni) with (U - 1) in Hloop by lia.
    rewrite Hloop; try lia.
    + replace (U - 1 + tot higher =? zlen (b_offs st') + match higher with [] => U - 1 | _ :: _ => zlen (last higher []) end)
        with true.
      * rewrite ES. f_equal. f_equal. f_equal; [lia|]. destruct higher; [congruence|]. symmetry. exact HGh.
      * destruct higher; [congruence|]. rewrite <- HGh. lia.
    + intros E. congruence.
    + assert (Hge : Z.of_nat (length higher) + G <= tot higher) by (rewrite HGh; apply tot_ge_length).
      unfold zlen in Hlo. lia.
Qed.

(* load_state_dict on the saved buffers infers exactly the constants of the saved model *)
Theorem infer_shape_roundtrip V s dicts bt :
  wf_dicts V s dicts = true -> build_trie V s dicts = Some bt ->
  infer_shape V s (bt_bufs bt) = Some (bt_order bt, bt_gnodes bt, bt_maxdesc bt).
Proof.
  intros Hwfb H. pose proof (wf_dicts_spec V s dicts Hwfb) as (HV & _).
  destruct (build_trie_reduce V s dicts Hwfb) as (G & U & O & uni & higher & E & HN & Hasc & Hcomp & HU & HP & HG & Huni & _).
  rewrite E in H. destruct (build_tail_consts _ _ _ _ _ _ _ _ _ _ _ H) as [-> ->].
  apply (build_tail_infer V s (length dicts) G U O (O + G - U) (O + G) uni higher bt HV HN Hasc Hcomp HU);
    try assumption; lia.
Qed.

(* max_direct_descendants is a natural number *)
Lemma infer_maxdesc_nonneg V s offs S_ : infer_maxdesc V s offs = Some S_ -> 0 <= S_.
Proof.
  unfold infer_maxdesc. destruct (zlen offs =? 0); [intros [= <-]; lia|].
  destruct (negb _); [discriminate|]. destruct (desc_span_max offs 0 _) as [S0|]; [|discriminate].
  destruct (S0 <? 0) eqn:E0; [discriminate|].
  destruct (maxdesc_loop _ offs _ S0) as [S1|] eqn:E1; [|discriminate].
  destruct (S1 <? _); [|discriminate]. intros [= <-]. apply maxdesc_loop_mono in E1. lia.
Qed.

(* a freshly constructed instance that loads the saved buffers is the saved model: the inference
   succeeds, and whatever constants it returns give the same outputs for every query *)
Theorem reload_same_full V s dicts bt :
  wf_dicts V s dicts = true -> build_trie V s dicts = Some bt ->
  (exists N G S_, infer_shape V s (bt_bufs bt) = Some (N, G, S_)) /\
  forall N G S_, infer_shape V s (bt_bufs bt) = Some (N, G, S_) ->
  forall hist B ix,
    forward (bt_bufs bt) (mkShape V s N G (Z.to_nat S_)) hist B ix =
    forward (bt_bufs bt) (built_shape V s bt) hist B ix.
Proof.
  intros Hwfb H. pose proof (infer_shape_roundtrip V s dicts bt Hwfb H) as Hr. split; [eauto|].
  intros N G S_ Hi hist B ix. rewrite Hr in Hi. injection Hi as <- <- <-. reflexivity.
Qed.

(* which inputs the constructor rejects: it returns only if there is at least one dictionary, the
   highest-order one is not empty and every key has the right length and admissible tokens *)
Lemma build_trie_some_requires V s dicts bt : build_trie V s dicts = Some bt ->
  dicts <> [] /\ last dicts [] <> [] /\
  forallb (fun p => keys_okb V s (fst p) (snd p)) (combine (seq 1 (length dicts)) dicts) = true.
Proof.
  rewrite build_trie_core. destruct (rev dicts) as [|top lower] eqn:Er; [discriminate|].
  assert (Hd : dicts = rev lower ++ [top]) by (rewrite <- (rev_involutive dicts), Er; reflexivity).
  destruct top as [|e0 top']; [discriminate|].
  destruct (forallb _ _) eqn:Ek; [|discriminate]. intros _. split; [|split; [|reflexivity]].
  - rewrite Hd. destruct (rev lower); discriminate.
  - rewrite Hd, last_last. discriminate.
Qed.

(* ---------- every offset fits the integer type the code allocates (the bound of the F33 repair) ------------ *)

(* max(len(prob_dicts[n]) + len(prob_dicts[n - 1]) for n in range(1, N)) on the closed dictionaries *)
Fixpoint mpo_from (prevlen : Z) (ds : list dict) : Z :=
  match ds with [] => 0 | d :: r => Z.max (prevlen + zlen d) (mpo_from (zlen d) r) end.

Definition max_potential_offset (cl : list dict) : Z :=
  match cl with [] => 0 | u :: h => mpo_from (zlen u) h end.

Lemma levok_offsets_bound b U nuni : forall ds n prev Lpos,
  LevOK b U prev Lpos ds -> chain_wf nuni n prev ds -> sorted_level n prev -> prev <> [] ->
  (ds <> [] -> Lpos + zlen prev < zlen (offsets b)) -> (ds = [] -> zlen (offsets b) <= Lpos) ->
  forall j, Lpos <= j < zlen (offsets b) -> 1 <= zget (offsets b) j 0 <= mpo_from (zlen prev) ds.
Proof.
  induction ds as [|d rest IH]; intros n prev Lpos HLev Hch Hprev Hpne Hin Hend j Hj.
  - specialize (Hend eq_refl). lia.
  - specialize (Hin ltac:(discriminate)).
    assert (Hp1 : 1 <= zlen prev) by (unfold zlen; destruct prev; [congruence|cbn [length]; lia]).
    cbn [LevOK] in HLev. destruct HLev as (Hoffs & _ & (_ & Hfit & Hlast) & HLev).
    destruct Hch as [Hwf Hch]. cbn [mpo_from].
    set (lv := sort_rev d) in *. set (Lm := Lpos + zlen prev + 1) in *.
    assert (Hc : zlen lv = zlen d) by (unfold zlen, lv; rewrite sort_rev_length; reflexivity).
    assert (Hd1 : 1 <= zlen d).
    { pose proof (lw_ne _ _ _ _ Hwf). unfold zlen. destruct d; [congruence|cbn [length]; lia]. }
    destruct (Z_le_gt_dec j (Lpos + zlen prev)) as [Hle|Hgt].
    + rewrite Hoffs by lia.
      pose proof (count_lt_bounds (ppos (map fst prev) Lpos lv) j) as Hb.
      assert (Hpl : zlen (ppos (map fst prev) Lpos lv) = zlen lv) by (unfold zlen; rewrite ppos_length; reflexivity).
      destruct (Z.eq_dec j Lpos) as [->|Hne].
      * rewrite count_lt_none; [unfold Lm; split; [lia|]; apply Z.le_trans with (zlen prev + zlen d); [lia|apply Z.le_max_l]|].
        pose proof (ppos_range nuni n prev d Lpos Hwf) as Hr. rewrite Forall_forall in *.
        intros p Hp. specialize (Hr p Hp). lia.
      * unfold Lm. split; [lia|]. apply Z.le_trans with (zlen prev + zlen d); [lia|apply Z.le_max_l].
    + assert (Hlvne : lv <> []) by (intros E; rewrite E in Hc; unfold zlen in Hc, Hd1; cbn [length] in Hc; lia).
      assert (Hr : rest <> []) by (intros E; specialize (Hlast E); unfold Lm in *; lia).
      pose proof (IH (S n) lv Lm HLev Hch (sort_rev_level _ _ _ _ Hwf) Hlvne Hfit Hlast j ltac:(unfold Lm; lia)) as Hb.
      rewrite Hc in Hb. split; [lia|]. apply Z.le_trans with (mpo_from (zlen d) rest); [lia|apply Z.le_max_r].
Qed.

Lemma Forall_zget (P : Z -> Prop) (l : list Z) :
  (forall j, 0 <= j < zlen l -> P (zget l j 0)) -> Forall P l.
Proof.
  intros H. rewrite Forall_forall. intros x Hx. apply (In_nth _ _ 0) in Hx as (k & Hk & <-).
  rewrite <- (Nat2Z.id k), <- zget_nth by lia. apply H. unfold zlen. lia.
Qed.

Theorem build_offsets_fit V s dicts bt top lower :
  wf_dicts V s dicts = true -> build_trie V s dicts = Some bt -> rev dicts = top :: lower ->
  Forall (fun o => 1 <= o <= max_potential_offset (closed V s top lower)) (offsets (bt_bufs bt)).
Proof.
  intros Hwfb H Hrev. pose proof (wf_dicts_spec V s dicts Hwfb) as (HV & _).
  destruct (build_trie_reduce V s dicts Hwfb)
    as (G & U & O & uni & higher & E & HN & Hasc & Hcomp & HU & HP & HG & Huni & Hcl).
  rewrite (Hcl top lower Hrev). cbn [max_potential_offset]. rewrite E in H.
  set (nuni := V + shiftz V s) in *. pose proof (nuni_pos' V s HV) as Hn1. fold nuni in Hn1.
  destruct higher as [|d rest] eqn:Eh.
  - assert (HNe : Nat.eqb (length dicts) 1 = true) by (apply Nat.eqb_eq; exact HN).
    unfold build_tail in H. rewrite HNe in H. cbv zeta in H.
    destruct (opt_all _) as [uvals|]; [|discriminate]. cbn [build_levels b_offs] in H.
    assert (HO0 : O = 0). { cbn [tot last] in *. lia. }
    rewrite HO0 in H. cbn [Z.to_nat repeat] in H. cbn [infer_maxdesc zlen length Z.of_nat Z.eqb] in H.
    injection H as <-. cbn [bt_bufs offsets]. constructor.
  - rewrite <- Eh in *. assert (Hhne : higher <> []) by (rewrite Eh; discriminate).
    destruct (tail_levels V s (length dicts) G U O (O + G - U) (O + G) uni higher HV HN Hasc Hcomp HU
                eq_refl HP ltac:(lia) HG Huni Hhne)
      as (uvals & st' & Euv & Hb & HLev & Hch & Hlo & Hli & Hlp & Hlb & HU' & HGh & Htl & HG0).
    rewrite (build_tail_unfold2 V s (length dicts) G U O (O + G - U) (O + G) uni higher HN Hasc Hcomp HU HP HG
               uvals st' Hhne Euv Hb) in H.
    destruct (infer_maxdesc V s (b_offs st')) as [S_|]; [|discriminate]. injection H as <-.
    cbn [bt_bufs bufs_of offsets]. apply Forall_zget. intros j Hj.
    pose proof (levok_offsets_bound (bufs_of st') U nuni higher 1 (uni_level nuni uvals) 0 HLev Hch
                  (uni_level_sorted nuni uvals)) as Hbd.
    rewrite (uni_level_length nuni uvals ltac:(lia)) in Hbd. cbn [bufs_of offsets] in Hbd.
    rewrite Huni. apply Hbd; try lia.
    + intros Ee. pose proof (uni_level_length nuni uvals ltac:(lia)) as Hl. rewrite Ee in Hl.
      unfold zlen in Hl. cbn in Hl. lia.
    + intros Ee. congruence.
Qed.
