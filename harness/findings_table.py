#!/usr/bin/env python3
"""developer tool: the findings list of DESIGN.md section 9.3 from known_findings.json + known_findings.d/*.json"""
import glob
import json
import os

V = os.path.dirname(os.path.dirname(os.path.abspath(__file__)))
out = list(json.load(open(os.path.join(V, "known_findings.json")))["findings"])
for f in sorted(glob.glob(os.path.join(V, "known_findings.d", "*.json"))):
    for e in json.load(open(f))["findings"]:
        if not any(x["property"] == e["property"] and (x.get("commit") or x.get("id")) == (e.get("commit") or e.get("id")) for x in out):
            out.append(e)
for e in out:
    if e["status"] == "fixed":
        print(f"* fixed {e['property']} {e.get('id', '')} `{e.get('commit')}` - {e['what']}")
print()
for e in out:
    if e["status"] == "known":
        print(f"* **known** {e['property']} {e.get('id', '')} - {e['what']}")
