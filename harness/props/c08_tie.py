"""C08 second source tie, harness side: the translated Python text of `spec_augment_apply_parameters`, `warp_1d_grid` and
`spec_augment` (unit C08BSrc), interpreted inside Coq (PV.C08.SrcRunB.src_apply_check / src_grid_check / src_pipe_check)
on the mask / warp / pipe / grid cases of the run, against the implementation.

The two kernels the tie treats as oracles - polyharmonic_spline (the spline solve) and torch.nn.functional.grid_sample -
are hooked here: each eligible case is run once more with both wrapped, which records (a) the arguments the
implementation called them with and (b) what they returned.  (b) is handed to the interpreted source as the oracles'
answers, (a) is compared with the arguments the interpreted source built (the knots of warp_1d_grid, the query points,
the sampling grid): bit for bit under the float32 rounding of Model.ieee, or within 2^-22 when `1 / T` is not exact in
binary64 (MiniPy computes Python-level float arithmetic exactly).  The returned tensor is compared cell by cell (bit
patterns; a masked cell is the Python float 0.0 = pattern 0).  Validates translator + MiniPy.Interp + SrcRunB.ext_core +
MiniTorch.OpsC08B against CPython / torch on every run; independent of whether the tie lemmas (C08/TieB*.v) compile."""
import time
from fractions import Fraction
from unittest import mock

import torch

from vlib import cl, cln, cn, co, cp, cq, cz, clz, coq_eval_bools

IMPORTS_SRCB = ("From PV Require Import C08.Model C08.Spec.\nFrom PV Require Import MiniPy.Syntax MiniTorch.OpsC08.\n"
                "From PV Require C08.SrcRun C08.SrcRunB.\n")
SRCB_THEOREMS = ["c08_source_apply_masks_is_model", "c08_source_apply_zeroes_exactly_masked", "c08_source_time_mask_block",
                 "c08_source_spec_augment_is_model", "c08_source_spec_augment_masks_inside_valid", "c08_source_warp_knots_block_is_model",
                 "c08_source_warp_1d_grid_asks_spline_with_model_knots"]
INT_OF = {torch.float16: torch.int16, torch.float32: torch.int32, torch.float64: torch.int64}
TOL_INEXACT = Fraction(1, 1 << 22)


class KernelHooks:
    """wraps the two kernels; calls = [(name, [argument tensors], output tensor)] in call order"""

    def __init__(self):
        import pydrobert.torch._img as I
        self.I = I
        self.calls = []

    def __enter__(self):
        I = self.I
        spline, gs = I.polyharmonic_spline, torch.nn.functional.grid_sample

        def spline_hook(train_points, train_values, query_points, order, *a, **kw):
            out = spline(train_points, train_values, query_points, order, *a, **kw)
            self.calls.append(("polyharmonic_spline", [train_points.clone(), train_values.clone(), query_points.clone()], out.clone()))
            return out

        def gs_hook(inp, grid, *a, **kw):
            out = gs(inp, grid, *a, **kw)
            self.calls.append(("grid_sample", [inp.clone(), grid.clone()], out.clone()))
            return out

        self.ps = [mock.patch.object(I, "polyharmonic_spline", spline_hook),
                   mock.patch.object(torch.nn.functional, "grid_sample", gs_hook)]
        for p in self.ps:
            p.start()
        return self

    def __exit__(self, *exc):
        for p in self.ps:
            p.stop()
        return False


# ---- Coq literals ---------------------------------------------------------------------------------------------------------
def fr(x):
    return Fraction(float(x))


def cells_bits(x):
    """a floating-point tensor as opaque cells: the bit patterns (any dtype)"""
    return x.contiguous().view(INT_OF[x.dtype]).reshape(-1).tolist()


def cvals(bits):
    return cl([f"VInt {cz(b)}" for b in bits])


def ctq(x):
    """a finite float tensor as (shape, data)"""
    return cp(cln(list(x.shape)), cl([cq(fr(v)) for v in x.double().reshape(-1).tolist()]))


def cpar(t):
    if t is None:
        return "SrcRunB.PN"
    sh = cln(list(t.shape))
    if t.is_floating_point():
        return f"(SrcRunB.PF (mkTn {sh} {cl([cq(fr(v)) for v in t.double().reshape(-1).tolist()])}))"
    return f"(SrcRunB.PL (mkTn {sh} {clz(t.reshape(-1).tolist())}))"


def cpars(p):
    return "(SrcRunB.mkPars " + " ".join(cpar(t) for t in p) + ")"


def clens(case):
    return "None" if case.get("lengths") is None else co(clz(case["lengths"]))


def oracle_terms(calls, first_index):
    """-> (spls, gss, wants) for the calls the kernels received, or None when an answer is not finite"""
    spls, gss, wants = [], [], []
    for k, (name, args, out) in enumerate(calls):
        idx = first_index + k
        if name == "polyharmonic_spline":
            if not all(bool(torch.isfinite(t).all()) for t in args + [out]):
                return None
            spls.append(cp(cn(idx), cl([cq(fr(v)) for v in out.double().reshape(-1).tolist()])))
            wants.append(cp('"polyharmonic_spline"%string', cl([cp(cn(j), ctq(args[j])) for j in range(3)])))
        else:
            if not bool(torch.isfinite(args[1]).all()):
                return None
            gss.append(cp(cn(idx), cvals(cells_bits(out))))
            wants.append(cp('"grid_sample"%string', cl([cp(cn(1), ctq(args[1]))])))
    return cl(spls), cl(gss), cl(wants)


def pow2(n):
    return n >= 1 and n & (n - 1) == 0


# ---- one term per case ------------------------------------------------------------------------------------------------------
def apply_term(c08, case):
    """kinds mask / warp: explicit parameters"""
    feats = c08.make_feats(case)
    lengths = None if case.get("lengths") is None else torch.tensor(case["lengths"])
    P, N = case["params"], case["N"]

    def fl(x):
        return None if x is None else ("empty" if x == "empty" else [float(v) for v in x])
    p = (c08.tens_param(fl(P["w0"]), N), c08.tens_param(fl(P["w"]), N), c08.tens_param(fl(P["v0"]), N), c08.tens_param(fl(P["v"]), N),
         c08.tens_param(P["t0"], N), c08.tens_param(P["t"], N), c08.tens_param(P["f0"], N), c08.tens_param(P["f"], N))
    order = case.get("order", 1)
    with KernelHooks() as h:
        out = c08.apply_call("functional", feats, p, order, lengths)
    if tuple(out.shape) != tuple(feats.shape) or out.dtype != feats.dtype:
        return None
    orc = oracle_terms(h.calls, 0)
    if orc is None:
        return None
    tw = any(n == "polyharmonic_spline" for n, _, _ in h.calls)
    exact = (not tw) or (pow2(case["T"]) and pow2(case["F"]))
    eps = c08.EPS[case.get("dtype", "f32")]
    return (f"SrcRunB.src_apply_check {cq(0 if exact else TOL_INEXACT)} {cq(eps)} {cn(N)} {cn(case['T'])} {cn(case['F'])} "
            f"{cvals(cells_bits(feats))} {cpars(p)} {cz(order)} {clens(case)} {orc[0]} {orc[1]} {orc[2]} "
            f"(Some {cvals(cells_bits(out))})"), {"warped": tw, "exact": exact, "kernel_calls": len(h.calls)}


def pipe_term(c08, case):
    """kind pipe: the whole spec_augment call under the case's variates"""
    feats = c08.make_feats(case) if (case.get("bits") is not None or case.get("cells") is not None) else \
        torch.zeros(case["N"], case["T"], case["F"], dtype=c08.DT[case.get("dtype", "f32")])
    lengths = None if case.get("lengths") is None else torch.tensor(case["lengths"])
    training = case.get("training", True)
    with KernelHooks() as h:
        out = c08.pipe_call(case, "functional", feats, lengths, training)
    if tuple(out.shape) != tuple(feats.shape) or out.dtype != feats.dtype:
        return None
    nrand = len(c08.expected_calls(case)) if training else 0
    orc = oracle_terms(h.calls, nrand)
    if orc is None:
        return None
    tw = any(n == "polyharmonic_spline" for n, _, _ in h.calls)
    exact = (not tw) or (pow2(case["T"]) and pow2(case["F"]))
    N, d = case["N"], case.get("dtype", "f32")
    return (f"SrcRunB.src_pipe_check {cq(0 if exact else TOL_INEXACT)} {c08.CDT[d]} {c08.ccfg(case['cfg'])} {cn(N)} {cn(case['T'])} "
            f"{cn(case['F'])} {cvals(cells_bits(feats))} {cz(case.get('order', 1))} {clens(case)} {'true' if training else 'false'} "
            f"{cl([c08.cuv(case['u'], n) for n in range(N)])} {orc[0]} {orc[1]} {orc[2]} {cvals(cells_bits(out))}"), \
        {"warped": tw, "exact": exact, "kernel_calls": len(h.calls), "training": training}


def grid_term(c08, case):
    """kind grid: warp_1d_grid on float tensors"""
    src = torch.tensor([float(x) for x in case["src"]])
    flow = torch.tensor([float(x) for x in case["flow"]])
    lengths = torch.tensor([float(x) for x in case["lengths"]])
    maxlen, order = case["T"] if case.get("maxlen", True) else None, case.get("order", 1)
    with KernelHooks() as h:
        g = c08.grid_call("functional", src, flow, lengths, maxlen, order)
    if not bool(torch.isfinite(g).all()):
        return None
    orc = oracle_terms(h.calls, 0)
    if orc is None:
        return None
    T = g.shape[1]
    exact = pow2(T)
    qs = lambda t: cl([cq(fr(v)) for v in t.tolist()])
    return (f"SrcRunB.src_grid_check {cq(0 if exact else TOL_INEXACT)} {qs(src)} {qs(flow)} {qs(lengths)} "
            f"{'None' if maxlen is None else co(cz(maxlen))} {cz(order)} {orc[0]} {orc[2]} {ctq(g)}"), \
        {"warped": True, "exact": exact, "kernel_calls": len(h.calls), "maxlen_none": maxlen is None}


def source_tieB(chk, cases, results):
    from vlib import CoqError
    from props import c08
    chk.extra["source_tie_B"] = {
        "unit": "C08BSrc (harness/py2coq/units/C08BSrc.json)", "coq": "PV.C08.SrcRunB / PV.C08.TieB*",
        "what": "spec_augment_apply_parameters, warp_1d_grid, spec_augment (whole bodies; nested calls are nested runs of the "
                "interpreter; polyharmonic_spline and grid_sample are oracles whose recorded answers are served and whose "
                "recorded arguments are compared)",
        "theorems": SRCB_THEOREMS}
    terms, idx, infos, skipped = [], [], [], 0
    for i, (c, r) in enumerate(zip(cases, results)):
        k = c.get("kind")
        if not isinstance(r, dict) or "err" in r:
            continue
        try:
            if k in ("mask", "warp"):
                t = apply_term(c08, c)
            elif k == "pipe":
                t = pipe_term(c08, c) if c08._python_doubles_exact(c) else None
            elif k == "grid":
                t = grid_term(c08, c)
            else:
                continue
        except Exception:
            t = None
        if t is None:
            skipped += 1
            continue
        terms.append(t[0])
        infos.append(dict(t[1], kind=k))
        idx.append(i)
    if not idx:
        chk.extra["source_tie_B_run"] = {"cases": 0, "disagreements": 0, "skipped": skipped}
        return
    t0 = time.time()
    try:
        vals = coq_eval_bools(chk.workdir, IMPORTS_SRCB, terms, shard=40, tag="srcB")
    except CoqError as e:
        chk.extra["source_tie_B_run"] = "not evaluated: " + str(e)[-400:]
        return
    bad = [j for j, ok in enumerate(vals) if not ok]
    chk.extra["source_tie_B_run"] = {
        "cases": len(idx), "disagreements": len(bad), "wall_s": round(time.time() - t0, 1), "skipped": skipped,
        "by_kind": {k: sum(1 for x in infos if x["kind"] == k) for k in ("mask", "warp", "pipe", "grid")},
        "warped": sum(1 for x in infos if x["warped"]), "kernel_calls": sum(x["kernel_calls"] for x in infos),
        "bit_for_bit_kernel_arguments": sum(1 for x in infos if x["warped"] and x["exact"]),
        "eval_mode": sum(1 for x in infos if x.get("training") is False),
        "maxlen_none": sum(1 for x in infos if x.get("maxlen_none"))}
    chk.count("source_tie_B_cases", len(idx))
    if bad:
        i = idx[bad[0]]
        chk.report({"case": cases[i], "impl": c08.jsonable(results[i]),
                    "what": "the Python source of spec_augment_apply_parameters / warp_1d_grid / spec_augment as translated to MiniPy and "
                            "interpreted in Coq (PV.C08.SrcRunB, torch calls = PV.MiniTorch.OpsC08B + OpsC08 with the float32 rounding of "
                            "Model.ieee, the spline solve and grid_sample = the recorded answers of torch's kernels) does not reproduce the "
                            "implementation's output or the arguments it hands to the kernels: translator / interpreter / ext_core / MiniTorch "
                            "no longer describe the code",
                    "disagreeing_cases": len(bad), "disagreeing_kinds": sorted({infos[j]["kind"] for j in bad}),
                    "correspondence": "tie:C08:py2coq+MiniPy.Interp+MiniTorch:spec_augment_apply_parameters+warp_1d_grid+spec_augment",
                    "theorems_at_stake": SRCB_THEOREMS}, no_failing_input=True)
