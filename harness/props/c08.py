"""C08 — SpecAugment: correspondence between /repo's _img.py and PV.C08.Model.

Streams (all cases are JSON-able dicts, field "kind"):
  draw  spec_augment_draw_parameters / SpecAugment.draw_parameters with torch.rand patched to the
        case's variates (numerators k of u = k / 2^24): every drawn tensor is compared BIT FOR BIT
        with `draw ieee` (float32/float64 rounding modelled), and judged by Spec.draw_okb.
  pipe  the same draw, then SpecAugment.__call__ / spec_augment under the same variates: output must
        equal apply_parameters(draw_parameters) (tensor equality), and the model: without a warp the
        float32 BIT PATTERNS against `apply_masks`; with a warp `apply_with_grids` fed with the grids
        the public warp_1d_grid returns (kernel oracle, tolerance).  Eval mode: identity.
  mask  spec_augment_apply_parameters on hand-made mask parameters (None / empty / ragged values,
        out-of-range starts, negative widths), bit patterns including NaN, inf, -0.0.
  grid  warp_1d_grid(order 1) against the exact piecewise-linear grid (well-conditioned cases).
  warp  spec_augment_apply_parameters with explicit warp parameters, orders 1-3.
  seed  no patching: torch.manual_seed(s); module call == apply(draw) and every spec-level check.
On every warp: output finite, inside the input's range, same shape (Python); for order 1 the
"monotone / pinned" clauses on the grid (Spec.mono_okb / pinned_okb).
Robustness variants (field "alts" of a case, see the block above `relayout`): the same logical call through the
other entry points (functional / module / keywords / torch.jit.script of the function and of the module), with
non-contiguous / offset / stepped / expanded tensors, int32 lengths, f16 / f64 features, the same objects a second
time, one tensor object for two parameters, element by element: identical result, arguments untouched.
"police_only" cases carry non-finite (silent frames) or huge cells under a warp: masked cells must be exactly 0,
finite output cells must not depend on the non-finite ones; no model comparison there.
Dtype-exclusive streams (mask-dtype / pipe-mask-dtype / seed-dtype, see the block above `exclusive_cell`): features of every
type the entry point accepts (f64, f16, f32; bf16 and int64/32/16 for apply_parameters) whose cells no other type can hold,
without a warp; judged by the same `check_mask` on the type's own bit patterns.
"""
import itertools
import json
import warnings
from fractions import Fraction
from unittest import mock

import torch

from vlib import cb, cl, clz, cn, co, cp, cq, cz, coq_eval_bools, coq_eval_print, exc_kind, shrink, load_corpus

warnings.filterwarnings("ignore")
IMPORTS = "From PV Require Import C08.Model C08.Spec.\n"
U24 = 1 << 24
DT = {"f16": torch.float16, "f32": torch.float32, "f64": torch.float64,
      # feature types of the dtype-exclusive streams (round 5); bf16 and the integer types only for apply_parameters
      "bf16": torch.bfloat16, "i64": torch.int64, "i32": torch.int32, "i16": torch.int16}
BITVIEW = {torch.float16: torch.int16, torch.bfloat16: torch.int16, torch.float32: torch.int32, torch.float64: torch.int64}
FLAYOUT = {"f16": (16, 5, 10), "bf16": (16, 8, 7), "f32": (32, 8, 23), "f64": (64, 11, 52)}   # bits, exponent bits, mantissa bits
CDT ={"f16": "F16", "f32": "F32", "f64": "F64"}
EPS = {"f16": Fraction(1, 2 ** 10), "f32": Fraction(1, 2 ** 23), "f64": Fraction(1, 2 ** 52)}
ROLES = ["w0", "w", "v0", "v", "t", "t0", "f", "f0"]
MONO_TOL = Fraction(1, 20)      # pixels
PIN_TOL = Fraction(1, 20)
GRID_TOL = Fraction(1, 200)     # pixels, order-1 grid against the exact model
GRID_MARGIN = Fraction(1, 100)  # ... only when the destination is this far from both ends
APPLY_TOL = Fraction(1, 500)
THEOREMS = {"draw": ["c08_draw_within_bounds", "c08_time_mask_caps_and_inside_valid", "c08_freq_mask_bounds", "c08_time_warp_window",
                     "c08_freq_warp_window", "c08_time_masks_float32", "c08_freq_masks_float32", "c08_time_mask_count_any_arith"],
            "apply-exact": ["c08_apply_zeroes_exactly_masked", "c08_mask_shape_preserved", "c08_eval_mode_identity"],
            "apply-warp": ["c08_bilinear_border_in_range", "c08_warp_output_in_range", "c08_shape_preserved"],
            "grid": ["c08_order1_spline_is_piecewise_linear", "c08_linear_warp_monotone", "c08_linear_warp_reads_valid_frames",
                     "c08_linear_warp_pinned_partial"]}


# ----------------------------------------------------------------------------------------
# helpers
# ----------------------------------------------------------------------------------------
def fq(x):
    return Fraction(float(x))


def dyadic(x, bits=8):
    return (Fraction(float(x)) * (1 << bits)).denominator == 1


class RandProtocol(Exception):
    pass


class FakeRand:
    """torch.rand replacement: serves the case's variates in the order the code asks for them."""

    def __init__(self, calls):
        self.calls, self.i = calls, 0

    def __call__(self, *size, **kw):
        if len(size) == 1 and not isinstance(size[0], int):
            size = tuple(size[0])
        if self.i >= len(self.calls):
            raise RandProtocol(f"unexpected extra torch.rand{tuple(size)}")
        role, arr = self.calls[self.i]
        self.i += 1
        t = (torch.tensor(arr, dtype=torch.float64) / U24).float()
        if tuple(t.shape) != tuple(size):
            raise RandProtocol(f"torch.rand{tuple(size)} where {role}{tuple(t.shape)} was expected")
        return t

    def done(self):
        return self.i == len(self.calls)


def expected_calls(case):
    c, u = case["cfg"], case["u"]
    calls = []
    if c["Wt"]:
        calls += [("w0", u["w0"]), ("w", u["w"])]
    if c["Wf"]:
        calls += [("v0", u["v0"]), ("v", u["v"])]
    if c["Mt"] and c["pt"] and c["nt"] and c["npt"]:
        calls += [("t", u["t"]), ("t0", u["t0"])]
    if c["Mf"] and c["nf"]:
        calls += [("f", u["f"]), ("f0", u["f0"])]
    return calls


def cfg_args(c):
    return (c["Wt"], c["Wf"], c["Mt"], c["Mf"], c["pt"], c["nt"], c["npt"], c["nf"])


def ccfg(c):
    return (f"(mkCfg {cq(fq(c['Wt']))} {cq(fq(c['Wf']))} {cz(c['Mt'])} {cz(c['Mf'])} {cq(fq(c['pt']))} "
            f"{cn(c['nt'])} {cq(fq(c['npt']))} {cn(c['nf'])})")


def cuv(u, n):
    q = lambda k: cq(Fraction(k, U24))
    return (f"(mkUV {q(u['w0'][n])} {q(u['w'][n])} {q(u['v0'][n])} {q(u['v'][n])} "
            f"{cl([q(k) for k in u['t'][n]])} {cl([q(k) for k in u['t0'][n]])} "
            f"{cl([q(k) for k in u['f'][n]])} {cl([q(k) for k in u['f0'][n]])})")


def cqq(p):
    return "None" if p is None else co(cp(cq(p[0]), cq(p[1])))


def cbands(b):
    return "None" if b is None else co(cl([cp(cz(x), cz(y)) for x, y in b]))


def cparams(p):
    return f"(mkParams {cqq(p['tw'])} {cqq(p['fw'])} {cbands(p['tm'])} {cbands(p['fm'])})"


def cimgz(img):
    return cl([clz(r) for r in img])


def cimgq(img):
    return cl([cl([cq(x) for x in r]) for r in img])


def cgrid(g):
    return "None" if g is None else co(cl([cq(x) for x in g]))


def lens_of(case):
    return case["lengths"] if case.get("lengths") is not None else [case["T"]] * case["N"]


def canon_params(p, N):
    """8 tensors -> per batch element dict(tw, fw, tm, fm) of exact values; None = group empty."""
    w0, w, v0, v, t0, t, f0, f = p
    out = []
    for n in range(N):
        d = {}
        for key, a0, a in (("tw", w0, w), ("fw", v0, v)):
            if a0.numel() == 0 and a.numel() == 0:
                d[key] = None
            else:
                if tuple(a0.shape) != (N,) or tuple(a.shape) != (N,):
                    raise ValueError(f"bad shape for {key}: {tuple(a0.shape)} {tuple(a.shape)}")
                d[key] = [Fraction(a0[n].double().item()), Fraction(a[n].double().item())]
        for key, a0, a in (("tm", t0, t), ("fm", f0, f)):
            if a0.numel() == 0 and a.numel() == 0:
                d[key] = None
            else:
                if a0.dim() != 2 or a0.shape != a.shape or a0.shape[0] != N:
                    raise ValueError(f"bad shape for {key}: {tuple(a0.shape)} {tuple(a.shape)}")
                xs, ys = a0[n].tolist(), a[n].tolist()
                if any(x != int(x) for x in xs + ys):
                    raise ValueError(f"non-integer mask parameter in {key}")
                d[key] = [[int(x), int(y)] for x, y in zip(xs, ys)]
        out.append(d)
    return out


def jsonable(o):
    if isinstance(o, Fraction):
        return float(o) if o.denominator != 1 else int(o)
    if isinstance(o, dict):
        return {k: jsonable(v) for k, v in o.items()}
    if isinstance(o, (list, tuple)):
        return [jsonable(v) for v in o]
    return o


def bits_to_feats(bits, dtype=torch.float32):
    """cells as signed bit patterns of `dtype` (integer types: the values themselves)"""
    if dtype not in BITVIEW:
        return torch.tensor(bits, dtype=dtype)
    return torch.tensor(bits, dtype=BITVIEW[dtype]).view(dtype)


def feats_to_bits(x):
    """signed bit patterns (any float type; +0.0 is pattern 0 in each of them) / the values of an integer tensor"""
    if x.dtype in BITVIEW:
        return x.contiguous().view(BITVIEW[x.dtype]).tolist()
    if x.is_floating_point() or x.is_complex() or x.dtype == torch.bool:
        raise ValueError(f"no bit view for {x.dtype}")
    return x.tolist()


def make_feats(case):
    if case.get("bits") is not None:
        return bits_to_feats(case["bits"], DT[case.get("dtype", "f32")])
    return torch.tensor(case["cells"], dtype=DT[case.get("dtype", "f32")])


def margin_px(w0, w, ln):
    """distance (pixels, exact) of the clamped destination from the nearer pinned end"""
    src = max(min(Fraction(w0), ln - 1), 0)
    # the code adds in float32; at the 1e-3 px scale of the signature this is immaterial
    dst = max(min(src + Fraction(w), ln - 1), 0)
    return min(dst, ln - 1 - dst)


def ref_grid(F_, w0, w, lengths, T, order, maxlen=True):
    g = F_.warp_1d_grid(torch.tensor([float(x) for x in w0]), torch.tensor([float(x) for x in w]),
                        torch.tensor([float(x) for x in lengths]), T if maxlen else None, order)
    return [[Fraction(x) for x in row] for row in g.double().tolist()]


# ----------------------------------------------------------------------------------------
# running the implementation
# ----------------------------------------------------------------------------------------
def _api():
    import pydrobert.torch.functional as F_
    import pydrobert.torch.modules as M_
    return F_, M_


# ----------------------------------------------------------------------------------------
# robustness variants ("alts" of a case): the same logical call through another entry point, with
# another memory layout / integer dtype, repeated on the same objects, element by element.  The
# property makes the result a function of the logical input only, so every variant must reproduce
# the canonical call's output (bit for bit unless stated) and leave the caller's tensors untouched.
# ----------------------------------------------------------------------------------------
_SCRIPTED = {}
LAYOUTS = ["tr", "off", "step", "expand"]


def scripted(key, make):
    if key not in _SCRIPTED:
        _SCRIPTED[key] = torch.jit.script(make())
    return _SCRIPTED[key]


def relayout(x, how):
    """the same logical tensor with another memory layout (junk in the cells that are skipped)"""
    if x is None or x.dim() == 0:
        return x
    junk = float("nan") if x.is_floating_point() else 7777
    if how == "expand":
        if x.shape[0] > 1 and bool(((x == x[:1]) | ((x != x) & (x[:1] != x[:1]))).all()):
            return x[:1].expand(x.shape)
        how = "step"
    if how == "tr" and x.dim() >= 2:
        return x.transpose(0, -1).contiguous().transpose(0, -1)
    if how == "step" or how == "tr":
        buf = torch.full(tuple(x.shape[:-1]) + (2 * x.shape[-1] + 1,), junk, dtype=x.dtype)
        buf[..., 1::2] = x
        return buf[..., 1::2]
    buf = torch.full((x.numel() + 3,), junk, dtype=x.dtype)
    buf[2:2 + x.numel()] = x.reshape(-1)
    return buf[2:2 + x.numel()].view(x.shape)


def same_bits(a, b):
    if a is None or b is None:
        return a is None and b is None
    if a.dtype != b.dtype or tuple(a.shape) != tuple(b.shape):
        return False
    if a.dtype == torch.float32:
        return bool((a.contiguous().view(torch.int32) == b.contiguous().view(torch.int32)).all())
    if a.is_floating_point():
        return bool((((a == b) & (torch.signbit(a) == torch.signbit(b))) | (a.isnan() & b.isnan())).all())
    return bool((a == b).all())


def snapshot(tensors):
    return [None if t is None else t.clone() for t in tensors]


def unchanged(tensors, snap):
    return all(same_bits(t, s) for t, s in zip(tensors, snap))


def close_rows(a, b):
    """warped rows computed alone / in a batch: the batched 3-knot solve may round differently"""
    if tuple(a.shape) != tuple(b.shape):
        return False
    fin = torch.isfinite(a) & torch.isfinite(b)
    if not bool((fin | same_nonfinite(a, b)).all()):
        return False
    d = (a[fin].double() - b[fin].double()).abs()
    return bool((d <= 2e-3 * (1 + b[fin].double().abs())).all())


def same_nonfinite(a, b):
    return (a.isnan() & b.isnan()) | ((a == b) & ~torch.isfinite(a))


def int_or_none(xs):
    return xs is not None and all(float(x) == int(x) for x in xs)


def _draw(case, feats, lengths, fr):
    F_, M_ = _api()
    with mock.patch.object(torch, "rand", fr):
        if case["api"] == "module":
            sa = M_.SpecAugment(*cfg_args(case["cfg"]), interpolation_order=case.get("order", 1))
            return sa.draw_parameters(feats, lengths)
        return F_.spec_augment_draw_parameters(feats, *cfg_args(case["cfg"]), lengths)


def run_draw(case):
    """-> dict(params=[per element], err=...)"""
    feats = make_feats(case) if (case.get("bits") is not None or case.get("cells") is not None) else \
        torch.zeros(case["N"], case["T"], case["F"], dtype=DT[case.get("dtype", "f32")])
    lengths = None if case.get("lengths") is None else torch.tensor(case["lengths"])
    fr = FakeRand(expected_calls(case))
    try:
        p = _draw(case, feats, lengths, fr)
        if not fr.done():
            return {"err": "rand-protocol: fewer torch.rand calls than the configuration requires"}, None, feats, lengths
        return {"params": canon_params(p, case["N"])}, p, feats, lengths
    except RandProtocol as e:
        return {"err": "rand-protocol: " + str(e)}, None, feats, lengths
    except Exception as e:
        return {"err": "exc:" + exc_kind(e) + ":" + str(e)[:120]}, None, feats, lengths


def masked_cells_zero(out, bands_per_elem):
    """spec: every cell covered by a time or frequency band is exactly 0 (also after a warp)"""
    N, T, Fd = out.shape
    for n in range(N):
        tm, fm = bands_per_elem[n]
        for t in range(T):
            tmask = any(a <= t < a + w for a, w in (tm or []))
            for f in range(Fd):
                if (tmask or any(a <= f < a + w for a, w in (fm or []))) and out[n, t, f].item() != 0.0:
                    return False
    return True


def nregime(feats, out, masked_possible):
    """shape / finiteness / range of a warped output (per batch element); -> list of clause names"""
    bad = []
    if tuple(out.shape) != tuple(feats.shape) or out.dtype != feats.dtype:
        return ["shape_preserved"]
    if not bool(torch.isfinite(out).all()):
        bad.append("warp_finite")
    else:
        for n in range(feats.shape[0]):
            lo, hi = feats[n].min().item(), feats[n].max().item()
            if masked_possible:
                lo, hi = min(lo, 0.0), max(hi, 0.0)
            tol = 1e-5 * (1 + max(abs(lo), abs(hi)))
            if out[n].min().item() < lo - tol or out[n].max().item() > hi + tol:
                bad.append("warp_in_range")
                break
    return bad


def pipe_call(case, how, feats, lengths, training):
    """the whole call under the case's variates, through entry point `how`"""
    F_, M_ = _api()
    c, order = case["cfg"], case.get("order", 1)
    calls = expected_calls(case) if training else []
    fr = FakeRand(calls)
    with mock.patch.object(torch, "rand", fr):
        if how in ("module", "module_kw", "module_twice"):
            sa = M_.SpecAugment(*cfg_args(c), interpolation_order=order)
            sa.train(training)
            if how == "module_twice":
                # another use of the same object in between: different T and F, all lengths 1
                sa(torch.ones(case["N"], case["T"] + 1, case["F"] + 2), None if lengths is None else torch.ones(case["N"], dtype=torch.long))
                fr.i = 0
            out = sa(feats=feats, lengths=lengths) if how == "module_kw" else sa(feats, lengths)
        elif how == "kw":
            out = F_.spec_augment(feats=feats, max_time_warp=c["Wt"], max_freq_warp=c["Wf"], max_time_mask=c["Mt"], max_freq_mask=c["Mf"],
                                  max_time_mask_proportion=c["pt"], num_time_mask=c["nt"], num_time_mask_proportion=c["npt"],
                                  num_freq_mask=c["nf"], interpolation_order=order, lengths=lengths, training=training)
        else:
            out = F_.spec_augment(feats, *cfg_args(c), order, lengths, training)
    if not fr.done():
        raise RandProtocol("the call drew fewer variates than draw_parameters")
    return out


PIPE_ALTS = ["functional", "module", "module_kw", "module_twice", "kw", "tr", "off", "step", "expand", "lens32", "lens_explicit", "lens_view"]


def pipe_alts(case, feats, lengths, out, training):
    bad = []
    for a in case.get("alts") or []:
        how, f2, l2 = case["api"], feats, lengths
        try:
            if a in ("functional", "module", "module_kw", "module_twice", "kw"):
                how = a
            elif a in LAYOUTS:
                f2 = relayout(feats, a)
            elif a == "lens32" and lengths is not None:
                l2 = lengths.int()
            elif a == "lens_view" and lengths is not None:
                l2 = relayout(lengths, "step")
            elif a == "lens_explicit" and lengths is None:
                l2 = torch.full((case["N"],), case["T"], dtype=torch.long)
            elif a == "lens_explicit" and all(x == case["T"] for x in case["lengths"]):
                l2 = None
            else:
                continue
            o = pipe_call(case, how, f2, l2, training)
            if not (same_bits(o, out) if training else (tuple(o.shape) == tuple(out.shape) and same_bits(o.contiguous(), out.contiguous()))):
                bad.append(f"rel:same_result[{a}]")
        except Exception as e:
            bad.append(f"rel:raises[{a}]:" + exc_kind(e))
    return bad


def run_pipe(case):
    """draw, then the whole call and apply(draw) under the same variates"""
    F_, M_ = _api()
    res, p, feats, lengths = run_draw(case)
    if "err" in res:
        return res
    order = case.get("order", 1)
    training = case.get("training", True)
    c = case["cfg"]
    snap = snapshot([feats, lengths])
    try:
        out2 = (M_.SpecAugment(*cfg_args(c), interpolation_order=order).apply_parameters(feats, p, lengths)
                if case["api"] == "module" else F_.spec_augment_apply_parameters(feats, p, order, lengths))
        out = pipe_call(case, case["api"], feats, lengths, training)
    except RandProtocol as e:
        return {"err": "rand-protocol: " + str(e)}
    except Exception as e:
        res["err"] = "exc:" + exc_kind(e) + ":" + str(e)[:120]
        res["exc_in"] = "apply"
        return res
    res["spec_fail"] = []
    if not unchanged([feats, lengths], snap):
        res["spec_fail"].append("rel:inputs_unchanged")
    if not training:
        if not (out is feats or (out.shape == feats.shape and feats_equal(out, feats))):
            res["spec_fail"].append("eval_mode_identity")
        res["eval"] = True
        res["spec_fail"] += pipe_alts(case, feats, lengths, feats, training)
        return res
    if tuple(out.shape) != tuple(feats.shape) or (out.dtype != feats.dtype and case.get("dtype", "f32") != "f32"):
        res["spec_fail"].append("shape_preserved")
        return res
    if not feats_equal(out, out2):
        res["spec_fail"].append("call_equals_apply_of_draw")
    warped = any(e["tw"] is not None or e["fw"] is not None for e in res["params"])
    res["warped"] = warped
    if warped:
        police_warp(res, case, feats, out, [(e["tm"], e["fm"]) for e in res["params"]],
                    any(e["tm"] or e["fm"] for e in res["params"]))
        lens = lens_of(case)
        try:
            add_grids(res, F_, case["T"], case["F"], lens, order)
        except Exception as e:
            res["err"] = "exc:" + exc_kind(e) + ":" + str(e)[:120]
            res["exc_in"] = "warp_1d_grid"
    else:
        res["outbits"] = feats_to_bits(out) if (out.dtype in BITVIEW and out.dtype == feats.dtype) else None
        if res["outbits"] is None:
            res["out"] = [[[Fraction(x) for x in r] for r in img] for img in out.double().tolist()]
    res["spec_fail"] += pipe_alts(case, feats, lengths, out, training)
    return res


def add_grids(res, F_, T, Fd, lens, order):
    ps = res["params"]
    N = len(ps)
    res["tgrid"] = res["fgrid"] = None
    if all(e["tw"] is not None for e in ps):
        res["tgrid"] = ref_grid(F_, [e["tw"][0] for e in ps], [e["tw"][1] for e in ps], lens, T, order)
    if all(e["fw"] is not None for e in ps):
        res["fgrid"] = ref_grid(F_, [e["fw"][0] for e in ps], [e["fw"][1] for e in ps], [Fd] * N, Fd, order)


def feats_equal(a, b):
    if a.dtype != b.dtype or a.shape != b.shape:
        return False
    if a.dtype in BITVIEW:
        return bool((a.contiguous().view(BITVIEW[a.dtype]) == b.contiguous().view(BITVIEW[a.dtype])).all())
    if not a.is_floating_point():
        return bool((a == b).all())
    return bool(((a == b) | (a.isnan() & b.isnan())).all())


def tens_param(spec, N):
    """mask / warp parameter of an explicit apply case: None, "empty", or nested list"""
    if spec is None:
        return None
    if spec == "empty":
        return torch.empty(0)
    return torch.tensor(spec)


def apply_call(how, feats, p, order, lengths):
    F_, M_ = _api()
    if how == "module":
        return M_.SpecAugment(interpolation_order=order).apply_parameters(feats, p, lengths)
    if how == "module_kw":
        return M_.SpecAugment(interpolation_order=order).apply_parameters(feats=feats, params=p, lengths=lengths)
    if how == "kw":
        return F_.spec_augment_apply_parameters(feats=feats, params=p, interpolation_order=order, lengths=lengths)
    if how == "script_fn":
        return scripted("apply_fn", lambda: F_.spec_augment_apply_parameters)(feats, p, order, lengths)
    return F_.spec_augment_apply_parameters(feats, p, order, lengths)


APPLY_ALTS = ["functional", "module", "module_kw", "kw", "script_fn", "tr", "off", "step", "expand", "param_views", "lens32", "lens_explicit",
              "twice", "alias", "alone", "f64", "f16"]


def apply_alts(case, feats, p, lengths, out, warped, ill):
    """-> failing relation names (see the block comment above relayout)"""
    bad = []
    N, T, order = case["N"], case["T"], case.get("order", 1)
    for a in case.get("alts") or []:
        how, f2, p2, l2, cmp, ref = case["api"], feats, p, lengths, same_bits, out
        try:
            if a in ("functional", "module", "module_kw", "kw", "script_fn"):
                how = a
            elif a in LAYOUTS:
                f2 = relayout(feats, a)
            elif a == "param_views":
                p2 = tuple(relayout(t, "step") for t in p)
                l2 = relayout(lengths, "off")
            elif a == "lens32":
                if lengths is None:
                    continue
                l2 = lengths.int()
            elif a == "lens_explicit":
                if lengths is None:
                    l2 = torch.full((N,), T, dtype=torch.long)
                elif all(x == T for x in case["lengths"]):
                    l2 = None
                else:
                    continue
            elif a == "alias":
                q = list(p)
                for i, j in ((0, 1), (2, 3), (4, 5), (6, 7)):
                    if q[i] is not None and q[j] is not None and q[i].dtype == q[j].dtype and q[i].shape == q[j].shape \
                            and bool((q[i] == q[j]).all()):
                        q[j] = q[i]
                p2 = tuple(q)
            elif a == "twice":
                snap = snapshot([feats, lengths] + list(p))
                apply_call(how, feats, p, order, lengths)
                if not unchanged([feats, lengths] + list(p), snap):
                    bad.append("rel:inputs_unchanged[twice]")
            elif a == "alone":
                if warped and ill:
                    continue
                rows = []
                for n in range(N):
                    pn = tuple(t if (t is None or t.numel() == 0 or t.shape[0] != N) else t[n:n + 1] for t in p)
                    rows.append(apply_call(how, feats[n:n + 1], pn, order, None if lengths is None else lengths[n:n + 1]))
                o = torch.cat(rows)
                if not (close_rows(o, out) if warped else same_bits(o, out)):
                    bad.append("rel:batch_element_independent")
                continue
            elif a in ("f64", "f16"):
                if warped:
                    continue
                D = torch.float64 if a == "f64" else torch.float16
                f2 = feats.to(D)
                ref = apply_call(how, f2.float(), p, order, lengths).to(D)
            else:
                continue
            o = apply_call(how, f2, p2, order, l2)
            if not cmp(o, ref):
                bad.append(f"rel:same_result[{a}]")
        except Exception as e:
            bad.append(f"rel:raises[{a}]:" + exc_kind(e))
    return bad


def police_warp(res, case, feats, out, bands, masked_possible=True):
    """python-level clauses on a warped output; model comparison data unless the case is police-only"""
    finite_in = bool(torch.isfinite(feats).all())
    if finite_in:
        res["spec_fail"] += nregime(feats, out, masked_possible)
    if not masked_cells_zero(out, bands):
        res["spec_fail"].append("apply_zeroes_exactly_masked")
    if finite_in and not case.get("police_only"):
        res["out"] = [[[Fraction(x) for x in r] for r in img] for img in out.double().tolist()]
    else:
        res["police_only"] = True


def run_apply(case):
    """explicit parameters -> spec_augment_apply_parameters (kinds mask, warp)"""
    F_, M_ = _api()
    feats = make_feats(case)
    lengths = None if case.get("lengths") is None else torch.tensor(case["lengths"])
    P = case["params"]
    N = case["N"]

    def fl(x):
        return None if x is None else ("empty" if x == "empty" else [float(v) for v in x])
    p = (tens_param(fl(P["w0"]), N), tens_param(fl(P["w"]), N), tens_param(fl(P["v0"]), N), tens_param(fl(P["v"]), N),
         tens_param(P["t0"], N), tens_param(P["t"], N), tens_param(P["f0"], N), tens_param(P["f"], N))
    order = case.get("order", 1)
    res = {"spec_fail": []}
    snap = snapshot([feats, lengths] + list(p))
    try:
        out = apply_call(case["api"], feats, p, order, lengths)
    except Exception as e:
        return {"err": "exc:" + exc_kind(e) + ":" + str(e)[:120], "exc_in": "apply"}
    if not unchanged([feats, lengths] + list(p), snap):
        res["spec_fail"].append("rel:inputs_unchanged")
    if tuple(out.shape) != tuple(feats.shape) or out.dtype != feats.dtype:
        res["spec_fail"].append("shape_preserved")
        return res
    tw = usable(P["w0"]) and usable(P["w"])
    fw = usable(P["v0"]) and usable(P["v"])
    res["warped"] = tw or fw
    lens = lens_of(case)
    ill = (tw and any(margin_px(fq(P["w0"][n]), fq(P["w"][n]), lens[n]) < GRID_MARGIN for n in range(N))) or \
          (fw and any(margin_px(fq(P["v0"][n]), fq(P["v"][n]), case["F"]) < GRID_MARGIN for n in range(N)))
    if res["warped"]:
        bands = [(bands_of(P, "t0", "t", n), bands_of(P, "f0", "f", n)) for n in range(N)]
        police_warp(res, case, feats, out, bands)
        if not bool(torch.isfinite(feats).all()):
            res["spec_fail"] += nonfinite_relation(case, feats, p, order, lengths, out)
        res["tgrid"] = ref_grid(F_, P["w0"], P["w"], lens, case["T"], order) if tw else None
        res["fgrid"] = ref_grid(F_, P["v0"], P["v"], [case["F"]] * N, case["F"], order) if fw else None
    elif out.dtype in BITVIEW or case.get("dtype") in ("i64", "i32", "i16"):
        res["outbits"] = feats_to_bits(out)
    else:
        res["out"] = [[[Fraction(x) for x in r] for r in img] for img in out.double().tolist()]
    res["spec_fail"] += apply_alts(case, feats, p, lengths, out, res["warped"], ill)
    return res


def nonfinite_relation(case, feats, p, order, lengths, out):
    """a finite output cell saw finite corners only: it equals the cell of the run with the non-finite cells zeroed"""
    f0 = torch.where(torch.isfinite(feats), feats, torch.zeros_like(feats))
    o0 = apply_call(case["api"], f0, p, order, lengths)
    fin = torch.isfinite(out)
    return [] if bool((out[fin] == o0[fin]).all()) else ["rel:finite_cells_ignore_nonfinite_cells"]


def usable(x):
    return x is not None and x != "empty" and len(x) > 0 and (not isinstance(x[0], list) or len(x[0]) > 0)


def bands_of(P, key0, key, n):
    if not (usable(P[key0]) and usable(P[key])):
        return None
    return [[a, b] for a, b in zip(P[key0][n], P[key][n])]


GRID_ALTS = ["module", "module_kw", "script_mod", "script_fn", "kw", "ints", "lens_long", "views", "expand", "twice"]


def grid_call(how, src, flow, lengths, maxlen, order):
    F_, M_ = _api()
    if how in ("module", "module_kw", "script_mod", "twice"):
        m = M_.Warp1DGrid(maxlen, order)
        if how == "script_mod":
            m = scripted(("w1d", maxlen, order), lambda: m)
        if how == "twice":
            m(torch.zeros(2), torch.zeros(2), torch.tensor([1.0, 3.0]))
        return m(src=src, flow=flow, lengths=lengths) if how == "module_kw" else m(src, flow, lengths)
    if how == "script_fn":
        return scripted("w1d_fn", lambda: F_.warp_1d_grid)(src, flow, lengths, maxlen, order)
    if how == "kw":
        return F_.warp_1d_grid(src=src, flow=flow, lengths=lengths, max_length=maxlen, interpolation_order=order)
    return F_.warp_1d_grid(src, flow, lengths, maxlen, order)


def run_grid(case):
    src = torch.tensor([float(x) for x in case["src"]])
    flow = torch.tensor([float(x) for x in case["flow"]])
    lengths = torch.tensor([float(x) for x in case["lengths"]])
    maxlen, order = case["T"] if case.get("maxlen", True) else None, case.get("order", 1)
    snap = snapshot([src, flow, lengths])
    try:
        g = grid_call("functional", src, flow, lengths, maxlen, order)
    except Exception as e:
        return {"err": "exc:" + exc_kind(e) + ":" + str(e)[:120], "exc_in": "warp_1d_grid"}
    Texp = case["T"] if case.get("maxlen", True) else max(case["lengths"])
    if tuple(g.shape) != (len(case["src"]), Texp):
        return {"err": f"grid shape {tuple(g.shape)}"}
    bad = [] if unchanged([src, flow, lengths], snap) else ["rel:inputs_unchanged"]
    for a in case.get("alts") or []:
        how, s2, f2, l2 = "functional", src, flow, lengths
        try:
            if a in ("module", "module_kw", "script_mod", "script_fn", "kw", "twice"):
                how = a
            elif a == "ints" and int_or_none(case["src"]) and int_or_none(case["flow"]):
                s2, f2, l2 = src.long(), flow.long(), lengths.long()
            elif a == "lens_long":
                l2 = lengths.long()
            elif a == "views":
                s2, f2, l2 = relayout(src, "step"), relayout(flow, "off"), relayout(lengths, "step")
            elif a == "expand":
                s2, f2, l2 = relayout(src, "expand"), relayout(flow, "expand"), relayout(lengths, "expand")
            else:
                continue
            if not same_bits(grid_call(how, s2, f2, l2, maxlen, order), g):
                bad.append(f"rel:same_result[{a}]")
        except Exception as e:
            bad.append(f"rel:raises[{a}]:" + exc_kind(e))
    if not bool(torch.isfinite(g).all()):
        return {"grid": None, "spec_fail": ["warp_finite"] + bad}
    return {"grid": [[Fraction(x) for x in row] for row in g.double().tolist()], "spec_fail": bad}


SEED_ALTS = ["script_mod", "script_fn", "script_eval", "functional", "module", "module_again", "tr", "step", "lens32"]


def seed_call(case, how, feats, lengths, sa):
    F_, M_ = _api()
    c, order = case["cfg"], case.get("order", 1)
    if how == "script_mod":
        m = scripted(("sa",) + tuple(cfg_args(c)) + (order,), lambda: M_.SpecAugment(*cfg_args(c), interpolation_order=order))
        m.train()
    elif how == "script_fn":
        m = scripted("sa_fn", lambda: F_.spec_augment)
    torch.manual_seed(case["seed"])
    if how == "script_mod":
        return m(feats, lengths)
    if how == "script_fn":
        return m(feats, *cfg_args(c), order, lengths, True)
    if how in ("module", "module_again"):
        return sa(feats, lengths)
    return F_.spec_augment(feats, *cfg_args(c), order, lengths, True)


def run_seed(case):
    """no patching: the real generator"""
    F_, M_ = _api()
    c = case["cfg"]
    feats = make_feats(case)
    lengths = None if case.get("lengths") is None else torch.tensor(case["lengths"])
    order = case.get("order", 1)
    sa = M_.SpecAugment(*cfg_args(c), interpolation_order=order)
    sa.train()
    res = {"spec_fail": []}
    snap = snapshot([feats, lengths])
    try:
        torch.manual_seed(case["seed"])
        p = sa.draw_parameters(feats, lengths)
        out2 = sa.apply_parameters(feats, p, lengths)
        out = seed_call(case, case["api"], feats, lengths, sa)
        res["params"] = canon_params(p, case["N"])
    except Exception as e:
        return {"err": "exc:" + exc_kind(e) + ":" + str(e)[:120], "exc_in": "seed"}
    if not unchanged([feats, lengths], snap):
        res["spec_fail"].append("rel:inputs_unchanged")
    if tuple(out.shape) != tuple(feats.shape) or (out.dtype != feats.dtype and case.get("dtype", "f32") != "f32"):
        res["spec_fail"].append("shape_preserved")
        return res
    if not feats_equal(out, out2):
        res["spec_fail"].append("call_equals_apply_of_draw")
    res["warped"] = any(e["tw"] is not None or e["fw"] is not None for e in res["params"])
    if res["warped"]:
        police_warp(res, case, feats, out, [(e["tm"], e["fm"]) for e in res["params"]])
        try:
            add_grids(res, F_, case["T"], case["F"], lens_of(case), order)
        except Exception as e:
            res["err"] = "exc:" + exc_kind(e) + ":" + str(e)[:120]
            res["exc_in"] = "warp_1d_grid"
    else:
        res["outbits"] = feats_to_bits(out)
    for a in case.get("alts") or []:
        how, f2, l2 = case["api"], feats, lengths
        try:
            if a == "script_eval":
                m = scripted(("sa",) + tuple(cfg_args(c)) + (order,), lambda: M_.SpecAugment(*cfg_args(c), interpolation_order=order))
                m.eval()
                o = m(feats, lengths)
                m.train()
                if not same_bits(o, feats):
                    res["spec_fail"].append("eval_mode_identity[scripted]")
                continue
            if a in ("script_mod", "script_fn", "functional", "module", "module_again"):
                how = a
            elif a in ("tr", "step"):
                f2 = relayout(feats, a)
            elif a == "lens32" and lengths is not None:
                l2 = lengths.int()
            else:
                continue
            if not same_bits(seed_call(case, how, f2, l2, sa), out):
                res["spec_fail"].append(f"rel:same_result[{a}]")
        except Exception as e:
            res["spec_fail"].append(f"rel:raises[{a}]:" + exc_kind(e))
    return res


def run_impl(case):
    k = case["kind"]
    if k == "draw":
        return run_draw(case)[0]
    if k == "pipe":
        return run_pipe(case)
    if k in ("mask", "warp"):
        return run_apply(case)
    if k == "grid":
        return run_grid(case)
    if k == "seed":
        return run_seed(case)
    raise ValueError(k)


# ----------------------------------------------------------------------------------------
# Coq terms.  Each case yields a list of (tag, clause, term, info): tag "model" = comparison with
# the model, tag "spec" = the property's boolean reading on the implementation's output.
# ----------------------------------------------------------------------------------------
def wslack(case, ln):
    return EPS[case.get("dtype", "f32")] + Fraction(ln + 1, 1 << 18)


def pslack(c):
    return Fraction(0) if dyadic(c["pt"]) and dyadic(c["npt"]) else Fraction(1, 1 << 20)


def draw_terms(case, res):
    c, lens = case["cfg"], lens_of(case)
    out = []
    cc = ccfg(c)
    m, s = [], []
    for n, e in enumerate(res["params"]):
        m.append(f"check_draw {CDT[case.get('dtype', 'f32')]} {cc} {cz(case['F'])} {cz(lens[n])} {cuv(case['u'], n)} {cparams(e)}")
        s.append(f"draw_okb {cq(wslack(case, max(lens[n], case['F'])))} {cq(pslack(c))} {cc} {cz(case['F'])} {cz(lens[n])} {cparams(e)}")
    out.append(("model", "draw", "(" + " && ".join(m) + ")", None))
    out.append(("spec", "draw_bounds", "(" + " && ".join(s) + ")", None))
    return out


def seed_draw_terms(case, res):
    c, lens = case["cfg"], lens_of(case)
    cc = ccfg(c)
    s = [f"draw_okb {cq(wslack(case, max(lens[n], case['F'])))} {cq(pslack(c))} {cc} {cz(case['F'])} {cz(lens[n])} {cparams(e)}"
         for n, e in enumerate(res["params"])]
    return [("spec", "draw_bounds", "(" + " && ".join(s) + ")", None)]


def out_terms(case, res, per_elem):
    """model comparison of the output tensor; per_elem(n) -> dict(tw, fw, tm, fm) of that element"""
    feats = make_feats(case)
    N = case["N"]
    parts = []
    if res.get("warped"):
        imgs = [[[Fraction(x) for x in r] for r in img] for img in feats.double().tolist()]
        for n in range(N):
            e = per_elem(n)
            tg = res["tgrid"][n] if res.get("tgrid") is not None else None
            fg = res["fgrid"][n] if res.get("fgrid") is not None else None
            parts.append(f"check_apply {cq(APPLY_TOL)} {cgrid(tg)} {cgrid(fg)} {cbands(e['tm'])} {cbands(e['fm'])} "
                         f"{cimgq(imgs[n])} {cimgq(res['out'][n])}")
    elif res.get("outbits") is not None:
        bits = feats_to_bits(feats)
        for n in range(N):
            e = per_elem(n)
            parts.append(f"check_mask {cbands(e['tm'])} {cbands(e['fm'])} {cimgz(bits[n])} {cimgz(res['outbits'][n])}")
    else:
        imgs = [[[Fraction(x) for x in r] for r in img] for img in feats.double().tolist()]
        for n in range(N):
            e = per_elem(n)
            parts.append(f"check_apply {cq(0)} None None {cbands(e['tm'])} {cbands(e['fm'])} {cimgq(imgs[n])} {cimgq(res['out'][n])}")
    return [("model", "apply-warp" if res.get("warped") else "apply-exact", "(" + " && ".join(parts) + ")", None)]


def linear_terms(case, res, per_elem, order):
    """monotone / pinned clauses on the order-1 grids, and model-vs-implementation grid comparison"""
    out = []
    if order != 1:
        return out
    lens = lens_of(case)
    for dim, gkey, pkey, T, lns in (("time", "tgrid", "tw", case["T"], lens), ("freq", "fgrid", "fw", case["F"], [case["F"]] * case["N"])):
        if res.get(gkey) is None:
            continue
        for n in range(case["N"]):
            w0, w = per_elem(n)[pkey]
            g = res[gkey][n]
            mg = margin_px(w0, w, lns[n])
            info = {"dim": dim, "n": n, "T": T, "len": lns[n], "w0": float(w0), "w": float(w), "dst_margin_px": float(mg), "order": 1}
            out.append(("spec", "linear_warp_monotone", f"mono_okb {cq(MONO_TOL)} {cz(T)} {cz(lns[n])} {cl([cq(x) for x in g])}", info))
            out.append(("spec", "linear_warp_pinned", f"pinned_okb {cq(PIN_TOL)} {cz(T)} {cz(lns[n])} {cl([cq(x) for x in g])}", info))
            if mg >= GRID_MARGIN and T <= 16:
                out.append(("model", "grid", f"check_grid {cq(GRID_TOL)} {cz(T)} {cq(w0)} {cq(w)} {cq(lns[n])} {cl([cq(x) for x in g])}", info))
    return out


def case_terms(case, res):
    """-> list of (tag, clause, term, info).  Python-level spec failures are reported separately."""
    k = case["kind"]
    if "err" in res and "params" not in res and "grid" not in res:
        return [("model", "no-exception", "false", {"err": res["err"]})]
    terms = []
    if k == "draw":
        terms += draw_terms(case, res)
    elif k == "pipe":
        terms += draw_terms(case, res)
        if "err" in res:
            terms.append(("model", "no-exception", "false", {"err": res["err"]}))
        elif not res.get("eval"):
            pe = lambda n: res["params"][n]
            if "out" in res or "outbits" in res:
                terms += out_terms(case, res, pe)
            if res.get("warped"):
                terms += linear_terms(case, res, pe, case.get("order", 1))
    elif k == "seed":
        terms += seed_draw_terms(case, res)
        if "err" in res:
            terms.append(("model", "no-exception", "false", {"err": res["err"]}))
        else:
            pe = lambda n: res["params"][n]
            if "out" in res or "outbits" in res:
                terms += out_terms(case, res, pe)
            if res.get("warped"):
                terms += linear_terms(case, res, pe, case.get("order", 1))
    elif k in ("mask", "warp"):
        P = case["params"]

        def pe(n):
            return {"tm": bands_of(P, "t0", "t", n), "fm": bands_of(P, "f0", "f", n),
                    "tw": [fq(P["w0"][n]), fq(P["w"][n])] if usable(P["w0"]) and usable(P["w"]) else None,
                    "fw": [fq(P["v0"][n]), fq(P["v"][n])] if usable(P["v0"]) and usable(P["v"]) else None}
        if "out" in res or "outbits" in res:
            terms += out_terms(case, res, pe)
        if res.get("warped"):
            terms += linear_terms(case, res, pe, case.get("order", 1))
    elif k == "grid":
        if res.get("grid") is not None:
            fake = {"tgrid": res["grid"]}
            c2 = dict(case, N=len(case["src"]), F=1)
            if not case.get("maxlen", True):
                c2["T"] = max(case["lengths"])
            pe = lambda n: {"tw": [fq(case["src"][n]), fq(case["flow"][n])]}
            terms += linear_terms(c2, fake, pe, case.get("order", 1))
    return terms


# ----------------------------------------------------------------------------------------
# generators
# ----------------------------------------------------------------------------------------
def adversarial_u(rng, M=None):
    c = rng.random()
    if c < 0.18:
        return 0
    if c < 0.36:
        return U24 - 1
    if c < 0.42:
        return 1
    if c < 0.48:
        return U24 - 2
    if c < 0.56:
        return U24 // 2
    if c < 0.72:
        # next to a boundary j / M of the floor
        M = M or rng.randint(1, 13)
        j = rng.randint(0, M)
        return min(max(j * U24 // M + rng.choice([-1, 0, 1]), 0), U24 - 1)
    return rng.randrange(U24)


def gen_u(rng, N, nt, nf, mode):
    def one():
        if mode == "zero":
            return 0
        if mode == "top":
            return U24 - 1
        return adversarial_u(rng)
    return {"w0": [one() for _ in range(N)], "w": [one() for _ in range(N)],
            "v0": [one() for _ in range(N)], "v": [one() for _ in range(N)],
            "t": [[one() for _ in range(nt)] for _ in range(N)], "t0": [[one() for _ in range(nt)] for _ in range(N)],
            "f": [[one() for _ in range(nf)] for _ in range(N)], "f0": [[one() for _ in range(nf)] for _ in range(N)]}


WTS = [0.0, 0.5, 1.0, 3.0, 100.0, 0.3, 2.75]
PTS = [0.0, 0.25, 0.5, 1.0, 0.125, 0.04, 0.3]


def gen_cfg(rng, small=False):
    z = lambda: rng.random() < 0.18
    return {"Wt": 0.0 if z() else rng.choice(WTS[1:]), "Wf": 0.0 if rng.random() < 0.5 else rng.choice(WTS[1:]),
            "Mt": 0 if z() else rng.choice([1, 2, 3, 5, 100]), "Mf": 0 if z() else rng.choice([1, 2, 3, 100]),
            "pt": 0.0 if z() else rng.choice(PTS[1:]), "nt": 0 if z() else rng.choice([1, 2, 3] if small else [1, 2, 3, 5]),
            "npt": 0.0 if z() else rng.choice(PTS[1:]), "nf": 0 if z() else rng.choice([1, 2, 3])}


def gen_lengths(rng, N, T):
    c = rng.random()
    if c < 0.12:
        return None
    return [rng.choice([1, T, rng.randint(1, T)]) for _ in range(N)]


def exhaustive_draws(full):
    """all zero / non-zero combinations of the limits x proportions {0, 1/4, 1} x both extreme variates"""
    cases = []
    space = itertools.product([0.0, 0.5, 3.0], [0.0, 2.0], [0, 1, 100], [0, 2], [0.0, 0.25, 1.0], [0, 2], [0.0, 0.25, 1.0], [0, 1])
    for i, (Wt, Wf, Mt, Mf, pt, nt, npt, nf) in enumerate(space):
        if not full and i % 5 != 0:
            continue
        T, Fd = 1 + i % 9, 1 + (i // 9) % 5
        for mode in ("zero", "top"):
            lens = [1, T, max(1, T // 2)]
            cfg = dict(Wt=Wt, Wf=Wf, Mt=Mt, Mf=Mf, pt=pt, nt=nt, npt=npt, nf=nf)
            cases.append({"kind": "draw", "api": "functional" if i % 2 else "module", "dtype": ["f32", "f64", "f16"][i % 3 if mode == "top" else 0],
                          "N": 3, "T": T, "F": Fd, "lengths": lens, "cfg": cfg,
                          "u": gen_u(None, 3, nt, nf, mode), "stream": "exhaustive" if full else "exhaustive-slice"})
    return cases


def gen_draw(rng, big=False):
    N = rng.randint(1, 3)
    T = rng.choice([rng.randint(1, 12), rng.randint(1, 12), rng.randint(13, 300), rng.randint(300, 4000)]) if big else rng.randint(1, 12)
    Fd = rng.randint(1, 12) if not big else rng.choice([1, 3, 40, 80])
    cfg = gen_cfg(rng)
    if big:
        cfg["Mt"] = rng.choice([0, 10, 100, 1000])
        cfg["Wt"] = rng.choice([0.0, 5.0, 80.0, 2.5])
    return {"kind": "draw", "api": rng.choice(["functional", "module"]), "dtype": rng.choice(["f32", "f32", "f64", "f16"]),
            "N": N, "T": T, "F": Fd, "lengths": gen_lengths(rng, N, T), "cfg": cfg,
            "u": gen_u(rng, N, cfg["nt"], cfg["nf"], "adv"), "stream": "draw-big" if big else "draw"}


SPECIAL_BITS = [0, -2147483648, 2139095040, -8388608, 2143289344, 1065353216, -1082130432, 1, 8388608,
                2139095039, -8388609, 1900671690, -246811958]   # ... +-max, +-1e30
NONFINITE_BITS = [2139095040, -8388608, -8388608, -8388608, 2143289344]   # log energies of silent frames: mostly -inf


def gen_bits(rng, N, T, Fd, nonfinite=None):
    """nonfinite = share of cells that are -inf / inf / nan (None: the generic mix of special patterns)"""
    def one():
        if nonfinite is not None:
            return rng.choice(NONFINITE_BITS) if rng.random() < nonfinite else float_bits(rng.randint(-8, 8))
        if rng.random() < 0.25:
            return rng.choice(SPECIAL_BITS)
        return float_bits(rng.randint(-40, 40) / 4.0)
    return [[[one() for _ in range(Fd)] for _ in range(T)] for _ in range(N)]


def pick_alts(rng, pool, k=2):
    return rng.sample(pool, min(k, len(pool)))


def same_rows(rng, case, p=0.12):
    """now and then every batch element carries the same features (an `expand`ed batch is then legal)"""
    for key in ("bits", "cells"):
        if case.get(key) is not None and rng.random() < p:
            case[key] = [case[key][0] for _ in case[key]]


def float_bits(x):
    return torch.tensor([x], dtype=torch.float32).view(torch.int32).item()


def gen_cells(rng, N, T, Fd):
    return [[[rng.randint(-8, 8) for _ in range(Fd)] for _ in range(T)] for _ in range(N)]


# ----------------------------------------------------------------------------------------
# dtype-exclusive values (round 5): features in every type the entry point accepts, holding values that NO narrower
# (or merely other) type can represent - full-width mantissas, exponents beyond the float32 / float16 / bfloat16 range,
# subnormals, NaN payloads, integers above 2^24 / 2^53.  "Bit-identical outside the masks" is then violated by any
# internal detour through another working precision.  Cells are signed bit patterns; the model term is the same
# `check_mask` (it is generic in the cell type, the masked value is pattern 0 = +0.0 = integer 0 in every type).
# Only without a warp: HEAD refuses non-float32 features in grid_sample (outside the property's claim).
# ----------------------------------------------------------------------------------------
def _signed(v, nb):
    return v - (1 << nb) if v >= (1 << (nb - 1)) else v


def value_bits(x, dt):
    t = torch.tensor([x], dtype=DT[dt])
    return t.view(BITVIEW[DT[dt]]).item() if DT[dt] in BITVIEW else t.item()


def exclusive_cell(rng, dt):
    if dt in ("i64", "i32", "i16"):
        nb = {"i64": 64, "i32": 32, "i16": 16}[dt]
        top = (1 << (nb - 1)) - 1
        c = rng.random()
        if c < 0.45:   # odd and above the exact-integer range of the next float type (2^53 / 2^24 / 2^11 / 2^8)
            lim = {"i64": 53, "i32": 24, "i16": 8}[dt]
            return rng.choice([-1, 1]) * min(top, (1 << rng.randint(lim, nb - 2)) + 2 * rng.randrange(1 << (lim - 2)) + 1)
        if c < 0.6:
            return rng.choice([top, -top - 1, top - 1, -top])
        if c < 0.8:
            return _signed(rng.getrandbits(nb), nb)
        return rng.randint(-8, 8)
    nb, ne, nm = FLAYOUT[dt]
    emax, bias = (1 << ne) - 1, (1 << (ne - 1)) - 1
    s, c = rng.getrandbits(1), rng.random()
    if c < 0.5:      # ordinary magnitude, full-width mantissa with the last bit set
        e, m = bias + rng.randint(-6, 6), rng.getrandbits(nm) | 1
    elif c < 0.64:   # any exponent (beyond the range of every narrower type, or subnormal there)
        e, m = rng.randint(1, emax - 1), rng.getrandbits(nm)
    elif c < 0.72:   # subnormal
        e, m = 0, rng.choice([1, (1 << nm) - 1, rng.getrandbits(nm) | 1])
    elif c < 0.78:   # largest finite / smallest normal
        e, m = rng.choice([(emax - 1, (1 << nm) - 1), (1, 0)])
    elif c < 0.83:   # +-inf
        e, m = emax, 0
    elif c < 0.88:   # quiet NaN with a payload
        e, m = emax, (1 << (nm - 1)) | rng.getrandbits(nm - 1)
    elif c < 0.93:   # +-0.0
        e, m = 0, 0
    else:
        return value_bits(rng.randint(-8, 8) / 4.0, dt)
    return _signed((s << (nb - 1)) | (e << nm) | m, nb)


def gen_bits_dt(rng, dt, N, T, Fd):
    return [[[exclusive_cell(rng, dt) for _ in range(Fd)] for _ in range(T)] for _ in range(N)]


def has_exclusive(case):
    """some cell of the case does not survive the trip through float32 (float64 / integer features) resp. through
    float16 AND bfloat16 (float32 features) resp. the other 16-bit type (histogram only)"""
    x = make_feats(case)
    def trip(*ds):
        y = x
        for d in ds:
            y = y.to(d)
        return not same_bits(y.to(x.dtype), x)
    dt = case.get("dtype", "f32")
    if dt == "f32":
        return trip(torch.float16) and trip(torch.bfloat16)
    if dt == "f16":
        return trip(torch.bfloat16)
    if dt == "i16":
        return trip(torch.bfloat16, torch.float32)
    if dt == "bf16":
        return trip(torch.float16)
    return trip(torch.float32)


def gen_mask_dtype(rng):
    case = gen_mask(rng)
    dt = rng.choice(["f64", "f64", "f64", "f64", "f16", "bf16", "f32", "i64", "i32", "i16"])
    case.pop("cells", None)
    case["dtype"], case["bits"], case["stream"] = dt, gen_bits_dt(rng, dt, case["N"], case["T"], case["F"]), "mask-dtype"
    same_rows(rng, case)
    case["alts"] = [a for a in case["alts"] if a == "alias"] + pick_alts(rng, [a for a in APPLY_ALTS if a not in ("alias", "f64", "f16")], 2)
    return case


def gen_pipe_dtype(rng):
    """the whole call (function / module, train and eval) on masks-only configurations; draw_parameters knows f16 / f32 / f64"""
    case = gen_pipe(rng, warp=False)
    dt = rng.choice(["f64", "f64", "f64", "f16", "f32"])
    case["dtype"], case["bits"], case["stream"] = dt, gen_bits_dt(rng, dt, case["N"], case["T"], case["F"]), "pipe-mask-dtype"
    if rng.random() < 0.1:
        case["training"] = False
    same_rows(rng, case)
    return case


def gen_seed_dtype(rng, pool):
    """unpatched generator, masks only (pool: masks-only configurations shared by the scripted variants)"""
    case = gen_seed(rng, pool)
    case["cfg"] = dict(case["cfg"], Wt=0.0, Wf=0.0)
    dt = rng.choice(["f64", "f64", "f16", "f32"])
    case.pop("cells", None)
    case.pop("police_only", None)
    case["dtype"], case["bits"], case["stream"] = dt, gen_bits_dt(rng, dt, case["N"], case["T"], case["F"]), "seed-dtype"
    return case


def gen_pipe(rng, warp):
    N = rng.randint(1, 3)
    T, Fd = (rng.randint(1, 7), rng.randint(1, 5)) if warp else (rng.randint(1, 9), rng.randint(1, 7))
    cfg = gen_cfg(rng, small=True)
    if warp:
        if not cfg["Wt"] and not cfg["Wf"]:
            cfg["Wt"] = rng.choice(WTS[1:])
    else:
        cfg["Wt"] = cfg["Wf"] = 0.0
    case = {"kind": "pipe", "api": rng.choice(["functional", "module"]), "N": N, "T": T, "F": Fd,
            "lengths": gen_lengths(rng, N, T), "cfg": cfg, "order": rng.choice([1, 1, 2, 3]) if warp else rng.choice([1, 2]),
            "training": rng.random() > 0.08, "u": gen_u(rng, N, cfg["nt"], cfg["nf"], "adv"),
            "stream": "pipe-warp" if warp else "pipe-mask"}
    if warp:
        case["cells"] = gen_cells(rng, N, T, Fd)
        c = rng.random()
        if c < 0.3:  # a ramp in time: the output reads off the sampled position
            case["cells"] = [[[t for _ in range(Fd)] for t in range(T)] for _ in range(N)]
        elif c < 0.45:  # silent frames / dead coefficients: masked cells are 0 whatever they held (police only)
            del case["cells"]
            case["bits"] = gen_bits(rng, N, T, Fd, nonfinite=rng.choice([0.15, 0.5, 1.0]))
            case["police_only"] = True
        if cfg["Wt"] and T >= 4 and rng.random() < 0.2:
            # left shift of a source close to frame 0 onto a destination still closer to it
            cfg["Wt"] = rng.choice([3.0, 2.75, 1.0])
            case["lengths"] = [T] * N if rng.random() < 0.5 else None
            case["u"]["w0"] = [rng.randrange(0, U24 // 8) for _ in range(N)]
            case["u"]["w"] = [rng.randrange(U24 // 50, U24 // 6) for _ in range(N)]
            case["order"] = 1
    else:
        r = rng.random()
        case["bits"] = gen_bits(rng, N, T, Fd, nonfinite=None if r < 0.7 else rng.choice([0.3, 0.6, 1.0]))
    same_rows(rng, case)
    case["alts"] = pick_alts(rng, PIPE_ALTS, 2)
    return case


def gen_maskparam(rng, N, size):
    form = rng.random()
    if form < 0.08:
        return None, None
    if form < 0.14:
        return "empty", "empty"
    M = rng.choice([1, 1, 2, 3])
    p0 = [[rng.randint(-2, size + 1) for _ in range(M)] for _ in range(N)]
    p = [[rng.choice([0, 1, 1, 2, size, -1, rng.randint(0, size + 2)]) for _ in range(M)] for _ in range(N)]
    if form < 0.18:
        return p0, None
    if form < 0.22:
        return None, p
    if form < 0.25:
        return [[] for _ in range(N)], [[] for _ in range(N)]
    return p0, p


def gen_mask(rng):
    N, T, Fd = rng.randint(1, 3), rng.randint(1, 8), rng.randint(1, 7)
    t0, t = gen_maskparam(rng, N, T)
    f0, f = gen_maskparam(rng, N, Fd)
    case = {"kind": "mask", "api": rng.choice(["functional", "module"]), "N": N, "T": T, "F": Fd,
            "lengths": gen_lengths(rng, N, T), "order": rng.choice([1, 2]),
            "params": {"w0": rng.choice([None, "empty"]), "w": rng.choice([None, "empty"]), "v0": None, "v": rng.choice([None, "empty"]),
                       "t0": t0, "t": t, "f0": f0, "f": f}, "stream": "mask"}
    r = rng.random()
    if r < 0.85:
        case["bits"] = gen_bits(rng, N, T, Fd, nonfinite=None if r < 0.6 else rng.choice([0.3, 0.6, 1.0]))
    else:
        case["cells"] = gen_cells(rng, N, T, Fd)
        case["dtype"] = "f64"
    if rng.random() < 0.1 and isinstance(t0, list) and isinstance(t, list):
        case["params"]["t"] = json.loads(json.dumps(t0))
        case["alts"] = ["alias"]
    elif rng.random() < 0.1 and isinstance(f0, list) and isinstance(f, list):
        case["params"]["f"] = json.loads(json.dumps(f0))
        case["alts"] = ["alias"]
    else:
        case["alts"] = []
    same_rows(rng, case)
    case["alts"] += pick_alts(rng, [a for a in APPLY_ALTS if a != "alias" and ("bits" in case or a not in ("f64", "f16"))], 2)
    return case


def f32(x):
    return torch.tensor(x, dtype=torch.float32).item()


def gen_warpvals(rng, N, lens, near_end=False, left_small=False):
    w0, w = [], []
    for n in range(N):
        ln = lens[n]
        s = f32(rng.choice([rng.uniform(0, ln), rng.uniform(0, ln), rng.randint(0, ln), rng.uniform(-1, ln + 1)]))
        if left_small and ln >= 3:
            # a source within the first frames moved left onto a destination closer still to frame 0
            s = f32(rng.uniform(0.3, min(2.5, ln - 1.2)))
            d = rng.uniform(0.02, s / 2)
        elif left_small and ln >= 2 and rng.random() < 0.5:
            # mirrored: a source near the last valid frame moved right
            s = f32(rng.uniform(0.05, ln - 1.05))
            d = rng.uniform((s + ln - 1) / 2, ln - 1.02)
        elif near_end:
            d = rng.choice([0.0, ln - 1.0, -0.5, ln - 0.5, 10 ** rng.uniform(-7, -4), ln - 1 - 10 ** rng.uniform(-7, -4)])
        else:
            d = rng.uniform(0.02, max(ln - 1 - 0.02, 0.02)) if rng.random() < 0.8 else rng.uniform(-1, ln)
        sc = max(min(s, ln - 1), 0)
        w0.append(s)
        w.append(f32(d - sc))
    return w0, w


def gen_warp(rng, near_end=False, left_small=False, hard=False):
    N, T, Fd = rng.randint(1, 2), rng.randint(1, 7), rng.randint(1, 5)
    if left_small:
        T = rng.randint(3, 8)
    lens = [rng.choice([T, rng.randint(3 if left_small else 1, T)]) for _ in range(N)]
    which = rng.choice(["t", "t", "f", "tf"]) if not left_small else "t"
    w0 = w = v0 = v = None
    if "t" in which:
        w0, w = gen_warpvals(rng, N, lens, near_end, left_small)
    if "f" in which:
        v0, v = gen_warpvals(rng, N, [Fd] * N, near_end)
    t0, t = gen_maskparam(rng, N, T) if rng.random() < (0.9 if hard else 0.5) else (None, None)
    f0, f = gen_maskparam(rng, N, Fd) if rng.random() < (0.7 if hard else 0.4) else (None, None)
    cells = gen_cells(rng, N, T, Fd)
    c = rng.random()
    if c < (0.6 if left_small else 0.3):
        cells = [[[tt for _ in range(Fd)] for tt in range(T)] for _ in range(N)]
    elif c < 0.75 and left_small:
        cells = [[[tt * tt - 3 for _ in range(Fd)] for tt in range(T)] for _ in range(N)]
    elif c < 0.4:   # a common offset: a resampling that cancels badly would leave the tolerance
        cells = [[[1000 + x for x in r] for r in img] for img in cells]
    case = {"kind": "warp", "api": rng.choice(["functional", "module"]), "N": N, "T": T, "F": Fd,
            "lengths": lens if rng.random() < 0.9 or any(x != T for x in lens) else None, "order": rng.choice([1, 1, 2, 3]) if not left_small else 1,
            "cells": cells, "params": {"w0": w0, "w": w, "v0": v0, "v": v, "t0": t0, "t": t, "f0": f0, "f": f},
            "stream": "warp-near-end" if near_end else ("warp-left-small" if left_small else ("warp-hard-values" if hard else "warp"))}
    if hard:
        # non-finite cells (silent frames) or magnitudes next to the float32 range: police only
        del case["cells"]
        if rng.random() < 0.65:
            case["bits"] = gen_bits(rng, N, T, Fd, nonfinite=rng.choice([0.15, 0.5, 1.0]))
        else:
            big = [float_bits(x) for x in (1e38, -1e38, 9e37, 1e30, -1e30, 0.0, 1.0)]
            case["bits"] = [[[rng.choice(big) for _ in range(Fd)] for _ in range(T)] for _ in range(N)]
        case["police_only"] = True
    same_rows(rng, case)
    case["alts"] = pick_alts(rng, [a for a in APPLY_ALTS if a not in ("alias", "f64", "f16")], 2)
    return case


def gen_grid(rng, near_end=False, left_small=False):
    N = rng.randint(1, 3)
    T = rng.randint(3 if left_small else 1, 12)
    lens = [rng.randint(3 if left_small else 1, T) for _ in range(N)]
    maxlen = rng.random() < 0.8
    src, flow = gen_warpvals(rng, N, lens, near_end, left_small)
    c = rng.random()
    if c < 0.15 and not near_end and not left_small:
        # whole-frame sources and shifts (the documented example passes integer tensors)
        src = [float(rng.randint(0, ln - 1)) for ln in lens]
        flow = [float(rng.randint(-1, 1)) for _ in lens]
    elif c < 0.3 and N > 1:
        src, flow, lens = [src[0]] * N, [flow[0]] * N, [lens[0]] * N
    alts = pick_alts(rng, GRID_ALTS, 3)
    return {"kind": "grid", "T": T, "lengths": lens, "src": src, "flow": flow, "maxlen": maxlen, "order": 1, "alts": alts,
            "stream": "grid-near-end" if near_end else ("grid-left-small" if left_small else "grid")}


def gen_seed(rng, pool=None):
    N, T, Fd = rng.randint(1, 3), rng.randint(1, 10), rng.randint(1, 5)
    cfg = gen_cfg(rng, small=True)
    alts = pick_alts(rng, SEED_ALTS, 3)
    scripted_cfg = None
    if pool and any(a in ("script_mod", "script_eval") for a in alts):
        # scripting a module costs ~0.1 s per configuration: the scripted variants share a few configurations per run
        scripted_cfg = rng.choice(pool)
        cfg = dict(scripted_cfg[0])
    case = {"kind": "seed", "api": rng.choice(["functional", "module"]), "N": N, "T": T, "F": Fd,
            "lengths": gen_lengths(rng, N, T), "cfg": cfg, "order": rng.choice([1, 1, 2, 3]),
            "seed": rng.randint(0, 2 ** 31 - 1), "cells": gen_cells(rng, N, T, Fd), "stream": "seed"}
    if rng.random() < 0.2:
        del case["cells"]
        case["bits"] = gen_bits(rng, N, T, Fd, nonfinite=rng.choice([0.15, 0.5, 1.0]))
        case["police_only"] = True
    if scripted_cfg is not None:
        case["order"] = scripted_cfg[1]
    case["alts"] = alts
    return case


def gen_cases(chk):
    rng = chk.rng
    th = chk.tier == "thorough"
    cases = exhaustive_draws(th)
    if th:
        chk.extra["exhaustive"] = True
    chk.extra["exhaustive_scope"] = ("draws: every combination of Wt{0,.5,3} Wf{0,2} Mt{0,1,100} Mf{0,2} pt{0,1/4,1} nt{0,2} npt{0,1/4,1} nf{0,1} "
                                     "(1296 configurations) x variates all-0 / all-(1-2^-24) x lengths {1, T/2, T}, T in 1..9, F in 1..5, three dtypes"
                                     + ("" if th else " [quick tier: every 5th configuration]"))
    for c in load_corpus("C08"):
        c = dict(c)
        c["stream"] = "corpus"
        cases.append(c)
    k = 8 if th else 1
    for _ in range(500 * k):
        cases.append(gen_draw(rng))
    for _ in range(120 * k):
        cases.append(gen_draw(rng, big=True))
    for _ in range(300 * k):
        cases.append(gen_mask(rng))
    for _ in range(250 * k):
        cases.append(gen_pipe(rng, warp=False))
    for _ in range(160 * k):
        cases.append(gen_pipe(rng, warp=True))
    for _ in range(200 * k):
        cases.append(gen_grid(rng))
    for _ in range(40 * k):
        cases.append(gen_grid(rng, near_end=True))
    for _ in range(40 * k):
        cases.append(gen_grid(rng, left_small=True))
    for _ in range(160 * k):
        cases.append(gen_warp(rng))
    for _ in range(30 * k):
        cases.append(gen_warp(rng, near_end=True))
    for _ in range(40 * k):
        cases.append(gen_warp(rng, left_small=True))
    for _ in range(60 * k):
        cases.append(gen_warp(rng, hard=True))
    pool = [(gen_cfg(rng, small=True), rng.choice([1, 1, 2, 3])) for _ in range(6 if not th else 16)]
    for _ in range(150 * k):
        cases.append(gen_seed(rng, pool))
    # round 5: dtype-exclusive values through every entry point that masks without a warp (own draws AFTER the older streams)
    for _ in range(150 * k):
        cases.append(gen_mask_dtype(rng))
    for _ in range(120 * k):
        cases.append(gen_pipe_dtype(rng))
    pool2 = [(dict(gen_cfg(rng, small=True), Wt=0.0, Wf=0.0), rng.choice([1, 2])) for _ in range(2 if not th else 5)]
    for _ in range(40 * k):
        cases.append(gen_seed_dtype(rng, pool2))
    return cases


# ----------------------------------------------------------------------------------------
# judging
# ----------------------------------------------------------------------------------------
def signature_fn(entry, rec):
    """K7: the order-1 warp is not pinned / not monotone / cannot be solved when the (clamped)
    destination of the warp lies next to one of the two pinned knots."""
    sig = entry["signature"]
    if rec.get("clause") not in sig["clauses"]:
        return False
    info = rec.get("info") or {}
    if info.get("order") != sig["order"]:
        return False
    return info.get("dst_margin_px") is not None and info["dst_margin_px"] < sig["dst_margin_px_below"]


def nontrivial(case, res):
    k = case["kind"]
    if k in ("draw", "pipe", "seed"):
        c = case["cfg"]
        return bool(c["Wt"] or c["Wf"] or (c["Mt"] and c["pt"] and c["nt"] and c["npt"]) or (c["Mf"] and c["nf"]))
    if k in ("mask", "warp"):
        P = case["params"]
        return any(usable(P[a]) and usable(P[b]) for a, b in (("w0", "w"), ("v0", "v"), ("t0", "t"), ("f0", "f")))
    return True


def exc_info(case, res):
    """for an exception inside a linear warp: the margin of each batch element's destination"""
    infos = []
    try:
        lens = lens_of(case) if case["kind"] != "grid" else case["lengths"]
        if case["kind"] == "grid":
            pairs = [("time", fq(s), fq(f), lens[n], case["T"]) for n, (s, f) in enumerate(zip(case["src"], case["flow"]))]
        elif case["kind"] in ("mask", "warp"):
            P = case["params"]
            pairs = []
            if usable(P["w0"]) and usable(P["w"]):
                pairs += [("time", fq(P["w0"][n]), fq(P["w"][n]), lens[n], case["T"]) for n in range(case["N"])]
            if usable(P["v0"]) and usable(P["v"]):
                pairs += [("freq", fq(P["v0"][n]), fq(P["v"][n]), case["F"], case["F"]) for n in range(case["N"])]
        else:
            pairs = []
            for n, e in enumerate(res.get("params") or []):
                if e["tw"] is not None:
                    pairs.append(("time", e["tw"][0], e["tw"][1], lens[n], case["T"]))
                if e["fw"] is not None:
                    pairs.append(("freq", e["fw"][0], e["fw"][1], case["F"], case["F"]))
        for dim, w0, w, ln, T in pairs:
            infos.append({"dim": dim, "T": T, "len": ln, "w0": float(w0), "w": float(w), "dst_margin_px": float(margin_px(w0, w, ln)),
                          "order": case.get("order", 1)})
    except Exception:
        pass
    return min(infos, key=lambda i: i["dst_margin_px"]) if infos else None


# ----------------------------------------------------------------------------------------
# source tie: the translated text of spec_augment_draw_parameters, interpreted inside Coq
# ----------------------------------------------------------------------------------------
IMPORTS_SRC = IMPORTS + "From PV Require C08.SrcRun.\n"
SRC_THEOREMS = ["c08_source_draw_is_model", "c08_source_draw_exact", "c08_source_masks_within_limits",
                "c08_source_masks_float32", "c08_source_time_mask_formulas"]


def _exact_double(x):
    return Fraction(float(x)) == x


def _python_doubles_exact(case):
    """MiniPy computes Python-level float arithmetic exactly over Q (DESIGN.md section 3).  The draw code does a few
    operations on Python doubles (1 - eps, F / 2 - eps, F - 2 * V, max_ + omeps of the frequency masks): the interpreted
    source describes CPython only when each of them is exact in binary64, which is decided here with Fractions."""
    c, eps, Fd = case["cfg"], EPS[case.get("dtype", "f32")], case["F"]
    vals = [1 - eps]
    if c["Wf"]:
        x = Fraction(Fd, 2) - eps
        V = min(max(x, 0), fq(c["Wf"]))
        vals += [x, 2 * V, Fd - 2 * V]
    if c["Mf"] and c["nf"]:
        vals.append(min(c["Mf"], Fd) + (1 - eps))
    return all(_exact_double(v) for v in vals)


def src_draw_term(case, res):
    lens = "None" if case.get("lengths") is None else co(clz(case["lengths"]))
    N = case["N"]
    return (f"SrcRun.src_draw_check {CDT[case.get('dtype', 'f32')]} {ccfg(case['cfg'])} {cn(N)} {cn(case['T'])} {cn(case['F'])} {lens} "
            f"{cl([cuv(case['u'], n) for n in range(N)])} {cl([cparams(e) for e in res['params']])}")


def source_tie(chk, cases, results):
    """run the translated source of spec_augment_draw_parameters inside Coq (vm_compute, float32 rounding = Model.ieee, torch.rand =
    the case's variates in call order) on the draw / pipe cases of this run and compare bit for bit with what torch drew:
    validates translator + MiniPy.Interp + ext08 + MiniTorch.OpsC08 against the implementation; independent of whether the tie
    lemmas still compile"""
    import time
    from vlib import CoqError
    idx, inexact = [], 0
    for i, (c, r) in enumerate(zip(cases, results)):
        if c.get("kind") not in ("draw", "pipe") or not isinstance(r, dict) or "params" not in r:
            continue
        if not _python_doubles_exact(c):
            inexact += 1
            continue
        idx.append(i)
    if not idx:
        chk.extra["source_tie_run"] = {"cases": 0, "disagreements": 0, "skipped_inexact_python_double": inexact}
        return
    t0 = time.time()
    try:
        vals = coq_eval_bools(chk.workdir, IMPORTS_SRC, [src_draw_term(cases[i], results[i]) for i in idx], shard=40, tag="srcdraw")
    except CoqError as e:
        chk.extra["source_tie_run"] = "not evaluated: " + str(e)[-400:]
        return
    bad = [idx[j] for j, ok in enumerate(vals) if not ok]
    grp = lambda i: cases[i]["cfg"]
    chk.extra["source_tie_run"] = {
        "cases": len(idx), "disagreements": len(bad), "wall_s": round(time.time() - t0, 1),
        "skipped_inexact_python_double": inexact,
        "batch_elements": sum(cases[i]["N"] for i in idx),
        "lengths_none": sum(1 for i in idx if cases[i].get("lengths") is None),
        "time_warp": sum(1 for i in idx if grp(i)["Wt"]), "freq_warp": sum(1 for i in idx if grp(i)["Wf"]),
        "time_masks": sum(1 for i in idx if grp(i)["Mt"] and grp(i)["pt"] and grp(i)["nt"] and grp(i)["npt"]),
        "freq_masks": sum(1 for i in idx if grp(i)["Mf"] and grp(i)["nf"]),
        "dtypes": {d: sum(1 for i in idx if cases[i].get("dtype", "f32") == d) for d in ("f16", "f32", "f64")}}
    chk.count("source_tie_cases", len(idx))
    if bad:
        i = bad[0]
        chk.report({"case": cases[i], "impl": jsonable(results[i]),
                    "what": "the Python source of spec_augment_draw_parameters as translated to MiniPy and interpreted in Coq "
                            "(PV.C08.SrcRun.src_draw, torch calls = PV.MiniTorch.OpsC08 with the float32 rounding of Model.ieee, torch.rand = "
                            "the case's variates) does not reproduce what the implementation drew: translator / interpreter / ext08 / "
                            "MiniTorch no longer describe the code",
                    "disagreeing_cases": len(bad),
                    "correspondence": "tie:C08:py2coq+MiniPy.Interp+MiniTorch:spec_augment_draw_parameters",
                    "theorems_at_stake": SRC_THEOREMS}, no_failing_input=True)


def run(chk, cases=None):
    chk.rule = ("draw/pipe: (api, dtype, N, T, F, lengths, 8 limits, numerators of the uniform variates served by a patched torch.rand); "
                "every drawn tensor compared bit for bit with PV.C08.Model.draw ieee and judged by Spec.draw_okb; pipe also runs the whole "
                "call (= apply(draw)) and compares bit patterns (no warp) or resampled values (warp, torch's warp_1d_grid grids as oracle, "
                "tolerance 2e-3) with apply_masks / apply_with_grids; mask/warp: explicit parameters; grid: warp_1d_grid order 1 vs exact "
                "piecewise-linear grid (5e-3 px, destination >= 1e-2 px from the ends); seed: unpatched generator. "
                "every case also names robustness variants (alts: other entry point incl. torch.jit.script, memory layout, dtype, "
                "repeated call, aliased parameters, element alone) whose result must equal the canonical call's, arguments untouched. "
                "*-dtype streams: masks only, features of type f64/f16/f32 (whole call, apply) and bf16/int64/int32/int16 (apply) holding "
                "values no other type represents (full mantissas, out-of-range exponents, subnormals, NaN payloads, integers > 2^53), "
                "bit patterns of that type against apply_masks. "
                "non-trivial = at least one of the four parameter groups is enabled / usable")
    chk.assumptions += ["torch.rand is patched to serve the case's variates (u = k / 2^24, the grid torch.rand itself produces)",
                        "torch.linalg.solve (inside polyharmonic_spline) and grid_sample are kernel oracles: order-1 grids are compared with the exact "
                        "spline only away from the ill-conditioned region, resampling is compared given torch's own grids; orders 2-3 are only "
                        "policed for shape, finiteness and range (a test, not a proof)",
                        "float32/float64 rounding of the draw arithmetic is modelled (round to nearest even, no overflow/subnormals)"]
    chk.extra["trusted_base"] = [
        "oracles: torch.linalg.solve inside polyharmonic_spline (order 1: any exact solution is the piecewise-linear map, theorem "
        "c08_order1_spline_is_piecewise_linear; its float32 result is only compared with a tolerance away from the ill-conditioned region K7; "
        "orders 2-3 not modelled) and the float32 evaluation of grid_sample (modelled by its exact-arithmetic formula, tolerance 2e-3)",
        "draw theorems over Q are about `draw exact`; the float32 mask theorems are about `draw ieee`, the function compared bit for bit with torch "
        "(no overflow/subnormals modelled; lengths and sizes < 2^24)"]
    explicit = cases is not None
    cases = cases if explicit else gen_cases(chk)
    recs = []      # (case index, tag, clause, info)
    terms = []
    results = []
    pyfails = []   # (case index, clause, info)
    for i, c in enumerate(cases):
        stream = c.pop("stream", "random")
        res = run_impl(c)
        results.append(res)
        chk.note_case(c, nontrivial(c, res), stream)
        chk.count("kind=" + c["kind"])
        if "cfg" in c:
            for key in ("Wt", "Wf", "Mt", "Mf", "pt", "nt", "npt", "nf"):
                chk.count(f"{key}={'0' if not c['cfg'][key] else 'nz'}")
            chk.count("dtype=" + c.get("dtype", "f32"))
            chk.count("lengths=" + ("none" if c.get("lengths") is None else "given"))
        if "order" in c and c["kind"] != "mask":
            chk.count(f"order={c['order']}")
        if "api" in c:
            chk.count("api=" + c["api"])
        for a_ in c.get("alts") or []:
            chk.count("alt=" + a_)
        if stream.endswith("-dtype") or (explicit and c.get("bits") is not None and c.get("dtype")):
            chk.count("feats_dtype=" + c["dtype"])
            try:
                if has_exclusive(c):
                    chk.count("dtype-exclusive-cells(some cell is not representable in the neighbouring types):" + c["dtype"])
            except Exception:
                pass
        if c.get("police_only"):
            chk.count("police_only(non-finite or huge cells under a warp)")
        chk.count("outcome=" + ("exception" if "err" in res else ("warped" if res.get("warped") else "ok")))
        for cl_ in res.get("spec_fail", []):
            pyfails.append((i, cl_, None))
        if "err" in res and res.get("exc_in") in ("apply", "warp_1d_grid", "seed") and res["err"].startswith("exc:"):
            pyfails.append((i, "linear_warp_raises" if c.get("order", 1) == 1 else "warp_raises", exc_info(c, res)))
        for tag, clause, term, info in case_terms(c, res):
            if tag == "model" and clause == "no-exception" and any(p[0] == i for p in pyfails):
                continue
            recs.append((i, tag, clause, info))
            terms.append(term)
    vals = coq_eval_bools(chk.workdir, IMPORTS, terms, shard=120)
    # the masking output is unique and apply_masks is proved equal to the spec's cell-wise reading
    # (c08_apply_zeroes_exactly_masked): a disagreement there is itself a failing input
    spec_bad = [(r[0], r[2], r[3]) for r, ok in zip(recs, vals) if not ok and r[1] == "spec"] + pyfails
    spec_bad += [(r[0], "apply_zeroes_exactly_masked", r[3]) for r, ok in zip(recs, vals)
                 if not ok and r[1] == "model" and r[2] == "apply-exact"]
    model_bad = [(r[0], r[2], r[3]) for r, ok in zip(recs, vals) if not ok and r[1] == "model" and r[2] != "apply-exact"]
    chk.extra["spec_rejections"] = len(spec_bad)
    chk.extra["model_disagreements"] = len(model_bad)
    chk.extra["terms"] = len(terms)
    concrete = False
    reported = 0
    for i, clause, info in spec_bad:
        rec = {"case": cases[i], "impl": jsonable(results[i]), "clause": clause, "info": info,
               "what": f"implementation output violates the property clause '{clause}'",
               "correspondence": "corr:C08:" + cases[i]["kind"]}
        if chk.known_match(signature_fn, rec) is not None:
            chk.report(rec, signature_fn)
            chk.count("known-finding-cases")
            continue
        concrete = True
        reported += 1
        if reported <= 6:
            chk.report(rec)
    if model_bad and not concrete:
        known_cases = {i for i, clause, info in spec_bad}
        rest = [m for m in model_bad if m[0] not in known_cases]
        for i, clause, info in rest[:3]:
            case = cases[i]
            if not explicit:
                case = shrink(case, lambda c: _disagrees(chk, c, clause), _cands, budget=20)
            res = run_impl(dict(case))
            rec = {"case": case, "impl": jsonable(res), "clause": clause, "info": info,
                   "model": model_show(chk, case, res, clause),
                   "what": f"implementation differs from PV.C08.Model ({clause}) but every explored output satisfies the property's boolean reading",
                   "correspondence": "corr:C08:" + case["kind"],
                   "theorems_at_stake": THEOREMS.get(clause, sum(THEOREMS.values(), []))}
            chk.report(rec, no_failing_input=True)
    source_tie(chk, cases, results)
    from props import c08_tie
    c08_tie.source_tieB(chk, cases, results)


def model_show(chk, case, res, clause):
    try:
        if clause == "draw" and "cfg" in case:
            lens = lens_of(case)
            items = [f"draw ieee (eps_of {CDT[case.get('dtype', 'f32')]}) {ccfg(case['cfg'])} {cz(case['F'])} {cz(lens[n])} {cuv(case['u'], n)}"
                     for n in range(case["N"])]
            return coq_eval_print(chk.workdir, IMPORTS, cl(items))
    except Exception as e:
        return f"<{e}>"
    return None


def _disagrees(chk, case, clause):
    case = dict(case)
    res = run_impl(case)
    ts = [t for tag, cl_, t, _ in case_terms(case, res) if tag == "model" and cl_ == clause]
    if not ts:
        return False
    return not all(coq_eval_bools(chk.workdir, IMPORTS, ts, tag="shr"))


def _cands(case):
    N = case.get("N", 0)
    if N > 1 and case["kind"] in ("draw", "pipe"):
        for n in range(N):
            c = json.loads(json.dumps(case))
            c["N"] = N - 1
            if c.get("lengths") is not None:
                del c["lengths"][n]
            for r in ROLES:
                del c["u"][r][n]
            for key in ("bits", "cells"):
                if c.get(key) is not None:
                    del c[key][n]
            yield c
    if "cfg" in case:
        for key, zero in (("Wt", 0.0), ("Wf", 0.0), ("Mt", 0), ("Mf", 0)):
            if case["cfg"][key]:
                c = json.loads(json.dumps(case))
                c["cfg"][key] = zero
                yield c


def replay(chk, path):
    rec = json.loads(open(path).read())
    case = dict(rec["case"])
    case.pop("stream", None)
    run(chk, [case])
