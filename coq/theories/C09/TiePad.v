(* C09 — symbolic run of `pad_variable` (PV.Gen.C09Src.pad_variable_body) under SrcRun.ext09, whose call of
   `_get_padding_buffers` interprets the other translated body (TieGpb.v): on tabulated tensors of any sizes the interpreter
   returns exactly TieSrc.src_pad, raising ValueError on the two shape checks. *)
From Coq Require Import ZArith List String Bool Arith Lia ZifyBool ZifyNat.
From PV Require Import MiniPy.Syntax MiniPy.Interp MiniTorch.Ops MiniTorch.OpsC09 MiniTorch.LemmasC09 Gen.C09Src.
From PV Require Import C09.SrcRun C09.TieSrc C09.TieTac C09.TieGpb.
From PV Require C09.Model.
Import ListNotations.
Local Open Scope string_scope.

(* pad = stack of pad[0] = pf and pad[1] = qf, each with Np entries *)
Definition padT Np (pf qf : nat -> nat) : tn Z :=
  mkTn [2%nat; Np] (tab2 2 Np (fun r i => if (r =? 0)%nat then ZI pf i else ZI qf i)).

Definition out_pad (N Tp F : nat) (r : Model.res (list val)) (st : state) : outcome val :=
  match r with
  | Model.Ok l => Ok (enc_p (mkTn [N; Tp; F] l)) st
  | Model.ErrValue => Exc value_error st
  | Model.ErrRuntime => Exc runtime_error st
  | Model.ErrNotImpl => Exc not_implemented_error st
  end.

Lemma gpb_any N T F xf lf pf qf md :
  (forall i, (i < N)%nat -> (lf i <= T)%nat) ->
  exists st, Interp.run ext09g gpb_body (gvars N T F xf lf pf qf md) = out_gpb (src_gpb N T F xf lf pf qf md) st.
Proof.
  intros HT. destruct md; [apply gpb_constant | now apply gpb_reflect | now apply gpb_replicate | apply gpb_other].
Qed.

Lemma max_all_nat_pos n a g :
  n <> 0%nat -> (forall i, (i < n)%nat -> a i = Z.of_nat (g i)) ->
  max_all (mkTn [n] (tab1 n a)) = Some (mkTn [] [Z.of_nat (list_max (map g (seq 0 n)))]).
Proof. intros Hn H. rewrite (max_all_nat n a g H). now destruct n. Qed.

Lemma pad_run N Nl Np T F xf lf pf qf value md :
  (forall i, (i < N)%nat -> (lf i <= T)%nat) ->
  exists st,
    Interp.run ext09 pad_variable_body
      (pv_vars (enc_p (xT N T F xf)) (enc_i (lensT Nl lf)) (enc_i (padT Np pf qf)) (mode_val md) value)
    = if (Nl =? N)%nat && (Np =? N)%nat
      then out_pad N (TpS N lf pf qf) F (src_pad N T F xf lf pf qf value md) st
      else Exc value_error st.
Proof.
  intros HT.
  unfold Interp.run, pad_variable_body, pv_vars, xT, lensT, padT.
  stmt. close_stmt.
  stmt. close_stmt.
  stmt. close_stmt.
  stmt.
  destruct (Nat.eqb_spec Nl N) as [->|HNl].
  2:{ replace (Z.of_nat Nl =? Z.of_nat N)%Z with false by lia. go. eexists. reflexivity. }
  go. close_stmt.
  stmt.
  destruct (Nat.eqb_spec Np N) as [->|HNp].
  2:{ replace (Z.of_nat Np =? Z.of_nat N)%Z with false by lia. go. eexists. reflexivity. }
  go. close_stmt.
  cbn [andb].
  stmt. close_stmt.
  stmt. close_stmt.
  stmt.
  destruct (gpb_any N T F xf lf pf qf md HT) as [stg Eg].
  match goal with |- context [run ext09g gpb_body ?v] =>
    change (run ext09g gpb_body v) with (run ext09g gpb_body (gvars N T F xf lf pf qf md)) end.
  rewrite Eg. clear Eg.
  unfold src_pad.
  destruct (src_gpb N T F xf lf pf qf md) as [[lb rb]| | |] eqn:Eb; cbn [out_gpb Model.bind fst snd];
    try (go; eexists; reflexivity).
  go. close_stmt.
  stmt. close_stmt.
  stmt.
  destruct (Nat.eq_dec N 0) as [HN|HN].
  { subst N. go. eexists. reflexivity. }
  rewrite (max_all_nat_pos N _ (newf lf pf qf)) by (assumption || (intros; unfold ZI, newf; lia)).
  go. close_stmt.
  fold (TpS N lf pf qf). set (Tp := TpS N lf pf qf) in *.
  assert (Hm1 : Nat.min Tp (Nat.max Tp T) = Tp) by lia.
  assert (Hm2 : Nat.min T (Nat.max Tp T) = T) by lia.
  stmt. close_stmt.
  stmt. close_stmt.
  stmt. close_stmt.
  stmt. close_stmt.
  stmt. close_stmt.
  stmt. close_stmt.
  stmt. close_stmt.
  stmt.
  unfold zmask, midZ, newZ. fold Tp.
  match goal with |- context [option_map _ (mscatter ?m ?d ?x)] => destruct (mscatter m d x) as [p1|] eqn:E1 end;
    cbn [option_map]; [|destruct N; [congruence|]; go; eexists; reflexivity].
  go. close_stmt.
  open_seq. open_if. go.
  destruct md; [| | |discriminate Eb]; go.
  - (* constant *)
    take_false. go. close_stmt. go. destruct N; [congruence|]. eexists. reflexivity.
  - (* reflect *)
    take_true. stmt.
    match goal with |- context [option_map _ (mscatter ?m ?d ?x)] => destruct (mscatter m d x) as [p2|] eqn:E2 end;
      cbn [option_map]; [|destruct N; [congruence|]; go; eexists; reflexivity].
    go. close_stmt. go.
    match goal with |- context [option_map _ (mscatter ?m ?d ?x)] => destruct (mscatter m d x) as [p3|] eqn:E3 end;
      cbn [option_map]; [|destruct N; [congruence|]; go; eexists; reflexivity].
    go. close_stmt. go. destruct N; [congruence|]. eexists. reflexivity.
  - (* replicate *)
    take_true. stmt.
    match goal with |- context [option_map _ (mscatter ?m ?d ?x)] => destruct (mscatter m d x) as [p2|] eqn:E2 end;
      cbn [option_map]; [|destruct N; [congruence|]; go; eexists; reflexivity].
    go. close_stmt. go.
    match goal with |- context [option_map _ (mscatter ?m ?d ?x)] => destruct (mscatter m d x) as [p3|] eqn:E3 end;
      cbn [option_map]; [|destruct N; [congruence|]; go; eexists; reflexivity].
    go. close_stmt. go. destruct N; [congruence|]. eexists. reflexivity.
Qed.
