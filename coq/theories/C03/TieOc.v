(* C03 - the post-processing of `optimal_completion` (PV.Gen.C03Src.oc_post / oc_fin), interpreted with SrcRun.ext03_oc on
   tabulated tensors: from the reference (N x R after `ref.t()`) and ANY (K x R x N) boolean mask the statements leave the
   duplicate propagation, the sort of the reference, the gathered and de-duplicated mask, the selected tokens, the counts, the
   width C and the scattered (K x N x C) targets described by the closed forms below (no interpreter in them); TieOcModel.v
   shows that these are PV.C03.Model's sorted_ref / final_mask / optimal_completion. *)
From Coq Require Import ZArith QArith List String Bool Arith Lia ZifyBool ZifyNat.
From PV Require Import MiniPy.Syntax MiniPy.Interp MiniPy.Lemmas MiniTorch.Ops MiniTorch.Lemmas MiniTorch.OpsC07 MiniTorch.LemmasC07
  MiniTorch.OpsC01 MiniTorch.LemmasC01 MiniTorch.OpsC03 MiniTorch.LemmasC03.
From PV Require Import Gen.C03Src C01.SrcRun C01.TieLib C01.TiePre C03.SrcRun C03.TieLib C03.TieOcLib.
From PV Require C01.TieBlocks.
Import ListNotations.
Local Open Scope string_scope.

#[local] Arguments dec01 : simpl never.
#[local] Arguments enc_b : simpl never.
#[local] Arguments enc_i : simpl never.
#[local] Arguments enc_x : simpl never.
#[local] Arguments tab2 : simpl never.
#[local] Arguments tab3 : simpl never.
#[local] Arguments tab4 : simpl never.
#[local] Arguments Z.add : simpl never.
#[local] Arguments Z.sub : simpl never.
#[local] Arguments Z.of_nat : simpl never.
#[local] Arguments broadcast : simpl never.
#[local] Arguments unsqueeze : simpl never.
#[local] Arguments transpose2 : simpl never.
#[local] Arguments transpose3 : simpl never.
#[local] Arguments any_dim : simpl never.
#[local] Arguments sum_dim_b : simpl never.
#[local] Arguments sort_last2 : simpl never.
#[local] Arguments expand_lead2 : simpl never.
#[local] Arguments gather_last3 : simpl never.
#[local] Arguments slice_last : simpl never.
#[local] Arguments cat_last : simpl never.
#[local] Arguments masked_select : simpl never.
#[local] Arguments masked_scatter : simpl never.
#[local] Arguments max_all : simpl never.
#[local] Arguments arange : simpl never.
#[local] Arguments full : simpl never.
#[local] Arguments sort_row_idx : simpl never.
#[local] Arguments count_row : simpl never.
#[local] Arguments zmax_list : simpl never.
#[local] Arguments ext01 : simpl never.
#[local] Arguments ext03 : simpl never.
#[local] Arguments ext03_sm : simpl never.
#[local] Arguments ext03_oc : simpl never.
#[local] Arguments seq : simpl never.
#[local] Arguments Nat.ltb : simpl never.
#[local] Arguments Nat.leb : simpl never.
#[local] Arguments mselect : simpl never.
#[local] Arguments mscatter : simpl never.

Notation torch_module := C01.TieBlocks.torch_module.

(* ---- the closed forms -------------------------------------------------------------------------------------------- *)
Section Forms.
  Variables (R' N K : nat) (rf : nat -> nat -> Z) (mk : nat -> nat -> nat -> bool).
  Let R := S R'.

  Definition rcolz (n : nat) : list Z := map (fun i => rf i n) (seq 0 R).
  (* (mask.transpose(1, 2).unsqueeze(2) & (ref.unsqueeze(1) == ref.unsqueeze(2))).any(3) *)
  Definition propf (k n a : nat) : bool := existsb (fun b => b) (map (fun b => (mk k b n && (rf b n =? rf a n)%Z)%bool) (seq 0 R)).
  (* ref.sort(1) *)
  Definition sidx (n j : nat) : nat := nth j (sort_row_idx (rcolz n)) 0%nat.
  Definition sref (n j : nat) : Z := nth (sidx n j) (rcolz n) 0%Z.
  (* mask.gather(2, src.expand_as(mask)) *)
  Definition gath (k n j : nat) : bool := propf k n (sidx n j).
  (* cat([mask[..., :-1] & (ref[:, :-1] != ref[:, 1:]), mask[..., -1:]], 2) *)
  Definition finf (k n j : nat) : bool :=
    if (j <? R')%nat then (gath k n j && negb (sref n j =? sref n (S j))%Z)%bool else gath k n R'.
  Definition flatf : list Z := mselect (tab3 K N R finf) (tab3 K N R (fun _ n j => sref n j)).
  Definition cntf (k n : nat) : Z := count_row (map (finf k n) (seq 0 R)).
  Definition widthf : nat := Z.to_nat (zmax_list (tab2 K N cntf)).
End Forms.

Definition oc_stage0 (bf : bool) (R N K : nat) (rf : nat -> nat -> Z) (mk : nat -> nat -> nat -> bool) (pad : Z) : list (string * val) :=
  [("ref", enc_i (in_tensor bf R N rf)); ("mask", enc_b (mkTn [K; R; N] (tab3 K R N mk))); ("batch_first", VBool bf);
   ("padding", VInt pad); ("torch", torch_module)].

Definition oc_stage1 (bf : bool) (R' N K : nat) (rf : nat -> nat -> Z) (mk : nat -> nat -> nat -> bool) (pad : Z) : list (string * val) :=
  let C := widthf R' N K rf mk in
  [("targets", enc_i (mkTn [K; N; C] (tab3 K N C (fun _ _ _ => pad))));
   ("target_mask", enc_b (mkTn [K; N; C] (tab3 K N C (fun k n c => (cntf R' rf mk k n >? Z.of_nat c)%Z))));
   ("targets_flat", enc_i (mkTn [List.length (flatf R' N K rf mk)] (flatf R' N K rf mk)));
   ("batch_first", VBool bf)].

Lemma full_guard : forall K N z, (0 <= z)%Z -> ((Z.of_nat K <? 0) || (Z.of_nat N <? 0) || (z <? 0))%Z%bool = false.
Proof. intros. lia. Qed.

(* the statements after `if not batch_first: ref = ref.t()` *)
Ltac post_script R' N K rf mk HK HN :=
      asgo; asgo; asgo; asgo; asgo;
      asgo;
      asgo; asgo; asgo;
      assign3x ltac:(evno; rewrite gather_last3_tab
                       by (intros ? j0 ? ? ? ?; rewrite <- (length_row (fun t : nat => rf t j0) (S R')) at 2;
                           apply sort_row_idx_nth_lt; now rewrite length_row); evno; reflexivity);
      assign3x ltac:(repeat (progress (evno; rewrite ?exto_getitem_col_i by reflexivity)); reflexivity);
      assign3x ltac:(repeat (progress (evno; rewrite ?exto_cat by reflexivity)); reflexivity);
      assign3x ltac:(evno; unfold masked_select; cbn [shp dat]; rewrite nats_eqb_refl; cbv zeta; cbn [option_map ret01 enc01]; reflexivity);
      asgo;
      assign3x ltac:(evno; rewrite max_all_some by (now apply tab2_nonempty); evno; reflexivity);
      assign3x ltac:(evno; rewrite full_guard by (apply zmax_tab2_nonneg; [exact HK|exact HN|intros; apply count_row_nonneg]);
                     rewrite !Nat2Z.id, ?full_3; reflexivity);
      assign3x ltac:(evno;
                     match goal with |- context [arange ?z] =>
                       rewrite <- (Z2Nat.id z) at 1 by (apply zmax_tab2_nonneg; [exact HK|exact HN|intros; apply count_row_nonneg])
                     end;
                     rewrite arange_nat; evno; reflexivity).

Section Post.
  Variables (bf : bool) (R' N K : nat) (rf : nat -> nat -> Z) (mk : nat -> nat -> nat -> bool) (pad : Z).
  Let R := S R'.

  Lemma post_run : forall st, K <> 0%nat -> N <> 0%nat -> known3 st (oc_stage0 bf R N K rf mk pad) ->
    runs_to (fun st' => known3 st' (oc_stage1 bf R' N K rf mk pad)) (exec ext03_oc oc_post st).
  Proof.
    intros st HK HN K0. unfold oc_stage0 in K0. open_known3 K0. unfold oc_post. subst R.
    destruct bf; unfold in_tensor in *.
    - ifstepo. post_script R' N K rf mk HK HN.
      apply runs_to_ok. unfold oc_stage1, widthf, cntf, flatf, finf, gath, sref, sidx, propf, rcolz. cbv zeta. close_known3.
    - ifstepo. asgo. post_script R' N K rf mk HK HN.
      apply runs_to_ok. unfold oc_stage1, widthf, cntf, flatf, finf, gath, sref, sidx, propf, rcolz. cbv zeta. close_known3.
  Qed.
End Post.

(* ---- oc_fin: the scatter, the transposition of batch-first output, return ------------------------------------------- *)
Section Fin.
  Variables (bf : bool) (R' N K : nat) (rf : nat -> nat -> Z) (mk : nat -> nat -> nat -> bool) (pad : Z).
  Notation C := (widthf R' N K rf mk).

  Definition oc_result (outf : nat -> nat -> nat -> Z) : val :=
    enc_i (if bf then mkTn [N; K; C] (tab3 N K C (fun n k c => outf k n c)) else mkTn [K; N; C] (tab3 K N C outf)).

  Lemma fin_run : forall st outf,
    mscatter (tab3 K N C (fun k n c => (cntf R' rf mk k n >? Z.of_nat c)%Z)) (tab3 K N C (fun _ _ _ => pad)) (flatf R' N K rf mk)
      = Some (tab3 K N C outf) ->
    known3 st (oc_stage1 bf R' N K rf mk pad) ->
    returns3 (oc_result outf) (exec ext03_oc oc_fin st).
  Proof.
    intros st outf Hsc K1. unfold oc_stage1 in K1. cbv zeta in K1. open_known3 K1. unfold oc_fin, oc_result.
    match goal with
    | Hx : lookup "targets" (vars ?s0) = Some ?tv, H1 : lookup "target_mask" (vars ?s0) = Some ?v1,
      H2 : lookup "targets_flat" (vars ?s0) = Some ?v2 |- context [exec ext03_oc (SSeq (SExpr (EMeth _ ?m _ _)) ?b) ?s0] =>
        erewrite (xexec_seq_mutmeth2 ext03_oc "targets" m "target_mask" "targets_flat" b s0 tv v1 v2 _ Hx H1 H2 eq_refl);
        [| rewrite exto_masked_scatter; unfold masked_scatter; cbn [shp dat]; rewrite nats_eqb_refl, Hsc; reflexivity ]
    end.
    push_state.
    destruct bf.
    - ifstepo. asgo. cbn [exec eval]. look. cbn [bind]. eexists. reflexivity.
    - ifstepo. seqnorm3. cbn [exec eval]. look. cbn [bind]. eexists. reflexivity.
  Qed.
End Fin.
