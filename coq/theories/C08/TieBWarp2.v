(* C08, second tie - `warp_1d_grid` WHOLE BODY (unit C08BSrc, warp_body) with max_length given, exact arithmetic:
   head (device, N, T, .float() x 3, eps), the knot block (TieBWarp.knots_run), tail (query points, the spline ORACLE,
   squeeze).  The returned (N, T) grid is the oracle's answer, and the oracle is asked exactly once, with the (N, 3, 1)
   knot tensors of Model.warp_knots (float32 eps) and the (N, T, 1) query points coord T i. *)
From Coq Require Import ZArith QArith Qround List String Bool Arith Lia.
From PV Require Import MiniPy.Syntax MiniPy.Interp MiniTorch.Ops MiniTorch.OpsC08 MiniTorch.LemmasC08.
From PV Require Import MiniTorch.OpsC08B MiniTorch.LemmasC08B.
From PV Require Import Gen.C08BSrc C08.SrcRun C08.TieLib C08.SrcRunB C08.TieBLib C08.TieBMask C08.TieBWarp.
From PV Require C08.Model MiniTorch.Lemmas.
Import ListNotations.
Local Open Scope string_scope.

#[local] Arguments Qred : simpl never.
#[local] Arguments Qdiv : simpl never.
#[local] Arguments Qmult : simpl never.
#[local] Arguments Qplus : simpl never.
#[local] Arguments Qminus : simpl never.
#[local] Arguments Qcompare : simpl never.
#[local] Arguments Qeq_bool : simpl never.
#[local] Arguments inject_Z : simpl never.
#[local] Arguments Z.of_nat : simpl never.
#[local] Arguments cmp_eval : simpl never.
#[local] Arguments numel : simpl never.
#[local] Arguments dec_any : simpl never.
#[local] Arguments dec_c : simpl never.
#[local] Arguments subscript : simpl never.

Lemma subscript_tupleW l i st :
  foreign_item (VTuple l) (VInt i) = false -> ((0 <=? i)%Z && (i <? Z.of_nat (List.length l))%Z)%bool = true ->
  subscript (VTuple l) (VInt i) st = Ok (nth (Z.to_nat i) l VNone) st.
Proof.
  intros Hf Hi. unfold subscript. rewrite Hf.
  apply andb_true_iff in Hi. destruct Hi as [H0 H1]. apply Z.leb_le in H0.
  replace (i <? 0)%Z with false by (symmetry; apply Z.ltb_ge; exact H0).
  now rewrite (proj2 (Z.leb_le 0 i) H0), H1.
Qed.

Lemma cmp_is_int_none z : cmp_eval Is (VInt z) VNone = Some false.  Proof. reflexivity. Qed.

Section ExtW2.
  Variable a : Model.arith.
  Variable spl : nat -> list val -> list Q.
  Variable gso : nat -> list val -> list val.
  Variable nested : string -> list val -> state -> option (outcome val).
  Notation ext := (ext_core a spl gso nested).

  Ltac ext_tac := unfold ext_core, operatorB, SrcRun.operator, shape_op; cbn;
    rewrite ?dec_B_f, ?dec_B_l, ?dec_any_enc_f, ?dec_any_enc_l; cbn; rewrite ?dec_any_enc_f, ?dec_any_enc_l; cbn; try reflexivity.

  Lemma extW_float_f t st : ext "$method.float" [enc_f t] [] st = Ok (enc_f (float_of_float a t)) st.
  Proof. ext_tac. Qed.
  Lemma extW_eps t st : ext "_get_tensor_eps" [enc_f t] [] st = Ok (VQ Model.eps32) st.
  Proof. ext_tac. Qed.
  Lemma extW_mul_ql (s : Q) t st : ext "operator" [VStr "mul"; VQ s; enc_l t] [] st = Ok (enc_f (mul_ls a t s)) st.
  Proof. ext_tac. Qed.
  Lemma extW_expand2 t (n m : nat) st :
    ext "$method.expand" [enc_f t; VInt (Z.of_nat n); VInt (Z.of_nat m)] [] st = ret_f "expand" (expand 0%Q t [n; m]) st.
  Proof. unfold ext_core, shape_op. cbn. rewrite !leb_0_of_nat. cbn. rewrite !Nat2Z.id, dec_B_f. reflexivity. Qed.

  Lemma extW_spline n k T c f x (o : Z) st :
    ext "polyharmonic_spline" [enc_f (mkTn [n; k; 1%nat] c); enc_f (mkTn [n; k; 1%nat] f); enc_f (mkTn [n; T; 1%nat] x); VInt o] [] st
    = Ok (enc_f (mkTn [n; T; 1%nat] (take 0%Q (n * T)
            (spl (List.length (events st)) [enc_f (mkTn [n; k; 1%nat] c); enc_f (mkTn [n; k; 1%nat] f); enc_f (mkTn [n; T; 1%nat] x); VInt o]))))
         (emit ("polyharmonic_spline", [enc_f (mkTn [n; k; 1%nat] c); enc_f (mkTn [n; k; 1%nat] f); enc_f (mkTn [n; T; 1%nat] x); VInt o]) st).
  Proof. unfold ext_core. cbn. rewrite !dec_any_enc_f. cbn. rewrite !Nat.eqb_refl. reflexivity. Qed.
End ExtW2.

Lemma unsqueeze_T2_m1 {X} n m (f : nat -> nat -> X) : unsqueeze (T2 n m f) (-1) = Some (T3 n m 1 (fun i j _ => f i j)).
Proof.
  unfold unsqueeze, T2, T3. cbn [shp dat length].
  change (wrap_dim 3 (-1)) with (Some 2%nat). cbn [firstn skipn app]. now rewrite tabl_tabl3_col.
Qed.

Lemma expand_row {X} (d : X) n m (q : nat -> X) : expand d (T2 1 m (fun _ j => q j)) [n; m] = Some (T2 n m (fun _ j => q j)).
Proof.
  unfold expand, T2. cbn [shp List.length Nat.eqb as3]. unfold exp_ok. cbn [Nat.eqb orb andb]. rewrite Nat.eqb_refl, orb_true_r. cbn [orb andb].
  f_equal. f_equal. unfold tabl3. cbn [seq flat_map dat]. rewrite app_nil_r. apply tabl_ext. intros j h Hj Hh.
  rewrite !bidx_one, (bidx_self m h Hh). unfold get3.
  change (nth ((0 * 1 + 0) * m + h) (tabl 1 m (fun _ j0 => q j0)) d) with (get2 d m (tabl 1 m (fun _ j0 => q j0)) 0 h).
  now rewrite get2_tabl by lia.
Qed.

Lemma squeeze_last {X} n m (d : list X) : squeeze (mkTn [n; m; 1%nat] d) (-1) = Some (mkTn [n; m] d).
Proof. reflexivity. Qed.

From PV Require Import C08.TieBApply.

Lemma body_splitW ext st : exec ext warp_body st = exec ext (SSeq warp_head (SSeq warp_knots warp_tail)) st.
Proof. unfold warp_body, warp_head, warp_knots, warp_tail. seq_norm. reflexivity. Qed.

Ltac extW2_rw := progress rewrite ?extB_device_f, ?extB_shape_f, ?extW_float_f, ?extW_eps, ?extW_mul_ql, ?extW_expand2,
  ?extB_arange_l, ?extB_unsqueeze_f, ?extB_squeeze_f.
Ltac opsW2_rw := progress (unfold float_of_float, mul_ls, arange_l;
  rewrite ?tmap_T1, ?unsqueeze_T2_m1, ?unsqueeze_T1_0, ?expand_row, ?squeeze_last; cbn [ret_f]).
#[local] Arguments expand : simpl never.
#[local] Arguments unsqueeze : simpl never.
#[local] Arguments squeeze : simpl never.
Ltac runV1 := first [ lookB | bin_stepB | extW_rw | extW2_rw | zeroW_rw | opsW_rw | opsW2_rw
                    | rewrite subscript_tupleW by reflexivity | rewrite cmp_is_int_none
                    | progress (change (Pos.to_nat 1) with 1%nat; change (Pos.to_nat 2) with 2%nat)
                    | progress istepB ].
Ltac runV := repeat runV1.
Ltac stmtV := erewrite exec_seq_okB; [ | solve [runV; reflexivity] ].

(* the query points (2.0 * arange(T) + 1.0) / T - 1.0 as coded *)
Definition wq (a : Model.arith) (T i : nat) : Q :=
  Model.r32 a (Model.r32 a (Model.r32 a (Model.r32 a (Model.r32 a (Model.z2q (Z.of_nat i)) * sc a (2 # 1)) + sc a (1 # 1))
                  / sc a (inject_Z (Z.of_nat T))) - sc a (1 # 1)).

Section Whole.
  Variable a : Model.arith.
  Variable spl : nat -> list val -> list Q.
  Variable gso : nat -> list val -> list val.
  Variable nested : string -> list val -> state -> option (outcome val).
  Notation ext := (ext_core a spl gso nested).
  Notation r32 := (Model.r32 a).

  Lemma headW_run N T (s fl L : nat -> Q) order ev :
    exists vs1,
      exec ext warp_head (mkState (warp_vars (enc_f (T1 N s)) (enc_f (T1 N fl)) (enc_f (T1 N L)) (Some (Z.of_nat T)) order) ev)
      = Ok CNormal (mkState vs1 ev)
      /\ lookup "src" vs1 = Some (enc_f (T1 N (fun n => r32 (s n)))) /\ lookup "flow" vs1 = Some (enc_f (T1 N (fun n => r32 (fl n))))
      /\ lookup "lengths" vs1 = Some (enc_f (T1 N (fun n => r32 (L n)))) /\ lookup "T" vs1 = Some (VInt (Z.of_nat T))
      /\ lookup "eps" vs1 = Some (VQ Model.eps32) /\ lookup "N" vs1 = Some (VInt (Z.of_nat N))
      /\ lookup "device" vs1 = Some device_token
      /\ lookup "torch" vs1 = Some (VDict [(VStr "float", float_token); (VStr "long", long_token)])
      /\ lookup "interpolation_order" vs1 = Some (VInt order).
  Proof.
    unfold warp_head, warp_vars, globalsB. eexists. split.
    - stmtV. stmtV. stmtV. stmtV. runV. reflexivity.
    - rewrite !vars_set_varW. cbn [vars]. repeat split; reflexivity.
  Qed.

  Definition spl_args (N T : nat) (ks kd : nat -> nat -> Q) (order : Z) : list val :=
    [enc_f (T3 N 3 1 (fun n j _ => kd n j)); enc_f (T3 N 3 1 (fun n j _ => ks n j));
     enc_f (T3 N T 1 (fun _ i _ => wq a T i)); VInt order].

  Lemma tailW_run vs ev N T ks kd order :
    lookup "src" vs = Some (enc_f (T2 N 3 ks)) -> lookup "dst" vs = Some (enc_f (T2 N 3 kd)) ->
    lookup "T" vs = Some (VInt (Z.of_nat T)) -> lookup "N" vs = Some (VInt (Z.of_nat N)) ->
    lookup "device" vs = Some device_token -> lookup "interpolation_order" vs = Some (VInt order) ->
    Qeq_bool (sc a (inject_Z (Z.of_nat T))) 0 = false ->
    exists vs', exec ext warp_tail (mkState vs ev)
      = Ok (CReturn (enc_f (mkTn [N; T] (take 0%Q (N * T) (spl (List.length ev) (spl_args N T ks kd order))))))
           (mkState vs' (ev ++ [("polyharmonic_spline", spl_args N T ks kd order)])).
  Proof.
    intros Hs Hd HT HN Hdev Ho Z2. unfold warp_tail, spl_args. eexists.
    stmtV. runV. unfold T3. rewrite extW_spline. runV. reflexivity.
  Qed.
End Whole.

Section Compose.
  Variable a : Model.arith.
  Variable spl : nat -> list val -> list Q.
  Variable gso : nat -> list val -> list val.
  Variable nested : string -> list val -> state -> option (outcome val).
  Notation r32 := (Model.r32 a).

  (* the knots of batch element n as the body computes them from the arguments (after .float()) *)
  Definition ks_of (T : nat) (s L : nat -> Q) (n j : nat) : Q :=
    nth j [wk_lo a T Model.eps32; wk_src a T (r32 (s n)) (r32 (L n)); wk_up a T Model.eps32 (r32 (L n))] 0%Q.
  Definition kd_of (T : nat) (s fl L : nat -> Q) (n j : nat) : Q :=
    nth j [wk_lo a T Model.eps32; wk_dst a T (r32 (s n)) (r32 (fl n)) (r32 (L n)); wk_up a T Model.eps32 (r32 (L n))] 0%Q.

  Theorem warp_run N T (s fl L : nat -> Q) order :
    Qeq_bool (inject_Z (Z.of_nat T)) 0 = false -> Qeq_bool (sc a (inject_Z (Z.of_nat T))) 0 = false ->
    exists st,
      Interp.run (ext_core a spl gso nested) warp_body
        (warp_vars (enc_f (T1 N s)) (enc_f (T1 N fl)) (enc_f (T1 N L)) (Some (Z.of_nat T)) order)
      = Ok (enc_f (mkTn [N; T] (take 0%Q (N * T) (spl 0%nat (spl_args a N T (ks_of T s L) (kd_of T s fl L) order))))) st
      /\ events st = [("polyharmonic_spline", spl_args a N T (ks_of T s L) (kd_of T s fl L) order)].
  Proof.
    intros Z1 Z2. unfold Interp.run. rewrite body_splitW.
    destruct (headW_run a spl gso nested N T s fl L order []) as [vs1 [E1 [Ls [Lf [LL [LT [Le [LN [Ld [Lt Lo]]]]]]]]]].
    rewrite (exec_seq_okB _ _ _ _ _ E1).
    destruct (knots_run a spl gso nested vs1 [] N T Model.eps32 _ _ _ Ls Lf LL LT Le LN Ld Lt Z1 Z2) as [vs2 [E2 [Ks [Kd K]]]].
    rewrite (exec_seq_okB _ _ _ _ _ E2).
    destruct (tailW_run a spl gso nested vs2 [] N T _ _ order Ks Kd) as [vs3 E3];
      try (rewrite K by reflexivity; assumption); [exact Z2|].
    rewrite E3. eexists. split; reflexivity.
  Qed.
End Compose.

(* exact arithmetic: the oracle is asked with Model.warp_knots and the query points coord T i *)
Lemma wq_model T i : (wq Model.exact T i == Model.coord (Z.of_nat T) (Model.z2q (Z.of_nat i)))%Q.
Proof.
  unfold wq, Model.coord, OpsC08.sc, Model.z2q. cbn [Model.r32 Model.exact].
  change (1 # 1)%Q with 1%Q. change (2 # 1)%Q with 2%Q. unfold Qdiv. ring.
Qed.

Theorem warp_run_exact : forall spl gso nested N T (s fl L : nat -> Q) order, T <> 0%nat ->
  exists st ks kd,
    Interp.run (ext_core Model.exact spl gso nested) warp_body
      (warp_vars (enc_f (T1 N s)) (enc_f (T1 N fl)) (enc_f (T1 N L)) (Some (Z.of_nat T)) order)
    = Ok (enc_f (mkTn [N; T] (take 0%Q (N * T) (spl 0%nat (spl_args Model.exact N T ks kd order))))) st
    /\ events st = [("polyharmonic_spline", spl_args Model.exact N T ks kd order)]
    /\ (forall n, let k := Model.warp_knots Model.eps32 (Z.of_nat T) (s n) (fl n) (L n) in
          (ks n 0%nat == Model.k_lo k /\ ks n 1%nat == Model.k_src k /\ ks n 2%nat == Model.k_up k
           /\ kd n 0%nat == Model.k_lo k /\ kd n 1%nat == Model.k_dst k /\ kd n 2%nat == Model.k_up k)%Q)
    /\ forall i, (wq Model.exact T i == Model.coord (Z.of_nat T) (Model.z2q (Z.of_nat i)))%Q.
Proof.
  intros spl gso nested N T s fl L order HT.
  destruct (warp_run Model.exact spl gso nested N T s fl L order (of_nat_nz T HT) (of_nat_nz T HT)) as [st [E Ev]].
  exists st, (ks_of Model.exact T s L), (kd_of Model.exact T s fl L). split; [exact E|]. split; [exact Ev|]. split.
  - intros n. cbv zeta. unfold ks_of, kd_of. cbn [nth Model.r32 Model.exact].
    destruct (wk_model Model.eps32 T (s n) (fl n) (L n)) as [A [B [C D]]]. repeat split; assumption.
  - intros i. apply wq_model.
Qed.
