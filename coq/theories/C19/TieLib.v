(* C19 tie - library: a statement sequence as a list, tensors inside the interpreter, and what each call
   of the translated bodies that reaches [ext19] answers on encoded tensors.  No new definitions of meaning. *)
From Coq Require Import ZArith QArith List String Bool Arith Lia.
From PV Require Import MiniPy.Syntax MiniPy.Interp MiniPy.Lemmas.
From PV Require Import MiniTorch.Ops MiniTorch.Value MiniTorch.Lemmas MiniTorch.OpsC19 MiniTorch.LemmasC19.
From PV Require Import C19.SrcRun.
Import ListNotations.
Local Open Scope string_scope.

(* ---- SSeq trees as lists of statements -------------------------------------------------------------- *)
Fixpoint flatten_seq (s : stmt) : list stmt :=
  match s with SSeq a b => flatten_seq a ++ flatten_seq b | _ => [s] end.

Section ExecList.
  Variable ext : string -> list val -> list (string * val) -> state -> outcome val.

  Fixpoint exec_list (l : list stmt) (st : state) : outcome ctl :=
    match l with
    | [] => Ok CNormal st
    | s :: r => bind (exec ext s st) (fun c st1 => match c with CNormal => exec_list r st1 | CReturn v => Ok c st1 end)
    end.

  Lemma exec_list_app : forall a b st,
    exec_list (a ++ b) st =
    bind (exec_list a st) (fun c st1 => match c with CNormal => exec_list b st1 | CReturn v => Ok c st1 end).
  Proof.
    induction a as [|s a IH]; intros b st; [reflexivity|].
    cbn [app exec_list]. destruct (exec ext s st) as [c st1|n st1|w]; cbn [bind]; try reflexivity.
    destruct c; [apply IH|reflexivity].
  Qed.

  Lemma exec_list_one : forall s st, exec_list [s] st = exec ext s st.
  Proof.
    intros. cbn [exec_list]. destruct (exec ext s st) as [c st1|n st1|w]; cbn [bind]; try reflexivity.
    destruct c; reflexivity.
  Qed.

  Lemma exec_flatten : forall s st, exec ext s st = exec_list (flatten_seq s) st.
  Proof.
    induction s; intros st; try (symmetry; apply exec_list_one).
    cbn [flatten_seq]. rewrite exec_list_app, <- IHs1. cbn [exec].
    destruct (exec ext s1 st) as [c st1|n st1|w]; cbn [bind]; try reflexivity.
    destruct c; [apply IHs2|reflexivity].
  Qed.

  Lemma exec_list_nil : forall st, exec_list [] st = Ok CNormal st.
  Proof. reflexivity. Qed.

  Lemma exec_list_cons_ok : forall s r st st1,
    exec ext s st = Ok CNormal st1 -> exec_list (s :: r) st = exec_list r st1.
  Proof. intros. cbn [exec_list]. now rewrite H. Qed.

  Lemma exec_list_cons_exc : forall s r st n st1, exec ext s st = Exc n st1 -> exec_list (s :: r) st = Exc n st1.
  Proof. intros. cbn [exec_list]. now rewrite H. Qed.

  Lemma exec_list_cons_ret : forall s r st v st1,
    exec ext s st = Ok (CReturn v) st1 -> exec_list (s :: r) st = Ok (CReturn v) st1.
  Proof. intros. cbn [exec_list]. now rewrite H. Qed.

  Lemma run_flatten : forall s vars0,
    Interp.run ext s vars0 =
    match exec_list (flatten_seq s) (mkState vars0 []) with
    | Ok CNormal st => Ok VNone st
    | Ok (CReturn v) st => Ok v st
    | Exc n st => Exc n st
    | Stuck w => Stuck w
    end.
  Proof. intros. unfold Interp.run. now rewrite exec_flatten. Qed.
End ExecList.

(* ---- tensors inside the interpreter ------------------------------------------------------------------
   [tv sh d] is [enc (mkTens sh d)] with its constructor visible (the interpreter's matches on a value decide
   by computation) and its two lists opaque to cbn. *)
Definition enc_sh (sh : list nat) : list val := map (fun n => VInt (Z.of_nat n)) sh.
Definition enc_dat (d : list Q) : list val := map VQ d.
Notation tv sh d := (VTuple [VStr "$tensor"; VList (enc_sh sh); VList (enc_dat d)]).

Lemma enc_tv : forall sh d, enc (mkTens sh d) = tv sh d.
Proof. reflexivity. Qed.

Lemma dec_tv : forall sh d, dec (tv sh d) = Some (mkTens sh d).
Proof. intros. rewrite <- enc_tv. apply dec_enc. Qed.

Lemma dec_nats_enc_sh : forall sh, dec_nats (enc_sh sh) = Some sh.
Proof. apply dec_nats_enc. Qed.

Lemma dec_size_enc : forall sh, dec_size (enc_size sh) = Some sh.
Proof. intros. apply dec_nats_enc. Qed.

Lemma dec_enc_size : forall sh, dec (enc_size sh) = None.
Proof.
  intros [|a [|b [|c [|e sh]]]]; reflexivity.
Qed.

Lemma scalar_enc_size : forall sh, scalar (enc_size sh) = None.
Proof. reflexivity. Qed.

Lemma ztens_tv : forall sh zs, enc (ztens sh zs) = tv sh (map inject_Z zs).
Proof. reflexivity. Qed.

(* a torch.Size inside the interpreter: [enc_size sh] with its constructor visible *)
Notation sv sh := (VTuple (enc_sh sh)).

Lemma enc_size_sv : forall sh, enc_size sh = sv sh.
Proof. reflexivity. Qed.

Lemma dec_sv : forall sh, dec (sv sh) = None.
Proof. apply dec_enc_size. Qed.

Lemma dec_size_sv : forall sh, dec_size (sv sh) = Some sh.
Proof. apply dec_size_enc. Qed.

(* ---- what the calls answer on encoded tensors ---------------------------------------------------------- *)
Section Ext.
  Variables (orc : oracle) (junk : nat -> Q).
  Notation ext := (ext19 orc junk).

  #[local] Arguments dec : simpl never.
  #[local] Arguments enc_sh : simpl never.
  #[local] Arguments enc_dat : simpl never.
  #[local] Arguments dec_size : simpl never.

  Ltac ext_eq := intros; unfold ext19; cbn; rewrite ?dec_tv, ?dec_sv, ?dec_size_sv; cbn.

  Lemma E_max : forall sh d m st, max_all (mkTens sh d) = Some m ->
    ext "$method.max" [tv sh d] [] st = Ok (tv [] [m]) st.
  Proof. ext_eq. now rewrite H. Qed.

  Lemma E_max_empty : forall sh st, ext "$method.max" [tv sh []] [] st = Exc runtime_error st.
  Proof. ext_eq. reflexivity. Qed.

  Lemma E_item : forall sh q st, ext "$method.item" [tv sh [q]] [] st = Ok (VQ q) st.
  Proof. ext_eq. reflexivity. Qed.

  Lemma E_int : forall q st, ext "int" [VQ q] [] st = Ok (VInt (int_of_q q)) st.
  Proof. ext_eq. reflexivity. Qed.

  Lemma E_bcast : forall s1 d1 s2 d2 s1' d1' s2' d2' st,
    broadcast_pair (mkTens s1 d1) (mkTens s2 d2) = Some (mkTens s1' d1', mkTens s2' d2') ->
    ext "torch.broadcast_tensors" [tv s1 d1; tv s2 d2] [] st = Ok (VTuple [tv s1' d1'; tv s2' d2']) st.
  Proof. ext_eq. now rewrite H. Qed.

  Lemma E_gt : forall sh a b st,
    ext "compare" [VStr "gt"; tv sh a; tv sh b] [] st = Ok (tv sh (map2 (fun x y => qbool (q_gt x y)) a b)) st.
  Proof. ext_eq. unfold ext_compare. rewrite !dec_tv. cbn. unfold cmp_t. cbn. now rewrite shape_eqb_refl. Qed.

  Lemma E_any : forall sh d st, ext "$method.any" [tv sh d] [] st = Ok (VBool (existsb qtrue d)) st.
  Proof. ext_eq. reflexivity. Qed.

  Lemma E_Size : forall o st, (0 <= o)%Z -> ext "torch.Size" [VList [VInt o]] [] st = Ok (sv [Z.to_nat o]) st.
  Proof.
    ext_eq. replace (0 <=? o)%Z with true by (symmetry; now apply Z.leb_le). cbn.
    unfold enc_size, enc_sh. cbn [map]. now rewrite Z2Nat.id.
  Qed.

  Lemma E_shape : forall sh d st, ext "$attr.shape" [tv sh d] [] st = Ok (sv sh) st.
  Proof. ext_eq. reflexivity. Qed.

  Lemma E_add_size : forall a b st, ext "operator" [VStr "add"; sv a; sv b] [] st = Ok (sv (a ++ b)) st.
  Proof. ext_eq. unfold ext_operator. rewrite !dec_sv, !dec_size_sv. reflexivity. Qed.

  Lemma E_device : forall sh d st, ext "$attr.device" [tv sh d] [] st = Ok device_token st.
  Proof. ext_eq. reflexivity. Qed.

  Lemma E_empty_dev : forall sh st,
    ext "torch.empty" [sv sh] [("device", device_token)] st = Ok (tv sh (map junk (seq 0 (numel sh)))) st.
  Proof. ext_eq. reflexivity. Qed.

  Lemma E_clamp_min : forall sh d c st,
    ext "$method.clamp_min" [tv sh d; VInt c] [] st = Ok (tv sh (map (qmax (inject_Z c)) d)) st.
  Proof. ext_eq. reflexivity. Qed.

  Lemma E_clamp_min_ : forall sh d c st,
    ext "$method.clamp_min_" [tv sh d; VInt c] [] st = Ok (tv sh (map (qmax (inject_Z c)) d)) st.
  Proof. ext_eq. reflexivity. Qed.

  Lemma E_truediv : forall sh a b st, existsb (fun q => Qeq_bool q 0) b = false ->
    ext "operator" [VStr "truediv"; tv sh a; tv sh b] [] st = Ok (tv sh (map2 (fun x y => Qred (x / y)) a b)) st.
  Proof.
    ext_eq. unfold ext_operator. rewrite !dec_tv. cbn. unfold div_t, zip2. cbn. now rewrite H, shape_eqb_refl.
  Qed.

  Lemma E_bern : forall sh p st,
    ext "torch.bernoulli" [tv sh p] [] st =
    Ok (tv sh (map (fun i => qbool (orc (List.length (events st)) p i)) (seq 0 (List.length p))))
       (emit ("torch.bernoulli", [tv sh p]) st).
  Proof. ext_eq. reflexivity. Qed.

  Lemma E_setrow : forall n sh D t v st, (0 <= t < Z.of_nat n)%Z ->
    ext "$setitem" [tv (n :: sh) D; VInt t; tv sh v] [] st =
    Ok (tv (n :: sh) (firstn (Z.to_nat t * numel sh) D ++ v ++ skipn (S (Z.to_nat t) * numel sh) D)) st.
  Proof.
    ext_eq. unfold ext_setitem. rewrite !dec_tv. cbn. unfold set_row. cbn [tshape tdata].
    replace (0 <=? t)%Z with true by (symmetry; apply Z.leb_le; lia).
    replace (t <? Z.of_nat n)%Z with true by (symmetry; apply Z.ltb_lt; lia).
    rewrite shape_eqb_refl. reflexivity.
  Qed.

  Lemma E_sub_tt : forall sh a b st,
    ext "operator" [VStr "sub"; tv sh a; tv sh b] [] st = Ok (tv sh (map2 (fun x y => Qred (x - y)) a b)) st.
  Proof. ext_eq. unfold ext_operator. rewrite !dec_tv. cbn. unfold zip2. cbn. now rewrite shape_eqb_refl. Qed.

  Lemma E_sub_ts : forall sh a c st,
    ext "operator" [VStr "sub"; tv sh a; VInt c] [] st = Ok (tv sh (map (fun v => Qred (v - inject_Z c)) a)) st.
  Proof. ext_eq. unfold ext_operator. rewrite !dec_tv. reflexivity. Qed.

  Lemma E_numel : forall sh d st, ext "$method.numel" [tv sh d] [] st = Ok (VInt (Z.of_nat (numel sh))) st.
  Proof. ext_eq. reflexivity. Qed.

  Lemma E_view2 : forall sh D a b st, (0 <= a)%Z -> (0 <= b)%Z -> (Z.to_nat a * Z.to_nat b)%nat = List.length D ->
    ext "$method.view" [tv sh D; VInt a; VInt b] [] st = Ok (tv [Z.to_nat a; Z.to_nat b] D) st.
  Proof.
    ext_eq. replace (0 <=? a)%Z with true by (symmetry; now apply Z.leb_le).
    replace (0 <=? b)%Z with true by (symmetry; now apply Z.leb_le). cbn.
    unfold view. cbn [tdata numel fold_right]. rewrite Nat.mul_1_r, H1, Nat.eqb_refl. reflexivity.
  Qed.

  Lemma E_T : forall n m D st,
    ext "$attr.T" [tv [n; m] D] [] st = Ok (tv [m; n] (tdata (tab2 m n (fun i j => nth (j * m + i) D 0%Q)))) st.
  Proof. ext_eq. reflexivity. Qed.

  Lemma E_view_sz : forall sh D sh' st, numel sh' = List.length D ->
    ext "$method.view" [tv sh D; sv sh'] [] st = Ok (tv sh' D) st.
  Proof.
    ext_eq. unfold view. cbn [tdata]. rewrite H, Nat.eqb_refl. reflexivity.
  Qed.

  (* ---- binomial_coefficient ------------------------------------------------------------------------------------ *)
  Lemma dec_int : forall c, dec (VInt c) = None.
  Proof. reflexivity. Qed.

  Lemma dec_pair_key : forall r s, dec (VTuple [VInt r; s]) = None.
  Proof. reflexivity. Qed.

  Lemma dec_ell_key : forall c, dec (VTuple [ellipsis_v; VInt c]) = None.
  Proof. reflexivity. Qed.

  Lemma E_lt_s : forall sh a c st,
    ext "compare" [VStr "lt"; tv sh a; VInt c] [] st = Ok (tv sh (map (fun v => qbool (q_lt v (inject_Z c))) a)) st.
  Proof. ext_eq. unfold ext_compare. rewrite dec_tv, dec_int. reflexivity. Qed.

  Lemma E_eq_s : forall sh a c st,
    ext "compare" [VStr "eq"; tv sh a; VInt c] [] st = Ok (tv sh (map (fun v => qbool (Qeq_bool v (inject_Z c))) a)) st.
  Proof. ext_eq. unfold ext_compare. rewrite dec_tv, dec_int. reflexivity. Qed.

  Lemma E_or : forall sh a b st,
    ext "operator" [VStr "or"; tv sh a; tv sh b] [] st = Ok (tv sh (map2 (fun x y => qbool (qtrue x || qtrue y)) a b)) st.
  Proof. ext_eq. unfold ext_operator. rewrite !dec_tv. cbn. unfold or_t. cbn. now rewrite shape_eqb_refl. Qed.

  Lemma E_empty2 : forall a b st, (0 <= a)%Z -> (0 <= b)%Z ->
    ext "torch.empty" [VTuple [VInt a; VInt b]] [("device", device_token); ("dtype", long_token)] st =
    Ok (tv [Z.to_nat a; Z.to_nat b] (map junk (seq 0 (numel [Z.to_nat a; Z.to_nat b])))) st.
  Proof.
    intros. unfold ext19. cbn. unfold dec_size. cbn.
    replace (0 <=? a)%Z with true by (symmetry; now apply Z.leb_le).
    replace (0 <=? b)%Z with true by (symmetry; now apply Z.leb_le). reflexivity.
  Qed.

  Lemma E_setcol0 : forall n m D c st,
    ext "$setitem" [tv [n; S m] D; VTuple [ellipsis_v; VInt 0]; VInt c] [] st =
    Ok (tv [n; S m] (flat_map (fun r => inject_Z c :: tl r) (rows_of n (S m) D))) st.
  Proof. ext_eq. unfold ext_setitem. rewrite dec_tv. reflexivity. Qed.

  Lemma E_setrow_s : forall n sh D t c st, (0 <= t < Z.of_nat n)%Z ->
    ext "$setitem" [tv (n :: sh) D; VInt t; VInt c] [] st =
    Ok (tv (n :: sh) (firstn (Z.to_nat t * numel sh) D ++ repeat (inject_Z c) (numel sh) ++ skipn (S (Z.to_nat t) * numel sh) D)) st.
  Proof.
    ext_eq. unfold ext_setitem. rewrite dec_tv, dec_int. cbn. unfold set_row_s. cbn [tshape tdata].
    replace (0 <=? t)%Z with true by (symmetry; apply Z.leb_le; lia).
    replace (t <? Z.of_nat n)%Z with true by (symmetry; apply Z.ltb_lt; lia). reflexivity.
  Qed.

  Lemma E_getrow : forall n m D r st, (0 <= r < Z.of_nat n)%Z ->
    ext "$getitem" [tv [n; S m] D; VTuple [VInt r; slice_v VNone (VInt (-1)) VNone]] [] st =
    Ok (tv [m] (firstn m (skipn (Z.to_nat r * S m) D))) st.
  Proof.
    ext_eq. unfold ext_getitem. rewrite dec_tv, dec_pair_key. cbn. unfold row_but_last. cbn [tshape tdata].
    replace (0 <=? r)%Z with true by (symmetry; apply Z.leb_le; lia).
    replace (r <? Z.of_nat n)%Z with true by (symmetry; apply Z.ltb_lt; lia). reflexivity.
  Qed.

  Lemma E_cumsum : forall m d st, ext "$method.cumsum" [tv [m] d; VInt 0] [] st = Ok (tv [m] (cumsum_from 0 d)) st.
  Proof. ext_eq. reflexivity. Qed.

  Lemma E_cumprod : forall m d st, ext "$method.cumprod" [tv [m] d; VInt 0] [] st = Ok (tv [m] (cumprod_from 1 d)) st.
  Proof. ext_eq. reflexivity. Qed.

  Lemma E_setrow_from1 : forall n m D r v st, (0 <= r < Z.of_nat n)%Z ->
    ext "$setitem" [tv [n; S m] D; VTuple [VInt r; slice_v (VInt 1) VNone VNone]; tv [m] v] [] st =
    Ok (tv [n; S m] (firstn (Z.to_nat r * S m + 1) D ++ v ++ skipn (S (Z.to_nat r) * S m) D)) st.
  Proof.
    ext_eq. unfold ext_setitem. rewrite !dec_tv. cbn. unfold set_row_from1. cbn [tshape tdata].
    replace (0 <=? r)%Z with true by (symmetry; apply Z.leb_le; lia).
    replace (r <? Z.of_nat n)%Z with true by (symmetry; apply Z.ltb_lt; lia). rewrite Nat.eqb_refl. reflexivity.
  Qed.

  Lemma E_flatten : forall sh D st, ext "$method.flatten" [tv sh D] [] st = Ok (tv [List.length D] D) st.
  Proof. ext_eq. reflexivity. Qed.

  Lemma E_mul_ts : forall sh a c st,
    ext "operator" [VStr "mul"; tv sh a; VInt c] [] st = Ok (tv sh (map (fun v => Qred (v * inject_Z c)) a)) st.
  Proof. ext_eq. unfold ext_operator. rewrite dec_tv, dec_int. reflexivity. Qed.

  Lemma E_add_tt : forall sh a b st,
    ext "operator" [VStr "add"; tv sh a; tv sh b] [] st = Ok (tv sh (map2 (fun x y => Qred (x + y)) a b)) st.
  Proof. ext_eq. unfold ext_operator. rewrite !dec_tv. cbn. unfold zip2. cbn. now rewrite shape_eqb_refl. Qed.

  Lemma E_mul_tt : forall sh a b st,
    ext "operator" [VStr "mul"; tv sh a; tv sh b] [] st = Ok (tv sh (map2 (fun x y => Qred (x * y)) a b)) st.
  Proof. ext_eq. unfold ext_operator. rewrite !dec_tv. cbn. unfold zip2. cbn. now rewrite shape_eqb_refl. Qed.

  Lemma E_gather : forall n X sh I G st, gather (mkTens [n] X) (mkTens sh I) = Some (mkTens sh G) ->
    ext "$getitem" [tv [n] X; tv sh I] [] st = Ok (tv sh G) st.
  Proof. ext_eq. unfold ext_getitem. rewrite !dec_tv. cbv beta iota. now rewrite H. Qed.

  Lemma E_clamp_max : forall sh d c st,
    ext "$method.clamp_max" [tv sh d; VInt c] [] st = Ok (tv sh (map (qmin (inject_Z c)) d)) st.
  Proof. ext_eq. reflexivity. Qed.

  Lemma E_arange_dev : forall n st, (0 <= n)%Z ->
    ext "torch.arange" [VInt n] [("device", device_token)] st =
    Ok (tv [Z.to_nat n] (map (fun i => inject_Z (Z.of_nat i)) (seq 0 (Z.to_nat n)))) st.
  Proof.
    intros. unfold ext19. cbn. unfold arange. replace (n <? 0)%Z with false by (symmetry; apply Z.ltb_ge; lia). reflexivity.
  Qed.

  Lemma E_trunc : forall sh a b c st, trunc_div (mkTens sh a) (mkTens sh b) = Some (mkTens sh c) ->
    ext "trunc_divide" [tv sh a; tv sh b] [] st = Ok (tv sh c) st.
  Proof. ext_eq. unfold on_tens2. rewrite !dec_tv. cbv beta iota. now rewrite H. Qed.

  Lemma E_masked_fill : forall sh x m c st,
    ext "$method!.masked_fill_" [tv sh x; tv sh m; VInt c] [] st =
    Ok (tv sh (map2 (fun v mk => if qtrue mk then inject_Z c else v) x m)) st.
  Proof. ext_eq. unfold masked_fill. cbn. now rewrite shape_eqb_refl. Qed.
End Ext.
