(* C12 — lemmas, part 3: concrete witnesses for the deviations the faithful model contains,
   and the command-line entry point. *)
From Coq Require Import List ZArith Bool Lia.
From Coq Require Import ZifyBool ZifyNat.
From PV Require Import C12.Model C12.Spec C12.Proofs C12.Proofs2.
Import ListNotations.
Local Open Scope Z_scope.

(* ---------------------------------------------------------------- F9: fix + configured symbols *)

Definition w_feat := mkFeat false DF32 [3%nat; 2%nat].
Definition w_f9_dir : dir := [mkUtt w_feat None (Some (mkRef false DI64 (R2 [(1, 0, 4)])))].
Definition w_f9_cfg := mkCfg (Some 7) None false false.
Definition w_f9_after : dir := [mkUtt w_feat None (Some (mkRef false DI64 (R2 [(7, -1, -1); (1, 0, 3)])))].

Lemma fix_with_symbols_refuted :
  exists c d d', plain_yield c /\ syms_nonneg c /\ tokens_nonneg d /\
    validate c (FInt 1) d = (d', None) /\ d' <> repair (Some 1) d /\
    (* the symbol is now on disk, and the next read doubles it *)
    (exists r lr, nth_error d' 0 = Some (mkUtt w_feat None (Some r)) /\ load_ref c r = inr lr /\
                  r_data lr = R2 [(7, -1, -1); (7, -1, -1); (1, 0, 3)]).
Proof.
  exists w_f9_cfg, w_f9_dir, w_f9_after.
  split; [split; reflexivity|]. split; [split; intros s H; inversion H; lia|].
  split; [constructor; [|constructor]; intros r H; inversion H; subst; cbn; constructor; [lia|constructor]|].
  split; [reflexivity|]. split; [discriminate|].
  eexists _, _. split; [reflexivity|]. split; reflexivity.
Qed.

(* ---------------------------------------------------------------- F11: tokens_only hides the boundaries *)

Definition w_f11_dir : dir := [mkUtt w_feat None (Some (mkRef false DI32 (R2 [(1, 3, 1)])))].
Definition w_f11_cfg := mkCfg None None true false.

Lemma tokens_only_refuted :
  exists c d d', c_tokens_only c = true /\ tokens_nonneg d /\
    ~ WellFormed (repair (Some 0) d) /\
    validate c (FInt 0) d = (d', None) /\
    d' = [mkUtt w_feat None (Some (mkRef false DI64 (R1 [1])))].
Proof.
  exists w_f11_cfg, w_f11_dir, [mkUtt w_feat None (Some (mkRef false DI64 (R1 [1])))].
  split; [reflexivity|].
  split; [constructor; [|constructor]; intros r H; inversion H; subst; cbn; constructor; [lia|constructor]|].
  split; [|split; reflexivity].
  intro H. apply wellformedb_iff in H. discriminate.
Qed.

(* ---------------------------------------------------------------- F12: --fix 0 does not validate *)

Definition w_f12_dir : dir :=
  [mkUtt w_feat (Some (mkAli false DI32 (A1 [0; 0; 1]))) None].

Lemma cli_fix0_refuted :
  exists d p, ~ WellFormed d /\ WellFormed (repair (Some 0) d) /\
    cli_info false (Some 0) d = (d, inr p) /\
    (* whereas tolerance 0 through the Python entry point repairs it *)
    validate cfg_plain (FInt 0) d = (repair (Some 0) d, None).
Proof.
  exists w_f12_dir. eexists.
  split; [intro H; apply wellformedb_iff in H; discriminate|].
  split; [apply wellformedb_iff; reflexivity|].
  split; reflexivity.
Qed.

(* ---------------------------------------------------------------- F13, F14: the two statistics that are not the recount *)

Lemma info_total_tokens_refuted :
  exists d p, WellFormed d /\ cli_info true None d = (d, inr p) /\
    p_total_tokens p = -1 /\ p_total_tokens (recount d) = 0.
Proof.
  exists [mkUtt w_feat None (Some (mkRef false DI64 (R1 [])))]. eexists.
  split; [apply wellformedb_iff; reflexivity|]. repeat split.
Qed.

Lemma info_rcount_refuted :
  exists d p, WellFormed d /\ cli_info true None d = (d, inr p) /\
    map fst (p_ref_tab p) = [-1; -1] /\ map fst (p_ref_tab (recount d)) = [-1; 2].
Proof.
  exists [mkUtt w_feat None (Some (mkRef false DI64 (R2 [(1, 0, 2); (1, 3, 3)])))]. eexists.
  split; [apply wellformedb_iff; reflexivity|]. repeat split.
Qed.
