"""C02 source tie, harness side: the translated Python text of `_string_matching` in the configuration `error_rate`
calls it with (return_mistakes=True: the parallel `mistakes` table, the in-place deletion loop) and of the wrapper
`error_rate` itself, interpreted inside Coq (PV.C02.SrcRun.src_error_rate_check: blocks in sequence, whole body, wrapper)
on the error_rate cases of the run, against the implementation's output.  Validates the translator, MiniPy's
semantics, ext02 (= C01's ext01 + OpsC02) and the MiniTorch definitions against CPython + torch on every run;
independent of whether the tie lemmas (coq/theories/C02/Tie*.v) still compile."""
import time

from vlib import cl, cn, cz, coq_eval_bools
from props import c01 as base

IMPORTS_SRC = "From PV Require Import C01.Obs C01.Model C02.Model.\nFrom PV Require C02.SrcRun.\n"
SRC_TIE_SAMPLE = 1500
SRC_THEOREMS = ["c02_source_loop_body_is_step_rm", "c02_source_loop_is_rm_loop", "c02_source_error_rate_is_model",
                "c02_source_string_matching_is_model", "c02_source_error_rate_wrapper_is_model",
                "c02_source_src_er_is_model", "c02_source_error_rate_counts_optimal_alignment",
                "c02_source_error_rate_normalised"]


def _eligible(c02, case, out):
    """error_rate calls whose costs are exact rationals k/scale in float32 (dyadic scale: the implementation's float32
    arithmetic is exact, so its tie-breaking is the one of exact arithmetic) and whose tensors are small enough for the
    interpreter"""
    if case["api"] != "er" or case.get("slow") or case.get("long"):
        return False
    if ("exc" in out or out["val"] == "nonfinite" or not c02._shape_ok(case, out) or out["dtype"] != "torch.float32"
            or "unstable" in out):
        return False
    e = c02._eff(case)
    N, R, H = base._dims(case)
    sc = c02._scale(e)
    return sc & (sc - 1) == 0 and R <= 12 and H <= 12


def src_term(c02, case, out):
    e = c02._eff(case)
    N, R, H = base._dims(case)
    ref, hyp = base._mat(case["ref"], R, e["batch_first"]), base._mat(case["hyp"], H, e["batch_first"])
    obs = cl([base._q(x) for x in out["val"]])
    return f"SrcRun.src_error_rate_check {base._cfg(e)} {cz(c02._scale(e))} {cn(N)} {ref} {hyp} {obs}"


def source_tie(chk, cases, outs):
    from vlib import CoqError
    from props import c02
    idx = [i for i, (c, o) in enumerate(zip(cases, outs)) if _eligible(c02, c, o)]
    if len(idx) > SRC_TIE_SAMPLE:  # evenly spaced over the streams
        step = len(idx) / SRC_TIE_SAMPLE
        idx = [idx[int(j * step)] for j in range(SRC_TIE_SAMPLE)]
    chk.extra["source_tie"] = {
        "unit": "C02Src (harness/py2coq/units/C02Src.json)", "coq": "PV.C02.SrcRun / PV.C02.Tie*",
        "what": "_string_matching with return_mistakes=True (blocks, whole body) and the wrapper error_rate",
        "theorems": SRC_THEOREMS}
    if not idx:
        chk.extra["source_tie_run"] = {"cases": 0, "disagreements": 0}
        return
    t0 = time.time()
    try:
        res = coq_eval_bools(chk.workdir, IMPORTS_SRC, [src_term(c02, cases[i], outs[i]) for i in idx], shard=24, tag="src")
    except CoqError as e:
        chk.extra["source_tie_run"] = "not evaluated: " + str(e)[-400:]
        return
    bad = [idx[j] for j, ok in enumerate(res) if not ok]
    effs = {i: c02._eff(cases[i]) for i in idx}
    chk.extra["source_tie_run"] = {
        "cases": len(idx), "disagreements": len(bad), "wall_s": round(time.time() - t0, 1),
        "with_eos": sum(1 for i in idx if cases[i]["eos"] is not None),
        "include_eos": sum(1 for i in idx if effs[i]["include_eos"]), "norm": sum(1 for i in idx if effs[i]["norm"]),
        "batch_first": sum(1 for i in idx if effs[i]["batch_first"]),
        "uniform_costs": sum(1 for i in idx if len(set(effs[i]["costs"])) == 1),
        "zero_width": sum(1 for i in idx if 0 in base._dims(cases[i])[1:]),
        "max_R": max(base._dims(cases[i])[1] for i in idx), "max_H": max(base._dims(cases[i])[2] for i in idx)}
    chk.count("source_tie_cases", len(idx))
    if bad:
        i = bad[0]
        chk.report({"case": cases[i], "impl": outs[i],
                    "what": "the Python source of _string_matching (return_mistakes=True) / error_rate as translated to MiniPy "
                            "and interpreted in Coq (PV.C02.SrcRun.src_error_rate_check, torch calls = PV.MiniTorch.OpsC01/"
                            "OpsC02/OpsC07) does not reproduce the implementation's output: translator / interpreter / ext02 / "
                            "MiniTorch no longer describe the code",
                    "disagreeing_cases": len(bad),
                    "correspondence": "tie:C02:py2coq+MiniPy.Interp+MiniTorch:_string_matching(return_mistakes)",
                    "theorems_at_stake": SRC_THEOREMS}, no_failing_input=True)


# ---- second tie: minimum_error_rate_loss (unit C02BSrc, PV.C02.SrcRunB / TieB*) ----------------------------------------
IMPORTS_SRCB = "From PV Require Import C01.Obs C01.Model C02.Model.\nFrom PV Require C02.SrcRunB.\n"
SRCB_TIE_SAMPLE = 1500
SRCB_THEOREMS = ["c02_source_mer_loss_is_model", "c02_source_mer_loss_blocks_is_model", "c02_source_mer_loss_too_few_samples",
                 "c02_source_mer_loss_entries"]


def _eligibleB(c02, case, out):
    """minimum_error_rate_loss calls whose costs are exact rationals k/scale in float32 (dyadic scale, as for error_rate)
    and whose observation the correspondence itself accepts as an observation (a loss of the expected shape, or the
    RuntimeError of a malformed call)"""
    if case["api"] != "mer" or case.get("slow") or case.get("long"):
        return False
    if c02._obs_mer(case, out) is None:
        return False
    sc = c02._scale(c02._eff(case))
    N, M, R, H = c02._mdims(case)
    return sc & (sc - 1) == 0 and R <= 12 and H <= 12 and N * M <= 24


def src_termB(c02, case, out):
    """SrcRunB.src_mer_check: the arguments of Model.check_mer with the denominator of the costs after the configuration"""
    from vlib import cq
    e = c02._eff(case)
    args = c02._mer_args(case)
    cfg = base._cfg(e)
    assert args.startswith(cfg + " ")
    return f"SrcRunB.src_mer_check {cfg} {cz(c02._scale(e))} {args[len(cfg) + 1:]} {cq(c02.TOL)} {c02._obs_mer(case, out)}"


def source_tieB(chk, cases, outs):
    from vlib import CoqError
    from props import c02
    idx = [i for i, (c, o) in enumerate(zip(cases, outs)) if _eligibleB(c02, c, o)]
    if len(idx) > SRCB_TIE_SAMPLE:
        step = len(idx) / SRCB_TIE_SAMPLE
        idx = [idx[int(j * step)] for j in range(SRCB_TIE_SAMPLE)]
    chk.extra["source_tie_B"] = {
        "unit": "C02BSrc (harness/py2coq/units/C02BSrc.json)", "coq": "PV.C02.SrcRunB / PV.C02.TieB*",
        "what": "minimum_error_rate_loss (blocks mer_pre; mer_tail and the whole body), calling the translated error_rate / "
                "_string_matching of unit C02Src; softmax(log_probs, 1) is an oracle (the weights of the correspondence)",
        "theorems": SRCB_THEOREMS}
    if not idx:
        chk.extra["source_tie_B_run"] = {"cases": 0, "disagreements": 0}
        return
    t0 = time.time()
    try:
        res = coq_eval_bools(chk.workdir, IMPORTS_SRCB, [src_termB(c02, cases[i], outs[i]) for i in idx], shard=24, tag="srcB")
    except CoqError as e:
        chk.extra["source_tie_B_run"] = "not evaluated: " + str(e)[-400:]
        return
    bad = [idx[j] for j, ok in enumerate(res) if not ok]
    effs = {i: c02._eff(cases[i]) for i in idx}
    chk.extra["source_tie_B_run"] = {
        "cases": len(idx), "disagreements": len(bad), "wall_s": round(time.time() - t0, 1),
        "ref_3d": sum(1 for i in idx if cases[i]["ref3"]), "batch_first": sum(1 for i in idx if effs[i]["batch_first"]),
        "sub_avg": sum(1 for i in idx if effs[i]["sub_avg"]),
        "reduction": {r: sum(1 for i in idx if effs[i]["reduction"] == r) for r in ("mean", "sum", "none")},
        "too_few_samples(RuntimeError)": sum(1 for i in idx if "exc" in outs[i]),
        "with_eos": sum(1 for i in idx if cases[i]["eos"] is not None), "norm": sum(1 for i in idx if effs[i]["norm"]),
        "uniform_costs": sum(1 for i in idx if len(set(effs[i]["costs"])) == 1),
        "max_NM": max(c02._mdims(cases[i])[0] * c02._mdims(cases[i])[1] for i in idx)}
    chk.count("source_tie_B_cases", len(idx))
    if bad:
        i = bad[0]
        chk.report({"case": cases[i], "impl": outs[i],
                    "what": "the Python source of minimum_error_rate_loss as translated to MiniPy and interpreted in Coq "
                            "(PV.C02.SrcRunB.src_mer_check, torch calls = PV.MiniTorch.OpsC02B + those of the first C02 tie, "
                            "softmax = the correspondence's weights) does not reproduce the implementation's output: translator / "
                            "interpreter / extB / MiniTorch no longer describe the code",
                    "disagreeing_cases": len(bad),
                    "correspondence": "tie:C02:py2coq+MiniPy.Interp+MiniTorch:minimum_error_rate_loss",
                    "theorems_at_stake": SRCB_THEOREMS}, no_failing_input=True)
