(* MiniTorch, unit C01Src — the algebra of OpsC01.v needed by the C01 tie (no new definitions of
   meaning): the encoding round trip, broadcasting on the shapes `_string_matching` meets, slices /
   rows of tabulated matrices, the reduction along a dimension, gather, and the arithmetic of floats
   that are integers over a common denominator ([qz s z] = z / s in lowest terms). *)
From Coq Require Import List ZArith QArith Bool Arith Lia ZifyBool ZifyNat.
From Coq Require String.
From PV Require Import MiniPy.Syntax MiniTorch.Ops MiniTorch.Lemmas MiniTorch.OpsC07 MiniTorch.LemmasC07 MiniTorch.OpsC01.
Import ListNotations.
Local Open Scope nat_scope.

(* ---- encoding round trip ------------------------------------------------------------------------------ *)
Lemma val_fx_val : forall x, val_fx (fx_val x) = Some x.
Proof. intros [q| | |]; reflexivity. Qed.

Lemma dec01_enc_b : forall t, dec01 (enc_b t) = Some (AB t).
Proof.
  intros [sh d]. unfold dec01, enc_b, enc_shape. cbn [shp dat]. rewrite dec_nats_enc.
  change (String.eqb tag_bool tag_bool) with true. cbv iota.
  rewrite (dec_list_map val_bool VBool) by reflexivity. reflexivity.
Qed.

Lemma dec01_enc_i : forall t, dec01 (enc_i t) = Some (AI t).
Proof.
  intros [sh d]. unfold dec01, enc_i, enc_shape. cbn [shp dat]. rewrite dec_nats_enc.
  change (String.eqb tag_long tag_bool) with false. change (String.eqb tag_long tag_long) with true. cbv iota.
  rewrite (dec_list_map val_int VInt) by reflexivity. reflexivity.
Qed.

Lemma dec01_enc_x : forall t, dec01 (enc_x t) = Some (AX t).
Proof.
  intros [sh d]. unfold dec01, enc_x, enc_shape. cbn [shp dat]. rewrite dec_nats_enc.
  change (String.eqb tag_float tag_bool) with false. change (String.eqb tag_float tag_long) with false.
  change (String.eqb tag_float tag_float) with true. cbv iota.
  rewrite (dec_list_map val_fx fx_val) by apply val_fx_val. reflexivity.
Qed.

(* ---- lists --------------------------------------------------------------------------------------------- *)
Lemma tab2_length : forall {X} O I (f : nat -> nat -> X), length (tab2 O I f) = O * I.
Proof. intros. unfold tab2. apply length_plane. Qed.

Lemma tab2_S : forall {X} O I (f : nat -> nat -> X),
  tab2 (S O) I f = map (f 0) (seq 0 I) ++ tab2 O I (fun i j => f (S i) j).
Proof.
  intros. unfold tab2. cbn [seq flat_map]. f_equal.
  rewrite <- seq_shift, flat_map_concat_map, map_map, <- flat_map_concat_map. reflexivity.
Qed.

Lemma tab2_snoc : forall {X} O I (f : nat -> nat -> X),
  tab2 (S O) I f = tab2 O I f ++ map (f O) (seq 0 I).
Proof. intros. unfold tab2. rewrite seq_S, flat_map_app. cbn [flat_map Nat.add]. now rewrite app_nil_r. Qed.

Lemma tab2_1 : forall {X} I (f : nat -> nat -> X), tab2 1 I f = map (f 0) (seq 0 I).
Proof. intros. unfold tab2. cbn [seq flat_map]. apply app_nil_r. Qed.

Lemma tab2_col1 : forall {X} O (f : nat -> nat -> X), tab2 O 1 f = map (fun i => f i 0) (seq 0 O).
Proof. intros. unfold tab2. cbn [seq map]. apply (flat_map_singleton (fun i => f i 0)). Qed.

Lemma tab3_1 : forall {X} N I (f : nat -> nat -> nat -> X), tab3 1 N I f = tab2 N I (f 0).
Proof. intros. unfold tab3, tab2. cbn [seq flat_map]. apply app_nil_r. Qed.

Lemma tab3_col1 : forall {X} O N (f : nat -> nat -> nat -> X), tab3 O N 1 f = tab2 O N (fun o t => f o t 0).
Proof.
  intros. unfold tab3, tab2. apply flat_map_ext_seq. intros o Ho. cbn [seq map].
  apply (flat_map_singleton (fun t => f o t 0)).
Qed.

(* rows lo .. of a tabulated matrix *)
Lemma skipn_tab2 : forall {X} lo O I (f : nat -> nat -> X),
  skipn (lo * I) (tab2 (lo + O) I f) = tab2 O I (fun i j => f (lo + i) j).
Proof.
  induction lo as [|lo IH]; intros O I f; [reflexivity|].
  cbn [Nat.add]. rewrite tab2_S. cbn [Nat.mul].
  rewrite skipn_app, length_row. rewrite (skipn_all2 (map _ _)) by (rewrite length_row; lia).
  replace (I + lo * I - I) with (lo * I) by lia. cbn [app]. rewrite IH. reflexivity.
Qed.

Lemma firstn_tab2 : forall {X} O O' I (f : nat -> nat -> X),
  firstn (O * I) (tab2 (O + O') I f) = tab2 O I f.
Proof.
  induction O as [|O IH]; intros O' I f; [reflexivity|].
  cbn [Nat.add]. rewrite !tab2_S. cbn [Nat.mul].
  rewrite firstn_app, length_row. rewrite (firstn_all2 (map _ _)) by (rewrite length_row; lia).
  replace (I + O * I - I) with (O * I) by lia. rewrite IH. reflexivity.
Qed.

Lemma skipn_tab2_1 : forall {X} O I (f : nat -> nat -> X),
  skipn I (tab2 (S O) I f) = tab2 O I (fun i j => f (S i) j).
Proof.
  intros. rewrite tab2_S, skipn_app, length_row, Nat.sub_diag. cbn [skipn].
  rewrite skipn_all2 by (rewrite length_row; lia). reflexivity.
Qed.

Lemma repeat_as_map : forall {X} (v : X) n, repeat v n = map (fun _ => v) (seq 0 n).
Proof.
  intros X v n. induction n as [|n IH]; [reflexivity|]. cbn [repeat seq map]. f_equal.
  rewrite <- seq_shift, map_map. exact IH.
Qed.

Lemma repeat_tab2 : forall {X} (v : X) O I, repeat v (O * I) = tab2 O I (fun _ _ => v).
Proof.
  intros X v O I. induction O as [|O IH]; [reflexivity|].
  rewrite tab2_S, <- IH. cbn [Nat.mul]. rewrite repeat_app, repeat_as_map. reflexivity.
Qed.

Lemma bdim_refl : forall n, bdim n n = Some n.
Proof. intros n. unfold bdim. now rewrite Nat.eqb_refl. Qed.

(* ---- broadcasting: the general two- and three-dimensional walks ------------------------------------------ *)
Lemma bc_data_2 : forall {X Y W} (f : X -> Y -> W) dx dy a1 a2 b1 b2 n1 n2 la lb,
  bdim a1 b1 = Some n1 -> bdim a2 b2 = Some n2 ->
  bc_data f dx dy [a1; a2] [b1; b2] la lb 0 0 =
  tab2 n1 n2 (fun i j => f (nth (bidx a1 i * a2 + bidx a2 j) la dx) (nth (bidx b1 i * b2 + bidx b2 j) lb dy)).
Proof.
  intros X Y W f dx dy a1 a2 b1 b2 n1 n2 la lb H1 H2. cbn [bc_data]. rewrite H1. unfold tab2.
  apply flat_map_ext_seq. intros i Hi. rewrite H2. cbn [Nat.mul Nat.add].
  apply (flat_map_singleton (fun j => f (nth (bidx a1 i * a2 + bidx a2 j) la dx) (nth (bidx b1 i * b2 + bidx b2 j) lb dy))).
Qed.

Lemma bc_data_3 : forall {X Y W} (f : X -> Y -> W) dx dy a1 a2 a3 b1 b2 b3 n1 n2 n3 la lb,
  bdim a1 b1 = Some n1 -> bdim a2 b2 = Some n2 -> bdim a3 b3 = Some n3 ->
  bc_data f dx dy [a1; a2; a3] [b1; b2; b3] la lb 0 0 =
  tab3 n1 n2 n3 (fun i j k => f (nth ((bidx a1 i * a2 + bidx a2 j) * a3 + bidx a3 k) la dx)
                                 (nth ((bidx b1 i * b2 + bidx b2 j) * b3 + bidx b3 k) lb dy)).
Proof.
  intros X Y W f dx dy a1 a2 a3 b1 b2 b3 n1 n2 n3 la lb H1 H2 H3. cbn [bc_data]. rewrite H1. unfold tab3.
  apply flat_map_ext_seq. intros i Hi. rewrite H2. apply flat_map_ext_seq. intros j Hj. rewrite H3.
  cbn [Nat.mul Nat.add].
  apply (flat_map_singleton (fun k => f (nth ((bidx a1 i * a2 + bidx a2 j) * a3 + bidx a3 k) la dx)
                                          (nth ((bidx b1 i * b2 + bidx b2 j) * b3 + bidx b3 k) lb dy))).
Qed.

(* equal shapes, two dimensions *)
Lemma broadcast_same2 : forall {X Y W} (f : X -> Y -> W) dx dy A B g h,
  broadcast f dx dy (mkTn [A; B] (tab2 A B g)) (mkTn [A; B] (tab2 A B h)) =
  Some (mkTn [A; B] (tab2 A B (fun i j => f (g i j) (h i j)))).
Proof.
  intros. unfold broadcast. cbn [rank shp dat length Nat.max pad_shape Nat.sub repeat app bc_shape].
  rewrite !bdim_refl. rewrite (bc_data_2 f dx dy A B A B A B) by apply bdim_refl. do 2 f_equal.
  apply tab2_ext. intros i j Hi Hj. rewrite (bidx_same A i), (bidx_same B j) by assumption.
  now rewrite !nth_tab2.
Qed.

(* equal shapes, one dimension *)
Lemma broadcast_same1 : forall {X Y W} (f : X -> Y -> W) dx dy B g h,
  broadcast f dx dy (mkTn [B] (map g (seq 0 B))) (mkTn [B] (map h (seq 0 B))) =
  Some (mkTn [B] (map (fun j => f (g j) (h j)) (seq 0 B))).
Proof.
  intros. unfold broadcast. cbn [rank shp dat length Nat.max pad_shape Nat.sub repeat app bc_shape bc_data].
  rewrite !bdim_refl. do 2 f_equal. cbn [Nat.mul Nat.add].
  rewrite (flat_map_singleton (fun j => f (nth (bidx B j) (map g (seq 0 B)) dx) (nth (bidx B j) (map h (seq 0 B)) dy))).
  apply map_ext_seq. intros j Hj. rewrite (bidx_same B j) by assumption. now rewrite !nth_map_seq.
Qed.

(* (A x B) against (B): the vector is repeated along the rows *)
Lemma broadcast_mat_row : forall {X Y W} (f : X -> Y -> W) dx dy A B g h,
  broadcast f dx dy (mkTn [A; B] (tab2 A B g)) (mkTn [B] (map h (seq 0 B))) =
  Some (mkTn [A; B] (tab2 A B (fun i j => f (g i j) (h j)))).
Proof.
  intros. unfold broadcast. cbn [rank shp dat length Nat.max pad_shape Nat.sub repeat app bc_shape].
  rewrite bdim_1_r, bdim_refl. rewrite (bc_data_2 f dx dy A B 1 B A B) by (apply bdim_1_r || apply bdim_refl).
  do 2 f_equal. apply tab2_ext. intros i j Hi Hj. change (bidx 1 i) with 0.
  rewrite (bidx_same A i), (bidx_same B j) by assumption. cbn [Nat.mul Nat.add].
  now rewrite nth_tab2, nth_map_seq.
Qed.

(* (B) against (A x B) *)
Lemma broadcast_row_mat : forall {X Y W} (f : X -> Y -> W) dx dy A B g h,
  broadcast f dx dy (mkTn [B] (map g (seq 0 B))) (mkTn [A; B] (tab2 A B h)) =
  Some (mkTn [A; B] (tab2 A B (fun i j => f (g j) (h i j)))).
Proof.
  intros. unfold broadcast. cbn [rank shp dat length Nat.max pad_shape Nat.sub repeat app bc_shape].
  rewrite bdim_1_l, bdim_refl. rewrite (bc_data_2 f dx dy 1 B A B A B) by (apply bdim_1_l || apply bdim_refl).
  do 2 f_equal. apply tab2_ext. intros i j Hi Hj. change (bidx 1 i) with 0.
  rewrite (bidx_same A i), (bidx_same B j) by assumption. cbn [Nat.mul Nat.add].
  now rewrite nth_tab2, nth_map_seq.
Qed.

(* (A x 1) against (A): the outer combination (i, j) -> f (g i) (h j) *)
Lemma broadcast_col_row : forall {X Y W} (f : X -> Y -> W) dx dy A g h,
  broadcast f dx dy (mkTn [A; 1] (map g (seq 0 A))) (mkTn [A] (map h (seq 0 A))) =
  Some (mkTn [A; A] (tab2 A A (fun i j => f (g i) (h j)))).
Proof.
  intros. unfold broadcast. cbn [rank shp dat length Nat.max pad_shape Nat.sub repeat app bc_shape].
  rewrite bdim_1_r, bdim_1_l. rewrite (bc_data_2 f dx dy A 1 1 A A A) by (apply bdim_1_r || apply bdim_1_l).
  do 2 f_equal. apply tab2_ext. intros i j Hi Hj. change (bidx 1 i) with 0. change (bidx 1 j) with 0.
  rewrite (bidx_same A i), (bidx_same A j) by assumption. cbn [Nat.mul Nat.add].
  replace (i * 1 + 0) with i by lia. now rewrite !nth_map_seq.
Qed.

(* (A x C x 1) against (C x B): (i, j, k) -> f (g i j) (h j k) *)
Lemma broadcast_3_mat : forall {X Y W} (f : X -> Y -> W) dx dy A C B g h,
  broadcast f dx dy (mkTn [A; C; 1] (tab2 A C g)) (mkTn [C; B] (tab2 C B h)) =
  Some (mkTn [A; C; B] (tab3 A C B (fun i j k => f (g i j) (h j k)))).
Proof.
  intros. unfold broadcast. cbn [rank shp dat length Nat.max pad_shape Nat.sub repeat app bc_shape].
  rewrite bdim_1_r, bdim_refl, bdim_1_l.
  rewrite (bc_data_3 f dx dy A C 1 1 C B A C B) by (apply bdim_1_r || apply bdim_1_l || apply bdim_refl).
  do 2 f_equal. apply tab3_ext. intros i j k Hi Hj Hk. change (bidx 1 i) with 0. change (bidx 1 k) with 0.
  rewrite (bidx_same A i), (bidx_same C j), (bidx_same B k) by assumption. cbn [Nat.mul Nat.add].
  replace ((i * C + j) * 1 + 0) with (i * C + j) by lia. now rewrite !nth_tab2.
Qed.

(* ---- torch.where ------------------------------------------------------------------------------------------- *)
Lemma where_row_mat : forall A B c g h,
  where_f (mkTn [B] (map c (seq 0 B))) (mkTn [A; B] (tab2 A B g)) (mkTn [A; B] (tab2 A B h)) =
  Some (mkTn [A; B] (tab2 A B (fun i j => if c j then g i j else h i j))).
Proof. intros. unfold where_f. rewrite broadcast_row_mat, broadcast_same2. reflexivity. Qed.

Lemma where_same1 : forall B c g h,
  where_f (mkTn [B] (map c (seq 0 B))) (mkTn [B] (map g (seq 0 B))) (mkTn [B] (map h (seq 0 B))) =
  Some (mkTn [B] (map (fun j => if c j then g j else h j) (seq 0 B))).
Proof. intros. unfold where_f. rewrite !broadcast_same1. reflexivity. Qed.

(* ---- rows and slices of a tabulated matrix ---------------------------------------------------------------- *)
Lemma select0_mat : forall {X} A B (f : nat -> nat -> X) (t : nat), t < A ->
  select0 (mkTn [A; B] (tab2 A B f)) (Z.of_nat t) = Some (Some (mkTn [B] (map (f t) (seq 0 B)))).
Proof.
  intros X A B f t Ht. unfold select0. cbn [shp dat numel].
  replace (Z.of_nat t <? 0)%Z with false by lia.
  replace ((0 <=? Z.of_nat t) && (Z.of_nat t <? Z.of_nat A))%Z with true by lia.
  rewrite Nat2Z.id. do 3 f_equal.
  replace A with (t + S (A - S t)) by lia. rewrite skipn_tab2, tab2_S, firstn_app, length_row.
  rewrite Nat.sub_diag. cbn [firstn]. rewrite app_nil_r, firstn_all2 by (rewrite length_row; lia).
  apply map_ext. intros j. f_equal. lia.
Qed.

(* x[:-1] on (S R x B) *)
Lemma slice0_init : forall {X} R B (f : nat -> nat -> X),
  slice0 (mkTn [S R; B] (tab2 (S R) B f)) None (Some (-1)%Z) = Some (mkTn [R; B] (tab2 R B f)).
Proof.
  intros. unfold slice0. cbn [shp dat numel slice_bound].
  change (-1 <? 0)%Z with true. cbv iota.
  replace (Nat.min (S R) (Z.to_nat (-1 + Z.of_nat (S R)))) with R by lia.
  rewrite Nat.sub_0_r. cbn [Nat.mul skipn]. do 2 f_equal.
  replace (S R) with (R + 1) by lia. apply firstn_tab2.
Qed.

(* x[1:] on (S R x B) *)
Lemma slice0_tail : forall {X} R B (f : nat -> nat -> X),
  slice0 (mkTn [S R; B] (tab2 (S R) B f)) (Some 1%Z) None = Some (mkTn [R; B] (tab2 R B (fun i j => f (S i) j))).
Proof.
  intros. unfold slice0. cbn [shp dat numel slice_bound].
  change (1 <? 0)%Z with false. cbv iota. change (Z.to_nat 1) with 1.
  replace (Nat.min (S R) 1) with 1 by lia. replace (S R - 1) with R by lia.
  do 2 f_equal. rewrite Nat.mul_1_l, skipn_tab2_1. apply firstn_all2. rewrite tab2_length. lia.
Qed.

(* x[1:] = v on (S R x B) *)
Lemma set_slice0_tail : forall {X} R B (f g : nat -> nat -> X),
  set_slice0 (mkTn [S R; B] (tab2 (S R) B f)) (Some 1%Z) None (mkTn [R; B] (tab2 R B g)) =
  Some (mkTn [S R; B] (tab2 (S R) B (fun i j => match i with O => f 0 j | S i' => g i' j end))).
Proof.
  intros. unfold set_slice0. cbn [shp dat numel slice_bound].
  change (1 <? 0)%Z with false. cbv iota. change (Z.to_nat 1) with 1.
  replace (Nat.min (S R) 1) with 1 by lia. replace (S R - 1) with R by lia.
  rewrite nats_eqb_refl, tab2_length, Nat.eqb_refl. cbn [andb]. do 2 f_equal.
  replace (Nat.max 1 (S R)) with (S R) by lia.
  rewrite skipn_all2 by (rewrite tab2_length; lia). rewrite app_nil_r.
  rewrite (tab2_S R B (fun i j => match i with O => f 0 j | S i' => g i' j end)). f_equal.
  rewrite Nat.mul_1_l, tab2_S, firstn_app, length_row, Nat.sub_diag. cbn [firstn].
  rewrite app_nil_r. apply firstn_all2. rewrite length_row. lia.
Qed.

(* ---- shape-only ------------------------------------------------------------------------------------------------ *)
Lemma unsqueeze_1_0 : forall {X} N (d : list X), unsqueeze (mkTn [N] d) 0 = Some (mkTn [1; N] d).
Proof. reflexivity. Qed.
Lemma unsqueeze_1_1 : forall {X} N (d : list X), unsqueeze (mkTn [N] d) 1 = Some (mkTn [N; 1] d).
Proof. reflexivity. Qed.
Lemma unsqueeze_2_m1 : forall {X} A B (d : list X), unsqueeze (mkTn [A; B] d) (-1) = Some (mkTn [A; B; 1] d).
Proof. reflexivity. Qed.
Lemma squeeze_2_0 : forall {X} N (d : list X), squeeze_dim (mkTn [1; N] d) 0 = Some (mkTn [N] d).
Proof. reflexivity. Qed.

(* x.unsqueeze(1).expand(A, B) of a vector: every column is the vector *)
Lemma expand2_col : forall {X} (dflt : X) A B (g : nat -> X),
  expand2 dflt (mkTn [A; 1] (map g (seq 0 A))) (Z.of_nat A) (Z.of_nat B) =
  Some (mkTn [A; B] (tab2 A B (fun i _ => g i))).
Proof.
  intros. unfold expand2. cbn [shp dat]. unfold expand_size.
  replace (Z.of_nat A =? -1)%Z with false by lia. replace (Z.of_nat A <? 0)%Z with false by lia.
  replace (Z.of_nat B =? -1)%Z with false by lia. replace (Z.of_nat B <? 0)%Z with false by lia.
  rewrite !Nat2Z.id, Nat.eqb_refl.
  assert (E : (if B =? 1 then Some 1 else if 1 =? 1 then Some B else None) = Some B).
  { destruct (Nat.eqb_spec B 1); [now subst|reflexivity]. }
  rewrite E. do 2 f_equal. apply tab2_ext. intros i j Hi Hj. change (bidx 1 j) with 0.
  rewrite (bidx_same A i) by assumption. replace (i * 1 + 0) with i by lia. now apply nth_map_seq.
Qed.

Lemma transpose2_mat : forall {X} (d : X) A B (f : nat -> nat -> X),
  transpose2 d (mkTn [A; B] (tab2 A B f)) = Some (mkTn [B; A] (tab2 B A (fun j i => f i j))).
Proof.
  intros. unfold transpose2. cbn [shp dat]. do 2 f_equal. apply tab2_ext. intros j i Hj Hi. now apply nth_tab2.
Qed.

Lemma triu_mat : forall A B (f : nat -> nat -> fx) k,
  triu_f (mkTn [A; B] (tab2 A B f)) (Z.of_nat k) =
  Some (mkTn [A; B] (tab2 A B (fun i j => if i + k <=? j then f i j else Fq 0))).
Proof.
  intros. unfold triu_f. cbn [shp dat]. replace (Z.of_nat k <? 0)%Z with false by lia. rewrite Nat2Z.id.
  do 2 f_equal. apply tab2_ext. intros i j Hi Hj. now rewrite nth_tab2.
Qed.

Lemma full_mat : forall {X} (v : X) A B, full [A; B] v = mkTn [A; B] (tab2 A B (fun _ _ => v)).
Proof. intros. unfold full. cbn [numel]. now rewrite repeat_tab2. Qed.

Lemma full_vec : forall {X} (v : X) B, full [B] v = mkTn [B] (map (fun _ => v) (seq 0 B)).
Proof. intros. unfold full. cbn [numel]. now rewrite repeat_as_map. Qed.

Lemma arange_f_nat : forall n, arange_f (Z.of_nat n) = Some (mkTn [n] (map (fun i => z2f (Z.of_nat i)) (seq 0 n))).
Proof. intros. unfold arange_f. replace (Z.of_nat n <? 0)%Z with false by lia. now rewrite Nat2Z.id. Qed.

(* ---- gather along dimension 0 with one row of indices ------------------------------------------------------- *)
Lemma forallb_map_seq : forall {X} (p : X -> bool) (g : nat -> X) n,
  (forall i, i < n -> p (g i) = true) -> forallb p (map g (seq 0 n)) = true.
Proof.
  intros X p g n H. apply forallb_forall. intros x Hx. apply in_map_iff in Hx. destruct Hx as [i [<- Hi]].
  apply in_seq in Hi. apply H. lia.
Qed.

Lemma gather0_row : forall A B (f : nat -> nat -> fx) (g : nat -> nat), (forall j, j < B -> g j < A) ->
  gather0 (mkTn [A; B] (tab2 A B f)) (mkTn [1; B] (map (fun j => Z.of_nat (g j)) (seq 0 B))) =
  Some (mkTn [1; B] (map (fun j => f (g j) j) (seq 0 B))).
Proof.
  intros A B f g Hg. unfold gather0. cbn [shp dat]. rewrite Nat.eqb_refl. cbn [andb].
  rewrite forallb_map_seq by (intros j Hj; specialize (Hg j Hj); lia).
  do 2 f_equal. rewrite tab2_1. apply map_ext_seq. intros j Hj. cbn [Nat.mul Nat.add].
  rewrite nth_map_seq by assumption. rewrite Nat2Z.id. apply nth_tab2; auto.
Qed.

(* ---- the minimum along dimension 1 of (A x C x B) ------------------------------------------------------------ *)
Definition argmin_3 (A C B : nat) (g : nat -> nat -> nat -> fx) : tn Z :=
  mkTn [A; B] (tab2 A B (fun i k => let f := map (fun j => g i j k) (seq 0 C) in Z.of_nat (first_at (fmin_list f) f))).

Lemma min_dim_3 : forall A C B (g : nat -> nat -> nat -> fx), C <> 0 ->
  min_dim (mkTn [A; C; B] (tab3 A C B g)) 1 =
    Some (Some (mkTn [A; B] (tab2 A B (fun i k => fmin_list (map (fun j => g i j k) (seq 0 C)))), argmin_3 A C B g)).
Proof.
  intros A C B g HC. unfold min_dim, argmin_3. cbn [rank shp dat length]. change (wrap_dim 3 1) with (Some 1).
  cbv beta iota zeta. cbn [outer extent inner drop_dim firstn skipn nth numel app].
  replace (C =? 0) with false by (symmetry; now apply Nat.eqb_neq).
  do 3 f_equal; f_equal; apply tab2_ext; intros i k Hi Hk; now rewrite fibre_tab3.
Qed.

(* ---- OpsC07's cumsum / max of a boolean (T x B) tensor along dimension 0 (`_lens_from_eos(tok, eos, 0)`) ------ *)
Lemma fibre_tab2_0 : forall {X} (d : X) T B f b, b < B ->
  fibre d T B (tab2 T B f) 0 b = map (fun t => f t b) (seq 0 T).
Proof. intros. unfold fibre. apply map_ext_seq. intros t Ht. cbn [Nat.mul Nat.add]. now apply nth_tab2. Qed.

Lemma cumsum_bool_2 : forall T B m,
  cumsum_bool (mkTn [T; B] (tab2 T B m)) 0 =
  Some (mkTn [T; B] (tab2 T B (fun t b => nth t (run_sum 0 (map b2z (map (fun s => m s b) (seq 0 T)))) 0%Z))).
Proof.
  intros. unfold cumsum_bool. cbn [rank shp dat length]. change (wrap_dim 2 0) with (Some 0).
  cbv beta iota zeta. cbn [outer extent inner firstn skipn nth numel]. do 2 f_equal. rewrite tab3_1.
  apply tab2_ext. intros t b Ht Hb. now rewrite fibre_tab2_0.
Qed.

Lemma max_bool_2 : forall T B m, T <> 0 ->
  max_bool (mkTn [T; B] (tab2 T B m)) 0 =
  Some (Some (mkTn [B] (map (fun b => match first_true (map (fun t => m t b) (seq 0 T)) with
                                      | Some _ => true | None => false end) (seq 0 B)),
              mkTn [B] (map (fun b => match first_true (map (fun t => m t b) (seq 0 T)) with
                                      | Some j => Z.of_nat j | None => 0%Z end) (seq 0 B)))).
Proof.
  intros T B m HT. unfold max_bool. cbn [rank shp dat length]. change (wrap_dim 2 0) with (Some 0).
  cbv beta iota zeta. cbn [outer extent inner drop_dim firstn skipn nth numel app].
  replace (T =? 0) with false by (symmetry; now apply Nat.eqb_neq).
  rewrite !tab2_1. do 3 f_equal; f_equal; apply map_ext_seq; intros b Hb; now rewrite fibre_tab2_0.
Qed.

Lemma max_bool_2_empty : forall B d, max_bool (mkTn [0; B] d) 0 = Some None.
Proof. reflexivity. Qed.

(* ---- floats that are integers over a common denominator ------------------------------------------------------ *)
Definition qz (s : positive) (z : Z) : Q := Qred (z # s).

Lemma qz_eq : forall s z, qz s z == z # s.
Proof. intros. apply Qred_correct. Qed.

Lemma qz_add : forall s a b, Qred (qz s a + qz s b) = qz s (a + b).
Proof.
  intros. apply Qred_complete. rewrite !qz_eq. unfold Qeq, Qplus. cbn [Qnum Qden]. rewrite Pos2Z.inj_mul. ring.
Qed.

Lemma qz_sub : forall s a b, Qred (qz s a - qz s b) = qz s (a - b).
Proof.
  intros. apply Qred_complete. rewrite !qz_eq. unfold Qeq, Qminus, Qplus, Qopp. cbn [Qnum Qden].
  rewrite Pos2Z.inj_mul. ring.
Qed.

Lemma qz_add_0 : forall s a, Qred (qz s a + 0) = qz s a.
Proof. intros. apply Qred_complete. rewrite Qplus_0_r. apply Qred_correct. Qed.

Lemma qz_mul_int_l : forall s i c, Qred (inject_Z i * qz s c) = qz s (i * c).
Proof.
  intros. apply Qred_complete. rewrite !qz_eq. unfold Qeq, Qmult, inject_Z. cbn [Qnum Qden].
  rewrite Pos2Z.inj_mul. ring.
Qed.

Lemma qz_mul_int_r : forall s i c, Qred (qz s c * inject_Z i) = qz s (c * i).
Proof.
  intros. apply Qred_complete. rewrite !qz_eq. unfold Qeq, Qmult, inject_Z. cbn [Qnum Qden].
  rewrite Pos2Z.inj_mul. ring.
Qed.

Lemma qz_mul_bool : forall s c (b : bool), Qred (qz s c * (if b then 1 else 0)) = qz s (c * (if b then 1 else 0)).
Proof.
  intros s c b. change (if b then 1%Q else 0%Q) with (inject_Z (if b then 1 else 0)%Z) || idtac.
  destruct b.
  - change 1%Q with (inject_Z 1). apply qz_mul_int_r.
  - change 0%Q with (inject_Z 0). apply qz_mul_int_r.
Qed.

Lemma qz_le : forall s a b, Qle_bool (qz s a) (qz s b) = (a <=? b)%Z.
Proof.
  intros. apply eq_true_iff_eq. rewrite Qle_bool_iff, !qz_eq. unfold Qle. cbn [Qnum Qden].
  rewrite Z.leb_le. split; intros H; nia.
Qed.

Lemma qz_1 : forall z, qz 1 z = inject_Z z.
Proof. intros. unfold qz. apply Qred_inject_Z. Qed.

(* a scaled product: (v over 1) * (m over s) *)
Lemma qz_mul_1_s : forall s v m, Qred (qz 1 v * qz s m) = qz s (v * m).
Proof. intros. rewrite qz_1. apply qz_mul_int_l. Qed.

Lemma qz_mul_s_1 : forall s v, Qred (qz s v * 1) = qz s v.
Proof. intros. apply Qred_complete. rewrite Qmult_1_r. apply Qred_correct. Qed.

Lemma qz_eqb : forall s a b, Qeq_bool (qz s a) (qz s b) = (a =? b)%Z.
Proof.
  intros. apply eq_true_iff_eq. rewrite Qeq_bool_iff, !qz_eq. unfold Qeq. cbn [Qnum Qden].
  rewrite Z.eqb_eq. split; intros H; nia.
Qed.

Lemma qz_gt0 : forall s a, match Qcompare (qz s a) 0 with Datatypes.Gt => true | _ => false end = (0 <? a)%Z.
Proof.
  intros. destruct (Qcompare (qz s a) 0) eqn:E.
  - apply Qeq_alt in E. rewrite qz_eq in E. unfold Qeq in E. cbn in E. lia.
  - apply Qlt_alt in E. rewrite qz_eq in E. unfold Qlt in E. cbn in E. lia.
  - apply Qgt_alt in E. rewrite qz_eq in E. unfold Qlt in E. cbn in E. lia.
Qed.
