(* C04, second tie — the translated blocks of `BeamSearch.forward` (+ `_to_width`, `update_log_probs_for_step`) as an
   executable: the environment [extB], the encoding of the model's search state as MiniPy variables, the
   HAND-WRITTEN glue ([fw_iter], [src_loop], [src_search]) and the correspondence entry point [src_search_check]
   (interface of Model.check_search + one flag).  Definitions only; the lemmas are in TieRunB.v / TieB*.v.

   PV.Gen.C04BSrc is regenerated from /repo/src/pydrobert/torch/_decoding.py on every run:
     tw_body   = BeamSearch._to_width (whole)          ulp_body = BeamSearch.update_log_probs_for_step (whole)
     fw_init   = forward, `initial_state = ...` .. `pad_y = torch.full(...)`      (everything before the loop)
     fw_t      = `t = torch.tensor(t, device=device)`
     fw_mask_on  = `eos_mask = (...) & (y_prev_lens > 0)` + `if self.finish_all_paths: ... else: ...`
     fw_mask_off = the else branch: `eos_mask = torch.full(...)`, `done_mask = eos_mask[..., :1]`
     fw_rest   = `y_prev_ = y_prev.clamp(...)` .. `prev_width = self.width`       (the rest of the loop body)
     fw_final  = `... = self._to_width(...)` .. `return y_prev, y_prev_lens, log_probs_prev`
   NOT translated (the loop contains `break`, which MiniPy has no constructor for) and written by hand below:
     `for t in range(max_iters):`                              -> [src_loop] (a Gallina loop over the step number)
     `if self.eos is not None and t:` ... `else:` ...          -> the SIf of [fw_iter]; the truth value of the 0-d
                                                                  tensor t (Python calls t.__bool__()) is spelled as
                                                                  the call "$truth"(t)
     `if done_mask.all(): break`                               -> SIf (done_mask.all()) (SRaise "$break"), caught by [src_loop]
   and the order in which the blocks are run ([fw_iter], [src_search]).

   [extB calc]: the calls of the blocks.
     * `beam_search_advance(...)`, `self._to_width(...)`, `self.update_log_probs_for_step(...)` RUN THE TRANSLATED
       BODY of the callee (Gen.C04Src.bsa_body / tw_body / ulp_body) under SrcRun.ext04, parameters bound
       positionally (`self` is read from the caller's variables); the callee's variables are discarded.
     * the language model is an ORACLE [calc hist state idx = (log-probabilities after log_softmax, next state)]
       (Model.v): `self.lm.calc_idx_log_probs(hist, prev, t)` applies it to every column of hist with the matching
       entry of the flat state list [prev] (a value tagged "$lmstate"), returns logits (a value tagged "$logits"
       that only `.reshape(N, K, V)` and `.log_softmax(-1)` understand, see OpsC04B) and the next states;
       `self.lm.extract_by_src(states, idx)` = index_select; `self.lm.update_input(state, y)` returns a given state.
     * tensor operations: PV.MiniTorch.OpsC04B (new) and, by fall-through to SrcRun.ext04, PV.MiniTorch.OpsC04.
   dtype / device keywords are checked to be the expected tokens and otherwise ignored (elements carry their kind). *)
From Coq Require Import ZArith QArith List String Bool Arith.
From PV Require Import MiniPy.Syntax MiniPy.Interp MiniTorch.Ops MiniTorch.Value MiniTorch.OpsC04 MiniTorch.OpsC04B
  Gen.C04Src Gen.C04BSrc.
From PV Require Import C04.Model C04.SrcRun.
Import ListNotations.
Local Open Scope string_scope.
Local Open Scope nat_scope.

Definition bool_dtype_token : val := VStr "$dtype.bool".
Definition torch_module : val := VDict [(VStr "long", int_dtype_token); (VStr "bool", bool_dtype_token)].

(* the flat list of language-model states / the logits of the language model, as opaque tagged values *)
Definition states_tag : string := "$lmstate".
Definition logits_tag : string := "$logits".
Definition enc_states (l : list Z) : val := VTuple [VStr states_tag; VList (map VInt l)].
Definition dec_states (v : val) : option (list Z) :=
  match v with
  | VTuple [VStr tag; VList l] => if String.eqb tag states_tag then map_opt z_of l else None
  | _ => None
  end.
Definition enc_logits (t : vt) : val := VTuple [VStr logits_tag; VList (enc_shape (vshape t)); VList (vdata t)].
Definition dec_logits (v : val) : option vt :=
  match v with
  | VTuple [VStr tag; VList sh; VList d] =>
      if String.eqb tag logits_tag then option_map (fun s => mkVT s d) (dec_nats sh) else None
  | _ => None
  end.

Definition ret_lg (why : string) (o : option vt) (st : state) : outcome val :=
  match o with Some t => Ok (enc_logits t) st | None => Stuck ("MiniTorch(C04B): outside the modelled domain: " ++ why) end.

(* a call of a translated function: parameters bound positionally, fresh variables, result / exception handed back *)
Definition call_fn (ext : string -> list val -> list (string * val) -> state -> outcome val)
  (body : stmt) (params : list string) (args : list val) (st : state) : outcome val :=
  if List.length params =? List.length args then
    match Interp.run ext body (combine params args) with
    | Ok v _ => Ok v st
    | Exc n _ => Exc n st
    | Stuck w => Stuck w
    end
  else Stuck "call: arity".

Definition is_device (kv : string * val) : bool := is (fst kv) "device" && val_eqb (snd kv) device_token.
Definition is_dtype (tok : val) (kv : string * val) : bool := is (fst kv) "dtype" && val_eqb (snd kv) tok.
(* keywords: device= (optional) and dtype=tok (required) / device= only *)
Definition kw_dtype (tok : val) (kw : list (string * val)) : bool :=
  forallb (fun kv => is_device kv || is_dtype tok kv) kw && existsb (is_dtype tok) kw.
Definition kw_device (kw : list (string * val)) : bool := forallb is_device kw.

Definition esc (s : score) : val := SrcRun.esc s.

Section Ext.
Variable calc : list Z -> Z -> nat -> list score * Z.

(* lm.calc_idx_log_probs(hist (S, M) long, prev (M states), t (0-d long)) -> (logits (M, V'), next states) *)
Definition lm_calc (hist : vt) (states : list Z) (tv : vt) : option (vt * list Z) :=
  match vshape hist, vshape tv, vdata tv with
  | [H; M], [], [VInt tz] =>
      if (M =? List.length states) && (1 <=? M) && (0 <=? tz)%Z then
        match sequence (map (fun j => map_opt z_of (map (fun s => g2 M hist s j) (seq 0 H))) (seq 0 M)) with
        | Some cols =>
            let outs := map (fun p => calc (fst p) (snd p) (Z.to_nat tz)) (combine cols states) in
            let V' := List.length (fst (hd ([], 0%Z) outs)) in
            if forallb (fun o => List.length (fst o) =? V') outs
            then Some (mkVT [M; V'] (map esc (List.concat (map fst outs))), map snd outs)
            else None
        | None => None
        end
      else None
  | _, _, _ => None
  end.

(* lm.extract_by_src(states, idx (1-D long)): the states re-ordered, index_select(0, idx) on every tensor of the
   state dictionary; an index outside the list: torch raises (None) *)
Definition lm_extract (states : list Z) (idx : vt) : option (list Z) :=
  match vshape idx with
  | [_] => map_opt (fun v => match nat_of v with
                             | Some i => if i <? List.length states then Some (nth i states 0%Z) else None
                             | None => None end) (vdata idx)
  | _ => None
  end.

Definition extB (f : string) (args : list val) (kw : list (string * val)) (st : state) : outcome val :=
  (* ---- calls of translated functions ---- *)
  if is f "beam_search_advance" then
    if no_kw kw then call_fn ext04 bsa_body bsa_body_params args st else Stuck "beam_search_advance: keywords"
  else if is f "self._to_width" then
    match lookup "self" (vars st), no_kw kw with
    | Some self, true => call_fn ext04 tw_body tw_body_params (self :: args) st
    | _, _ => Stuck "self._to_width"
    end
  else if is f "self.update_log_probs_for_step" then
    match lookup "self" (vars st), no_kw kw with
    | Some self, true => call_fn ext04 ulp_body ulp_body_params (self :: args) st
    | _, _ => Stuck "self.update_log_probs_for_step"
    end
  (* ---- the language model (oracle) ---- *)
  else if is f "self.lm.calc_idx_log_probs" then
    match args, no_kw kw with
    | [h; p; t], true =>
        match decv h, dec_states p, decv t with
        | Some hist, Some states, Some tv =>
            match lm_calc hist states tv with
            | Some (lg, nxt) => Ok (VTuple [enc_logits lg; enc_states nxt]) st
            | None => Stuck "MiniTorch(C04B): outside the modelled domain: calc_idx_log_probs"
            end
        | _, _, _ => Stuck "calc_idx_log_probs"
        end
    | _, _ => Stuck "calc_idx_log_probs"
    end
  else if is f "self.lm.extract_by_src" then
    match args, no_kw kw with
    | [p; i], true =>
        match dec_states p, decv i with
        | Some states, Some idx =>
            match lm_extract states idx with
            | Some l => Ok (enc_states l) st
            | None => Stuck "MiniTorch(C04B): outside the modelled domain: extract_by_src"
            end
        | _, _ => Stuck "extract_by_src"
        end
    | _, _ => Stuck "extract_by_src"
    end
  else if is f "self.lm.update_input" then
    match args, no_kw kw with
    | [p; y], true =>
        match dec_states p, decv y with
        | Some states, Some yv =>
            if shape_eqb (vshape yv) [0; List.length states] then Ok p st else Stuck "update_input: batch size"
        | _, _ => Stuck "update_input"     (* an empty initial state: what the LM makes of it is not modelled *)
        end
    | _, _ => Stuck "update_input"
    end
  else if is f "$method.reshape" then
    match args, no_kw kw with
    | t :: sizes, true =>
        match dec_logits t, map_opt z_of sizes with
        | Some x, Some zs => ret_lg "reshape" (lg_reshape x zs) st
        | _, _ => Stuck "reshape"
        end
    | _, _ => Stuck "reshape"
    end
  else if is f "$method.log_softmax" then
    match args, no_kw kw with
    | [t; VInt d], true => match dec_logits t with Some x => ret_t "log_softmax" (lg_log_softmax x d) st | None => Stuck "log_softmax" end
    | _, _ => Stuck "log_softmax"
    end
  (* ---- hand-written glue: the truth value of a 0-d integer tensor (Python: t.__bool__()) ---- *)
  else if is f "$truth" then
    match args, no_kw kw with
    | [t], true => match decv t with
                   | Some x => match vshape x, vdata x with
                               | [], [VInt z] => Ok (VBool (negb (z =? 0)%Z)) st
                               | _, _ => Stuck "$truth"
                               end
                   | None => Stuck "$truth"
                   end
    | _, _ => Stuck "$truth"
    end
  (* ---- constructors with dtype / device keywords ---- *)
  else if is f "torch.full" then
    match args with
    | [VTuple sizes; v] =>
        match map_opt z_of sizes with
        | Some zs =>
            if kw_dtype bool_dtype_token kw then
              match v with VInt z => ret_t "full" (full zs (VBool (negb (z =? 0)%Z))) st | _ => Stuck "full: bool fill" end
            else if kw_dtype int_dtype_token kw then
              match v with VInt z => ret_t "full" (full zs (VInt z)) st | _ => Stuck "full: int fill" end
            else if kw_device kw then       (* no dtype: a float fill value makes a float tensor *)
              match v with VQ q => ret_t "full" (full zs (VQ q)) st | _ => Stuck "full: float fill" end
            else Stuck "full: keywords"
        | None => Stuck "full: size"
        end
    | _ => Stuck "full"
    end
  else if is f "torch.zeros" then
    match args with
    | [VTuple sizes] =>
        match map_opt z_of sizes with
        | Some zs => if kw_dtype int_dtype_token kw then ret_t "zeros" (full zs (VInt 0)) st else Stuck "zeros: keywords"
        | None => Stuck "zeros: size"
        end
    | _ => Stuck "zeros"
    end
  else if is f "torch.empty" then     (* uninitialised cells are 0, as for new_empty in OpsC04 *)
    match args with
    | [VTuple sizes] =>
        match map_opt z_of sizes with
        | Some zs => if kw_dtype int_dtype_token kw then ret_t "empty" (full zs (VInt 0)) st else Stuck "empty: keywords"
        | None => Stuck "empty: size"
        end
    | _ => Stuck "empty"
    end
  else if is f "torch.tensor" then
    match args with
    | [VInt z] => if kw_device kw || kw_dtype int_dtype_token kw then Ok (encv (scalar (VInt z))) st else Stuck "tensor: keywords"
    | [VQ q] =>     (* a float converted to long: exact when integer-valued (float(self.eos)) *)
        if kw_dtype int_dtype_token kw && (Zpos (Qden q) =? 1)%Z then Ok (encv (scalar (VInt (Qnum q)))) st
        else Stuck "tensor: float data"
    | _ => Stuck "tensor"
    end
  else if is f "torch.arange" then
    match args with
    | [VInt s; VInt e; VInt d] => if kw_device kw then ret_t "arange" (arange3 s e d) st else Stuck "arange: keywords"
    | _ => Stuck "arange"
    end
  else if is f "$method.clamp" then
    match args, kw with
    | [t], [(k, VInt lo)] =>
        if is k "min" then match decv t with Some x => ret_t "clamp" (clamp x (Some lo) None) st | None => Stuck "clamp" end
        else Stuck "clamp: keywords"
    | [t; VInt lo; VInt hi], [] =>
        match decv t with Some x => ret_t "clamp" (clamp x (Some lo) (Some hi)) st | None => Stuck "clamp" end
    | _, _ => Stuck "clamp"
    end
  else if is f "$method.all" then
    match args, kw with
    | [t; VInt d], [(k, VBool true)] =>
        if is k "keepdim" && (d =? 1)%Z
        then match decv t with Some x => ret_t "all(1, keepdim=True)" (all_rows x) st | None => Stuck "all" end
        else Stuck "all: arguments"
    | [t], [] => match decv t with Some x => ret_v "all" (option_map VBool (all x)) st | None => Stuck "all" end
    | _, _ => Stuck "all"
    end
  else if negb (no_kw kw) then Stuck ("extB: keyword arguments of " ++ f)
  (* ---- no keywords from here on ---- *)
  else if is f "float" then
    match args with
    | [VInt z] => Ok (VQ (inject_Z z)) st
    | _ => ext04 f args kw st
    end
  else if is f "math.log" then
    match args with
    | [VInt 1] => Ok (VQ 0) st            (* log 1 = 0; other arguments are not rational: not modelled *)
    | _ => Stuck "math.log"
    end
  else if is f "operator" then
    match args with
    | [VStr o; a; b] =>
        if is o "sub" then
          match decv a, decv b with
          | Some x, Some y => ret_t "sub" (sub x y) st
          | Some x, None => ret_t "sub scalar" (sub_scalar x b) st
          | None, _ => Stuck "sub"
          end
        else if is o "and" then
          match decv a, decv b with
          | Some x, Some y => ret_t "and" (and_ x y) st
          | _, _ => Stuck "and"
          end
        else ext04 f args kw st
    | _ => Stuck "operator"
    end
  else if is f "compare" then
    match args with
    | [VStr o; a; VInt c] =>
        if is o "eq" then match decv a with Some x => ret_t "eq" (eq_scalar x c) st | None => Stuck "eq" end
        else if is o "gt" then match decv a with Some x => ret_t "gt" (gt_scalar x c) st | None => Stuck "gt" end
        else ext04 f args kw st
    | _ => Stuck "compare"
    end
  else if is f "$getitem" then
    match args with
    | [t; VTuple [VTuple [VStr e]; VTuple [VStr tag; VNone; VInt k; VNone]]] =>
        if String.eqb e "$ellipsis" && String.eqb tag "$slice" && (0 <=? k)%Z
        then match decv t with Some x => ret_t "x[..., :k]" (narrow_last x (Z.to_nat k)) st | None => Stuck "getitem" end
        else Stuck "getitem"
    | _ => ext04 f args kw st
    end
  else if is f "$method.permute" then
    match args with
    | t :: dims => match decv t, map_opt z_of dims with
                   | Some x, Some zs => ret_t "permute" (permute x zs) st
                   | _, _ => Stuck "permute"
                   end
    | _ => Stuck "permute"
    end
  else if is f "$method.squeeze" then
    match args with
    | [t; VInt d] => match decv t with Some x => ret_t "squeeze" (squeeze x d) st | None => Stuck "squeeze" end
    | _ => Stuck "squeeze"
    end
  else if is f "$method.masked_fill" then
    match args with
    | [t; m; v] => match decv t, decv m with
                   | Some x, Some mk => ret_t "masked_fill" (masked_fill x mk v) st
                   | _, _ => Stuck "masked_fill"
                   end
    | _ => Stuck "masked_fill"
    end
  else if is f "$method.to" then
    match args with
    | [t; o] =>
        match decv t with
        | Some x =>
            if val_eqb o bool_dtype_token then ret_t "to(bool)" (to_bool x) st
            else match decv o with
                 | Some y => if all_int y then ret_t "to(int tensor)" (to_int x) st else Stuck "to: other is not an integer tensor"
                 | None => Stuck "to"
                 end
        | None => Stuck "to"
        end
    | _ => Stuck "to"
    end
  else if is f "$method.flatten" then
    match args with
    | [t] => match decv t with Some x => ret_t "flatten" (flatten x 0) st | None => Stuck "flatten" end
    | _ => ext04 f args kw st
    end
  else if is f "torch.nn.functional.one_hot" then
    match args with
    | [t; VInt nc] => match decv t with Some x => ret_t "one_hot" (one_hot x nc) st | None => Stuck "one_hot" end
    | _ => Stuck "one_hot"
    end
  else if is f "torch.where" then
    match args with
    | [c; a; b] => match decv c, decv a, decv b with
                   | Some cv, Some av, Some bv => ret_t "where" (where_ cv av bv) st
                   | _, _, _ => Stuck "where"
                   end
    | _ => Stuck "where"
    end
  else ext04 f args kw st.

(* ---- the search state as MiniPy variables ------------------------------------------------------------------ *)
Definition oz (o : option Z) : val := match o with Some z => VInt z | None => VNone end.

Definition self_val (V width : nat) (eos : option Z) (fin_all : bool) (pad : Z) : val :=
  VDict [(VStr "lm", VDict [(VStr "vocab_size", vnat V)]); (VStr "width", vnat width); (VStr "eos", oz eos);
         (VStr "finish_all_paths", VBool fin_all); (VStr "pad_value", VInt pad);
         (VStr "device_buffer", VDict [(VStr "device", device_token)])].

(* the arguments of forward(initial_state_, batch_size, max_iters) (+ the module `torch` and `self`) *)
Definition init_vars (self : val) (inits : list Z) (batch_size max_iters : val) : list (string * val) :=
  [("torch", torch_module); ("self", self); ("initial_state_", enc_states inits); ("batch_size", batch_size);
   ("max_iters", max_iters)].

(* ---- HAND-WRITTEN glue ---------------------------------------------------------------------------------------- *)
(* one iteration of `for t in range(max_iters):` with "t" bound to the step number; `break` = Exc "$break" *)
Definition break_signal : string := "$break".
Definition fw_iter : stmt :=
  SSeq fw_t
  (SSeq (SIf (EAnd (ECmp IsNot (EAttr (EName "self") "eos") (EConst VNone)) (ECall "$truth" [EName "t"] []))
             (SSeq fw_mask_on (SIf (EMeth (EName "done_mask") "all" [] []) (SRaise break_signal) SPass))
             fw_mask_off)
        fw_rest).

Definition src_step (t : nat) (st : state) : outcome ctl := exec extB fw_iter (set_var "t" (VInt (Z.of_nat t)) st).

(* the for loop: (final state, left through break) *)
Fixpoint src_loop (fuel t : nat) (st : state) : option (state * bool) :=
  match fuel with
  | 0 => Some (st, false)
  | S f => match src_step t st with
           | Ok CNormal st' => src_loop f (S t) st'
           | Exc n st' => if String.eqb n break_signal then Some (st', true) else None
           | _ => None
           end
  end.

(* forward(): prologue block, loop, epilogue block.  Some (Some (returned value, broke)) / Some None = RuntimeError of
   the prologue / None = stuck or any other outcome *)
Definition src_forward (self : val) (inits : list Z) (batch_size max_iters : val) (fuel : nat)
  : option (option (val * bool)) :=
  match exec extB fw_init (mkState (init_vars self inits batch_size max_iters) []) with
  | Ok CNormal st0 =>
      match src_loop fuel 0 st0 with
      | Some (st1, broke) =>
          match exec extB fw_final st1 with
          | Ok (CReturn v) _ => Some (Some (v, broke))
          | _ => None
          end
      | None => None
      end
  | Exc n _ => if String.eqb n runtime_error then Some None else None
  | _ => None
  end.
End Ext.

(* ---- the returned tensors as the model's beams ------------------------------------------------------------------ *)
(* y (S, N, W), y_lens (N, W), log_probs (N, W) -> per batch element the W slots (column of height S, length, score) *)
Definition beam_of (H N W : nat) (y lens lp : vt) (n : nat) : option (list slot) :=
  sequence (map (fun k =>
     match map_opt z_of (map (fun s => g3 N W y s n k) (seq 0 H)), nat_of (g2 W lens n k), score_of (g2 W lp n k) with
     | Some c, Some l, Some s => Some (mkSlot c l s)
     | _, _, _ => None
     end) (seq 0 W)).

Definition beams_of_tensors (y lens lp : vt) : option (list (list slot) * nat) :=
  match vshape y, vshape lens with
  | [H; N; W], [N'; W'] =>
      if (N =? N') && (W =? W') && shape_eqb (vshape lp) [N; W]
      then option_map (fun b => (b, H)) (sequence (map (beam_of H N W y lens lp) (seq 0 N)))
      else None
  | _, _ => None
  end.

(* batched = false: batch_size was None, the three tensors come without the batch dimension *)
Definition decode_result (batched : bool) (v : val) : option (list (list slot) * nat) :=
  match v with
  | VTuple [vy; vl; vp] =>
      match decv vy, decv vl, decv vp with
      | Some y, Some lens, Some lp =>
          if batched then beams_of_tensors y lens lp
          else match unsqueeze y 1, unsqueeze lens 0, unsqueeze lp 0 with
               | Some y', Some l', Some p' => beams_of_tensors y' l' p'
               | _, _, _ => None
               end
      | _, _, _ => None
      end
  | _ => None
  end.

(* the interpreted search: same result type as Model.search.  [need_break]: max_iters is None (the loop then runs
   at most [fuel] times here, 2^30 times in the source); [batched]: batch_size is given *)
Definition src_search (lm : list Z -> Z -> nat -> list score * Z) (V width : nat) (eos : option Z) (fin_all : bool)
  (pad : Z) (fuel : nat) (need_break batched : bool) (inits : list Z) : option (list (list slot) * nat * bool) :=
  match src_forward lm (self_val V width eos fin_all pad) inits
          (if batched then vnat (List.length inits) else VNone)
          (if need_break then VNone else vnat fuel) fuel with
  | Some (Some (v, broke)) => option_map (fun r => (fst r, snd r, broke)) (decode_result batched v)
  | _ => None
  end.

(* the comparison Model.check_search makes, on the interpreted source *)
Definition src_search_check (lm : list Z -> Z -> nat -> list score * Z) (V width : nat)
  (eos : option Z) (fin_all : bool) (pad : Z) (fuel : nat) (need_break batched : bool)
  (inits : list Z) (tol : Z) (cmpS : bool)
  (impl : list (list (option (list Z * nat * Z))) * nat) : bool :=
  match src_search lm V width (norm_eos V eos) fin_all pad fuel need_break batched inits with
  | Some r =>
      list_eqb (list_eqb (canon_eqb tol)) (map (map canon) (fst (fst r))) (fst impl)
      && (negb cmpS || (snd (fst r) =? snd impl))
      && (negb need_break || snd r)
  | None => false
  end.

(* exact agreement with the model's search (every cell of every column, lengths, scores, height, break flag): what the
   tie theorems state, evaluated by the harness next to the comparison with torch *)
Definition slot_eqb (a b : slot) : bool :=
  list_eqb Z.eqb (col a) (col b) && (len a =? len b)
  && match sc a, sc b with Some x, Some y => (x =? y)%Z | None, None => true | _, _ => false end.

Definition src_search_agrees (lm : list Z -> Z -> nat -> list score * Z) (V width : nat)
  (eos : option Z) (fin_all : bool) (pad : Z) (fuel : nat) (need_break batched : bool) (inits : list Z) : bool :=
  match src_search lm V width (norm_eos V eos) fin_all pad fuel need_break batched inits with
  | Some r =>
      let m := run_search lm V width eos fin_all pad fuel inits in
      list_eqb (list_eqb slot_eqb) (fst (fst r)) (fst (fst m)) && (snd (fst r) =? snd (fst m)) && Bool.eqb (snd r) (snd m)
  | None => false
  end.
