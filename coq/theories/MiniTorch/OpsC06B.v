(* MiniTorch, unit C06BSrc — the meaning given to the torch operations that occur in
   `LookupLanguageModel.calc_full_log_probs_chunked` (src/pydrobert/torch/_lm.py) and are NOT already defined in
   OpsC06.v (which this file imports read-only and whose tensor type [tens6] = shape + row-major cells it reuses).
   DEFINITIONS ONLY; the algebra is in LemmasC06B.v, the [ext] that uses them in C06/SrcRunB.v.

   STORAGE.  A [tens6] is a tensor's logical row-major content; strides, storages and views are not values.  The
   three storage-level calls of the function - `hist = hist.contiguous()`, `hist.storage_offset()`,
   `hist.as_strided(size, stride, hist.storage_offset() + k)` - are modelled by identifying the storage of a
   (contiguous) tensor with its row-major content: [storage_offset] is 0 and [as_strided]'s offset is counted from
   the tensor's first element.  For the contiguous tensor `hist.contiguous()` returns this is exact: torch's element
   (i, j) of `x.as_strided(size, (s0, s1), x.storage_offset() + k)` is storage[x.storage_offset() + k + i*s0 + j*s1]
   = content[k + i*s0 + j*s1].  Whatever else the real storage holds before / after the tensor's own content is
   not modelled: an address outside the content is [None] (fail-closed).

   Each definition quotes the sentence of the torch documentation (2.x) it models and returns [None] outside the
   modelled domain.  TRUSTED by the second C06 source tie; exercised on every run by the harness-side
   `SrcRunB.src_chunked_check` / `src_full_check` (torch vs the interpreted source on the same inputs). *)
From Coq Require Import List ZArith QArith Bool Arith.
From PV Require Import MiniTorch.OpsC06.
Import ListNotations.

(* Tensor.contiguous(): "Returns a contiguous in memory tensor containing the same data as self tensor. If self
   tensor is already in the specified memory format, this function returns the self tensor."  (same data: the
   value is unchanged) *)
Definition contiguous (t : tens6) : tens6 := t.

(* Tensor.storage_offset(): "Returns self tensor's offset in the underlying storage in terms of number of storage
   elements (not bytes)."  (see STORAGE above: the storage of the modelled tensor is its own content) *)
Definition storage_offset (t : tens6) : Z := 0%Z.

(* torch.as_strided(input, size, stride, storage_offset): "Create a view of an existing torch.Tensor input with
   specified size, stride and storage_offset."  Two-dimensional size and stride (what the function passes), all
   five numbers non-negative; element (i, j) is content[offset + i*s0 + j*s1]; an address beyond the content is
   None.  (A size of 0 rows gives the empty (0, m) tensor.) *)
Definition as_strided2 (t : tens6) (n m s0 s1 off : Z) : option tens6 :=
  if ((0 <=? n) && (0 <=? m) && (0 <=? s0) && (0 <=? s1) && (0 <=? off))%Z%bool then
    option_map (T6 [Z.to_nat n; Z.to_nat m])
      (sequence (flat_map (fun i => map (fun j => nth_error (dt6 t) (Z.to_nat (off + Z.of_nat i * s0 + Z.of_nat j * s1)))
                                        (seq 0 (Z.to_nat m)))
                          (seq 0 (Z.to_nat n))))
  else None.

(* torch.empty( *size): "Returns a tensor filled with uninitialized data. The shape of the tensor is defined by the
   variable argument size."  Uninitialized data has no value: modelled only when the tensor has NO element (the
   function creates `torch.empty(0, B, V)` as the first piece of a concatenation). *)
Definition empty0 (sizes : list Z) : option tens6 :=
  match nats_of sizes with
  | Some s => if (prodn s =? 0)%nat then Some (T6 s []) else None
  | None => None
  end.

(* torch.tensor(data, dtype=torch.long): "Constructs a tensor with no autograd history ... by copying data."
   data a Python int: the 0-dimensional integer tensor holding it *)
Definition tensor_int (z : Z) : tens6 := T6 [] [CI z].

(* `for x in t` (Tensor.__iter__): iterating over a tensor yields t[0], t[1], ..., t[n-1] for n = t.size(0)
   ("iteration over a 0-d tensor" is a TypeError: None); each item is [select0] = `t[i]` of OpsC06 *)
Definition iter0 (t : tens6) : option (list tens6) :=
  match sh6 t with
  | n :: _ => sequence (map (fun i => select0 t (Z.of_nat i)) (seq 0 n))
  | [] => None
  end.

(* a tensor where Python needs an integer (a slice bound `hist[:idx_]`): Tensor.__index__ - "only integer tensors
   of a single element can be converted to an index".  Modelled: the 0-dimensional integer tensor. *)
Definition index_of (t : tens6) : option Z :=
  match sh6 t, dt6 t with
  | [], [CI z] => Some z
  | _, _ => None
  end.
