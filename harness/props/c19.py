"""C19 - estimators, relaxed distributions, fixed-cardinality sampling: correspondence between /repo and
PV.C19.Model (evaluated by vm_compute), plus the property's own relations run on the implementation."""
import itertools
import json
import math
import warnings
from fractions import Fraction as Fr
from unittest import mock

import torch

from vlib import cb, cl, cn, co, cp, cq, cz, coq_eval_bools, coq_eval_print, exc_kind, load_corpus, shrink

warnings.filterwarnings("ignore")
torch.set_default_dtype(torch.float32)
F64 = torch.float64
IMPORTS = "From PV Require Import C19.Model C19.Relaxed C19.Combinatorics C19.Spec.\n"
TOL = Fr(1, 10 ** 8)
CORR = "corr:C19:"


def clq(xs):
    return cl([cq(x) for x in xs])


def cllq(xss):
    return cl([clq(xs) for xs in xss])


def cdual(a):
    return cp(cq(a[0]), cq(a[1]))


def cld(ds):
    return cl([cdual(d) for d in ds])


def frf(x):
    """exact rational value of a float (regime T: torch's float64 result handed to the model as data)"""
    x = float(x)
    if not math.isfinite(x):
        raise ValueError("non-finite")
    return Fr(round(x * 2 ** 40), 2 ** 40) if abs(x) < 2 ** 20 else Fr(x)


# =========================================================================================
# family "est": DirectEstimator / ImportanceSamplingEstimator / EnumerateEstimator
# =========================================================================================
# A case describes B independent problems solved in one call (batch dimension), each over n variables of
# arity V (bern: V = 2).  theta numerators are over DEN[param]; f(b) = (fC[b] + sum_k fA[b][k] theta_k
# + fP[b] phi) / 4 per batch element; the control variate has the same shape.
# Parameters: theta numerators a over 16 give the probabilities pi = a/16 of each variable.  With
# param == "probs" torch gets probs = a/16 (exact); with param == "logits" it gets logits = log(a/(16-a))
# (Bernoulli) or log(a_c/16) + shift (categorical, unnormalised) whose sigmoid/softmax is a/16 up to
# 1e-15 (asserted below) - so the model's tables are small exact rationals in both regimes.


LN2 = math.log(2)
EXPKEY = {"theta": "pexp", "qtheta": "qexp"}


def _exps(case, key, j):
    """extreme-magnitude regime: binary exponents added to the logits (x ln 2), same nesting as case[key][j]; None = absent.
    Bernoulli: odds a/(16-a) * 2^e; categorical: weights a_c/16 * 2^e_c (renormalised) - still exact rationals."""
    e = case.get(EXPKEY.get(key, ""))
    return None if e is None else e[j]


def _theta_value(case, key, j):
    """float64 parameter values of batch element j, same nesting as case[key][j]"""
    raw = case[key][j]
    ex = _exps(case, key, j)
    if case["param"] == "probs":
        assert ex is None
        return [[x / 16 for x in r] for r in raw] if case["dtype"] != "bern" else [x / 16 for x in raw]
    if case["dtype"] == "bern":
        return [math.log(x / (16 - x)) + (ex[i] * LN2 if ex else 0.0) for i, x in enumerate(raw)]
    sh = case.get("shift", 0) / 4
    return [[math.log(x / 16) + sh + (ex[i][c] * LN2 if ex else 0.0) for c, x in enumerate(r)] for i, r in enumerate(raw)]


def _log_fr(q):
    """float log of a positive Fraction of any magnitude"""
    return math.log(q.numerator) - math.log(q.denominator)


def _theta_tensor(case, key):
    th = torch.tensor([_theta_value(case, key, j) for j in range(case["B"])], dtype=F64)
    if case["param"] == "logits" and case.get(EXPKEY.get(key, "")) is None:
        pr = torch.sigmoid(th) if case["dtype"] == "bern" else torch.softmax(th, -1)
        want = torch.tensor(case[key], dtype=F64) / 16
        assert (pr - want).abs().max() < 1e-13, "oracle: sigmoid/softmax of the chosen logits is a/16"
    elif case["param"] == "logits":
        # extreme probabilities: the oracle is audited in the log domain, relative to the exact rational probability
        lp = torch.nn.functional.logsigmoid(th) if case["dtype"] == "bern" else torch.log_softmax(th, -1)
        for j in range(case["B"]):
            vars_, _ = _var_tables(case, key, j)
            for i, pi in enumerate(vars_):
                got = float(lp[j][i]) if case["dtype"] == "bern" else None
                want = [_log_fr(x) for x in pi]
                if case["dtype"] == "bern":
                    assert abs(got - want[1]) < 1e-11 * (1 + abs(want[1])), "oracle: log sigmoid(logit) = log p (exact rational)"
                else:
                    assert max(abs(float(lp[j][i][c]) - want[c]) / (1 + abs(want[c])) for c in range(len(pi))) < 1e-11, \
                        "oracle: log_softmax(logits) = log p (exact rational)"
    return _param_layout(th.clone(), case.get("playout"))


def _param_layout(th, layout):
    """robustness audit: the same parameter values as a NON-CONTIGUOUS tensor that is part of the autograd graph (a view of a
    larger leaf: gradients are taken with respect to the view).  step = every second cell of the last axis, off = interior of
    a larger buffer (storage offset), tct = column-major strides"""
    if layout == "step":
        big = torch.full(list(th.shape[:-1]) + [2 * th.shape[-1] + 1], 0.5, dtype=th.dtype)
        big[..., 1::2] = th
        return big.requires_grad_(True)[..., 1::2]
    if layout == "off":
        big = torch.full([n + 2 for n in th.shape], 0.5, dtype=th.dtype)
        sl = tuple(slice(1, 1 + n) for n in th.shape)
        big[sl] = th
        return big.requires_grad_(True)[sl]
    if layout == "tct" and th.dim() >= 2:
        return th.transpose(0, -1).contiguous().requires_grad_(True).transpose(0, -1)
    return th.requires_grad_(True)


def _mkdist(case, th, independent=True):
    D = torch.distributions
    kw = {case["param"]: th}  # th: [B, n] (bern) or [B, n, V]
    va = {"validate_args": True} if case.get("validate") else {}
    if case["dtype"] == "bern":
        base = D.Bernoulli(**kw, **va)
    elif case["dtype"] == "cat":
        base = D.Categorical(**kw, **va)
    else:
        base = D.OneHotCategorical(**kw, **va)
    return D.Independent(base, 1, **va) if independent else base


def _ctor(case, cls, pos, kw):
    """construct an estimator through positional or (case['ctor'] == 'kw') keyword arguments: `pos` lists (name, value) in the
    documented order"""
    if case.get("ctor") == "kw":
        return cls(**dict(pos), **kw)
    return cls(*[v for _, v in pos], **kw)


def _sample_tensor(case, tup, B, lead=None):
    """samples for the outcome tuple: shape [len(tup), B, n(, V)]"""
    n, V = case["n"], case["V"]
    rows = []
    for o in tup:
        digs = [(o // V ** (n - 1 - i)) % V for i in range(n)]
        rows.append([digs] * B)
    t = torch.tensor(rows)
    if case["dtype"] == "bern":
        t = t.to(F64)
    elif case["dtype"] == "onehot":
        t = torch.nn.functional.one_hot(t, V).to(F64)
    if not case.get("independent", True):
        t = t[:, :, 0]
    return t


def _index(case, b, independent=True):
    """joint outcome index of a sample tensor [..., n(, V)] -> long [...]"""
    n, V = case["n"], case["V"]
    b = b.detach()
    if case["dtype"] == "onehot":
        b = b.argmax(-1)
    if not independent:
        return b.round().long()
    idx = 0
    for i in range(n):
        idx = idx * V + b[..., i].round().long()
    return idx


class _Table:
    """f(b)[m, j] = (C[j, idx] + sum_k A[j, idx, k] * theta[j].flatten()[k] + P[j, idx] * phi) / 4"""

    def __init__(self, case, pre, th, phi, independent=True, log=False):
        self.case, self.th, self.phi, self.ind, self.log = case, th, phi, independent, log
        self.C = torch.tensor(case[pre + "C"], dtype=F64) / 4
        self.A = torch.tensor(case[pre + "A"], dtype=F64) / 4
        self.P = torch.tensor(case[pre + "P"], dtype=F64) / 4
        # extreme-magnitude regime (log space only): log f(b) = log(table) + fexp[b] ln 2 + lshift
        self.S = float(case.get("lshift", 0.0)) if log else 0.0
        fe = case.get("fexp") if (log and pre == "f") else None
        self.E = None if fe is None else torch.tensor(fe, dtype=F64) * LN2

    def __call__(self, b):
        idx = _index(self.case, b, self.ind)  # [M, B]
        B = self.C.shape[0]
        thf = self.th.reshape(B, -1)
        out = []
        for j in range(B):
            ij = idx[..., j]
            out.append(self.C[j][ij] + (self.A[j][ij] * thf[j]).sum(-1) + self.P[j][ij] * self.phi)
        r = torch.stack(out, -1)
        if not self.log:
            return r
        r = r.log()
        if self.E is not None:
            r = r + torch.stack([self.E[j][idx[..., j]] for j in range(B)], -1)
        return r + self.S


# ----------------------------------------------------------------------------------------
# callbacks whose RESULT ALIASES THEIR ARGUMENT (round-4 miss C19-g).  `_Table` always builds a new tensor by advanced indexing, so an
# estimator that overwrites a sample / chain-state / callback-result buffer in place was never seen.  A `_View` callback is the
# ordinary function f(b) = b_i (value of variable i; one-hot: indicator "variable i has class c"; a batch of single variables:
# f(b) = b) - and it returns its argument itself or a view of it (select / narrow / unbind / movedim / squeeze / view, wrapped by
# transpose / unsqueeze / expand / view_as / slicing).  The logical function is an ordinary table, so the model and the
# exhaustive-sample-space oracle judge it like any other function (log space: log f = b_i, i.e. f = exp(b_i)).
# ----------------------------------------------------------------------------------------
VIEW_HOWS = ("index", "select", "narrow", "unbind", "movedim", "squeeze", "view")
VIEW_WRAPS = ("plain", "plain", "tt", "unsq", "expand", "view_as", "slice")
IND_KINDS = ("direct", "is", "imh")    # estimators whose proposal is Independent(base, 1): samples [M, B, n(, V)]


def _sel_last(r, k, how):
    """entry k of the last axis, as a view of r"""
    if how == "select":
        return r.select(-1, k)
    if how == "narrow":
        return r.narrow(-1, k, 1).squeeze(-1)
    if how == "unbind":
        return r.unbind(-1)[k]
    if how == "movedim":
        return r.movedim(-1, 0)[k]
    if how == "squeeze" and r.shape[-1] == 1:
        return r.squeeze(-1)
    if how == "view" and r.is_contiguous():
        return r.view(-1, r.shape[-1])[:, k].view(r.shape[:-1])
    return r[..., k]


class _View:
    """FunctionOnSample that returns (a view of) the sample tensor it is given; spec = {i, c, how, wrap}"""

    def __init__(self, case, spec, independent=True):
        self.case, self.spec, self.ind = case, spec, independent
        self.aliased = 0

    def __call__(self, b):
        sp, r = self.spec, b
        if self.case["dtype"] == "onehot":
            r = _sel_last(r, sp["c"], sp["how"])
        if self.ind:
            r = _sel_last(r, sp["i"], sp["how"])
        w = sp.get("wrap", "plain")
        if w == "tt" and r.dim() >= 2:
            r = r.transpose(0, 1).transpose(0, 1)
        elif w == "unsq":
            r = r.unsqueeze(0)[0]
        elif w == "expand":
            r = r.unsqueeze(-1).expand(*r.shape, 3)[..., 2]
        elif w == "view_as":
            r = r.view_as(r)
        elif w == "slice":
            r = r[:]
        self.aliased += int(r.untyped_storage().data_ptr() == b.untyped_storage().data_ptr())
        return r


def _view_values(case, spec, independent):
    """the logical function of a _View: its value per joint outcome"""
    n, V = case["n"], case["V"]
    vals = []
    for o in range(V ** n if independent else V):
        d = (o // V ** (n - 1 - spec["i"])) % V if independent else o
        vals.append(int(d == spec["c"]) if case["dtype"] == "onehot" else d)
    return vals


def _callback(case, pre, th, phi, independent=True, log=False):
    """the callable handed to the estimator for f (pre = 'f') or the control variate (pre = 'c')"""
    vw = case.get(pre + "view")
    if vw is None:
        return _Table(case, pre, th, phi, independent=independent, log=log)
    return _View(case, vw, independent)


def _linear(case, pre, th, phi, independent=True):
    """harness-side evaluation of the same logical function in linear space, always as a new tensor"""
    vw = case.get(pre + "view")
    if vw is None:
        return _Table(case, pre, th, phi, independent=independent)
    v = _View(case, vw, independent)
    return (lambda b: v(b).exp()) if case.get("is_log") else (lambda b: v(b) + 0)


def _table_fr(case, pre, j):
    """exact table of one batch element: values and derivative tables per direction (theta_k..., phi)"""
    if case.get(pre + "view") is not None:
        # log space: the callback hands over log f = b_i, the linear-space table is exp(b_i) (the float64 value of e as an exact
        # rational: 1e-16 relative, far inside the 1e-8 tolerance)
        vals = [Fr(math.exp(v)) if case.get("is_log") else Fr(v)
                for v in _view_values(case, case[pre + "view"], case["kind"] in IND_KINDS)]
        return vals, [[Fr(0)] * len(vals) for _ in range(len(_flat(case["theta"][j])) + 1)]
    th = [Fr(x, 16) for x in _flat(case["theta"][j])]
    if case["param"] == "logits":  # theta itself is irrational there: f may not depend on it
        assert not any(_flat(case[pre + "A"][j]))
    phi = Fr(case["phi"], 4)
    C, A, P = case[pre + "C"][j], case[pre + "A"][j], case[pre + "P"][j]
    vals = [(Fr(C[o]) + sum(Fr(A[o][k]) * th[k] for k in range(len(th))) + Fr(P[o]) * phi) / 4 for o in range(len(C))]
    ders = [[Fr(A[o][k], 4) for o in range(len(C))] for k in range(len(th))] + [[Fr(P[o], 4) for o in range(len(C))]]
    if pre == "f" and case.get("fexp") is not None and case.get("is_log"):
        sc = [Fr(2) ** e for e in case["fexp"][j]]   # the linear-space table the log-space estimate stands for (lshift removed)
        vals = [v * c for v, c in zip(vals, sc)]
        ders = [[d * c for d, c in zip(row, sc)] for row in ders]
    return vals, ders


def _flat(x):
    if isinstance(x, (list, tuple)):
        return [z for y in x for z in _flat(y)]
    return [x]


def _var_tables(case, key, j):
    """per variable: probabilities per value and, per direction k (one per entry of theta[j]), the
    derivative of those probabilities with respect to that parameter (probs: through torch's
    normalisation probs / probs.sum(); logits: sigmoid / softmax)."""
    n, V = case["n"], case["V"]
    raw = case[key][j]
    ex = _exps(case, key, j)
    vars_, K = [], len(_flat(raw))
    dvars = [[] for _ in range(K)]
    for i in range(n):
        if case["dtype"] == "bern":
            p1 = Fr(raw[i], 16)
            if ex:
                w1 = Fr(raw[i]) * Fr(2) ** ex[i]
                p1 = w1 / (w1 + 16 - raw[i])
            pi = [1 - p1, p1]
            for k in range(K):
                if k != i:
                    dvars[k].append([Fr(0), Fr(0)])
                elif case["param"] == "probs":
                    dvars[k].append([Fr(-1), Fr(1)])
                else:
                    dvars[k].append([-p1 * (1 - p1), p1 * (1 - p1)])
        else:
            pi = [Fr(x, 16) for x in raw[i]]
            if ex:
                w = [Fr(x, 16) * Fr(2) ** e for x, e in zip(raw[i], ex[i])]
                pi = [x / sum(w) for x in w]
            for k in range(K):
                vi, c0 = divmod(k, V)
                if vi != i:
                    dvars[k].append([Fr(0)] * V)
                elif case["param"] == "probs":
                    dvars[k].append([(1 if c == c0 else 0) - pi[c] for c in range(V)])
                else:
                    dvars[k].append([pi[c] * ((1 if c == c0 else 0) - pi[c0]) for c in range(V)])
        vars_.append(pi)
    return vars_, dvars


def _zero_like(dvars_k):
    return [[Fr(0)] * len(v) for v in dvars_k]


def est_run_impl(case):
    """Every sample tuple of the whole space: estimate and gradient per batch element.
    Returns dict(out=[tuple][j] -> [v, grads...], ell=[j][outcome], oracles...)"""
    from pydrobert.torch import estimators as E

    kind, B, n, V, M = case["kind"], case["B"], case["n"], case["V"], case["M"]
    nout = V ** n
    th = _theta_tensor(case, "theta")
    phi = torch.tensor(case["phi"] / 4, dtype=F64, requires_grad=True)
    is_log = case.get("is_log", False)
    S = float(case.get("lshift", 0.0)) if is_log else 0.0
    f = _callback(case, "f", th, phi, log=is_log)
    params = [th, phi]
    res = {"out": [], "exc": None}
    try:
        if kind == "direct":
            dist = _mkdist(case, th)
            cv, cvm = None, None
            if case["cv"]:
                cv = _callback(case, "c", th, phi, log=is_log)
                allb = _sample_tensor(case, list(range(nout)), B)
                cvm = (dist.log_prob(allb).exp() * _linear(case, "c", th, phi)(allb)).sum(0)
                if is_log:
                    cvm = cvm.log() + S
            if case.get("cv_alias") and cv is not None:
                cv = f        # the very same callable as control variate (its tables equal f's: see gen_audit_est)
            est = _ctor(case, E.DirectEstimator, [("proposal", dist), ("func", f), ("mc_samples", M), ("cv", cv), ("cv_mean", cvm)],
                        {"is_log": is_log} if (is_log or case.get("ctor") != "kw") else {})
            allb = _sample_tensor(case, list(range(nout)), B)
            res["ell"] = dist.log_prob(allb).detach().T.tolist()
        elif kind == "is":
            # object identity between the two arguments is an input dimension:
            #   "same"  - the very same distribution object is passed as proposal and as density
            #   "equal" - two distinct objects built on the same parameter tensor
            #   "diff"  - different parameters (own tensor qtheta)
            alias = case.get("alias", "diff")
            if alias == "diff":
                qth = _theta_tensor(case, "qtheta")
                dist = _mkdist(case, qth)
                dens = _mkdist(case, th)
                params = [th, phi, qth]
            else:
                assert case["qtheta"] == case["theta"]
                dist = _mkdist(case, th)
                dens = dist if alias == "same" else _mkdist(case, th)
                assert (dens is dist) == (alias == "same")
            est = _ctor(case, E.ImportanceSamplingEstimator,
                        [("proposal", dist), ("func", f), ("mc_samples", M), ("density", dens), ("self_normalize", case["self_norm"])],
                        {"is_log": is_log} if (is_log or case.get("ctor") != "kw") else {})
        else:
            raise ValueError(kind)
        vs = []
        for tup in itertools.product(range(nout), repeat=M):
            s = _sample_tensor(case, tup, B)
            if case.get("slayout") and s.dim() >= 2:   # the proposal hands out a non-contiguous sample tensor
                s = s.transpose(0, 1).contiguous().transpose(0, 1)
            dist.sample = lambda shape=torch.Size(), _s=s: _s
            vs.append(est().reshape(B))  # (is_log returns [1, B]: keepdim of the running maximum)
        res["kscale"] = _log_units(case, vs, S, B) if is_log else [0] * B
        unit = torch.tensor(res["kscale"], dtype=F64) * LN2
        for v in vs:
            if is_log:
                # log E[exp(lf)] with lf = log(table) + lshift equals log E[table] + lshift exactly: the shift is removed in
                # float64 (v and lshift agree to ~1e-13 relative) and the linear-space model judges exp(v - lshift); in the
                # extreme regime a further power of two 2^k (k ln 2 subtracted before exp, tables divided by 2^k in
                # est_terms) keeps the exponential inside the float range when log-weights span > 700 nats
                v = (v - S - unit).exp()
            row = []
            for j in range(B):
                gs = torch.autograd.grad(v[j], params, retain_graph=True, allow_unused=True)
                gs = [torch.zeros_like(p) if g is None else g for g, p in zip(gs, params)]
                row.append([float(v[j])] + [[float(x) for x in g.reshape(-1)] for g in gs])
            res["out"].append(row)
        res["th"] = th
        res["aliased"] = getattr(f, "aliased", 0) + (getattr(cv, "aliased", 0) if kind == "direct" and cv is not f else 0)
    except Exception as e:  # no exception is a legal outcome here
        res["exc"] = exc_kind(e) + ": " + str(e)[:200]
    return res


def _is_extreme(case):
    return any(case.get(k) is not None for k in ("lshift", "fexp", "pexp", "qexp"))


def _exp2(x):
    """binary exponent k with 2^(k-1) <= |x| < 2^k (0 for x = 0)"""
    x = Fr(x)
    if x == 0:
        return 0
    k = abs(x.numerator).bit_length() - x.denominator.bit_length()
    return k + 1 if abs(x) >= Fr(2) ** k else k


def frs(x, k):
    """exact rational value of the float x scaled by 2^-k, kept on the grid 2^-60 (the unit is the scale, below)"""
    x = float(x)
    if not math.isfinite(x):
        raise ValueError("non-finite")
    return Fr(round(Fr(x) * Fr(2) ** (60 - k)), 2 ** 60)


def _scaled(qs, k):
    return [q / Fr(2) ** k for q in qs]


def _log_units(case, vs, S, B):
    """per batch element: k with 2^k ~ the largest linear-space estimate exp(v - lshift) over the sample tuples (extreme regime
    only; 0 otherwise and whenever an estimate is not finite - that is reported by the caller)"""
    if not _is_extreme(case):
        return [0] * B
    top = torch.stack([v.detach() for v in vs]).max(0).values
    return [int(round((float(top[j]) - S) / LN2)) if math.isfinite(float(top[j])) else 0 for j in range(B)]


def _finite(res):
    return all(math.isfinite(x) for row in res["out"] for el in row for x in _flat(el))


def est_terms(case, res):
    """Coq bool terms: (model == impl per tuple) and (spec: space average of impl == exact), per batch
    element and direction.  Returns (model_terms, spec_terms)."""
    if res["exc"] is not None or not _finite(res):
        return ["false"], ["false"]
    kind, B, M = case["kind"], case["B"], case["M"]
    mt, st = [], []
    for j in range(B):
        K = len(_flat(case["theta"][j]))
        vars_, dvars = _var_tables(case, "theta", j)
        fval, fders = _table_fr(case, "f", j)
        shared = kind == "is" and case.get("alias", "diff") != "diff"  # proposal and density move together with theta
        ndir = K + 1 + (K if kind == "is" and not shared else 0)
        if kind == "direct":
            cval, cders = _table_fr(case, "c", j)
            ell = [Fr(round(x * 1024), 1024) for x in res["ell"][j]]
        else:
            qvars, dqvars = _var_tables(case, "qtheta", j)
        dirs = list(range(ndir))
        if _is_extreme(case) and ndir > 2:
            # one direction of each kind per batch element (chosen by the case, not by the outcome): the exact rational
            # model is costly at these magnitudes
            pick = (sum(_flat(case["fC"][j])) + j) % K
            dirs = [pick] if case.get("one_dir") else [pick, K]
            if ndir > K + 1:   # proposal parameters: the gradient is blocked (`lqb.detach()`), i.e. exactly zero
                if any(x != 0.0 for row in res["out"] for x in row[j][3]):
                    dirs.append(K + 1 + (pick + 1) % K)   # not zero: let the model comparison show it
        for d in dirs:
            # direction d: theta_j[d] (d < K), phi (d == K), qtheta_j[d-K-1] (IS only)
            if d < K:
                dv, fd, which, off = dvars[d], fders[d], 1, j * K + d
            elif d == K:
                dv, fd, which, off = _zero_like(dvars[0]), fders[K], 2, 0
            else:
                dv, fd, which, off = _zero_like(dvars[0]), [Fr(0)] * len(fval), 3, j * K + (d - K - 1)
            if _is_extreme(case):
                # Extreme magnitudes: value and gradient are homogeneous of degree one in the tables (f, cv), so tables and
                # implementation outputs are divided by one power of two per comparison, which turns the relative-to-itself
                # tolerance of dclose into |error| <= 1e-8 * UNIT.  UNIT = the largest estimate over the sample tuples for
                # the per-tuple comparison with the model (autograd's own d log p = delta - p cancels to u64 * |estimate|
                # when p ~ 1, so a gradient entry is only known relative to the estimate it belongs to), and the exact
                # expectation for the space average (each tuple's error enters weighted by its probability).
                kj = res["kscale"][j]   # the outputs already carry the factor 2^-kj
                km = kj + _exp2(max(abs(Fr(row[j][0])) for row in res["out"]))
                joint = [math.prod(c) for c in itertools.product(*vars_)]
                ks = _exp2(sum(p_ * f_ for p_, f_ in zip(joint, fval)))
            else:
                kj, km, ks = 0, None, None
            for which_t, k in (("model", km), ("spec", ks)):
                if k is None:
                    impl = [(frf(row[j][0]), frf(row[j][which][off])) for row in res["out"]]
                    fv, fdd = fval, fd
                else:
                    impl = [(frs(row[j][0], k - kj), frs(row[j][which][off], k - kj)) for row in res["out"]]
                    fv, fdd = _scaled(fval, k), _scaled(fd, k)
                if kind == "direct":
                    cd = cders[d] if d <= K else [Fr(0)] * len(cval)
                    cv_, cd_ = (cval, cd) if k is None else (_scaled(cval, k), _scaled(cd, k))
                    if which_t == "model":
                        model = (f"direct_all {cn(M)} {cb(case['cv'])} {cllq(vars_)} {cllq(dv)} {clq(fv)} {clq(fdd)} "
                                 f"{clq(cv_)} {clq(cd_)} {clq(ell)}")
                        mt.append(f"check_all {cq(TOL)} ({model}) {cld(impl)}")
                    else:
                        st.append(f"unbiased_okb {cq(TOL)} {cn(M)} (mkjoint {cllq(vars_)} {cllq(dv)}) "
                                  f"(mkjoint {cllq(vars_)} {cllq(dv)}) (combine {clq(fv)} {clq(fdd)}) {cld(impl)}")
                else:
                    dq = dqvars[d - K - 1] if d > K else (dqvars[d] if shared and d < K else _zero_like(dqvars[0]))
                    if which_t == "model":
                        model = (f"importance_all {cn(M)} {cb(case['self_norm'])} {cllq(vars_)} {cllq(dv)} {cllq(qvars)} "
                                 f"{cllq(dq)} {clq(fv)} {clq(fdd)}")
                        mt.append(f"check_all {cq(TOL)} ({model}) {cld(impl)}")
                    elif not case["self_norm"]:
                        st.append(f"unbiased_okb {cq(TOL)} {cn(M)} (mkjoint {cllq(vars_)} {cllq(dv)}) "
                                  f"(mkjoint {cllq(qvars)} {cllq(dq)}) (combine {clq(fv)} {clq(fdd)}) {cld(impl)}")
    return mt, st


# ----------------------------------------------------------------------------------------
# EnumerateEstimator: batch of B single variables (bern / cat / onehot / srswor)
# ----------------------------------------------------------------------------------------
def _srswor_support(T, L):
    return [o for o in range(2 ** T) if bin(o).count("1") == L]


def enum_run_impl(case):
    from pydrobert.torch import estimators as E
    from pydrobert.torch import distributions as PD

    B = case["B"]
    phi = torch.tensor(case["phi"] / 4, dtype=F64, requires_grad=True)
    res = {"out": [], "exc": None}
    is_log = bool(case.get("is_log", False)) and case["dtype"] != "srswor"
    try:
        if case["dtype"] == "srswor":
            T, L, O = case["total"], case["given"], case.get("out_size")
            dist = PD.SimpleRandomSamplingWithoutReplacement(torch.tensor([L] * B), torch.tensor([T] * B), O)
            th = torch.zeros((B, 0), dtype=F64, requires_grad=True)
            supp = _srswor_support(T, L)
            C = torch.full((B, 2 ** T), float("nan"), dtype=F64)
            P = torch.full((B, 2 ** T), float("nan"), dtype=F64)
            for j in range(B):
                for r, o in enumerate(supp):
                    C[j, o] = case["fC"][j][r] / 4
                    P[j, o] = case["fP"][j][r] / 4

            def f(b):  # b: [S, B, out]
                idx = sum(b[..., t].round().long() * 2 ** t for t in range(b.shape[-1]))
                return torch.stack([C[j][idx[:, j]] + P[j][idx[:, j]] * phi for j in range(B)], -1).to(F64)
        else:
            th = _theta_tensor(case, "theta")  # [B, 1] or [B, 1, V]
            dist = _mkdist(case, th[:, 0], independent=False)
            f = _callback(case, "f", th, phi, independent=False, log=is_log)
        if case.get("ctor") == "kw":
            est = E.EnumerateEstimator(proposal=dist, func=f, is_log=is_log)
        else:
            est = E.EnumerateEstimator(dist, f, is_log=is_log) if is_log else E.EnumerateEstimator(dist, f)
        v = est()
        res["kscale"] = [0] * B
        if is_log:
            S = float(case.get("lshift", 0.0))
            res["kscale"] = _log_units(case, [v.reshape(B)], S, B)
            v = (v.reshape(B) - S - torch.tensor(res["kscale"], dtype=F64) * LN2).exp()
        for j in range(B):
            gs = torch.autograd.grad(v[j], [th, phi], retain_graph=True, allow_unused=True)
            gs = [torch.zeros_like(p) if g is None else g for g, p in zip(gs, [th, phi])]
            res["out"].append([float(v[j])] + [[float(x) for x in g.reshape(-1)] for g in gs])
    except Exception as e:
        res["exc"] = exc_kind(e) + ": " + str(e)[:200]
    return res


def enum_terms(case, res):
    if res["exc"] is not None or not all(math.isfinite(x) for x in _flat(res["out"])):
        return ["false"], ["false"]
    mt = []
    # SimpleRandomSamplingWithoutReplacement computes its log-partition from float32 log-factorials
    tol = Fr(1, 10 ** 4) if case["dtype"] == "srswor" else TOL
    for j in range(case["B"]):
        if case["dtype"] == "srswor":
            C = len(_srswor_support(case["total"], case["given"]))
            vars_, dvars, K = [[Fr(1, C)] * C], [], 0
            phi = Fr(case["phi"], 4)
            fval = [(Fr(case["fC"][j][o]) + Fr(case["fP"][j][o]) * phi) / 4 for o in range(C)]
            fders = [[Fr(case["fP"][j][o], 4) for o in range(C)]]
        else:
            K = len(_flat(case["theta"][j]))
            vars_, dvars = _var_tables(case, "theta", j)
            fval, fders = _table_fr(case, "f", j)
        for d in range(K + 1):
            dv = dvars[d] if d < K else _zero_like(vars_)
            gj = res["out"][j][1][j * K + d] if d < K else res["out"][j][2][0]
            if _is_extreme(case):   # unit = the estimate itself (see est_terms)
                kj = res["kscale"][j]
                k = kj + _exp2(Fr(res["out"][j][0]))
                impl = (frs(res["out"][j][0], k - kj), frs(gj, k - kj))
                fv, fdd = _scaled(fval, k), _scaled(fders[d], k)
            else:
                impl, fv, fdd = (frf(res["out"][j][0]), frf(gj)), fval, fders[d]
            mt.append(f"dclose {cq(tol)} (enumerate_est (mkjoint {cllq(vars_)} {cllq(dv)}) "
                      f"(combine {clq(fv)} {clq(fdd)})) {cdual(impl)}")
    return mt, []  # the estimate is unique: a disagreement with the (proved exact) model is the failure


# ----------------------------------------------------------------------------------------
# relaxed estimators: StraightThroughEstimator / RelaxEstimator on LogisticBernoulli (V = 2) or
# GumbelOneHotCategorical (V >= 2) with batch B; uniforms are scripted through torch.rand / rand_like
# ----------------------------------------------------------------------------------------
class _Rand:
    """replacement for torch.rand / torch.rand_like that replays scripted uniforms"""

    def __init__(self, script):
        self.script, self.k = list(script), 0

    def _next(self, shape, like=None):
        t = self.script[self.k]
        self.k += 1
        assert tuple(t.shape) == tuple(shape), (t.shape, shape)
        return t.clone()

    def rand(self, *size, **kw):
        if len(size) == 1 and not isinstance(size[0], int):
            size = tuple(size[0])
        return self._next(size).to(kw.get("dtype") or torch.get_default_dtype())

    def rand_like(self, x, **kw):
        return self._next(x.shape).to(x.dtype)


def _patched(script):
    r = _Rand(script)
    return r, mock.patch.object(torch, "rand", r.rand), mock.patch.object(torch, "rand_like", r.rand_like)


def _relaxed_dist(case, th):
    from pydrobert.torch import distributions as PD

    cls = PD.LogisticBernoulli if case["dtype"] == "bern" else PD.GumbelOneHotCategorical
    par = th[:, 0]
    B = par.shape[0]
    ex = bool(case.get("expand")) and B > 1 and all(t == case["theta"][0] for t in case["theta"])
    if ex:
        # one row (all rows of this case are equal), expanded to the batch by the distribution's own expand();
        # value = row 0, gradient with respect to EVERY row j = the gradient with respect to that one row
        par = par.sum(0, keepdim=True) - (B - 1) * par[:1].detach()
    va = {"validate_args": True} if case.get("validate") else {}
    if case.get("dpos"):
        # positional construction in the documented order: LogisticBernoulli(probs, logits), GumbelOneHotCategorical(logits, probs)
        first = "probs" if case["dtype"] == "bern" else "logits"
        d = cls(par, **va) if case["param"] == first else cls(None, par, **va)
    else:
        d = cls(**{case["param"]: par}, **va)
    _touch(d, case.get("pre"))
    if ex:
        d = d.expand([B])
        _touch(d, case.get("pre2"))
    return d


def _touch(d, which):
    """call history of the lazily computed parameters: read `probs` and / or `logits` before anything else is done"""
    for name in {"probs": ["probs"], "logits": ["logits"], "both": ["logits", "probs"], "both2": ["probs", "logits"]}.get(which, []):
        getattr(d, name)


class _CV:
    """control variate on relaxed samples: eta * sum_c w_c sigma(z / temp)_c  (REBAR-like), per batch element"""

    def __init__(self, case, eta, log=False, base=0.0):
        self.case, self.eta, self.log, self.base = case, eta, log, base
        self.w = torch.tensor(case["cw"], dtype=F64) / 4  # [B] or [B, V]
        self.temp = case["temp"] / 4
        self.S = float(case.get("lshift", 0.0)) if log else 0.0

    def __call__(self, z):
        if self.case["dtype"] == "bern":
            r = self.base + self.eta * self.w * torch.sigmoid(z / self.temp)
        else:
            r = self.base + self.eta * (self.w * torch.softmax(z / self.temp, -1)).sum(-1)
        # log space (is_log=True): the estimator is handed log-values; positive by construction of the case
        return r.log() + self.S if self.log else r


def _zcb(case, eta, log=False, base=0.0, lin=False):
    """callback on RELAXED samples (control variate of RELAX, func of the reparameterisation estimator): the REBAR-like `_CV`, or -
    case['zview'] - the function c(z) = z_c (batch of single logistic variables: c(z) = z) returned as (a view of) z itself;
    in log space the estimator is handed log c = z_c.  lin=True: the harness's own linear-space evaluation, a new tensor"""
    zv = case.get("zview")
    if zv is None:
        return _CV(case, eta, log=log, base=base)
    v = _View(case, zv, False)
    if not lin:
        return v
    return (lambda z: v(z).exp()) if case.get("is_log") else (lambda z: v(z) + 0)


def relaxed_run_impl(case):
    """One call of the estimator on scripted uniforms u (rsample) and v (csample)."""
    from pydrobert.torch import estimators as E

    B, V, M = case["B"], case["V"], case["M"]
    th = _theta_tensor(case, "theta")
    phi = torch.tensor(case["phi"] / 4, dtype=F64, requires_grad=True)
    eta = torch.tensor(case["eta"] / 4, dtype=F64, requires_grad=True)
    shape = (M, B) if case["dtype"] == "bern" else (M, B, V)
    u = (torch.tensor(case["u"], dtype=F64) / 64).reshape(shape)
    v = (torch.tensor(case["v"], dtype=F64) / 64).reshape(shape)
    is_log = bool(case.get("is_log", False))
    S = float(case.get("lshift", 0.0)) if is_log else 0.0
    f = _callback(case, "f", th, phi, independent=False, log=is_log)
    params = [th, phi, eta]
    res = {"exc": None}
    try:
        dist = _relaxed_dist(case, th)
        if case["kind"] == "st":
            est = _ctor(case, E.StraightThroughEstimator, [("proposal", dist), ("func", f), ("mc_samples", M)], {"is_log": is_log})
            script = [u]
        elif case["kind"] == "reparam":
            # ReparameterizationEstimator on the relaxed sample itself: func(z) = base + eta * w . sigma(z / temp) (> 0)
            est = E.ReparameterizationEstimator(dist, _zcb(case, eta, log=is_log, base=case["base"] / 4), M, is_log=is_log)
            script = [u]
        else:
            cv = _zcb(case, eta, lin=True)
            est = _ctor(case, E.RelaxEstimator, [("proposal", dist), ("func", f), ("mc_samples", M), ("cv", _zcb(case, eta, log=is_log))],
                        {"is_log": is_log} if (is_log or case.get("ctor") != "kw") else {})
            script = [u, v]
        r, p1, p2 = _patched(script)
        with p1, p2:
            out = est()
        assert r.k == len(script)
        res["rel_extra"] = []
        if case.get("twice"):
            # call history: the same estimator object again on the same uniforms, and a fresh object on the same distribution
            r, p1, p2 = _patched(script)
            with p1, p2:
                out2 = est()
            g1 = torch.autograd.grad(out.sum(), [th], retain_graph=True, allow_unused=True)[0]
            g2 = torch.autograd.grad(out2.sum(), [th], retain_graph=True, allow_unused=True)[0]
            res["rel_extra"].append(("the same estimator object called twice on the same uniforms returns the same value and gradient",
                                     bool(torch.equal(out, out2)) and ((g1 is None and g2 is None) or
                                                                      bool(torch.allclose(g1, g2, rtol=1e-12, atol=1e-14)))))
        if case.get("cvp") and case["kind"] == "relax":
            # optional state: the variance-minimising branch (proposal_params / cv_params given) only redirects the gradient of the
            # control variate's parameters; the value and the gradient w.r.t. the distribution's parameters are those of the plain call
            eta2 = eta.detach().clone().requires_grad_(True)    # (the branch hooks the gradient of its cv parameter: own leaf)
            est2 = E.RelaxEstimator(dist, f, M, _zcb(case, eta2, log=is_log), proposal_params=[th], cv_params=[eta2], is_log=is_log)
            r, p1, p2 = _patched(script)
            with p1, p2:
                out2 = est2()
            ga = torch.autograd.grad(out.sum(), [th, phi], retain_graph=True, allow_unused=True)
            gb = torch.autograd.grad(out2.sum(), [th, phi], retain_graph=True, allow_unused=True)
            same = bool(torch.allclose(out, out2, rtol=1e-12, atol=1e-12)) and all(
                (a is None and b is None) or (a is not None and b is not None and bool(torch.allclose(a, b, rtol=1e-10, atol=1e-12)))
                for a, b in zip(ga, gb))
            res["rel_extra"].append(("RelaxEstimator with proposal_params / cv_params returns the value and the distribution-parameter "
                                     "gradient of the plain estimator", same))
        if is_log:
            out = (out.reshape(B) - S).exp()   # see est_run_impl: the common log-offset is removed exactly
        # the pieces, recomputed with the distribution's own methods under the same uniforms
        r, p1, p2 = _patched([u, v])
        with p1, p2:
            z = dist.rsample([M])
            b = dist.threshold(z)
            zc = dist.csample(b)
        lp = dist.tlog_prob(b)
        idx = _index(case, b, False)
        res["idx"] = idx.tolist()
        res["ell"] = lp.detach().tolist()
        rows = []
        for j in range(B):
            gs = torch.autograd.grad(out[j], params, retain_graph=True, allow_unused=True)
            gs = [torch.zeros_like(p_) if g is None else g for g, p_ in zip(gs, params)]
            rows.append([float(out[j])] + [[float(x) for x in g.reshape(-1)] for g in gs])
        res["out"] = rows
        if case["kind"] == "reparam":
            fz = _zcb(case, eta, base=case["base"] / 4, lin=True)(z)   # linear-space values of func on the implementation's own z
            res["fz"] = [[[float(fz[m, j])] + [[float(x) for x in (torch.zeros_like(p_) if g is None else g).reshape(-1)]
                                                for g, p_ in zip(torch.autograd.grad(fz[m, j], params, retain_graph=True,
                                                                                      allow_unused=True), params)]
                          for j in range(B)] for m in range(M)]
        if case["kind"] == "relax":
            cvz, cvzc = cv(z), cv(zc)
            pieces = []
            for m in range(M):
                prow = []
                for j in range(B):
                    ent = []
                    for t in (cvz, cvzc):
                        gs = torch.autograd.grad(t[m, j], params, retain_graph=True, allow_unused=True)
                        gs = [torch.zeros_like(p_) if g is None else g for g, p_ in zip(gs, params)]
                        ent.append([float(t[m, j])] + [[float(x) for x in g.reshape(-1)] for g in gs])
                    prow.append(ent)
                pieces.append(prow)
            res["pieces"] = pieces
    except Exception as e:
        res["exc"] = exc_kind(e) + ": " + str(e)[:200]
    return res


def relaxed_terms(case, res):
    if res["exc"] is not None or not all(math.isfinite(x) for x in _flat(res["out"])):
        return ["false"], []
    B, M = case["B"], case["M"]
    mt = []
    for j in range(B):
        K = len(_flat(case["theta"][j]))
        vars_, dvars = _var_tables(case, "theta", j)
        fval, fders = _table_fr(case, "f", j)
        ndir = K + 2 if case["kind"] in ("relax", "reparam") else K + 1
        for d in range(ndir):
            which, off = (1, j * K + d) if d < K else ((2, 0) if d == K else (3, 0))
            dv = dvars[d] if d < K else _zero_like(vars_)
            fd = fders[d] if d <= K else [Fr(0)] * len(fval)
            impl = (frf(res["out"][j][0]), frf(res["out"][j][which][off]))
            idx = [res["idx"][m][j] for m in range(M)]
            if case["kind"] == "reparam":
                # sample mean of func(z_m), value and (reparameterisation) gradient; func's duals come from autograd on func(z_m)
                duals = [cdual((frf(res["fz"][m][j][0]), frf(res["fz"][m][j][which][off]))) for m in range(M)]
                mt.append(f"dclose {cq(TOL)} (straight_through {cl(duals)}) {cdual(impl)}")
                continue
            if case["kind"] == "st":
                # value only: the gradient is the straight-through heuristic (biased by design)
                mt.append(f"close {cq(TOL)} (fst (straight_through (map (fn (combine {clq(fval)} {clq(fd)})) "
                          f"{cl([cn(i) for i in idx])}))) {cq(impl[0])}")
                break
            draws = []
            for m in range(M):
                pz, pzc = res["pieces"][m][j]
                draws.append("(mkRdraw (fn ftab %s) %s %s (%s, dlogp pd %s))" % (
                    cn(idx[m]), cdual((frf(pz[0]), frf(pz[which][off]))), cdual((frf(pzc[0]), frf(pzc[which][off]))),
                    cq(Fr(round(res["ell"][m][j] * 1024), 1024)), cn(idx[m])))
            mt.append(f"(let pd := mkjoint {cllq(vars_)} {cllq(dv)} in let ftab := combine {clq(fval)} {clq(fd)} in "
                      f"dclose {cq(TOL)} (relax {cl(draws)}) {cdual(impl)})")
    return mt, []


# ----------------------------------------------------------------------------------------
# IndependentMetropolisHastingsEstimator
# ----------------------------------------------------------------------------------------
class _TabDensity:
    """unnormalised density given by a table per batch element (0 = outside the support)"""

    def __init__(self, case):
        self.case = case
        w = torch.tensor(case["w"], dtype=F64) / 4
        self.lw = w.log()

    def log_prob(self, b):
        idx = _index(self.case, b)
        return torch.stack([self.lw[j][idx[..., j]] for j in range(self.case["B"])], -1)


class _Scratch:
    """func that keeps the tensor it returns and later mutates it: 'outbuf' writes every result into ONE persistent buffer of its own
    and returns that buffer (torch's out= idiom; the estimator runs under no_grad); 'keep' recycles (overwrites) the tensor it
    returned last time before it hands out the next one.  The estimator calls func once per kept chain state, so both are visible
    only when at least two states are kept."""

    def __init__(self, f, mode):
        self.f, self.mode, self.buf, self.last = f, mode, None, None

    def __call__(self, b):
        r = self.f(b)
        if self.mode == "outbuf":
            if self.buf is None:
                self.buf = torch.empty_like(r)
            self.buf.copy_(r)
            return self.buf
        if self.last is not None:
            self.last.fill_(float("nan"))
        self.last = r
        return r


def imh_run_impl(case):
    from pydrobert.torch import estimators as E

    B, N = case["B"], case["N"]
    th = _theta_tensor(case, "theta")
    phi = torch.tensor(0.0, dtype=F64)
    is_log = bool(case.get("is_log", False))
    f = _callback(case, "f", th.detach(), phi, log=is_log)
    if case.get("fmode"):
        f = _Scratch(f, case["fmode"])
    ikw = {"is_log": True} if is_log else {}
    res = {"exc": None, "calls": 0}
    try:
        dist = _mkdist(case, th.detach())
        if case["same"]:  # identical object, or an equal but distinct object
            dens = dist if case.get("alias", "same") == "same" else _mkdist(case, th.detach())
        else:
            dens = _TabDensity(case)
        draws = [_sample_tensor(case, [o[0]], B) if len(set(o)) == 1 else
                 torch.cat([_sample_tensor(case, [o[j]], 1) for j in range(B)], 1) for o in case["draws"]]
        state = {"k": 0}

        def sample(shape=torch.Size()):
            t = draws[state["k"]]
            state["k"] += 1
            return t

        dist.sample = sample
        kw = {}
        if case["given"] is not None:
            init = torch.cat([_sample_tensor(case, [case["given"][j]], 1) for j in range(B)], 1)
            kw["initial_sample"] = init if case.get("given_lead", True) else init[0]
            init_keep = kw["initial_sample"].clone()
        if case.get("ctor") == "kw":
            est = E.IndependentMetropolisHastingsEstimator(proposal=dist, func=f, mc_samples=N, density=dens, burn_in=case["burn"],
                                                           initial_sample_tries=case["tries"], **kw, **ikw)
        elif case.get("ctor") == "pos":
            est = E.IndependentMetropolisHastingsEstimator(dist, f, N, dens, case["burn"], kw.get("initial_sample"), case["tries"],
                                                           *([True] if is_log else []))
        else:
            est = E.IndependentMetropolisHastingsEstimator(dist, f, N, dens, burn_in=case["burn"],
                                                           initial_sample_tries=case["tries"], **kw, **ikw)
        us = (torch.tensor(case["us"], dtype=F64) / 64).reshape(N, B)
        r, p1, p2 = _patched([us])
        with p1, p2:
            v = est()
        if is_log:
            res["raw"] = [float(x) for x in v.reshape(-1)]
            v = v.exp()       # log of the plain average of exp(log f): judged in linear space
        res["out"] = [float(x) for x in v.reshape(-1)]
        res["calls"] = state["k"]
        res["aliased"] = getattr(f, "aliased", None)
        if case["given"] is not None:
            res["initial_unchanged"] = bool(torch.equal(kw["initial_sample"], init_keep))
        if case.get("twice"):
            # call history: the same estimator object run again on the same proposals and uniforms (nothing may be carried over)
            state["k"] = 0
            r, p1, p2 = _patched([us])
            with p1, p2:
                v2 = est()
            if is_log:
                v2 = v2.exp()
            res["twice_same"] = state["k"] == res["calls"] and ([float(x) for x in v2.reshape(-1)] == res["out"] or (
                all(math.isnan(a) == math.isnan(b) and (math.isnan(a) or a == b) for a, b in zip([float(x) for x in v2.reshape(-1)], res["out"]))))
    except Exception as e:
        res["exc"] = exc_kind(e) + ": " + str(e)[:200]
    return res


def imh_model_term(case, res):
    B = case["B"]
    qv = [_var_tables(case, "theta", j)[0] for j in range(B)]
    ws = []
    for j in range(B):
        qj = [math.prod(c) for c in itertools.product(*qv[j])]
        if case["same"]:
            ws.append([Fr(1)] * len(qj))
        else:
            ws.append([Fr(case["w"][j][i], 4) / qj[i] for i in range(len(qj))])
    fs = [_table_fr(case, "f", j)[0] for j in range(B)]
    given = co(cl([cn(x) for x in case["given"]])) if case["given"] is not None else "None"
    draws = cl([cl([cn(x) for x in d]) for d in case["draws"]])
    us = cl([clq([Fr(x, 64) for x in row]) for row in case["us"]])
    if res["exc"] is not None:
        impl = "None" if res["exc"].startswith("RuntimeError: Unable to find initial sample") else None
        if impl is None:
            return "false"
    else:
        if not all(math.isfinite(x) for x in res["out"]):
            return "false"
        impl = co(clq([frf(x) for x in res["out"]]))
    return (f"imh_check {cq(TOL)} {cllq(ws)} {cllq(fs)} {given} {draws} {cn(case['tries'])} {us} "
            f"{cn(case['N'])} {cn(case['burn'])} {impl}")


# =========================================================================================
# family "dist": LogisticBernoulli / GumbelOneHotCategorical methods against PV.C19.Relaxed (FX instance)
# =========================================================================================
FXS = 2 ** 64
TOLFX = round(FXS / 10 ** 9)
IMPORTS_FX = IMPORTS


def fx(x):
    return cz(round(Fr(float(x)) * FXS))


def fxl(xs):
    return cl([fx(x) for x in xs])


def _opt_fx(x):
    return "None" if x == float("-inf") else f"(Some {fx(x)})"


def dist_run_impl(case):
    """All methods of one relaxed distribution on scripted uniforms and on given relaxed points."""
    B, V = case["B"], case["V"]
    bern = case["dtype"] == "bern"
    th = _theta_tensor(case, "theta").detach()
    if not bern and case["param"] == "probs":
        th = th * case.get("pscale", 1)  # unnormalised probabilities: the constructor divides by their sum
    if case.get("lext") is not None:     # extreme-magnitude regime: logits moved by tens to hundreds of nats
        assert case["param"] == "logits"
        th = th + torch.tensor(case["lext"], dtype=F64).reshape(th.shape)
    shape = (B,) if bern else (B, V)
    res = {"exc": None}
    if case["param"] == "logits":
        # oracle independent of the implementation (regime T): torch's float64 kernels on the logits that were handed over
        lg = th[:, 0] if bern else torch.log_softmax(th[:, 0], -1)
        res["l_oracle"] = lg.tolist()
        res["p_oracle"] = (torch.sigmoid(lg) if bern else torch.softmax(th[:, 0], -1)).tolist()
    try:
        dist = _relaxed_dist(case, th)
        u = (torch.tensor(case["u"], dtype=F64) / 64).reshape((1,) + shape)
        v = (torch.tensor(case["v"], dtype=F64) / 64).reshape((1,) + shape)
        zs = (torch.tensor(case["z"], dtype=F64) / 8).reshape((-1,) + shape)  # arbitrary relaxed points
        if case.get("zrel"):   # ... placed relative to the location of the density (its logits)
            zs = zs + (th[:, 0] if bern else torch.log_softmax(th[:, 0], -1))
        r, p1, p2 = _patched([u])
        with p1, p2:
            z = dist.rsample([1])
        b = dist.threshold(z)
        bc = torch.tensor(case["b"], dtype=F64).reshape((1,) + shape)  # conditioning values
        r, p1, p2 = _patched([v, v])
        with p1, p2:
            zc_own = dist.csample(b)
            zc = dist.csample(bc)
        res.update(l=dist.logits.tolist(), p=dist.probs.tolist(), z=z[0].tolist(), b=b[0].tolist(),
                   zc_own=zc_own[0].tolist(), zc=zc[0].tolist(),
                   b_of_zc_own=dist.threshold(zc_own)[0].tolist(), b_of_zc=dist.threshold(zc)[0].tolist())
        pts = torch.cat([z, zc, zs])
        bpts = dist.threshold(pts)
        res["pts"] = pts.tolist()
        res["bpts"] = bpts.tolist()
        res["lp"] = dist.log_prob(pts).tolist()
        res["tlp"] = dist.tlog_prob(bpts).tolist()
        res["clp_own"] = dist.clog_prob(pts, bpts).tolist()
        res["clp_bc"] = dist.clog_prob(pts, bc.expand_as(pts)).tolist()
        res["tlp_bc"] = dist.tlog_prob(bc)[0].tolist()
    except Exception as e:
        res["exc"] = exc_kind(e) + ": " + str(e)[:200]
    return res


def _bl(bs):
    return cl([cb(x >= 0.5) for x in bs])


def dist_terms(case, res):
    """(model terms, relation terms evaluated in python on the implementation's outputs)"""
    if res["exc"] is not None:
        return ["false"], [("exception", False)]
    for key in ("l", "p", "z", "zc_own", "zc", "pts", "lp", "tlp", "tlp_bc"):   # (clog_prob may legitimately be -inf)
        if not all(math.isfinite(x) for x in _flat(res[key])):
            return ["false"], [("relaxed distribution: non-finite %s although every closed form is finite for these logits" % key, False)]
    B, V = case["B"], case["V"]
    bern = case["dtype"] == "bern"
    eps = cz(round(Fr(torch.finfo(F64).eps) * FXS))
    tol = cz(TOLFX)
    mt, rel = [], []
    feps = float(torch.finfo(F64).eps)
    for j in range(B):
        l, p = res["l"][j], res["p"][j]
        if "l_oracle" in res:
            # the model is fed the harness's own log_softmax / sigmoid of the given logits, and the distribution's normalised
            # parameters are compared with them (otherwise a badly normalised `logits` would be followed by the model)
            lo, po = res["l_oracle"][j], res["p_oracle"][j]
            rel.append(("distribution's logits == log_softmax of the given logits (float64 oracle)",
                        all(math.isfinite(a) and abs(a - b) <= 1e-12 * (1 + abs(b)) for a, b in zip(_flat(l), _flat(lo)))))
            rel.append(("distribution's probs == softmax / sigmoid of the given logits (float64 oracle, relative 1e-9)",
                        all(math.isfinite(a) and abs(a - b) <= 1e-9 * b + 1e-300 for a, b in zip(_flat(p), _flat(po)))))
            l = lo   # (csample reads self.probs: the model gets those, just audited against the oracle)
        # csample clamps probs into [eps, 1 - eps] first (clamp_probs): outside, its closed form is not the model's; and the
        # fixed-point model (resolution 2^-64) divides by p and 1 - p: it keeps 1e-9 relative only while both exceed ~1e-8
        cs_ok = all(max(feps, 1e-8) <= x <= 1 - max(feps, 1e-8) for x in _flat(p))
        u = [x / 64 for x in (case["u"][j:j + 1] if bern else case["u"][j * V:(j + 1) * V])]
        v = [x / 64 for x in (case["v"][j:j + 1] if bern else case["v"][j * V:(j + 1) * V])]
        bc = case["b"][j] if bern else case["b"][j * V:(j + 1) * V]
        if bern:
            mt.append(f"fx_close {tol} (lb_rsample FX {fx(l)} {fx(u[0])}) {fx(res['z'][j])}")
            mt.append(f"Bool.eqb (lb_threshold FX {fx(res['z'][j])}) {cb(res['b'][j] >= 0.5)}")
            if cs_ok:
                mt.append(f"fx_close {tol} (lb_csample FX {fx(p)} {fx(v[0])} {cb(res['b'][j] >= 0.5)} {eps}) {fx(res['zc_own'][j])}")
                mt.append(f"fx_close {tol} (lb_csample FX {fx(p)} {fx(v[0])} {cb(bc >= 0.5)} {eps}) {fx(res['zc'][j])}")
            mt.append(f"fx_close {tol} (lb_tlog_prob FX {fx(l)} {cb(bc >= 0.5)}) {fx(res['tlp_bc'][j])}")
            rel.append(("threshold(csample(b)) == b", res["b_of_zc_own"][j] == res["b"][j] and res["b_of_zc"][j] == bc))
            for k in range(len(res["pts"])):
                zk, bk = res["pts"][k][j], res["bpts"][k][j]
                mt.append(f"fx_close {tol} (lb_log_prob FX {fx(l)} {fx(zk)}) {fx(res['lp'][k][j])}")
                mt.append(f"fx_close {tol} (lb_tlog_prob FX {fx(l)} {cb(bk >= 0.5)}) {fx(res['tlp'][k][j])}")
                mt.append(f"fx_close_opt {tol} (lb_clog_prob FX {fx(l)} {fx(zk)} {cb(bk >= 0.5)}) {_opt_fx(res['clp_own'][k][j])}")
                mt.append(f"fx_close_opt {tol} (lb_clog_prob FX {fx(l)} {fx(zk)} {cb(bc >= 0.5)}) {_opt_fx(res['clp_bc'][k][j])}")
                lhs, rhs = res["lp"][k][j], res["tlp"][k][j] + res["clp_own"][k][j]
                rel.append(("log_prob == tlog_prob + clog_prob", abs(lhs - rhs) <= 1e-9 * (1 + abs(lhs))))
                if (bk >= 0.5) != (bc >= 0.5):
                    rel.append(("clog_prob == -inf off the conditioning value", res["clp_bc"][k][j] == float("-inf")))
        else:
            mt.append(f"fx_close_list {tol} (g_rsample FX {fxl(l)} {fxl(u)}) {fxl(res['z'][j])}")
            mt.append(f"bools_eq (g_threshold FX {fxl(res['z'][j])}) {_bl(res['b'][j])}")
            if cs_ok:
                mt.append(f"fx_close_list {tol} (g_csample FX {fxl(p)} {fxl(v)} {_bl(res['b'][j])} {eps}) {fxl(res['zc_own'][j])}")
                mt.append(f"fx_close_list {tol} (g_csample FX {fxl(p)} {fxl(v)} {_bl(bc)} {eps}) {fxl(res['zc'][j])}")
            mt.append(f"fx_close {tol} (g_tlog_prob FX {fxl(l)} {_bl(bc)}) {fx(res['tlp_bc'][j])}")
            rel.append(("threshold(csample(b)) == b", res["b_of_zc_own"][j] == res["b"][j] and res["b_of_zc"][j] == [float(x) for x in bc]))
            for k in range(len(res["pts"])):
                zk, bk = res["pts"][k][j], res["bpts"][k][j]
                mt.append(f"fx_close {tol} (g_log_prob FX {fxl(l)} {fxl(zk)}) {fx(res['lp'][k][j])}")
                mt.append(f"fx_close {tol} (g_tlog_prob FX {fxl(l)} {_bl(bk)}) {fx(res['tlp'][k][j])}")
                mt.append(f"fx_close_opt {tol} (g_clog_prob FX {fxl(l)} {fxl(zk)} {_bl(bk)}) {_opt_fx(res['clp_own'][k][j])}")
                mt.append(f"fx_close_opt {tol} (g_clog_prob FX {fxl(l)} {fxl(zk)} {_bl(bc)}) {_opt_fx(res['clp_bc'][k][j])}")
                lhs, rhs = res["lp"][k][j], res["tlp"][k][j] + res["clp_own"][k][j]
                rel.append(("log_prob == tlog_prob + clog_prob", abs(lhs - rhs) <= 1e-9 * (1 + abs(lhs))))
                if [x >= 0.5 for x in bk] != [x >= 0.5 for x in bc]:
                    rel.append(("clog_prob == -inf off the conditioning value", res["clp_bc"][k][j] == float("-inf")))
    return mt, rel


def _dist_margin_ok(case):
    """reject scripts whose threshold decision is within 1e-6 of a tie (regime T)"""
    B, V = case["B"], case["V"]
    for j in range(B):
        if case["dtype"] == "bern":
            p = case["theta"][j][0] / 16
            if abs(case["u"][j] / 64 - (1 - p)) < 1e-9:
                return False
            if any(abs(z) < 1e-6 for z in case["z"][j::B]):
                return False
        else:
            ps = [x / 16 for x in case["theta"][j][0]]
            us = [x / 64 for x in case["u"][j * V:(j + 1) * V]]
            z = sorted(math.log(p) - math.log(-math.log(u)) for p, u in zip(ps, us))
            if min(b - a for a, b in zip(z, z[1:])) < 1e-6:
                return False
            zz = case["z"]
            for k in range(len(zz) // (B * V)):
                row = sorted(zz[(k * B + j) * V:(k * B + j + 1) * V])
                if min(b - a for a, b in zip(row, row[1:])) == 0:
                    return False
    return True


def gen_dist(rng):
    while True:
        dtype = rng.choice(["bern", "onehot"])
        V = 2 if dtype == "bern" else rng.choice([2, 3, 4])
        B = rng.choice([1, 2])
        case = {"fam": "dist", "dtype": dtype, "V": V, "B": B, "n": 1, "param": rng.choice(["probs", "logits"]),
                "shift": rng.randint(-6, 6), "pscale": rng.choice([1, 1, 2, 0.5, 4])}
        case["theta"] = _gen_theta(rng, dtype, B, 1, V)
        m = B * (1 if dtype == "bern" else V)
        case["u"] = [rng.randint(1, 63) for _ in range(m)]
        case["v"] = [rng.randint(1, 63) for _ in range(m)]
        case["z"] = [rng.randint(-40, 40) for _ in range(m * rng.randint(1, 3))]
        if dtype == "bern":
            case["b"] = [rng.randint(0, 1) for _ in range(B)]
        else:
            case["b"] = _flat([[1 if c == k else 0 for c in range(V)] for k in [rng.randrange(V) for _ in range(B)]])
        if _dist_margin_ok(case):
            return case


# =========================================================================================
# family "comb": _combinatorics.py against PV.C19.Combinatorics
# =========================================================================================
def clz_(xs):
    return cl([cz(x) for x in xs])


def cllz(xss):
    return cl([clz_(xs) for xs in xss])


def _ints(t):
    return [[int(round(float(x))) for x in row] for row in t]


CDT = {"i64": torch.int64, "i32": torch.int32, "f32": torch.float32, "f64": torch.float64}


def _count_tensor(case, key):
    """counts handed to the combinatorics functions: dtype (`cdtype`), memory layout (`clayout`: every second cell of a larger
    buffer / a stride-0 broadcast of one value when all entries are equal) - the logical values are case[key]"""
    vals = case[key]
    t = torch.tensor(vals, dtype=CDT[case.get("cdtype", "i64")])
    lay = case.get("clayout")
    if lay == "expand" and len(vals) > 0 and len(set(vals)) == 1:
        return t[:1].expand(len(vals))
    if lay == "scalar" and len(set(vals)) == 1 and key in ("given",):
        return t[0]                       # a 0-dim tensor that broadcasts against the other argument
    if lay in ("step", "expand", "scalar") and len(vals) > 0:
        big = torch.full([2 * len(vals) + 1], 3, dtype=t.dtype)
        big[1::2] = t
        return big[1::2]
    return t


def comb_run_impl(case):
    import pydrobert.torch.functional as PF
    from pydrobert.torch import distributions as PD

    op = case["op"]
    res = {"exc": None}
    try:
        if op == "srswor":
            B, out = len(case["total"]), case["out_size"]
            us = torch.tensor(case["us"], dtype=F64) / 64  # [steps, B]
            state = {"t": 0}

            def fake_bernoulli(p, *a, **k):
                ok = bool(((p >= 0) & (p <= 1)).all())
                if not ok:
                    raise RuntimeError("bernoulli: p outside [0, 1]")
                b = (us[state["t"]].reshape(p.shape) < p).to(p.dtype)
                state["t"] += 1
                return b

            tt, gt = _count_tensor(case, "total"), _count_tensor(case, "given")
            keep = (tt.clone(), gt.clone())
            out_arg = None if (case.get("none_out") and out == max(case["total"])) else out
            with mock.patch.object(torch, "bernoulli", fake_bernoulli):
                if case.get("via") == "dist":
                    if case.get("kw"):
                        d = PD.SimpleRandomSamplingWithoutReplacement(given_count=gt, total_count=tt, out_size=out_arg,
                                                                      validate_args=False)
                    else:
                        d = PD.SimpleRandomSamplingWithoutReplacement(gt, tt, out_arg, validate_args=False)
                    b = d.sample()
                elif case.get("kw"):
                    b = PF.simple_random_sampling_without_replacement(total_count=tt, given_count=gt, out_size=out_arg)
                elif out_arg is None:
                    b = PF.simple_random_sampling_without_replacement(tt, gt)
                else:
                    b = PF.simple_random_sampling_without_replacement(tt, gt, out_arg)
            res["out"] = _ints(b.reshape(B, b.shape[-1]))
            res["steps"] = state["t"]
            res["inputs_unchanged"] = bool(torch.equal(tt, keep[0]) and torch.equal(gt, keep[1]))
            res["shape_ok"] = list(b.shape) == [B, out]
        elif op == "binom":
            lt, ct = _count_tensor(case, "lens"), _count_tensor(case, "cnts")
            if case.get("outer"):           # broadcasting: a column of lengths against a row of counts
                lt, ct = lt.unsqueeze(1), ct.unsqueeze(0)
            keep = (lt.clone(), ct.clone())
            fn = torch.jit.script(PF.binomial_coefficient) if case.get("script") else PF.binomial_coefficient
            r = fn(length=lt, count=ct) if case.get("kw") else fn(lt, ct)
            res["out"] = [int(x) for x in r.reshape(-1)]
            r2 = fn(lt, ct)                 # call history: the same tensor objects again
            res["inputs_unchanged"] = bool(torch.equal(lt, keep[0]) and torch.equal(ct, keep[1]))
            res["twice_same"] = bool(torch.equal(r, r2))
            res["shape_ok"] = list(r.shape) == ([len(case["lens"]), len(case["cnts"])] if case.get("outer") else [len(case["lens"])])
        elif op == "vocab":
            r = PF.enumerate_vocab_sequences(case["len"], case["V"])
            res["out"] = _ints(r)
            res["shape"] = list(r.shape)
        elif op == "binary":
            r = PF.enumerate_binary_sequences(case["len"])
            res["out"] = _ints(r)
        elif op == "card_int":
            r = PF.enumerate_binary_sequences_with_cardinality(case["len"], case["cnt"])
            res["out"] = _ints(r)
        elif op == "card_tensor":
            lt, ct = _count_tensor(case, "lens"), _count_tensor(case, "cnts")
            keep = (lt.clone(), ct.clone())
            if case.get("kw"):
                sup, binom = PF.enumerate_binary_sequences_with_cardinality(length=lt, count=ct)
            else:
                sup, binom = PF.enumerate_binary_sequences_with_cardinality(lt, ct)
            res["inputs_unchanged"] = bool(torch.equal(lt, keep[0]) and torch.equal(ct, keep[1]))
            res["binom"] = [int(x) for x in binom]
            res["out"] = [_ints(sup[j][:res["binom"][j]]) for j in range(len(case["lens"]))]
            res["shape"] = list(sup.shape)
        elif op == "srswor_dist":
            T, L, O = case["total"], case["given"], case["out_size"]
            d = PD.SimpleRandomSamplingWithoutReplacement(L, T, O)
            if case.get("pre_lp"):
                d.log_partition          # call history: the lazily computed log-partition is read before expand()
            ex = case.get("expand")
            if ex:
                d = d.expand([2])        # two equal batch elements through the distribution's own expand()
            sup = d.enumerate_support()
            lp = d.log_prob(sup)
            if ex:
                res["expand_rows_equal"] = bool(torch.equal(sup[:, 0], sup[:, 1]) and torch.equal(lp[:, 0], lp[:, 1]))
                chk_sup = d.support.check(sup)[:, 0]
                sup, lp = sup[:, 0], lp[:, 0]
            else:
                chk_sup = d.support.check(sup)
            res["support"] = _ints(sup)
            res["probs"] = [float(x) for x in lp.exp().reshape(-1)]
            res["check_support"] = [bool(x) for x in chk_sup.reshape(-1)]
            torch.manual_seed(case["seed"])
            smp = d.sample([case["nsamp"]])
            chk_smp = d.support.check(smp)
            smp = smp.reshape(-1, smp.shape[-1])
            res["samples"] = _ints(smp)
            res["check_samples"] = [bool(x) for x in chk_smp.reshape(-1)]
            bad = torch.tensor(case["bad"], dtype=torch.float)
            if ex and len(case["bad"]):
                cb_ = d.support.check(bad.unsqueeze(1).expand(-1, 2, -1))
                res["expand_rows_equal"] = res["expand_rows_equal"] and bool(torch.equal(cb_[:, 0], cb_[:, 1]))
                res["check_bad"] = [bool(x) for x in cb_[:, 0].reshape(-1)]
            else:
                res["check_bad"] = [bool(x) for x in d.support.check(bad).reshape(-1)] if len(case["bad"]) else []
        else:
            raise ValueError(op)
    except Exception as e:
        res["exc"] = exc_kind(e) + ": " + str(e)[:160]
        if type(e).__name__ == "Error" and type(e).__module__.startswith("torch.jit") and "builtins.RuntimeError:" in str(e):
            res["exc"] = "RuntimeError: (TorchScript) " + str(e).split("builtins.RuntimeError:")[-1].strip()[:120]
    return res


def _exc_is(res, kind):
    return res["exc"] is not None and res["exc"].startswith(kind)


def comb_terms(case, res):
    """(model terms, spec terms on the implementation output, python-side relations)"""
    op = case["op"]
    mt, st, rel = [], [], []
    if res["exc"] is not None and not _exc_is(res, "RuntimeError"):
        return ["false"], ["false"], [("unexpected exception " + res["exc"], False)]
    if op == "srswor":
        B, out = len(case["total"]), case["out_size"]
        exp_err = any(g > t for g, t in zip(case["given"], case["total"])) or out < max(case["total"])
        if res["exc"] is not None:
            mt.append(cb(exp_err))
            st.append(cb(exp_err))
            return mt, st, rel
        if exp_err:
            return ["false"], ["false"], rel
        for j in range(B):
            us = clq([Fr(case["us"][t][j], 64) for t in range(out)])
            mt.append(f"opt_eqb zlist_eqb (srswor {cz(case['total'][j])} {cz(case['given'][j])} {cn(out)} {us}) "
                      f"(Some {clz_(res['out'][j])})")
            st.append(f"srswor_okb {cz(case['total'][j])} {cz(case['given'][j])} {cn(out)} {clz_(res['out'][j])}")
        rel.append(("one bernoulli call per step", res["steps"] == out))
        rel.append(("sampler leaves its count tensors as they were and returns shape (batch, out_size)",
                    res["inputs_unchanged"] and res["shape_ok"]))
    elif op == "binom":
        lens, cnts = case["lens"], case["cnts"]
        if case.get("outer"):
            lens, cnts = [n for n in case["lens"] for _ in case["cnts"]], [k for _ in case["lens"] for k in case["cnts"]]
        impl = "None" if res["exc"] is not None else f"(Some {clz_(res['out'])})"
        mt.append(f"opt_eqb zlist_eqb (binomial_coefficient {clz_(lens)} {clz_(cnts)}) {impl}")
        if res["exc"] is None:
            rel.append(("binomial == math.comb", res["out"] == [math.comb(n, k) for n, k in zip(lens, cnts)]))
            rel.append(("binomial_coefficient leaves its inputs as they were, returns the broadcast shape, and gives the same "
                        "result when called again on the same tensors", res["inputs_unchanged"] and res["shape_ok"] and res["twice_same"]))
        else:
            rel.append(("raises only on negative input", any(x < 0 for x in case["lens"] + case["cnts"])))
    elif op in ("vocab", "binary", "card_int"):
        impl = "None" if res["exc"] is not None else f"(Some {cllz(res['out'])})"
        if op == "vocab":
            mt.append(f"opt_eqb zll_eqb (enumerate_vocab_sequences {cz(case['len'])} {cz(case['V'])}) {impl}")
            if res["exc"] is None:
                st.append(f"enum_vocab_okb {cz(case['len'])} {cz(case['V'])} {cllz(res['out'])}")
                rel.append(("shape", res["shape"] == [case["V"] ** case["len"], case["len"]]))
        elif op == "binary":
            mt.append(f"opt_eqb zll_eqb (enumerate_binary_sequences {cz(case['len'])}) {impl}")
            if res["exc"] is None:
                st.append(f"enum_vocab_okb {cz(case['len'])} 2%Z {cllz(res['out'])}")
        else:
            mt.append(f"opt_eqb zll_eqb (enumerate_card_int {cz(case['len'])} {cz(case['cnt'])}) {impl}")
            if res["exc"] is None:
                st.append(f"enum_card_okb {cz(case['len'])} {cz(case['cnt'])} {cn(case['len'])} {cllz(res['out'])}")
    elif op == "card_tensor":
        if res["exc"] is not None:
            return ["false"], ["false"], rel
        length_ = max(case["lens"])
        for j, (n, k) in enumerate(zip(case["lens"], case["cnts"])):
            mt.append(f"(let r := enumerate_card_tensor_elem {cz(length_)} {cz(n)} {cz(k)} in "
                      f"zll_eqb (fst r) {cllz(res['out'][j])} && Z.eqb (snd r) {cz(res['binom'][j])})")
            # valid part: rows of length n with k ones, padded to length_
            st.append(f"enum_card_okb {cz(n)} {cz(k)} {cn(length_)} {cllz(res['out'][j])}")
        rel.append(("shape", res["shape"] == [len(case["lens"]), max(res["binom"]), length_]))
        rel.append(("inputs left as they were", res["inputs_unchanged"]))
    elif op == "srswor_dist":
        if res["exc"] is not None:
            return ["false"], ["false"], rel
        T, L = case["total"], case["given"]
        O = case["out_size"] if case["out_size"] is not None else T
        mt.append(f"opt_eqb zll_eqb (srswor_support {cz(T)} {cz(L)} {cn(O)}) (Some {cllz(res['support'])})")
        pv = Fr(math.factorial(L) * math.factorial(T - L), math.factorial(T))
        mt.append(f"Qeq_bool (srswor_prob_value {cz(T)} {cz(L)}) {cq(pv)}")
        st.append(f"enum_card_okb {cz(T)} {cz(L)} {cn(O)} {cllz(res['support'])}")
        for row, okc in zip(res["samples"], res["check_samples"]):
            mt.append(f"Bool.eqb (card_check {cz(L)} (Some {cz(T)}) {clz_(row)}) {cb(okc)}")
            st.append(f"srswor_okb {cz(T)} {cz(L)} {cn(O)} {clz_(row)}")
        for row, okc in zip(case["bad"], res["check_bad"]):
            mt.append(f"Bool.eqb (card_check {cz(L)} (Some {cz(T)}) {clz_(row)}) {cb(okc)}")
        # float32 cumsum of <= 8 logarithms <= 11: worst-case rounding 8 * ulp(11)/2 per table entry, three entries, < 2e-5
        rel.append(("probabilities are 1 / C(T, L) (float32 log-factorials: 1e-4)",
                    all(abs(p - float(pv)) <= 1e-4 * float(pv) for p in res["probs"])))
        rel.append(("probabilities over the enumerated support sum to one", abs(sum(res["probs"]) - 1) <= 1e-4))
        rel.append(("support.check accepts the enumerated support and the samples",
                    all(res["check_support"]) and all(res["check_samples"])))
        if "expand_rows_equal" in res:
            rel.append(("expand(): both batch elements have the support and probabilities of the unexpanded distribution",
                        res["expand_rows_equal"]))
    return mt, st, rel


def gen_comb(rng, op=None):
    op = op or rng.choice(["srswor", "srswor", "srswor", "binom", "binom", "vocab", "binary", "card_int", "card_tensor",
                           "srswor_dist", "srswor_dist"])
    case = {"fam": "comb", "op": op}
    if op == "srswor":
        B = rng.choice([1, 1, 2, 3])
        total = [rng.randint(0, 6) for _ in range(B)]
        given = [rng.randint(0, t) for t in total]
        out = max(total) + rng.choice([0, 0, 1, 2])
        if rng.random() < 0.08:
            j = rng.randrange(B)
            given[j] = total[j] + 1  # malformed: RuntimeError
        elif rng.random() < 0.06 and max(total) > 0:
            out = max(total) - 1  # malformed: RuntimeError
        if max(total) == 0 and rng.random() < 0.5:
            out = 0  # empty population: the one legal sample is the empty vector
        case.update(total=total, given=given, out_size=out, via=rng.choice(["func", "func", "dist"]),
                    us=[[rng.randint(0, 63) for _ in range(B)] for _ in range(max(out, 1))])
        if case["via"] == "dist" and (any(g > t for g, t in zip(given, total)) or out < max(total)):
            case["via"] = "func"
    elif op == "binom":
        B = rng.randint(1, 4)
        big = rng.random() < 0.5
        hi = rng.choice([21, 25, 40]) if big else rng.choice([0, 1, 5, 12, 20])
        lens = [rng.randint(0, hi) for _ in range(B)]
        if big:
            lens[rng.randrange(B)] = hi
        elif rng.random() < 0.3:
            lens[rng.randrange(B)] = 20
        cnts = [rng.choice([0, n, rng.randint(0, max(n, 1)), rng.randint(0, n + 3)]) for n in lens]
        if rng.random() < 0.06:
            (lens if rng.random() < 0.5 else cnts)[rng.randrange(B)] = -rng.randint(1, 3)
        case.update(lens=lens, cnts=cnts)
    elif op == "vocab":
        V = rng.choice([1, 2, 3, 4])
        n = rng.randint(0, 4 if V <= 3 else 3)
        if rng.random() < 0.08:
            V = rng.choice([0, -1])
        elif rng.random() < 0.06:
            n = -1
        case.update(len=n, V=V)
    elif op == "binary":
        case.update(len=rng.choice([-1, 0, 1, 2, 3, 4, 5, 6]))
    elif op == "card_int":
        n = rng.randint(0, 6)
        case.update(len=n, cnt=rng.choice([0, n, rng.randint(0, n), n + 1]))
    elif op == "card_tensor":
        B = rng.randint(1, 4)
        lens = [rng.randint(0, 5) for _ in range(B)]
        case.update(lens=lens, cnts=[rng.choice([0, n, rng.randint(0, n), n + 1]) for n in lens])
    else:
        T = rng.randint(0, 6)
        L = rng.randint(0, T)
        O = rng.choice([None, None, T + 1, T + 2])
        if T == 0 and O is None:
            O = 1
        OO = T if O is None else O
        bad = []
        for _ in range(rng.randint(0, 3)):
            bad.append([rng.choice([0, 0, 1, 1, 2]) for _ in range(OO)])
        case.update(total=T, given=L, out_size=O, seed=rng.randint(0, 2 ** 31 - 1), nsamp=rng.choice([1, 4, 16]), bad=bad)
    return case


# =========================================================================================
# generators
# =========================================================================================
def _gen_theta(rng, dtype, B, n, V):
    if dtype == "bern":
        return [[rng.choice([1, 2, 3, 4, 6, 8, 10, 12, 13, 15]) for _ in range(n)] for _ in range(B)]

    def row():
        while True:
            r = [rng.randint(1, 13) for _ in range(V - 1)]
            if sum(r) < 16:
                return r + [16 - sum(r)]
    return [[row() for _ in range(n)] for _ in range(B)]


def _gen_table(rng, case, pre, B, nout, K, lo=-12, hi=12, dep=True):
    case[pre + "C"] = [[rng.randint(lo, hi) for _ in range(nout)] for _ in range(B)]
    useA = dep and case["param"] == "probs"
    case[pre + "A"] = [[[rng.randint(-3, 3) if useA else 0 for _ in range(K)] for _ in range(nout)] for _ in range(B)]
    case[pre + "P"] = [[rng.randint(-3, 3) if dep else 0 for _ in range(nout)] for _ in range(B)]


def gen_est(rng, kind=None, small=False):
    kind = kind or rng.choice(["direct", "direct", "is", "is", "enum", "st", "relax", "relax", "imh", "imh"])
    case = {"fam": "est", "kind": kind, "param": rng.choice(["probs", "logits"]), "phi": rng.randint(-8, 8),
            "shift": rng.randint(-6, 6), "B": rng.choice([1, 1, 2])}
    B = case["B"]
    if kind in ("direct", "is", "imh"):
        dtype = rng.choice(["bern", "bern", "cat", "onehot"])
        n = rng.randint(1, 3) if dtype == "bern" else rng.randint(1, 2)
        V = 2 if dtype == "bern" else rng.choice([2, 3])
        if small:
            n = min(n, 2)
    elif kind == "enum":
        dtype = rng.choice(["bern", "cat", "onehot", "srswor"])
        n, V = 1, (2 if dtype == "bern" else rng.choice([2, 3]))
    else:
        dtype = rng.choice(["bern", "onehot"])
        n, V = 1, (2 if dtype == "bern" else rng.choice([2, 3]))
    case.update(dtype=dtype, n=n, V=V)
    nout, K = V ** n, (n if dtype == "bern" else n * V)
    if dtype == "srswor":
        T = rng.randint(0, 4)
        L = rng.randint(0, T)
        case.update(total=T, given=L, out_size=rng.choice([None, None, T + 1]), param="probs")
        if T == 0 and case["out_size"] is None:
            case["out_size"] = 1
        nout, K = math.comb(T, L), 0
        _gen_table(rng, case, "f", B, nout, 0)
        return case
    case["theta"] = _gen_theta(rng, dtype, B, n, V)
    if kind in ("direct", "is"):
        case["M"] = rng.choice([1, 2, 2]) if nout <= 8 else 1
        if nout == 2 and rng.random() < 0.2:
            case["M"] = 3
        case["is_log"] = rng.random() < 0.25
        case["cv"] = kind == "direct" and rng.random() < 0.6
        case["self_norm"] = kind == "is" and rng.random() < 0.25
        if case["is_log"]:
            _gen_table(rng, case, "f", B, nout, K, 40, 80)
            _gen_table(rng, case, "c", B, nout, K, 4, 12, dep=False)
        else:
            _gen_table(rng, case, "f", B, nout, K)
            _gen_table(rng, case, "c", B, nout, K)
        if kind == "is":
            case["alias"] = rng.choice(["same", "same", "equal", "diff", "diff"])
            case["qtheta"] = _gen_theta(rng, dtype, B, n, V) if case["alias"] == "diff" else case["theta"]
    elif kind == "enum":
        _gen_table(rng, case, "f", B, nout, K)
    elif kind in ("st", "relax"):
        case["M"] = rng.choice([1, 2, 3])
        _gen_table(rng, case, "f", B, nout, K)
        m = case["M"] * B * (1 if dtype == "bern" else V)
        case["u"] = [rng.randint(1, 63) for _ in range(m)]
        case["v"] = [rng.randint(1, 63) for _ in range(m)]
        case["eta"] = rng.choice([-6, -2, 2, 4, 5])
        case["temp"] = rng.choice([1, 2, 4, 6])
        case["cw"] = [rng.randint(-8, 8) for _ in range(B)] if dtype == "bern" else \
            [[rng.randint(-8, 8) for _ in range(V)] for _ in range(B)]
    else:  # imh
        N = rng.randint(1, 6)
        case.update(N=N, burn=rng.randint(0, N - 1), tries=rng.choice([1, 2, 3, 5]), same=rng.random() < 0.4,
                    alias=rng.choice(["same", "equal"]))
        _gen_table(rng, case, "f", B, nout, K, dep=False)
        case["w"] = [[rng.choice([0, 0, 1, 2, 3, 5, 8]) for _ in range(nout)] for _ in range(B)]
        for j in range(B):
            if not any(case["w"][j]):
                case["w"][j][rng.randrange(nout)] = 3
        ndraw = N + case["tries"] + 1
        case["draws"] = [[rng.randrange(nout) for _ in range(B)] for _ in range(ndraw)]
        case["given"] = None
        if rng.random() < 0.35:
            case["given"] = [rng.choice([i for i in range(nout) if case["same"] or case["w"][j][i] > 0]) for j in range(B)]
            case["given_lead"] = rng.random() < 0.5
        case["us"] = [[rng.randint(0, 63) for _ in range(B)] for _ in range(N)]
        while not _imh_margin_ok(case):
            case["us"] = [[rng.randint(0, 63) for _ in range(B)] for _ in range(N)]
        if not case["same"]:  # a zero-density proposal met by u = 0 (log u = -inf): must still be rejected
            off = 0 if case["given"] is not None else 1
            for n_ in range(N):
                for j in range(B):
                    if case["w"][j][case["draws"][off + n_][j]] == 0 and rng.random() < 0.5:
                        case["us"][n_][j] = 0
    return case


# ----------------------------------------------------------------------------------------
# extreme-magnitude regime
# ----------------------------------------------------------------------------------------
LSHIFTS = [-1000, -1000, -1000, -300, 150, 700, 1000]


def _gen_exps(rng, dtype, B, n, V, lim):
    """binary exponents of the odds / class weights: some variables stay moderate, others move by up to `lim` octaves"""
    def e():
        return rng.choice([0, rng.randint(-lim, lim), rng.choice([-lim, lim]), rng.randint(-lim, -lim // 2)])
    if dtype == "bern":
        return [[e() for _ in range(n)] for _ in range(B)]
    return [[[e() for _ in range(V)] for _ in range(n)] for _ in range(B)]


def _exp_lim(rng, n, V, kind=None):
    """octaves: 300 ~ 208 nats; a single binary variable also gets 600 (log-weights log p - log q up to ~830 nats apart, beyond
    the range of exp in float64; every is_log path works on logarithms only).  Three classes: 160 (cost of the exact model)."""
    if V != 2:
        return 160
    return 300 // n if (n > 1 or kind == "is" or rng.random() < 0.5) else 600


def gen_is_underflow(rng):
    """self-normalised importance sampling, two samples, whose log-weights are MORE than 745 nats apart (exp of the difference
    underflows to 0 in float64): p ~ 1 - 2^-e against q ~ 2^-e' gives log p/q = +e' ln 2 on one outcome and -e ln 2 on the
    other, e + e' > 1075.  The exact rational model is slow here (~5 s per term): two directions, one batch element."""
    while True:
        c = gen_est_extreme(rng, "is")
        if c["n"] == 1 and c["V"] == 2:
            break
    c.update(B=1, M=2, self_norm=True, alias="diff", one_dir=True)
    for key in ("theta", "fC", "fA", "fP", "cC", "cA", "cP"):
        c[key] = c[key][:1]
    c["qtheta"] = _gen_theta(rng, c["dtype"], 1, 1, 2)
    wrap = (lambda e: [e]) if c["dtype"] == "bern" else (lambda e: [[e, 0]])
    sg = rng.choice([1, -1])
    c["pexp"] = [wrap(sg * rng.randint(540, 600))]
    c["qexp"] = [wrap(-sg * rng.randint(540, 600))]
    if "fexp" in c:
        c["fexp"] = [[max(-100, min(100, e)) for e in c["fexp"][0]]]
    return c


def gen_est_extreme(rng, kind=None):
    """is_log=True paths with log-values f(b) = log(table) + fexp[b] ln 2 + lshift of magnitude 1e2..1e3 (common offset down to
    -1e3, spread of hundreds of nats between outcomes) and proposal / density log-probabilities spanning hundreds of nats
    (logits = log-odds + e ln 2, |e| <= 300 octaves ~ 208 nats per variable).  Everything the model needs stays an exact
    rational: table * 2^fexp, probabilities a 2^e / (a 2^e + 16 - a); the common offset is removed from the returned
    log-estimate in float64 before it is exponentiated (see est_run_impl)."""
    kind = kind or rng.choice(["direct", "direct", "is", "is", "is", "enum", "enum", "st", "reparam", "reparam", "relax"])
    B = rng.choice([1, 1, 1, 2])
    case = {"fam": "est", "kind": kind, "param": "logits", "phi": rng.randint(-8, 8), "shift": rng.randint(-6, 6), "B": B,
            "is_log": True, "lshift": rng.choice(LSHIFTS) + rng.randint(-40, 40) / 8}
    if kind in ("direct", "is"):
        dtype = rng.choice(["bern", "bern", "cat", "onehot"])
        n = rng.choice([1, 1, 2]) if dtype == "bern" else 1
        V = 2 if dtype == "bern" else rng.choice([2, 3])
    elif kind == "enum":
        dtype, n = rng.choice(["bern", "cat", "onehot"]), 1
        V = 2 if dtype == "bern" else rng.choice([2, 3])
    else:
        dtype, n = rng.choice(["bern", "onehot"]), 1
        V = 2 if dtype == "bern" else rng.choice([2, 3])
        case["param"] = rng.choice(["probs", "logits"])
    case.update(dtype=dtype, n=n, V=V)
    nout, K = V ** n, (n if dtype == "bern" else n * V)
    case["theta"] = _gen_theta(rng, dtype, B, n, V)
    _gen_table(rng, case, "f", B, nout, K, 40, 80)
    if kind in ("direct", "is", "enum"):
        if rng.random() < 0.6:   # log-probabilities spanning hundreds of nats; |log p - log q| stays below ~420 nats
            case["pexp"] = _gen_exps(rng, dtype, B, n, V, _exp_lim(rng, n, V, kind))
    if kind in ("direct", "is"):
        case["M"] = rng.choice([1, 2, 2]) if nout <= 4 else 1
        if "pexp" in case and (V == 3 or n == 2):
            case["M"] = 1   # (cost of the exact rational model: Coq's Q does not reduce fractions)
        case["cv"] = kind == "direct" and rng.random() < 0.4
        case["self_norm"] = kind == "is" and rng.random() < 0.4
        _gen_table(rng, case, "c", B, nout, K, 4, 12, dep=False)
        if kind == "is":
            case["alias"] = rng.choice(["same", "equal", "diff", "diff", "diff"])
            if case["alias"] == "diff":
                case["qtheta"] = _gen_theta(rng, dtype, B, n, V)
                if rng.random() < 0.7:
                    case["qexp"] = _gen_exps(rng, dtype, B, n, V, _exp_lim(rng, n, V, kind))
                    if V == 3 or n == 2:
                        case["M"] = 1
            else:
                case["qtheta"] = case["theta"]
                if "pexp" in case:
                    case["qexp"] = case["pexp"]
    if kind in ("direct", "is", "enum", "st") and not case.get("cv") and rng.random() < 0.6:
        # spread between outcomes; half of the time chosen so that p(b) f(b) is of one magnitude for every outcome
        if "pexp" in case and rng.random() < 0.5:
            fe = []
            for j in range(B):
                joint = [math.prod(c) for c in itertools.product(*_var_tables(case, "theta", j)[0])]
                fe.append([max(-620, min(620, -round(_log_fr(q) / LN2) + rng.randint(-3, 3))) for q in joint])
            case["fexp"] = fe
        else:
            case["fexp"] = [[rng.choice([0, rng.randint(-250, 250), -250, 250]) for _ in range(nout)] for _ in range(B)]
        if kind == "direct" and case["M"] > 1:
            # DirectEstimator clamps log f - max log f into [EPS_NINF, EPS_INF] = [-43.7, 44.4] (documented; not in the model):
            # keep the spread inside one sample tuple below that (25 octaves = 17 nats, plus the table's own factor <= 2)
            case["fexp"] = [[max(-25, min(25, e)) for e in row] for row in case["fexp"]]
    if kind in ("st", "relax", "reparam"):
        case["M"] = rng.choice([1, 2, 3])
        m = case["M"] * B * (1 if dtype == "bern" else V)
        case["u"] = [rng.randint(1, 63) for _ in range(m)]
        case["v"] = [rng.randint(1, 63) for _ in range(m)]
        case["eta"] = rng.choice([2, 4, 5])        # positive: cv / func values are exponentials of the handed log-values
        case["temp"] = rng.choice([1, 2, 4, 6])
        case["cw"] = [rng.randint(1, 8) for _ in range(B)] if dtype == "bern" else \
            [[rng.randint(1, 8) for _ in range(V)] for _ in range(B)]
        if kind == "reparam":
            case["base"] = rng.randint(1, 12)
            case["is_log"] = rng.random() < 0.75
    return case


def _dist_ext_margin_ok(case):
    """same as _dist_margin_ok on the actual (shifted) logits: no threshold decision within 1e-6 of a tie"""
    B, V = case["B"], case["V"]
    for j in range(B):
        if case["dtype"] == "bern":
            l = math.log(case["theta"][j][0] / (16 - case["theta"][j][0])) + case["lext"][j]
            u = case["u"][j] / 64
            if abs(l + math.log(u) - math.log1p(-u)) < 1e-6:
                return False
            if any(abs(z / 8 + (l if case.get("zrel") else 0)) < 1e-6 for z in case["z"][j::B]):
                return False
        else:
            ls = [math.log(a / 16) + case["shift"] / 4 + e for a, e in zip(case["theta"][j][0], case["lext"][j])]
            mx = max(ls)
            ls = [x - mx - math.log(sum(math.exp(y - mx) for y in ls)) for x in ls]
            us = [x / 64 for x in case["u"][j * V:(j + 1) * V]]
            z = sorted(l - math.log(-math.log(u)) for l, u in zip(ls, us))
            if min(b - a for a, b in zip(z, z[1:])) < 1e-6:
                return False
            zz = case["z"]
            for k in range(len(zz) // (B * V)):
                row = sorted(x / 8 + (l if case.get("zrel") else 0) for x, l in zip(zz[(k * B + j) * V:(k * B + j + 1) * V], ls))
                if min(b - a for a, b in zip(row, row[1:])) < 1e-6:
                    return False
    return True


def gen_dist_extreme(rng):
    """relaxed distributions with logits of magnitude 30..500 (LogisticBernoulli) / class logits up to 1000 nats apart
    (GumbelOneHotCategorical), where exp(logits) is still finite in float64 and every closed form stays finite"""
    while True:
        dtype = rng.choice(["bern", "onehot"])
        V = 2 if dtype == "bern" else rng.choice([2, 3, 4])
        B = rng.choice([1, 2])
        case = {"fam": "dist", "dtype": dtype, "V": V, "B": B, "n": 1, "param": "logits", "shift": rng.randint(-6, 6),
                "pscale": 1, "zrel": rng.random() < 0.6}
        case["theta"] = _gen_theta(rng, dtype, B, 1, V)
        mags = [8, 12, 16, 30, 36, 40, 50, 120, 300, 500]
        if dtype == "bern":
            case["lext"] = [rng.choice([1, -1]) * rng.choice(mags) for _ in range(B)]
        else:
            case["lext"] = [[rng.choice([0, 0, 1, -1]) * rng.choice(mags) for _ in range(V)] for _ in range(B)]
            for row in case["lext"]:
                if not any(row):
                    row[rng.randrange(V)] = -rng.choice(mags)
                if rng.random() < 0.4:
                    # classes more than 745 nats apart: exp underflows to 0 in float64, log_softmax must not go through it
                    a, b = rng.sample(range(V), 2)
                    row[a], row[b] = rng.choice([500, 800]), -rng.choice([500, 800])
        m = B * (1 if dtype == "bern" else V)
        case["u"] = [rng.randint(1, 63) for _ in range(m)]
        case["v"] = [rng.randint(1, 63) for _ in range(m)]
        case["z"] = [rng.randint(-40, 40) for _ in range(m * rng.randint(1, 3))]
        if dtype == "bern":
            case["b"] = [rng.randint(0, 1) for _ in range(B)]
        else:
            case["b"] = _flat([[1 if c == k else 0 for c in range(V)] for k in [rng.randrange(V) for _ in range(B)]])
        if _dist_ext_margin_ok(case):
            return case


def _imh_margin_ok(case):
    """no accept decision u * w_last < w_cur within 1e-4 of equality (log u is computed in float32)"""
    if case["same"]:
        return True
    for j in range(case["B"]):
        qv = _var_tables(case, "theta", j)[0]
        qj = [math.prod(c) for c in itertools.product(*qv)]
        w = [Fr(case["w"][j][i], 4) / qj[i] for i in range(len(qj))]
        for row in case["us"]:
            u = Fr(row[j], 64)
            for wl in w:
                for wc in w:
                    if wl > 0 and wc > 0 and abs(u * wl - wc) <= wc / 10 ** 4:
                        return False
    return True


# =========================================================================================
# relations the property states, run on the implementation alone (quadrature grid, extreme uniforms)
# =========================================================================================
def _mid(K):
    return (torch.arange(K, dtype=F64) * 2 + 1) / (2 * K)


def grid_run(case):
    """returns list of (name, ok, detail)"""
    from pydrobert.torch import distributions as PD
    from pydrobert.torch import estimators as E

    op, out = case["op"], []
    if op == "st_bern":  # exact: (1 - p) K is an integer, midpoints never hit the threshold
        K, a = 64, case["a"]
        f0, f1 = case["f"][0] / 4, case["f"][1] / 4
        d = PD.LogisticBernoulli(**{case["param"]: _bern_param(case["param"], a).expand(K)})
        with mock.patch.object(torch, "rand", lambda *s, **k: _mid(K).reshape(1, K)):
            v = E.StraightThroughEstimator(d, lambda b: f0 + (f1 - f0) * b, 1)()
        exact = (1 - a / 16) * f0 + a / 16 * f1
        out.append(("straight-through mean over the uniform grid == exact expectation",
                    abs(float(v.mean()) - exact) < 1e-12, [float(v.mean()), exact]))
    elif op == "relax_bern":
        # RIGOROUS bound.  Grid mean = mean_u f(b(u)) - mean_{u,v} g(zc) + mean_u g(z(u)),  g = cv.  The first term is exact
        # (the threshold u = 1 - p is a cell edge).  csample(v, b) = rsample(phi_b(v)) (proved, and checked at 1e-9 by the
        # csample_is_rsample relation), and exactly the fraction p of the u-grid has b = 1, so the other two terms are
        # midpoint rules for the same integral of the MONOTONE function g(z(u)) = eta w sigmoid(z(u)/temp): on [0,1] with K cells,
        # and on [0,1-p], [1-p,1] with K cells each.  A midpoint rule for a monotone function errs by at most
        # (cell width) * (total variation) / 2, hence |grid mean - exact| <= |eta w| / (2K) + |eta w| / (2K).
        K, a = 256, case["a"]
        f0, f1 = case["f"][0] / 4, case["f"][1] / 4
        U, V = torch.meshgrid(_mid(K), _mid(K), indexing="ij")
        d = PD.LogisticBernoulli(**{case["param"]: _bern_param(case["param"], a).expand(K * K)})
        eta, w, temp = case["eta"] / 4, case["w"] / 4, case["temp"] / 4
        cv = lambda z: eta * w * torch.sigmoid(z / temp)  # noqa: E731
        with mock.patch.object(torch, "rand", lambda *s, **k: U.reshape(1, -1)), \
                mock.patch.object(torch, "rand_like", lambda x, **k: V.reshape(1, -1)):
            v = E.RelaxEstimator(d, lambda b: f0 + (f1 - f0) * b, 1, cv)()
        exact = (1 - a / 16) * f0 + a / 16 * f1
        tol = abs(eta * w) / K + 1e-9
        out.append(("RELAX mean over the (u, v) grid == exact expectation (midpoint rule of a monotone integrand, K = 256, "
                    "rigorous bound |eta w| / K)", abs(float(v.mean()) - exact) <= tol, [float(v.mean()), exact, tol]))
    elif op in ("st_gumbel", "relax_gumbel"):
        K, Vn = (128, 2) if op == "st_gumbel" else (64, 2)
        pr = torch.tensor(case["p"], dtype=F64) / 16
        w = torch.tensor(case["f"], dtype=F64) / 4
        grid = torch.tensor(list(itertools.product(_mid(K).tolist(), repeat=Vn)), dtype=F64)
        G = grid.shape[0]
        par = pr if case["param"] == "probs" else pr.log() + case.get("shift", 0) / 4
        d = PD.GumbelOneHotCategorical(**{case["param"]: par.expand(G, Vn)})
        f = lambda b: (b * w).sum(-1)  # noqa: E731
        exact = float((pr * w).sum())
        if op == "st_gumbel":
            with mock.patch.object(torch, "rand", lambda *s, **k: grid.unsqueeze(0)):
                v = E.StraightThroughEstimator(d, f, 1)()
            # RIGOROUS bound.  b = first category iff -log(u0)/p0 <= -log(u1)/p1, an indicator that is increasing in u0 and
            # decreasing in u1, so on every grid cell it lies between its values at the two extreme corners.  Both the grid
            # frequency and the true probability p0 lie between the sums of those corner values; cells where they differ are
            # the cells the decision boundary crosses (ties on the boundary included).
            edges = torch.arange(K + 1, dtype=F64) / K
            lo, hi = edges[:-1], edges[1:]
            ind = lambda u0, u1: (-torch.log(u0)) / pr[0] <= (-torch.log(u1)) / pr[1]  # noqa: E731
            most, least = ind(hi[:, None], lo[None, :]), ind(lo[:, None], hi[None, :])
            crossed = int((most & ~least).sum()) + int((least & ~most).sum()) + 2
            tol = float((w[0] - w[1]).abs()) * crossed / K ** 2 + 1e-9
            out.append(("straight-through (Gumbel) mean over the uniform grid == exact expectation within |f0 - f1| * (fraction of "
                        "grid cells crossed by the decision boundary), K = 128", abs(float(v.mean()) - exact) <= tol,
                        [float(v.mean()), exact, tol, crossed]))
        else:
            eta, temp = case["eta"] / 4, case["temp"] / 4
            cw = torch.tensor(case["cw"], dtype=F64) / 4
            cv = lambda z: eta * (torch.softmax(z / temp, -1) * cw).sum(-1)  # noqa: E731
            perm = torch.randperm(G, generator=torch.Generator().manual_seed(case["perm_seed"]))
            with mock.patch.object(torch, "rand", lambda *s, **k: grid.unsqueeze(0)), \
                    mock.patch.object(torch, "rand_like", lambda x, **k: grid[perm].unsqueeze(0)):
                v = E.RelaxEstimator(d, f, 1, cv)()
            # no rigorous quadrature bound is available for this (u, permuted v) grid: DIAGNOSTIC ONLY, never a verdict
            # (the RELAX combination is checked per sample by est:relax, the Gumbel formulas by the dist family)
            out.append(("relax_gumbel grid mean vs exact expectation [diagnostic only]", True,
                        [float(v.mean()), exact, abs(float(v.mean()) - exact)]))
    elif op == "csample_is_rsample":
        # csample(v, b) is rsample at u = 1 - p + p v (b = 1) or u = (1 - p)(1 - v) (b = 0)
        K, a = 64, case["a"]
        p = a / 16
        d = PD.LogisticBernoulli(**{case["param"]: _bern_param(case["param"], a).expand(K)})
        v = _mid(K)
        for b in (0.0, 1.0):
            u = (1 - p + p * v) if b else (1 - p) * (1 - v)
            with mock.patch.object(torch, "rand_like", lambda x, **k: v.clone()):
                zc = d.csample(torch.full((K,), b, dtype=F64))
            with mock.patch.object(torch, "rand", lambda *s, **k: u.reshape(1, K)):
                z = d.rsample([1])[0]
            err = float(((zc - z).abs() / (1 + z.abs())).max())
            out.append(("conditional relaxed sample == relaxed sample at the mapped uniform", err < 1e-9, [b, err]))
            out.append(("threshold(csample(b)) == b", bool((d.threshold(zc) == b).all()), [b]))
    elif op == "extreme":
        for dt in (torch.float64, torch.float32):
            eps = torch.finfo(dt).eps
            vs = torch.tensor([0.0, 1e-30, eps / 2, eps, 2 * eps, 1e-3, 0.5, 1 - 1e-3, 1 - 2 * eps, 1 - eps, 1 - eps / 2], dtype=dt)
            ps = torch.tensor([0.0, 1e-30, eps, 1e-6, 1 / 16, 0.5, 15 / 16, 1 - 1e-6, 1 - eps, 1.0], dtype=dt)
            P, V = torch.meshgrid(ps, vs, indexing="ij")
            d = PD.LogisticBernoulli(probs=P)
            for b in (0.0, 1.0):
                Bt = torch.full_like(P, b)
                with mock.patch.object(torch, "rand_like", lambda x, **k: V.clone()):
                    zc = d.csample(Bt)
                out.append(("threshold(csample(b)) == b at extreme uniforms/probabilities (%s)" % dt,
                            bool((d.threshold(zc) == Bt).all()) and bool(torch.isfinite(zc).all()), [b]))
            for Vn in (2, 3):
                pr = torch.tensor([[1 / 16, 15 / 16, 0][:Vn], [1 / 3, 1 / 3, 1 / 3][:Vn], [1e-6, 1 - 2e-6, 1e-6][:Vn],
                                   [0.0, 1.0, 0.0][:Vn]], dtype=dt)
                pr = pr / pr.sum(-1, keepdim=True)
                grid = torch.tensor(list(itertools.product(vs.tolist(), repeat=Vn)), dtype=dt)
                G = grid.shape[0]
                d = PD.GumbelOneHotCategorical(probs=pr.unsqueeze(1).expand(-1, G, -1))
                for k in range(Vn):
                    Bt = torch.nn.functional.one_hot(torch.tensor(k), Vn).to(dt).expand(pr.shape[0], G, Vn)
                    with mock.patch.object(torch, "rand_like",
                                           lambda x, **kw: grid.unsqueeze(0).expand(pr.shape[0], G, Vn).clone()):
                        zc = d.csample(Bt)
                    out.append(("threshold(csample(b)) == b at extreme uniforms/probabilities (gumbel, %s)" % dt,
                                bool((d.threshold(zc) == Bt).all()), [Vn, k]))
    return out


def _bern_param(param, a):
    p = torch.tensor(a / 16, dtype=F64)
    return p if param == "probs" else (p / (1 - p)).log()


def gen_grid(rng):
    op = rng.choice(["st_bern", "relax_bern", "st_gumbel", "relax_gumbel", "csample_is_rsample"])
    case = {"fam": "grid", "op": op, "param": rng.choice(["probs", "logits"]), "a": rng.randint(1, 15),
            "f": [rng.randint(-12, 12), rng.randint(-12, 12)], "eta": rng.choice([-6, -2, 2, 4, 5]),
            "w": rng.randint(-8, 8), "temp": rng.choice([2, 4, 6]), "shift": rng.randint(-6, 6)}
    a = rng.randint(1, 15)
    case["p"] = [a, 16 - a]
    case["cw"] = [rng.randint(-8, 8), rng.randint(-8, 8)]
    case["perm_seed"] = rng.randint(0, 1000)
    return case


# =========================================================================================
# the check
# =========================================================================================
THEOREMS = {
    "direct": ["c19_direct_unbiased"], "is": ["c19_importance_unbiased"], "enum": ["c19_enumerate_exact"],
    "st": ["c19_straight_through_value"], "reparam": ["c19_straight_through_value"], "relax": ["c19_relax_value", "c19_relax_mean_exact"],
    "imh": ["c19_mh_accepts_all_when_equal"],
    "dist": ["c19_logistic_density_factorises", "c19_gumbel_density_factorises", "c19_logistic_threshold_of_csample",
             "c19_gumbel_threshold_of_csample"],
    "comb": ["c19_srswor_cardinality_and_positions", "c19_srswor_uniform", "c19_binomial_is_pascal",
             "c19_enumerate_vocab_complete", "c19_enumerate_card_complete", "c19_support_sums_to_one"],
    "grid": ["c19_relax_mean_exact", "c19_logistic_csample_is_rsample"],
}


def evaluate(case):
    """-> dict(model=[terms], spec=[terms], rel=[(name, ok)], unique=bool, impl=summary)"""
    fam = case["fam"]
    if fam == "est":
        k = case["kind"]
        if k in ("direct", "is"):
            res = est_run_impl(case)
            mt, st = est_terms(case, res)
            rel = [("no exception", res["exc"] is None)]
            return dict(model=mt, spec=st, rel=rel, unique=False, impl={"exc": res["exc"], "out": res["out"][:4],
                                                                        "callback_results_aliasing_the_sample": res.get("aliased")})
        if k == "enum":
            res = enum_run_impl(case)
            mt, st = enum_terms(case, res)
            return dict(model=mt, spec=st, rel=[("no exception", res["exc"] is None)], unique=True,
                        impl={"exc": res["exc"], "out": res["out"]})
        if k in ("st", "relax", "reparam"):
            res = relaxed_run_impl(case)
            mt, st = relaxed_terms(case, res)
            rel = [("no exception", res["exc"] is None)] + list(res.get("rel_extra", []))
            if res["exc"] is None and k != "reparam":
                rel += _relaxed_value_relation(case, res)
            return dict(model=mt, spec=st, rel=rel, unique=(k != "relax"), impl={"exc": res["exc"], "out": res.get("out")})
        res = imh_run_impl(case)
        rel = []
        if case["same"]:
            rel = _imh_same_relation(case, res)
        if "twice_same" in res:
            rel.append(("the same Metropolis-Hastings estimator object run twice on the same proposals and uniforms returns the same "
                        "estimate from the same number of proposal draws", res["twice_same"]))
        if "initial_unchanged" in res:
            rel.append(("the handed initial_sample tensor is left as it was", res["initial_unchanged"]))
        return dict(model=[imh_model_term(case, res)], spec=[], rel=rel, unique=False,
                    impl={"exc": res["exc"], "out": res.get("out"), "calls": res["calls"], "log_out": res.get("raw"),
                          "func_results_aliasing_the_sample": res.get("aliased")})
    if fam == "dist":
        res = dist_run_impl(case)
        mt, rel = dist_terms(case, res)
        return dict(model=mt, spec=[], rel=rel, unique=False, impl={"exc": res["exc"], "z": res.get("z"), "zc": res.get("zc")})
    if fam == "comb":
        res = comb_run_impl(case)
        mt, st, rel = comb_terms(case, res)
        return dict(model=mt, spec=st, rel=rel, unique=False, impl=res)
    if fam == "grid":
        r = grid_run(case)
        return dict(model=[], spec=[], rel=[(n, ok) for n, ok, _ in r], unique=False, impl=[d for _, _, d in r])
    raise ValueError(fam)


def _relaxed_value_relation(case, res):
    """value of the estimate == mean_n f(b_n) [- cv(zcond_n) + cv(z_n)] on the implementation's own pieces"""
    B, M = case["B"], case["M"]
    out = []
    for j in range(B):
        fval, _ = _table_fr(case, "f", j)
        tot = 0.0
        for m in range(M):
            tot += float(fval[res["idx"][m][j]])
            if case["kind"] == "relax":
                pz, pzc = res["pieces"][m][j]
                tot += pz[0] - pzc[0]
        want = tot / M
        out.append(("relaxed estimate == sample mean of f(b) - cv(zcond) + cv(z)",
                    abs(res["out"][j][0] - want) <= 1e-9 * (1 + abs(want))))
    return out


def _imh_same_relation(case, res):
    """proposal == target: every proposal is accepted and the estimate is the plain post-burn-in average.
    The starting point (drawn: first draw, since every outcome is in the support; or handed) is not counted."""
    if res["exc"] is not None:
        return [("no exception when proposal and target coincide: " + res["exc"], False)]
    B, N, burn = case["B"], case["N"], case["burn"]
    used = 0 if case["given"] is not None else 1
    out = [("number of proposal draws", res["calls"] == used + N)]
    for j in range(B):
        fval, _ = _table_fr(case, "f", j)
        chain = [case["draws"][used + n][j] for n in range(N)]
        want = float(sum(fval[i] for i in chain[burn:]) / (N - burn))
        out.append(("plain post-burn-in average", abs(res["out"][j] - want) <= 1e-9 * (1 + abs(want))))
    return out


def nontrivial(case):
    fam = case["fam"]
    if fam == "est":
        if case["kind"] in ("direct", "is"):
            return case["V"] ** case["n"] >= 2 and case["M"] >= 1
        if case["kind"] == "imh":
            return case["N"] >= 2
        return True
    if fam == "comb":
        if case["op"] == "srswor":
            return any(0 < g < t for g, t in zip(case["given"], case["total"]))
        if case["op"] == "binom":
            return any(0 < k < n for n, k in zip(case["lens"], case["cnts"]))
        if case["op"] in ("srswor_dist",):
            return 0 < case["given"] < case["total"]
        return True
    return True


def _exhaustive_est(tier):
    """deterministic small-scope list: every estimator kind x parameterisation x variable structure x N"""
    rng = __import__("random").Random(190019)
    structs = [("bern", 1, 2), ("bern", 2, 2), ("bern", 3, 2), ("cat", 1, 2), ("cat", 1, 3), ("onehot", 1, 3),
               ("cat", 2, 2), ("onehot", 2, 2)]
    cases = []
    for kind, opt in (("direct", "nocv"), ("direct", "cv"), ("is", "plain"), ("is", "selfnorm")):
        for param in ("probs", "logits"):
            for dtype, n, V in structs:
                for M in (1, 2):
                    if V ** n > 4 and M == 2 and tier == "quick":
                        continue
                    for is_log in (False, True):
                        if is_log and (M == 2 or n > 1):
                            continue
                        B = 1 + (len(cases) % 2)
                        nout, K = V ** n, (n if dtype == "bern" else n * V)
                        c = {"fam": "est", "kind": kind, "param": param, "phi": rng.randint(-8, 8), "shift": rng.randint(-6, 6),
                             "B": B, "dtype": dtype, "n": n, "V": V, "M": M, "is_log": is_log,
                             "cv": opt == "cv", "self_norm": opt == "selfnorm", "theta": _gen_theta(rng, dtype, B, n, V)}
                        if is_log:
                            _gen_table(rng, c, "f", B, nout, K, 40, 80)
                            _gen_table(rng, c, "c", B, nout, K, 4, 12, dep=False)
                        else:
                            _gen_table(rng, c, "f", B, nout, K)
                            _gen_table(rng, c, "c", B, nout, K)
                        if kind == "is":
                            c["alias"] = ("same", "diff", "equal")[len(cases) % 3]
                            c["qtheta"] = _gen_theta(rng, dtype, B, n, V) if c["alias"] == "diff" else c["theta"]
                        cases.append(c)
    return cases


def _exhaustive_srswor(tmax):
    """every (total, given) with total <= tmax and every Bernoulli outcome script: u = 0 takes a one whenever
    p > 0, u = 63/64 refuses unless p = 1; all scripts over {0, 63/64} as batch elements of one call"""
    cases = [{"fam": "comb", "op": "srswor", "total": [0, 0], "given": [0, 0], "out_size": 0, "via": via, "us": [[0, 0]]}
             for via in ("func", "dist")]
    cases += [{"fam": "comb", "op": "srswor", "total": [0], "given": [0], "out_size": 2, "via": "func", "us": [[5], [60]]}]
    for T in range(1, tmax + 1):
        for L in range(0, T + 1):
            scripts = list(itertools.product([0, 63], repeat=T))
            for lo in range(0, len(scripts), 16):
                chunk = scripts[lo:lo + 16]
                cases.append({"fam": "comb", "op": "srswor", "total": [T] * len(chunk), "given": [L] * len(chunk),
                              "out_size": T, "via": "func", "us": [[s[t] for s in chunk] for t in range(T)]})
    return cases


def gen_cases(chk):
    quick = chk.tier != "thorough"
    cases = []
    ex = _exhaustive_est(chk.tier)
    if quick:
        ex = ex[::2]
    for c in ex:
        c["stream"] = "exhaustive-slice" if quick else "exhaustive"
    cases += ex
    sr = _exhaustive_srswor(4 if quick else 6)
    for c in sr:
        c["stream"] = "exhaustive-slice" if quick else "exhaustive"
    cases += sr
    cases.append({"fam": "grid", "op": "extreme", "stream": "grid"})
    for a in (range(1, 16) if not quick else (1, 5, 8, 13)):
        for param in ("probs", "logits"):
            cases.append({"fam": "grid", "op": "st_bern", "param": param, "a": a, "f": [-4 + a, 7 - 2 * a], "stream": "grid"})
            cases.append({"fam": "grid", "op": "csample_is_rsample", "param": param, "a": a, "stream": "grid"})
    chk.extra["exhaustive"] = not quick
    chk.extra["exhaustive_scope"] = (
        "estimators: {direct, direct+cv, importance, self-normalised} x {probs, logits} x {1-3 Bernoulli, 1-2 categorical "
        "(V<=3), one-hot} x N in {1,2} (+ log-space, N=1), every sample tuple of the whole space per case; "
        "cardinality sampling: every total<=%d, given<=total, every Bernoulli outcome script" % (4 if quick else 6))
    for c in load_corpus("C19"):
        c = dict(c.get("case", c))
        c["stream"] = "corpus"
        cases.append(c)
    rng = chk.rng
    n_est, n_dist, n_comb, n_grid = (150, 60, 450, 14) if quick else (600, 400, 3000, 60)
    for _ in range(n_est):
        c = gen_est(rng, small=quick)
        c["stream"] = "random"
        cases.append(c)
    for _ in range(n_dist):
        c = gen_dist(rng)
        c["stream"] = "random"
        cases.append(c)
    for _ in range(n_comb):
        c = gen_comb(rng)
        c["stream"] = "random"
        cases.append(c)
    for _ in range(n_grid):
        c = gen_grid(rng)
        c["stream"] = "grid"
        cases.append(c)
    # extreme-magnitude regime (drawn after every older stream, so those keep their cases for a given seed)
    n_xest, n_xdist = (60, 20) if quick else (400, 200)
    for _ in range(n_xest):
        c = gen_est_extreme(rng)
        c["stream"] = "extreme"
        cases.append(c)
    for _ in range(n_xdist):
        c = gen_dist_extreme(rng)
        c["stream"] = "extreme"
        cases.append(c)
    under = []
    for i in range(2 if quick else 12):
        c = gen_is_underflow(rng)
        c["stream"] = "extreme"
        under.append(c)
    cases += gen_audit(chk, rng)    # robustness audit
    cases += gen_alias(chk, rng)    # callbacks that alias their argument / keep their result (drawn last)
    for i, c in enumerate(under):
        cases.insert(i * 7, c)   # (their Coq terms are slow: spread over the first shards, which are scheduled first)
    return cases


# ----------------------------------------------------------------------------------------
# robustness audit: entry point (keyword / positional constructors, scripted functions), memory layout and dtype of the
# parameter / count tensors, call history (lazy probs / logits read before use, expand(), the same object called again),
# optional state (validate_args, proposal_params / cv_params), boundary situations named by the independent review
# ----------------------------------------------------------------------------------------
def vary_est(rng, c):
    k = c["kind"]
    c["ctor"] = rng.choice(["kw", "pos", None])
    c["playout"] = rng.choice(["step", "off", "tct", None])
    c["validate"] = rng.random() < 0.5
    if k in ("direct", "is"):
        c["slayout"] = rng.random() < 0.5
    if k in ("st", "relax", "reparam"):
        c["pre"] = rng.choice([None, "probs", "logits", "both", "both2"])
        c["dpos"] = rng.random() < 0.35
        c["twice"] = rng.random() < 0.6
        if k == "relax":
            c["cvp"] = rng.random() < 0.5
        if c["B"] == 2 and rng.random() < 0.5:
            c["theta"][1] = json.loads(json.dumps(c["theta"][0]))
            c["expand"] = True
            c["pre2"] = rng.choice([None, "probs", "logits"])
    if k == "imh":
        c["twice"] = rng.random() < 0.7
    return c


def gen_audit_est(rng, quick):
    """the situations named by the latest review, each with a fair share:
    relax-neg   RelaxEstimator, is_log=False, whose per-call Monte-Carlo average is NEGATIVE (f negative everywhere, or a strong
                control variate with a single sample)
    direct-cv   DirectEstimator with a sample-dependent control variate whose cv_mean is differentiable w.r.t. the
                distribution's parameters (value AND gradient judged), incl. cv IS func (the same callable)
    relaxed     Straight-through / RELAX on LogisticBernoulli / GumbelOneHotCategorical built from logits= and from probs=,
                with the other parameterisation read lazily before or after, expand()ed, validate_args on
    is-same     importance sampling whose proposal IS the density object"""
    what = rng.choice(["relax-neg", "relax-neg", "direct-cv", "direct-cv", "relaxed", "relaxed", "is-same", "imh", "imh", "enum", "direct"])
    if what == "relax-neg":
        c = gen_est(rng, "relax", small=quick)
        nout = c["V"]
        if rng.random() < 0.5:
            c["fC"] = [[rng.randint(-12, -2) for _ in range(nout)] for _ in range(c["B"])]
            c["fA"] = [[[0] * len(r) for r in row] for row in c["fA"]]
            c["fP"] = [[0] * nout for _ in range(c["B"])]
        else:
            c["M"] = 1
            m = c["B"] * (1 if c["dtype"] == "bern" else c["V"])
            c["u"], c["v"] = c["u"][:m], c["v"][:m]
            c["eta"] = rng.choice([-6, 5, -6])
            c["cw"] = [rng.choice([-8, 8, 7]) for _ in range(c["B"])] if c["dtype"] == "bern" else \
                [[rng.choice([-8, 8, 7, 0]) for _ in range(c["V"])] for _ in range(c["B"])]
            c["temp"] = rng.choice([1, 2])
    elif what == "direct-cv":
        c = gen_est(rng, "direct", small=quick)
        c["cv"] = True
        if rng.random() < 0.25:   # cv is func: the same callable, the estimate is then cv_mean for every sample
            c["cv_alias"] = True
            for k in ("C", "A", "P"):
                c["c" + k] = json.loads(json.dumps(c["f" + k]))
    elif what == "relaxed":
        c = gen_est(rng, rng.choice(["st", "relax", "relax"]), small=quick)
        while c["B"] != 2 and rng.random() < 0.6:    # expand() needs a batch
            c = gen_est(rng, c["kind"], small=quick)
        c["param"] = rng.choice(["logits", "logits", "probs"])
        if c["param"] == "logits":
            c["fA"] = [[[0] * len(r) for r in row] for row in c["fA"]]
    elif what == "is-same":
        c = gen_est(rng, "is", small=quick)
        c["alias"] = "same"
        c["qtheta"] = c["theta"]
    else:
        c = gen_est(rng, what, small=quick)
    if c.get("dtype") == "srswor":
        c["ctor"] = rng.choice(["kw", None])
        return c
    if quick and c["kind"] in ("direct", "is") and c["V"] ** c["n"] > 4:
        c["M"] = 1       # (cost of the exact model: the whole space of sample tuples is evaluated)
    return vary_est(rng, c)


def gen_audit_dist(rng):
    c = gen_dist(rng)
    while c["B"] != 2 and rng.random() < 0.7:    # expand() needs a batch
        c = gen_dist(rng)
    c["pre"] = rng.choice([None, "probs", "logits", "both", "both2"])
    c["dpos"] = rng.random() < 0.35
    c["playout"] = rng.choice(["step", "off", "tct", None])
    c["validate"] = rng.random() < 0.5
    if c["B"] == 2 and rng.random() < 0.6:
        c["theta"][1] = json.loads(json.dumps(c["theta"][0]))
        c["expand"] = True
        c["pre2"] = rng.choice([None, "probs", "logits"])
        if not _dist_margin_ok(c):
            c.pop("expand")
    return c


def gen_audit_comb(rng):
    op = rng.choice(["srswor", "srswor", "srswor", "binom", "binom", "binom", "card_tensor", "srswor_dist", "srswor_dist", "srswor_dist"])
    c = gen_comb(rng, op)
    c["kw"] = rng.random() < 0.4
    if op == "srswor":
        B = len(c["total"])
        c["cdtype"] = rng.choice(["i64", "i32", "f32", "f64"])
        c["clayout"] = rng.choice([None, "step", "expand", "scalar"])
        c["none_out"] = rng.random() < 0.5
        legal = all(g <= t for g, t in zip(c["given"], c["total"])) and c["out_size"] >= max(c["total"])
        if legal and c["clayout"] == "expand":
            c["total"] = [max(c["total"])] * B
            c["out_size"] = max(c["out_size"], c["total"][0])
        if legal and c["clayout"] == "scalar":
            c["given"] = [min(c["given"] + c["total"])] * B
        c["us"] = [[rng.randint(0, 63) for _ in range(B)] for _ in range(max(c["out_size"], 1))]
    elif op == "binom":
        c["clayout"] = rng.choice([None, "step", "expand"])
        c["script"] = rng.random() < 0.4
        if rng.random() < 0.4:
            c["outer"] = True
            c["lens"], c["cnts"] = c["lens"][:3], c["cnts"][:rng.randint(1, 3)]
    elif op == "card_tensor":
        c["clayout"] = rng.choice([None, "step", "expand"])
    else:
        c["pre_lp"] = rng.random() < 0.5
        c["expand"] = rng.random() < 0.6
    return c


def gen_audit(chk, rng):
    quick = chk.tier != "thorough"
    n_est, n_dist, n_comb = (40, 16, 70) if quick else (320, 128, 640)
    cases = []
    for _ in range(n_est):
        cases.append(gen_audit_est(rng, quick))
    for _ in range(n_dist):
        cases.append(gen_audit_dist(rng))
    for _ in range(n_comb):
        cases.append(gen_audit_comb(rng))
    for c in cases:
        c["stream"] = "audit"
    return cases


# ----------------------------------------------------------------------------------------
# round-4 miss C19-g: argument / result aliasing through the user callbacks (see `_View`, `_Scratch`)
# ----------------------------------------------------------------------------------------
def _gen_view(rng, case, independent):
    return {"i": rng.randrange(case["n"]) if independent else 0, "c": rng.randrange(case["V"]) if case["dtype"] == "onehot" else 1,
            "how": rng.choice(VIEW_HOWS), "wrap": rng.choice(VIEW_WRAPS)}


def _set_view(case, pre, spec):
    """install a view callback; the integer tables of the case are kept consistent with it (they are not read: `_table_fr` derives the
    table from the view; log space: the table is exp of these values)"""
    ind = case["kind"] in IND_KINDS
    case[pre + "view"] = spec
    vals = _view_values(case, spec, ind)
    K = len(_flat(case["theta"][0]))
    case[pre + "C"] = [[4 * v for v in vals] for _ in range(case["B"])]
    case[pre + "A"] = [[[0] * K for _ in vals] for _ in range(case["B"])]
    case[pre + "P"] = [[0] * len(vals) for _ in range(case["B"])]


def gen_alias_est(rng, quick):
    """every estimator with callbacks that return their argument or a view of it (func, control variate on samples, control variate /
    func on relaxed samples), linear and log space, with and without control variates; the Metropolis-Hastings estimator also in
    log space with ordinary table functions (never exercised before) and with funcs that keep the tensor they return"""
    what = rng.choice(["imh"] * 6 + ["direct"] * 4 + ["is"] * 3 + ["enum"] * 2 + ["st", "relax", "relax", "reparam"])
    kind0 = "st" if what == "reparam" else what
    want_same = rng.random() < 0.6
    want_two = rng.random() < 0.85
    while True:
        c = gen_est(rng, kind0, small=quick)
        if c["dtype"] not in ("bern", "onehot"):     # (a view of a Categorical sample is an integer tensor: not a value of f)
            continue
        if what == "imh" and (c["same"] != want_same or (want_two and c["N"] - c["burn"] < 2)):
            continue
        break
    B, n, V = c["B"], c["n"], c["V"]
    nout, K = V ** n, (n if c["dtype"] == "bern" else n * V)
    ind = what in IND_KINDS
    if quick and what in ("direct", "is") and nout > 4:
        c["M"] = 1       # (cost of the exact model: the whole space of sample tuples is evaluated)
    if what == "direct":
        mode = rng.choice(["f", "f", "c", "both", "cvis"])
        c["is_log"] = rng.random() < 0.4
        if mode == "both" and c["is_log"]:
            mode = "cvis"     # (f - c + mean c must stay positive in log space: the documented clamp is not in the model)
        c["cv"] = mode != "f" or rng.random() < 0.5
        if c["is_log"]:
            _gen_table(rng, c, "f", B, nout, K, 40, 80)
            _gen_table(rng, c, "c", B, nout, K, 1, 3, dep=False)    # c <= 3/4 < min f = 1 when f is a view
        else:
            _gen_table(rng, c, "f", B, nout, K)
            _gen_table(rng, c, "c", B, nout, K)
        if mode in ("f", "both", "cvis"):
            _set_view(c, "f", _gen_view(rng, c, ind))
        if mode in ("c", "both"):
            _set_view(c, "c", _gen_view(rng, c, ind))
        if mode == "cvis":
            _set_view(c, "c", dict(c["fview"]))
            c["cv_alias"] = True
    elif what in ("is", "enum", "st"):
        c["is_log"] = rng.random() < 0.4
        _set_view(c, "f", _gen_view(rng, c, ind))
    elif what == "relax":
        mode = rng.choice(["f", "z", "both"])
        c["is_log"] = mode == "f" and rng.random() < 0.4
        if mode in ("f", "both"):
            _set_view(c, "f", _gen_view(rng, c, ind))
        if mode in ("z", "both"):
            c["zview"] = _gen_view(rng, c, False)
        if c["is_log"]:    # cv <= 1/2 * 3/2 < min f = 1: the per-call average stays positive
            c["eta"] = 2
            c["cw"] = [rng.randint(1, 6) for _ in range(B)] if c["dtype"] == "bern" else [[rng.randint(1, 6) for _ in range(V)] for _ in range(B)]
    elif what == "reparam":
        c.update(kind="reparam", base=rng.randint(1, 12), is_log=rng.random() < 0.4, eta=rng.choice([2, 4, 5]))
        c["cw"] = [rng.randint(1, 8) for _ in range(B)] if c["dtype"] == "bern" else [[rng.randint(1, 8) for _ in range(V)] for _ in range(B)]
        c["zview"] = _gen_view(rng, c, False)
    else:
        mode = rng.choice(["view"] * 13 + ["table"] * 5 + ["scratch"] * 2)
        c["is_log"] = rng.random() < 0.45
        if mode == "view":
            _set_view(c, "f", _gen_view(rng, c, ind))
        else:
            if c["is_log"]:
                _gen_table(rng, c, "f", B, nout, K, 40, 80, dep=False)
            if mode == "scratch":
                # func reuses / recycles the tensor it returned.  With >= 2 kept states the UNCHANGED estimator returns a wrong
                # average (`v = fb` keeps func's tensor, corpus/C19/imh_func_reuses_output.json.pending): exactly that signature is
                # left out - one kept state only
                c["fmode"] = rng.choice(["outbuf", "keep"])
                c["burn"] = c["N"] - 1
    c = vary_est(rng, c)
    if c.get("zview") is not None:
        c["cvp"] = False      # (a view has no parameters for the variance-minimising branch)
    return c


def gen_alias(chk, rng):
    quick = chk.tier != "thorough"
    cases = [gen_alias_est(rng, quick) for _ in range(70 if quick else 500)]
    for c in cases:
        c["stream"] = "alias"
    return cases


def _key(case):
    fam = case["fam"]
    return fam + ":" + (case.get("kind") or case.get("op") or case.get("dtype") or "")


def run(chk, cases=None):
    chk.rule = (
        "est: one case = estimator kind + distribution (B batch elements x n variables, probs or logits) + tables for f / control "
        "variate / target; the implementation is called once per sample tuple of the WHOLE space (proposal.sample patched), value and "
        "autograd gradient w.r.t. every parameter are compared with the model's dual number per tuple, and the probability-weighted "
        "sum over the space is compared with the exact expectation and gradient (Spec.unbiased_okb). dist: rsample/threshold/csample/"
        "log_prob/tlog_prob/clog_prob on scripted uniforms vs the fixed-point instance of the formulas. comb: sampler on scripted "
        "Bernoulli outcomes, binomial, enumerations vs the model and the boolean specs. non-trivial = sample space of >= 2 outcomes / "
        "0 < given < total / 0 < count < length")
    chk.assumptions += [
        "regime T: sigmoid/softmax of the chosen logits equal a/16 to 1e-13 (asserted per case); model tables are exact rationals, "
        "implementation outputs are float64 compared with tolerance 1e-8 (fixed-point formulas: 1e-9)",
        "autograd itself is trusted; for RELAX the dual numbers of cv(z), cv(zcond) are taken from autograd on those sub-expressions",
        "torch.rand / rand_like / bernoulli and proposal.sample are replaced by scripted values (monkeypatching from the harness only)",
        "zero-probability outcomes are excluded (REINFORCE gradients are not unbiased on the boundary of the simplex)",
        "is_log=True is checked through exp(estimate) and its gradient against the linear-space model (no clamping regime)",
        "extreme-magnitude regime (stream 'extreme'): is_log=True paths of Direct / ImportanceSampling / Enumerate / StraightThrough / "
        "Reparameterization / Relax estimators are handed log-values log(table[b]) + fexp[b] ln 2 + lshift (lshift in {-1000, -300, "
        "150, 700, 1000} +- 5, fexp up to +-620 octaves) and proposals/densities with logits = log-odds + e ln 2, |e| <= 600 octaves "
        "(log-weights up to ~830 nats apart).  The model still receives exact rationals (table * 2^fexp, a 2^e / (a 2^e + 16 - a)); "
        "the identity log E[exp(lf + c)] = log E[exp(lf)] + c is used to remove lshift (and one power of two per comparison) from "
        "the returned log-estimate in float64 BEFORE exponentiating, so the oracle stays the exact linear-space model.  Tolerance "
        "1e-8 relative to the comparison's unit (largest estimate over the sample tuples / the exact expectation): autograd's own "
        "d log p = delta - p cancels to u64 |estimate| when p ~ 1.  DirectEstimator's documented clamp of log f - max log f to "
        "[-43.7, 44.4] is not modelled: spreads inside one sample tuple stay below 18 nats there",
        "relaxed distributions with logits of magnitude 8..500 (LogisticBernoulli) / class logits up to 1600 nats apart (Gumbel): the "
        "model is fed the HARNESS's float64 log_softmax / sigmoid of the logits that were handed over, and the distribution's own "
        "logits / probs are compared with them (1e-12 / 1e-9 relative); csample's closed form is compared only while eps-clamping of "
        "probs is inactive and the 2^-64 fixed-point model keeps 1e-9 (1e-8 <= p <= 1 - 1e-8)",
        "robustness audit (stream 'audit'): the logical case is judged by the same Coq terms; what varies is the constructor call "
        "(positional / keyword), the memory layout of the parameter tensors (non-contiguous views inside the autograd graph: "
        "gradients are taken w.r.t. the view) and of the sample tensor, validate_args=True, the call history of the relaxed "
        "distributions (probs / logits read lazily before use, expand() of a one-row distribution to the batch, reads after "
        "expand), the same estimator object called again on the same randomness (relaxed estimators, Metropolis-Hastings), "
        "RelaxEstimator with proposal_params / cv_params (same value and distribution-parameter gradient as the plain call), cv IS "
        "func for DirectEstimator; combinatorics: int32 / int64 / float32 / float64 counts, non-contiguous / stride-0 / 0-dim "
        "broadcast counts, keyword calls, out_size=None vs explicit, torch.jit.script(binomial_coefficient), broadcasting a column "
        "of lengths against a row of counts, inputs left untouched, SimpleRandomSamplingWithoutReplacement.expand() before / after "
        "log_partition was read.  Situations with a guaranteed share: RELAX with a NEGATIVE per-call average, Direct with a "
        "sample-dependent control variate and differentiable cv_mean, relaxed distributions from logits= and probs=, proposal IS density",
        "callback aliasing (stream 'alias'): func / the control variate are the ordinary functions f(b) = b_i (one-hot: indicator of a "
        "class; log space: log f = b_i) but RETURN THEIR ARGUMENT OR A VIEW OF IT (select, narrow, unbind, movedim, squeeze, view, "
        "wrapped by transpose / unsqueeze / expand / view_as / slice) - legal FunctionOnSamples, the documentation only asks for a "
        "tensor of shape (num_samples,) + batch_shape.  Judged by the same model terms and the whole-sample-space oracle on the "
        "logical table (log space: the float64 value of e as an exact rational).  All of Direct (func, cv, both, cv IS func), "
        "ImportanceSampling, Enumerate, StraightThrough, Relax (func on b, control variate on z), Reparameterization (func on z) and "
        "Metropolis-Hastings (now also is_log=True, for views and for ordinary tables), linear and log space.  Metropolis-Hastings: "
        "the handed initial_sample must be left as it was.  Not included: callbacks that modify their ARGUMENT in place (outside the "
        "notion of 'the function f'; Direct reads the sample again for cv(b) and log_prob(b), Metropolis-Hastings keeps it as the "
        "chain state); funcs that reuse / recycle the tensor they returned with >= 2 kept Metropolis-Hastings states "
        "(reported, corpus/C19/imh_func_reuses_output.json.pending; the one-kept-state signature is in the stream)",
    ]
    cases = cases if cases is not None else gen_cases(chk)
    evs, terms, where = [], [], []
    for ci, c in enumerate(cases):
        stream = c.pop("stream", "random")
        try:
            ev = evaluate(c)
        except Exception as e:  # an output of unexpected shape/type: not a legal outcome for any case here
            ev = dict(model=["false"], spec=[], unique=False, impl={"exc": "harness: " + repr(e)[:300]},
                      rel=[("implementation output could not be interpreted (%s: %s)" % (type(e).__name__, str(e)[:200]), False)])
        evs.append(ev)
        if c.get("op") == "relax_gumbel" and isinstance(ev["impl"], list) and ev["impl"]:
            chk.extra.setdefault("diagnostic_relax_gumbel_grid_abs_error", []).append(round(ev["impl"][0][-1], 6))
        chk.note_case(c, nontrivial(c), stream)
        chk.count(_key(c))
        for opt in ("param", "M", "B", "is_log", "cv", "self_norm", "same", "alias"):
            if opt in c:
                chk.count(f"{opt}={c[opt]}")
        if stream == "audit":
            chk.count("audit:" + _key(c))
            for opt in ("ctor", "dpos", "playout", "validate", "slayout", "pre", "pre2", "expand", "twice", "cvp", "cv_alias", "kw", "cdtype",
                        "clayout", "none_out", "script", "outer", "pre_lp"):
                if opt in c:
                    chk.count("audit.%s=%s" % (opt, c[opt]))
        if stream == "alias":
            chk.count("alias:" + _key(c) + (",is_log" if c.get("is_log") else ""))
            for opt in ("fview", "cview", "zview"):
                if c.get(opt):
                    chk.count("alias.%s" % opt)
                    chk.count("alias.how=%s" % c[opt]["how"])
                    chk.count("alias.wrap=%s" % c[opt]["wrap"])
            for opt in ("fmode", "cv_alias"):
                if c.get(opt):
                    chk.count("alias.%s=%s" % (opt, c[opt]))
            if c.get("kind") == "imh":
                used = 0 if c["given"] is not None else 1
                kept = c["draws"][used + c["burn"]:used + c["N"]]
                chk.count("alias.imh kept=%s, first two kept proposals %s" % (
                    min(len(kept), 2), "differ" if len(kept) >= 2 and kept[0] != kept[1] else "equal or single"))
            if isinstance(ev["impl"], dict) and (ev["impl"].get("callback_results_aliasing_the_sample") or
                                                 ev["impl"].get("func_results_aliasing_the_sample")):
                chk.count("alias.callback result shared storage with the sample (observed)")
        if c["fam"] == "est" and c.get("kind") == "relax" and not c.get("is_log") and isinstance(ev["impl"].get("out"), list):
            for row in ev["impl"]["out"]:
                chk.count("relax.estimate_sign=" + ("negative" if row[0] < 0 else "non-negative"))
        if c["fam"] == "est" and c.get("kind") == "direct" and c.get("cv"):
            chk.count("direct.cv=sample-dependent,differentiable-mean")
        if stream == "extreme":
            chk.count("extreme:" + _key(c))
            for opt in ("pexp", "qexp", "fexp", "lext", "zrel"):
                if c.get(opt):
                    chk.count("extreme." + opt)
            if "lshift" in c and c.get("is_log"):
                chk.count("extreme.lshift=%d" % (round(c["lshift"] / 100) * 100))
        if c["fam"] == "est" and c["kind"] == "imh":
            chk.count("imh_given=" + str(c["given"] is not None))
            chk.count("imh_outcome=" + ("error" if ev["impl"]["exc"] else "ok"))
        if c["fam"] == "comb":
            chk.count("comb_outcome=" + ("error" if ev["impl"].get("exc") else "ok"))
        for t in ev["model"]:
            terms.append(t)
            where.append((ci, "model"))
        for t in ev["spec"]:
            terms.append(t)
            where.append((ci, "spec"))
    res = coq_eval_bools(chk.workdir, IMPORTS, terms, shard=40)
    bad_model, bad_spec = {}, {}
    for ok, (ci, kind), t in zip(res, where, terms):
        if not ok:
            (bad_model if kind == "model" else bad_spec).setdefault(ci, []).append(t)
    bad_rel = {ci: [n for n, ok in ev["rel"] if not ok] for ci, ev in enumerate(evs) if any(not ok for _, ok in ev["rel"])}
    chk.extra["model_disagreements"] = len(bad_model)
    chk.extra["coq_terms"] = len(terms)
    concrete = sorted(set(bad_spec) | set(bad_rel) | {ci for ci in bad_model if evs[ci]["unique"]})
    nfi = sorted(set(bad_model) - set(concrete))
    for ci in concrete[:6]:
        c = cases[ci]
        fam = c["fam"] if c["fam"] != "est" else c["kind"]
        rec = {"case": c, "impl": evs[ci]["impl"], "kind": _key(c),
               "failed_relations": bad_rel.get(ci, []),
               "failed_spec_terms": [t[:1500] for t in bad_spec.get(ci, [])[:2]],
               "failed_model_terms": [t[:1500] for t in bad_model.get(ci, [])[:2]],
               "model": "see failed_model_terms (each is a closed Coq term of type bool: model output vs implementation output)",
               "correspondence": CORR + _key(c), "theorems_at_stake": THEOREMS.get(fam, []),
               "what": "implementation output violates the property: " + "; ".join(
                   bad_rel.get(ci, []) or (["space average of value/gradient differs from the exact expectation/gradient"]
                                            if ci in bad_spec and c["fam"] == "est" else
                                            ["boolean spec rejects the output" if ci in bad_spec else
                                             "output differs from the model, which is proved to be the unique correct answer"]))}
        chk.report(rec)
    if nfi and not concrete:
        ci = nfi[0]
        c = cases[ci]
        fam = c["fam"] if c["fam"] != "est" else c["kind"]
        chk.report({"case": c, "impl": evs[ci]["impl"], "kind": _key(c),
                    "failed_model_terms": [t[:1500] for t in bad_model[ci][:2]],
                    "correspondence": CORR + _key(c), "theorems_at_stake": THEOREMS.get(fam, []),
                    "n_disagreeing_cases": len(nfi),
                    "what": "implementation differs from the model but every explored output satisfies the property's reading"},
                   no_failing_input=True)
    zero_mass_categories(chk)
    from props.c19_tie import source_tie  # source tie: the translated sampler / binomial_coefficient, interpreted inside Coq
    source_tie(chk, cases, [ev["impl"] for ev in evs])


def zero_mass_categories(chk):
    """Round-5 miss C19-i (dimension: non-finite but legal parameters).  A relaxed categorical built from `logits=` with a
    masked-out class (logit -inf, probability exactly 0) is a legal distribution; the model's fixed-point logits have no
    -inf, so these cases are judged by the definition in the property text: over the one-hot support the thresholded
    probabilities are softmax(logits) - exactly 0 for the masked class, summing to one, never NaN."""
    from pydrobert.torch import distributions as PD
    rng, n, bad = chk.rng, 0, []
    for V in (2, 3, 4):
        for B in (1, 2):
            for _ in range(6 if chk.tier == "quick" else 40):
                rows = []
                for _b in range(B):
                    row = [rng.randint(-24, 24) / 8 for _v in range(V)]
                    for k in rng.sample(range(V), rng.randint(1, V - 1)):
                        row[k] = float("-inf")
                    rows.append(row)
                lg = torch.tensor(rows, dtype=torch.float64)
                want = torch.log_softmax(lg, -1)
                n += 1
                try:
                    with warnings.catch_warnings():
                        warnings.simplefilter("ignore")
                        d = PD.GumbelOneHotCategorical(logits=lg)
                        got = torch.stack([d.tlog_prob(torch.eye(V, dtype=torch.float64)[k].expand(B, V)) for k in range(V)], -1)
                    ok = bool(torch.isnan(got).sum() == 0) and bool(((got == want) | ((got - want).abs() <= 1e-9)).all()) \
                        and bool(((got.exp().sum(-1) - 1).abs() <= 1e-9).all())
                    impl = got.tolist()
                except Exception as e:  # noqa: BLE001
                    ok, impl = False, "raised " + exc_kind(e) + ": " + str(e)[:120]
                chk.count("zero-mass-category")
                if not ok:
                    bad.append({"logits": [[str(x) for x in r] for r in rows], "impl_tlog_prob_of_each_one_hot": str(impl),
                                "expected_log_softmax": [[str(x) for x in r] for r in want.tolist()]})
    chk.evaluations += n
    if bad:
        chk.report({"case": bad[0], "n_failing": len(bad), "correspondence": CORR + "relaxed:zero-mass-category",
                    "what": "GumbelOneHotCategorical(logits=...) with a masked-out class (logit -inf): the thresholded "
                            "log-probabilities of the one-hot support are not log_softmax(logits) (NaN / not summing to one)"})


def replay(chk, path):
    rec = json.loads(open(path).read())
    case = dict(rec["case"])
    case.setdefault("stream", "replay")
    run(chk, [case])
