(* MiniTorch, unit C02BSrc — the torch operations that the translated `minimum_error_rate_loss` (_string.py) needs
   beyond those of PV.MiniTorch.OpsC07 / OpsC01 / OpsC02 (imported, not changed): Tensor.repeat on a 3-D tensor,
   Tensor.size(dim), the slice of a shape tuple (`ref.shape[:2]`, `ref.shape[1:]`), Tensor.mean(dim, keepdim=True),
   Tensor.mean(), Tensor.sum().  `reshape` / `view` are OpsC07.view, `er - mean` / `er * w` are OpsC01.bin_f.
   DEFINITIONS ONLY; the algebra is in LemmasC02B.v.

   Tensors, float elements [fx] (exact rational | +inf | -inf | NaN), the encodings and everything that is not
   modelled (rounding, signed zeros, dtypes' ranges, devices, strides / contiguity / aliasing of views) are those of
   OpsC01.v / OpsC07.v.  Every operation returns [None] outside the domain stated with it; the unit's [ext] turns
   [None] into [Stuck] (fail-closed).  This file is TRUSTED by the second C02 tie; it is exercised on every run by
   the harness-side [C02.SrcRunB.src_mer_check] (torch vs the interpreted source on the same inputs). *)
From Coq Require Import List ZArith QArith Bool Arith String.
From PV Require Import MiniPy.Syntax MiniTorch.Ops MiniTorch.OpsC07 MiniTorch.OpsC01.
Import ListNotations.
Local Open Scope nat_scope.

(* a flat list cut into n consecutive rows of w entries *)
Fixpoint split_rows {X} (w n : nat) (l : list X) : list (list X) :=
  match n with
  | O => []
  | S n' => firstn w l :: split_rows w n' (skipn w l)
  end.

(* k copies of a list, one after the other *)
Definition rep_list {X} (k : nat) (l : list X) : list X := List.concat (repeat l k).

(* Tensor.repeat( *sizes): "Repeats this tensor along the specified dimensions.  Unlike expand(), this function
   copies the tensor's data. ... sizes: The number of times to repeat this tensor along each dimension"; the result
   has size sizes[d] * self.size(d) along d (torch.tensor([1, 2, 3]).repeat(4, 2) is 4 x 6: every row 1 2 3 1 2 3).
   Modelled for a 3-D tensor and three non-negative counts (a, b, c): every row (last dimension) is written c times
   in a row, every block of rows (one index of the first dimension) b times, the whole a times.
   None: another rank, a negative count *)
Definition repeat3 {X} (x : tn X) (a b c : Z) : option (tn X) :=
  match shp x with
  | [s0; s1; s2] =>
      if ((a <? 0) || (b <? 0) || (c <? 0))%Z then None
      else
        let rows := split_rows s2 (s0 * s1) (dat x) in
        let rows' := map (rep_list (Z.to_nat c)) rows in
        let blocks := split_rows s1 s0 rows' in
        let blocks' := map (rep_list (Z.to_nat b)) blocks in
        Some (mkTn [Z.to_nat a * s0; Z.to_nat b * s1; Z.to_nat c * s2]
                (List.concat (List.concat (rep_list (Z.to_nat a) blocks'))))
  | _ => None
  end.

(* Tensor.size(dim): "Returns the size of the self tensor. ... If dim is specified, returns an int holding the size
   of that dimension."  None: dim outside [-rank, rank) (torch raises IndexError) *)
Definition size_dim {X} (x : tn X) (d : Z) : option nat :=
  match wrap_dim (rank x) d with
  | Some k => Some (extent (shp x) k)
  | None => None
  end.

(* s[i:j] on a tuple (torch.Size is a tuple): "The slice of s from i to j is defined as the sequence of items with
   index k such that i <= k < j.  If i or j is greater than len(s), use len(s).  If i is omitted or None, use 0.  If j
   is omitted or None, use len(s).  If i is greater than or equal to j, the slice is empty."; "If i or j is negative,
   the index is relative to the end of sequence s: len(s) + i or len(s) + j is substituted."  (OpsC01.slice_bound) *)
Definition tuple_slice {X} (l : list X) (a b : option Z) : list X :=
  let n := List.length l in
  let lo := slice_bound n 0 a in
  let hi := slice_bound n n b in
  firstn (hi - lo) (skipn lo l).

(* the sum of a list of floats, from the right, starting from 0.0 (exact arithmetic: the order does not matter for
   finite entries; NaN and opposite infinities propagate as in OpsC01.fadd) *)
Definition fsum (l : list fx) : fx := fold_right fadd (Fq 0) l.

(* Tensor.mean(dim, keepdim=True): "Returns the mean value of each row of the input tensor in the given dimension
   dim. ... If keepdim is True, the output tensor is of the same size as input except in the dimension(s) dim where it
   is of size 1."  mean = sum / number of entries of the row (an empty row: 0 / 0 = NaN).  Any rank.
   None: dim outside [-rank, rank) *)
Definition mean_keep (x : tn fx) (d : Z) : option (tn fx) :=
  match wrap_dim (rank x) d with
  | Some k =>
      let sh := shp x in
      let N := extent sh k in
      let I := inner sh k in
      Some (mkTn (firstn k sh ++ 1 :: skipn (S k) sh)
              (tab2 (outer sh k) I (fun o i => fdiv (fsum (fibre FNaN N I (dat x) o i)) (z2f (Z.of_nat N)))))
  | None => None
  end.

(* Tensor.mean(): "Returns the mean value of all elements in the input tensor." (a 0-dimensional tensor);
   Tensor.sum(): "Returns the sum of all elements in the input tensor." *)
Definition mean_all (x : tn fx) : tn fx := mkTn [] [fdiv (fsum (dat x)) (z2f (Z.of_nat (numel (shp x))))].
Definition sum_all (x : tn fx) : tn fx := mkTn [] [fsum (dat x)].
