(* C12 — tie library: facts about the encoding of tensors as MiniPy values and the tactics that run a translated body
   one statement at a time (no definitions of semantics; no axioms). *)
From Coq Require Import ZArith List String Bool Arith Lia ZifyBool.
From PV Require Import MiniPy.Syntax MiniPy.Interp MiniTorch.OpsC12 MiniTorch.LemmasC12.
From PV Require Import C12.SrcRun.
Import ListNotations.
Local Open Scope string_scope.

(* ---- encoding ---- *)
Lemma dec_nats_enc : forall s, dec_nats (enc_nats s) = Some s.
Proof.
  induction s as [|n s IH]; [reflexivity|]. unfold enc_nats in *. cbn [map dec_nats]. rewrite IH.
  replace (0 <=? Z.of_nat n)%Z with true by lia. cbn [option_map]. now rewrite Nat2Z.id.
Qed.

Lemma dec_ints_enc : forall d, dec_ints (map VInt d) = Some d.
Proof. induction d as [|z d IH]; [reflexivity|]. cbn. now rewrite IH. Qed.

Lemma dec12_enc12 : forall t, dec12 (enc12 t) = Some t.
Proof.
  intros [cu dt sh d]. unfold dec12, enc12. cbn [t_cuda t_dtype t_shape t_data].
  rewrite String.eqb_refl, dtype_of_name_name, dec_nats_enc, dec_ints_enc. reflexivity.
Qed.

Lemma on1_enc : forall why t k st, on1 why (enc12 t) k st = ret12 why (k t) st.
Proof. intros. unfold on1. now rewrite dec12_enc12. Qed.

Lemma method_enc12 : forall t m args, method (enc12 t) m args = None.
Proof. reflexivity. Qed.
Lemma attribute_enc12 : forall ext t a st, attribute ext (enc12 t) a st = ext ("$attr." ++ a) [enc12 t] [] st.
Proof. reflexivity. Qed.
Lemma foreign_enc12 : forall t, foreign (enc12 t) = true.
Proof. reflexivity. Qed.
Lemma subscript_enc12_int : forall t i st, subscript (enc12 t) (VInt i) st = Stuck "item of a library object".
Proof. reflexivity. Qed.
Lemma subscript_enc12_tuple : forall t k st, subscript (enc12 t) (VTuple k) st = Stuck "subscript".
Proof. reflexivity. Qed.
Lemma isnot_none_enc12 : forall t, cmp_eval IsNot (enc12 t) VNone = Some true.
Proof. reflexivity. Qed.
Lemma is_none_enc12 : forall t, cmp_eval Is (enc12 t) VNone = Some false.
Proof. reflexivity. Qed.
Lemma dec_key_enc12 : forall t, dec_key (enc12 t) = None.
Proof. reflexivity. Qed.

(* ---- running a right-nested sequence one statement at a time ---- *)
Definition then_ (ext : string -> list val -> list (string * val) -> state -> outcome val) (b : stmt)
  : ctl -> state -> outcome ctl :=
  fun c st1 => match c with CNormal => exec ext b st1 | CReturn v => Ok c st1 end.

Lemma exec_seq' : forall ext a b st, exec ext (SSeq a b) st = bind (exec ext a st) (then_ ext b).
Proof. reflexivity. Qed.
Lemma then_normal : forall ext b st, then_ ext b CNormal st = exec ext b st.
Proof. reflexivity. Qed.
Lemma then_return : forall ext b v st, then_ ext b (CReturn v) st = Ok (CReturn v) st.
Proof. reflexivity. Qed.

Lemma run_of_exec_return : forall ext body vars v st,
  exec ext body (mkState vars []) = Ok (CReturn v) st -> Interp.run ext body vars = Ok v st.
Proof. intros ext body vars v st H. unfold Interp.run. now rewrite H. Qed.
Lemma run_of_exec_normal : forall ext body vars st,
  exec ext body (mkState vars []) = Ok CNormal st -> Interp.run ext body vars = Ok VNone st.
Proof. intros ext body vars st H. unfold Interp.run. now rewrite H. Qed.
Lemma run_of_exec_exc : forall ext body vars n st,
  exec ext body (mkState vars []) = Exc n st -> Interp.run ext body vars = Exc n st.
Proof. intros ext body vars n st H. unfold Interp.run. now rewrite H. Qed.

Lemma of_nat_S_eqb_0 : forall n, (Z.of_nat (S n) =? 0)%Z = false.
Proof. intros. lia. Qed.

(* ---- stores (with [store] kept folded by the tie files) ---- *)
Lemma store_name : forall ext x v st, store ext (EName x) v st = Ok tt (set_var x v st).
Proof. reflexivity. Qed.

(* x[k] = v where x holds a tensor: the unit's [ext] computes the updated tensor, which is stored back in x *)
Lemma store_sub_enc12 : forall ext x k v st t kv st2,
  lookup x (vars st) = Some (enc12 t) ->
  eval ext k st = Ok kv st2 ->
  store ext (ESub (EName x) k) v st
  = bind (ext "$setitem" [enc12 t; kv; v] [] st2) (fun nv st3 => Ok tt (set_var x nv st3)).
Proof.
  intros ext x k v st t kv st2 Hx Hk. cbn [store eval]. rewrite Hx. cbn [bind]. rewrite Hk. cbn [bind]. reflexivity.
Qed.
