(* C20 — multi-headed attention = project, wrapped attention per head, concatenate, project. *)
From Coq Require Import List Arith Bool ZArith QArith Lia Lqa Setoid Morphisms.
From PV Require Import C20.Model C20.Spec C20.Sums C20.Index C20.Proofs C20.Broadcast.
Import ListNotations.
Local Open Scope nat_scope.

(* ---------- small facts ------------------------------------------------------------------ *)
Lemma clamp1_lt n c : c < n -> (if Nat.eqb n 1 then 0 else c) = c.
Proof. intros H. destruct (Nat.eqb n 1) eqn:E; [apply Nat.eqb_eq in E; lia|reflexivity]. Qed.

Lemma intob_trans a : forall b c, intob a b = true -> intob b c = true -> intob a c = true.
Proof.
  induction a as [|x a IH]; intros b c H1 H2; [apply intob_nil|].
  destruct b as [|y b]; [discriminate|]. destruct c as [|z c]; [discriminate|].
  cbn in *. apply andb_true_iff in H1. destruct H1 as [X1 Y1].
  apply andb_true_iff in H2. destruct H2 as [X2 Y2].
  rewrite (IH b c Y1 Y2), andb_true_r.
  apply orb_true_iff in X1. apply orb_true_iff in X2. apply orb_true_iff.
  destruct X1 as [X1|X1]; apply Nat.eqb_eq in X1; [|right; apply Nat.eqb_eq; exact X1].
  subst y. destruct X2 as [X2|X2]; [left|right]; exact X2.
Qed.

Lemma linear_shape W b t : tshape (linear W b t) = length W :: tl (tshape t).
Proof. reflexivity. Qed.
Lemma unflatten_shape H d t : tshape (unflatten_last H d t) = d :: H :: tl (tshape t).
Proof. reflexivity. Qed.
Lemma head_slice_shape h d t : tshape (head_slice h d t) = d :: tl (tshape t).
Proof. reflexivity. Qed.

(* reading one feature of one head: the un-flattened projection vs the head's slice *)
Lemma heads_read W b t H d h c I :
  length W = H * d -> h < H -> c < d ->
  valid (tl (tshape t)) (clamp (tl (tshape t)) I) ->
  bget (unflatten_last H d (memo 0%Q (linear W b t))) (c :: h :: I)
  = bget (head_slice h d (linear W b t)) (c :: I).
Proof.
  intros HW Hh Hc Hv. unfold bget.
  rewrite unflatten_shape, head_slice_shape, memo_shape, linear_shape. cbn [tl clamp].
  rewrite (clamp1_lt d c Hc), (clamp1_lt H h Hh).
  cbn [unflatten_last head_slice tat].
  rewrite memo_at; [reflexivity|].
  rewrite linear_shape. apply valid_cons; [nia|exact Hv].
Qed.

Lemma heads_row W b t H d h I :
  length W = H * d -> h < H ->
  valid (tl (tshape t)) (clamp (tl (tshape t)) I) ->
  brow (unflatten_last H d (memo 0%Q (linear W b t))) (h :: I)
  = brow (head_slice h d (linear W b t)) I.
Proof.
  intros HW Hh Hv. unfold brow. rewrite unflatten_shape, head_slice_shape. cbn [hd].
  apply map_ext_in. intros c Hc. apply in_seq in Hc. apply heads_read; try assumption. lia.
Qed.

Lemma del_clamp pe : forall s I, del pe (clamp s I) = clamp (del pe s) (del pe I).
Proof.
  induction pe as [|pe IH]; intros s I.
  - destruct s as [|n s]; [destruct I; reflexivity|].
    destruct I as [|x I]; [cbn [clamp]; destruct s; reflexivity|]. cbn [clamp]. rewrite !del_0. reflexivity.
  - destruct s as [|n s]; [destruct I; reflexivity|].
    destruct I as [|x I]; [reflexivity|]. cbn [clamp]. rewrite !del_S. cbn [clamp]. rewrite IH. reflexivity.
Qed.

Lemma dotq_ext a a' b : Forall2 Qeq a a' -> (dotq a b == dotq a' b)%Q.
Proof.
  intros H. unfold dotq. rewrite !qsum_psum. revert b.
  induction H as [|x x' a a' Hx _ IH]; intros b; [reflexivity|].
  destruct b as [|y b]; [reflexivity|]. cbn [vmul combine map psum fst snd].
  fold (vmul a b). fold (vmul a' b). rewrite Hx, IH. reflexivity.
Qed.

Lemma Forall2_map_ext {A} (f g : A -> Q) l :
  (forall j, In j l -> (f j == g j)%Q) -> Forall2 Qeq (map f l) (map g l).
Proof.
  induction l as [|a l IH]; intros H; cbn; constructor.
  - apply H. left. reflexivity.
  - apply IH. intros j Hj. apply H. right. exact Hj.
Qed.

Lemma bshape_cons_same n a b r' :
  bshape (n :: a) (n :: b) = Some r' -> exists r, bshape a b = Some r /\ r' = n :: r.
Proof.
  rewrite bshape_cons. destruct (bshape a b) as [r|]; [|discriminate].
  unfold bdim. rewrite Nat.eqb_refl. intros H. injection H as <-. exists r. split; reflexivity.
Qed.

Lemma mha_inv expf sc P q k v m p mpos qs ks vs out :
  mha expf sc P q k v m p mpos qs ks vs = Some out ->
  mha_legalb q k v m p qs ks vs = true /\
  exists cat,
    attend expf sc (q_heads P q) (k_heads P k) (v_heads P v) (mask_heads m mpos) (S p) (d_q P) (d_k P) = Some cat
    /\ out = linear (WC P) (bC P) (flatten_last2 cat).
Proof.
  unfold mha. destruct (mha_legalb q k v m p qs ks vs); [|discriminate].
  destruct (attend _ _ _ _ _ _ _ _ _) as [cat|]; [|discriminate].
  intros H. injection H as <-. split; [reflexivity|]. exists cat. split; reflexivity.
Qed.

(* ---------- the theorem -------------------------------------------------------------------- *)
Lemma multihead_is_composition_strong expf sc P q k v m p qs ks vs out :
  mha expf sc P q k v m p 0 qs ks vs = Some out ->
  length (WQ P) = num_heads P * d_q P ->
  length (WK P) = num_heads P * d_k P ->
  length (WV P) = num_heads P * d_v P ->
  seq_agree k v p ->
  exists bs,
    tshape out = length (WC P) :: bs /\
    (forall h, exists o, head expf sc P q k v m p h = Some o /\ tshape o = d_v P :: bs) /\
    (forall i, valid (tshape out) i ->
               (tat out i == tat (mha_spec expf sc P q k v m p bs) i)%Q).
Proof.
  intros Hm HWQ HWK HWV Hagree.
  destruct (mha_inv _ _ _ _ _ _ _ _ _ _ _ _ _ Hm) as [Hleg [cat [Hcat ->]]].
  set (H := num_heads P) in *. set (dq := d_q P) in *. set (dk := d_k P) in *. set (dv := d_v P) in *.
  (* (A) the shapes of the inputs *)
  unfold mha_legalb in Hleg.
  repeat (apply andb_true_iff in Hleg; destruct Hleg as [Hleg ?]).
  match goal with X : Nat.leb 1 p = true |- _ => apply Nat.leb_le in X; rename X into Hp1 end.
  match goal with X : Nat.ltb p _ = true |- _ => apply Nat.ltb_lt in X; rename X into Hpk end.
  match goal with X : Nat.eqb (length (tshape v)) _ = true |- _ => apply Nat.eqb_eq in X; rename X into Hvr end.
  apply Nat.eqb_eq in Hleg. rename Hleg into Hqr.
  destruct p as [|pe]; [lia|]. clear Hp1.
  destruct (tshape q) as [|fq qs'] eqn:Eq; [cbn in Hqr; lia|].
  destruct (tshape k) as [|fk ks'] eqn:Ek; [cbn in Hpk; lia|].
  destruct (tshape v) as [|fv vs'] eqn:Ev; [cbn in Hvr; lia|].
  cbn [length] in Hqr, Hvr, Hpk.
  assert (Hpq : pe <= length qs') by lia.
  assert (Hpks : pe < length ks') by lia.
  (* shapes of the head tensors *)
  assert (Sqh : tshape (q_heads P q) = dq :: H :: qs').
  { unfold q_heads. rewrite unflatten_shape, memo_shape, linear_shape, Eq. reflexivity. }
  assert (Skh : tshape (k_heads P k) = dk :: H :: ks').
  { unfold k_heads. rewrite unflatten_shape, memo_shape, linear_shape, Ek. reflexivity. }
  assert (Svh : tshape (v_heads P v) = dv :: H :: vs').
  { unfold v_heads. rewrite unflatten_shape, memo_shape, linear_shape, Ev. reflexivity. }
  (* (B) facts about the call on all heads at once *)
  destruct (attend_inv _ _ _ _ _ _ _ _ _ _ Hcat) as [es' [ps' [F' Ecat]]].
  pose proof (af_es _ _ _ _ _ _ _ F') as Ees'. rewrite unsq_shape, Sqh, Skh, !ins_S in Ees'. cbn [tl] in Ees'.
  destruct (bshape_cons_same _ _ _ _ Ees') as [es0 [Ees0 ->]].
  pose proof (af_ps _ _ _ _ _ _ _ F') as Eps'. rewrite Svh in Eps'.
  rewrite bshape_cons in Eps'.
  destruct (bshape (H :: es0) (H :: vs')) as [r'|] eqn:Er'; [|discriminate].
  destruct (bshape_cons_same _ _ _ _ Er') as [r [Er ->]].
  rewrite bdim_one_l in Eps'. injection Eps' as <-.
  pose proof (af_mask _ _ _ _ _ _ _ F') as Emask'.
  assert (Emask : match m with None => true | Some mt => intob (tshape mt) es0 end = true).
  { destruct m as [mt|]; [|reflexivity]. cbn [mask_heads] in Emask'.
    rewrite unsq_shape, ins_0 in Emask'. cbn [intob] in Emask'.
    apply andb_true_iff in Emask'. apply Emask'. }
  (* (C) every head's own call succeeds *)
  set (qsl := fun h => head_slice h dq (linear (WQ P) (bQ P) q)).
  set (ksl := fun h => head_slice h dk (linear (WK P) (bK P) k)).
  set (vsl := fun h => head_slice h dv (linear (WV P) (bV P) v)).
  assert (Sqs : forall h, tshape (qsl h) = dq :: qs') by (intros; unfold qsl; rewrite head_slice_shape, linear_shape, Eq; reflexivity).
  assert (Sks : forall h, tshape (ksl h) = dk :: ks') by (intros; unfold ksl; rewrite head_slice_shape, linear_shape, Ek; reflexivity).
  assert (Svs : forall h, tshape (vsl h) = dv :: vs') by (intros; unfold vsl; rewrite head_slice_shape, linear_shape, Ev; reflexivity).
  assert (Hhead : forall h, exists o,
             attend expf sc (qsl h) (ksl h) (vsl h) m (S pe) dq dk = Some o /\ tshape o = dv :: del pe r).
  { intros h. unfold attend, legalb. rewrite Sqs, Sks, Svs. cbn [length hd].
    rewrite !Nat.eqb_refl.
    replace (Nat.eqb (S (S (length qs'))) (S (length ks'))) with true by (symmetry; apply Nat.eqb_eq; lia).
    replace (Nat.eqb (S (length vs')) (S (length ks'))) with true by (symmetry; apply Nat.eqb_eq; lia).
    replace (Nat.ltb (S pe) (S (length ks'))) with true by (symmetry; apply Nat.ltb_lt; lia).
    cbn [andb Nat.leb]. unfold qu. rewrite unsq_shape, Sqs, ins_S. cbn [tl].
    rewrite Ees0, Emask. rewrite bshape_cons, Er, bdim_one_l.
    eexists. split; [reflexivity|]. rewrite memo_shape. cbn [tshape]. rewrite del_S. reflexivity. }
  (* shapes of the concatenated heads and of the result *)
  assert (Scat : tshape cat = dv :: H :: del pe r).
  { rewrite Ecat, memo_shape. cbn [tshape]. rewrite !del_S. reflexivity. }
  assert (Sout : tshape (linear (WC P) (bC P) (flatten_last2 cat)) = length (WC P) :: del pe r).
  { rewrite linear_shape. unfold flatten_last2. cbn [tshape]. rewrite Scat. reflexivity. }
  exists (del pe r). split; [exact Sout|]. split; [exact Hhead|]. rewrite Sout.
  (* agreement of the sequence lengths *)
  assert (Hag0 : nth pe vs' 0 = nth pe ks' 0).
  { unfold seq_agree in Hagree. rewrite Ev, Ek in Hagree. exact Hagree. }
  assert (Hag' : seq_agree (k_heads P k) (v_heads P v) (S (S pe))).
  { unfold seq_agree. rewrite Skh, Svh. exact Hag0. }
  assert (Hagh : forall h, seq_agree (ksl h) (vsl h) (S pe)).
  { intros h. unfold seq_agree. rewrite Sks, Svs. exact Hag0. }
  (* into-relations used to justify reads of materialised projections *)
  assert (Ik : intob ks' es0 = true) by apply (bshape_into _ _ _ Ees0).
  assert (Iq : intob (ins pe 1 qs') es0 = true) by apply (bshape_into _ _ _ Ees0).
  assert (Ie : intob es0 r = true) by apply (bshape_into _ _ _ Er).
  assert (Iv : intob vs' r = true) by apply (bshape_into _ _ _ Er).
  (* (D) one coordinate of one head *)
  assert (Hcell : forall h c' i, h < H -> c' < dv -> valid (del pe r) i ->
            forall o, attend expf sc (qsl h) (ksl h) (vsl h) m (S pe) dq dk = Some o ->
            (tat cat (c' :: h :: i) == tat o (c' :: i))%Q).
  { intros h c' i Hh Hc' Hi o Ho.
    assert (So : tshape o = dv :: del pe r).
    { destruct (Hhead h) as [o' [Ho' So']]. rewrite Ho in Ho'. injection Ho' as <-. exact So'. }
    assert (Vcat : valid (tshape cat) (c' :: h :: i)) by (rewrite Scat; repeat apply valid_cons; assumption).
    assert (Vo : valid (tshape o) (c' :: i)) by (rewrite So; apply valid_cons; assumption).
    rewrite (attend_cell _ _ _ _ _ _ _ _ _ _ Hcat Hag' _ _ Vcat).
    rewrite (attend_cell _ _ _ _ _ _ _ _ _ _ Ho (Hagh h) _ _ Vo).
    rewrite Skh, Sks. cbn [nth].
    replace (S (S pe) - 1) with (S pe) by lia. replace (S pe - 1) with pe by lia.
    set (T := nth pe ks' 0).
    (* in-range facts for every sequence position *)
    assert (Les0 : length es0 = length ks').
    { pose proof (bshape_length _ _ _ Ees0) as L0. rewrite ins_shape_length in L0. lia. }
    assert (Lr : length r = length ks') by (rewrite (bshape_length _ _ _ Er); lia).
    assert (Hes0T : nth pe es0 0 = T).
    { apply (bshape_nth_one _ _ _ pe Ees0); [apply nth_ins, Hpq|exact Hpks]. }
    assert (HrT : nth pe r 0 = T).
    { rewrite (bshape_nth_same _ _ _ pe Er); [exact Hag0|rewrite Hag0; exact Hes0T|lia|lia]. }
    assert (Vr : forall t, t < T -> valid r (ins pe t i)).
    { intros t Ht. apply valid_ins; [lia|exact Hi|rewrite HrT; exact Ht]. }
    assert (Vk : forall t, t < T -> valid ks' (clamp ks' (ins pe t i))).
    { intros t Ht. apply (clamp_valid _ r); [apply (intob_trans _ es0); assumption|apply Vr, Ht]. }
    assert (Vv : forall t, t < T -> valid vs' (clamp vs' (ins pe t i))).
    { intros t Ht. apply (clamp_valid _ r); [exact Iv|apply Vr, Ht]. }
    assert (Vq : forall t, t < T -> valid qs' (clamp qs' (del pe (ins pe t i)))).
    { intros t Ht. apply (clamp_valid _ (del pe r)).
      - apply (intob_trans _ (del pe es0)); [|apply intob_del, Ie].
        pose proof (intob_del pe _ _ Iq) as X. rewrite del_ins in X by exact Hpq. exact X.
      - apply valid_del, Vr, Ht. }
    (* reads *)
    assert (Rk : forall t, t < T -> brow (k_heads P k) (h :: ins pe t i) = brow (ksl h) (ins pe t i)).
    { intros t Ht. unfold k_heads, ksl. apply heads_row; [exact HWK|exact Hh|].
      rewrite Ek. cbn [tl]. apply Vk, Ht. }
    assert (Rq : forall t, t < T ->
               brow (unsq (S (S pe)) (q_heads P q)) (h :: ins pe t i) = brow (unsq (S pe) (qsl h)) (ins pe t i)).
    { intros t Ht. unfold brow. rewrite !unsq_shape, Sqh, Sqs, !ins_S. cbn [hd].
      apply map_ext_in. intros c Hc. apply in_seq in Hc.
      rewrite !bget_unsq by (rewrite ?Sqh, ?Sqs; cbn [length]; lia).
      rewrite !del_S. unfold q_heads, qsl. apply heads_read; [exact HWQ|exact Hh|lia|].
      rewrite Eq. cbn [tl]. apply Vq, Ht. }
    assert (Rv : forall t, t < T ->
               bget (v_heads P v) (c' :: h :: ins pe t i) = bget (vsl h) (c' :: ins pe t i)).
    { intros t Ht. unfold v_heads, vsl. apply heads_read; [exact HWV|exact Hh|exact Hc'|].
      rewrite Ev. cbn [tl]. apply Vv, Ht. }
    assert (Rm : forall I, kept_at (mask_heads m 0) (h :: I) = kept_at m I).
    { intros I. destruct m as [mt|]; [|reflexivity]. cbn [mask_heads kept_at].
      rewrite bget_unsq by lia. rewrite del_0. reflexivity. }
    assert (Hw : forall t, In t (seq 0 T) ->
               wfun expf sc (q_heads P q) (k_heads P k) (mask_heads m 0) (S (S pe)) (h :: i) t
               = wfun expf sc (qsl h) (ksl h) m (S pe) i t).
    { intros t Ht. apply in_seq in Ht. unfold wfun.
      replace (S (S pe) - 1) with (S pe) by lia. replace (S pe - 1) with pe by lia.
      rewrite ins_S, Rm. destruct (kept_at m (ins pe t i)); [|reflexivity].
      unfold e_at, qu. rewrite Rq, Rk by lia. reflexivity. }
    apply wavg_ext.
    - intros t Ht. rewrite (Hw t Ht). reflexivity.
    - intros t Ht. rewrite (Hw t Ht). apply in_seq in Ht. rewrite ins_S, Rv by lia. reflexivity. }
  (* (E) the final projection *)
  intros idx Hidx. destruct idx as [|c i]; [inversion Hidx|].
  apply valid_cons_inv in Hidx. destruct Hidx as [Hc Hi].
  unfold mha_spec. cbn [linear tat].
  assert (Hrow : Forall2 Qeq
            (map (fun j => tat (flatten_last2 cat) (j :: i)) (seq 0 (hd 0 (tshape (flatten_last2 cat)))))
            (map (fun j => tat (heads_cat expf sc P q k v m (S pe) (del pe r)) (j :: i))
                 (seq 0 (hd 0 (tshape (heads_cat expf sc P q k v m (S pe) (del pe r))))))).
  { unfold flatten_last2 at 2. cbn [tshape hd]. rewrite Scat. cbn [hd tl].
    unfold heads_cat at 2. cbn [tshape hd]. fold H. fold dv.
    apply Forall2_map_ext. intros j Hj. apply in_seq in Hj.
    assert (Hdv : dv <> 0) by (intros Z; rewrite Z in Hj; lia).
    assert (Hh : j / dv < H) by (apply Nat.div_lt_upper_bound; [exact Hdv|lia]).
    assert (Hc' : j mod dv < dv) by (apply Nat.mod_upper_bound; exact Hdv).
    unfold flatten_last2, heads_cat. cbn [tat]. rewrite Scat. cbn [hd]. fold dv.
    unfold head. fold dq. fold dk. fold dv. fold (qsl (j / dv)). fold (ksl (j / dv)). fold (vsl (j / dv)).
    destruct (Hhead (j / dv)) as [o [Ho _]]. rewrite Ho.
    apply (Hcell _ _ _ Hh Hc' Hi o Ho). }
  destruct (bC P) as [bl|].
  - rewrite (dotq_ext _ _ _ Hrow). reflexivity.
  - apply dotq_ext, Hrow.
Qed.

Lemma multihead_is_composition expf sc P q k v m p qs ks vs out :
  mha expf sc P q k v m p 0 qs ks vs = Some out ->
  length (WQ P) = num_heads P * d_q P ->
  length (WK P) = num_heads P * d_k P ->
  length (WV P) = num_heads P * d_v P ->
  seq_agree k v p ->
  (forall h, h < num_heads P -> exists o, head expf sc P q k v m p h = Some o) /\
  (forall i, valid (tshape out) i ->
             (tat out i == tat (mha_spec expf sc P q k v m p (tl (tshape out))) i)%Q).
Proof.
  intros Hm HQ HK HV Ha.
  destruct (multihead_is_composition_strong _ _ _ _ _ _ _ _ _ _ _ _ Hm HQ HK HV Ha) as [bs [So [Hh Heq]]].
  split.
  - intros h _. destruct (Hh h) as [o [Ho _]]. exists o. exact Ho.
  - intros i Hi. replace (tl (tshape out)) with bs by (rewrite So; reflexivity). apply Heq, Hi.
Qed.
