(* C10 - declarative reading of the property, independent of how the code computes.

   Sources: the property statement and the documentation it refers to (class docstrings of SliceSpectData and
   ChunkTokenSequencesBySlices, the validator's definition of a well-formed directory).

   Every spec below determines its output uniquely (proved in Proofs.v: *_spec_unique), so an implementation output
   meets the spec iff it equals the output of the repaired model, which is proved to meet it. *)
From Coq Require Import List ZArith Bool Sorted.
From PV Require Import C10.Model.
Import ListNotations.
Local Open Scope Z_scope.

(* "exactly the elements of l that satisfy P (which may look at the position), in order, each mapped by f" *)
Definition selects {A B} (P : nat -> A -> Prop) (f : A -> B) (d : A) (l : list A) (out : list B) : Prop :=
  exists idx : list nat,
    StronglySorted lt idx
    /\ (forall t, In t idx <-> (t < length l)%nat /\ P t (nth t l d))
    /\ out = map (fun t => f (nth t l d)) idx.

(* "in order [of batch element], each labelled with its source element" *)
Definition labelled (per : nat -> list window) (N : nat) : list (window * Z) :=
  flat_map (fun n => map (fun w => (w, Z.of_nat n)) (per n)) (seq 0 N).

(* "with valid-only set every returned window lies inside its sequence" *)
Definition inside (L : Z) (w : window) : Prop := 0 <= fst w /\ snd w <= L.

(* ---------------------------------------------------------------------------------------------------------- *)
(* policy 'fixed' (docstring, first paragraph of the Notes)                                                   *)
(* ---------------------------------------------------------------------------------------------------------- *)
(* "slices are extracted at fixed intervals (lobe_size + 1)"; "if window_type is symmetric, windows are of size
   1 + 2 * lobe_size; otherwise 1 + lobe_size" *)
Definition fx_size (wt : wtype) (lobe : Z) : Z := match wt with Symmetric => 1 + 2 * lobe | _ => 1 + lobe end.
(* "when valid_only, slices start at index 0"; "when valid_only is False the initial slice's offsets differ: symmetric
   (lobe_size + 1) // 2 - window_size // 2; causal -lobe_size; future still 0" *)
Definition fx_off (wt : wtype) (vo : bool) (lobe : Z) : Z :=
  if vo then 0
  else match wt with
       | Symmetric => (lobe + 1) / 2 - (1 + 2 * lobe) / 2
       | Causal => - lobe
       | Future => 0
       end.
Definition fx_win (wt : wtype) (vo : bool) (lobe : Z) (k : Z) : window :=
  let s := fx_off wt vo lobe + k * (lobe + 1) in (s, s + fx_size wt lobe).
(* "the middle index for the symmetric window is at slice[0] + window_size // 2; for the causal window it's the last
   index of the window, slice[1] - 1; for the future window it's the first, slice[0]" *)
Definition fx_mid (wt : wtype) (lobe : Z) (w : window) : Z :=
  match wt with
  | Symmetric => fst w + (1 + 2 * lobe) / 2
  | Causal => snd w - 1
  | Future => fst w
  end.
(* "when valid_only, as many slices as can be fit fully within the sequences are returned; when not, slices are kept
   if their middle index lies before the end of the sequence" *)
Definition fx_keep (wt : wtype) (vo : bool) (lobe L : Z) (k : Z) : Prop :=
  let w := fx_win wt vo lobe k in
  if vo then inside L w else fx_mid wt lobe w < L.
(* the windows of one sequence of length L: windows 0 .. K-1 where window k is kept iff k < K *)
Definition fixed_seq_spec (wt : wtype) (vo : bool) (lobe L : Z) (out : list window) : Prop :=
  exists K : nat,
    out = map (fun k => fx_win wt vo lobe (Z.of_nat k)) (seq 0 K)
    /\ forall k : nat, (k < K)%nat <-> fx_keep wt vo lobe L (Z.of_nat k).

Definition fixed_spec (N : nat) (len : nat -> Z) (wt : wtype) (vo : bool) (lobe : Z) (out : list (window * Z)) : Prop :=
  exists per, out = labelled per N /\ forall n, (n < N)%nat -> fixed_seq_spec wt vo lobe (len n) (per n).

(* ---------------------------------------------------------------------------------------------------------- *)
(* policy 'ali' (second paragraph)                                                                            *)
(* ---------------------------------------------------------------------------------------------------------- *)
(* "a segment starts at index t whenever t == 0 or alis[n, t - 1] != alis[n, t]"; a = the alignment cut at its length *)
Definition is_boundary (a : list Z) (t : nat) : Prop :=
  (t < length a)%nat /\ (t = 0%nat \/ nth (t - 1) a 0 <> nth t a 0).
Definition seg_starts (a : list Z) (B : list nat) : Prop :=
  StronglySorted lt B /\ forall t, In t B <-> is_boundary a t.
(* segment m runs from the m-th boundary to the next one (or to the end of the sequence) *)
Definition seg_start (B : list nat) (m : Z) : Z := Z.of_nat (nth (Z.to_nat m) B 0%nat).
Definition seg_end (a : list Z) (B : list nat) (m : Z) : Z :=
  if m + 1 <? zlen B then Z.of_nat (nth (Z.to_nat (m + 1)) B 0%nat) else zlen a.
(* "if window_type is symmetric or causal, the m-th segment's start is set to the start of the (m - lobe_size)-th; if
   symmetric or future, the end is set to the end of the (m + lobe_size)-th.  [if that segment does not exist] and
   only_valid, the slice is thrown out; else the furthest segment from m in the same direction which also exists" *)
Definition ali_slice (a : list Z) (B : list nat) (wt : wtype) (vo : bool) (lobe : Z) (m : Z) : list window :=
  let M := zlen B in
  let lo := if do_left wt then m - lobe else m in
  let hi := if do_right wt then m + lobe else m in
  if vo then (if (0 <=? lo) && (hi <? M) then [(seg_start B lo, seg_end a B hi)] else [])
  else [(seg_start B (Z.max lo 0), seg_end a B (Z.min hi (M - 1)))].
Definition ali_seq_spec (a : list Z) (wt : wtype) (vo : bool) (lobe : Z) (out : list window) : Prop :=
  exists B, seg_starts a B
            /\ out = flat_map (fun m => ali_slice a B wt vo lobe (Z.of_nat m)) (seq 0 (length B)).

(* row n is considered up to its length *)
Definition ali_spec (rows : list (list Z)) (len : nat -> Z) (wt : wtype) (vo : bool) (lobe : Z)
           (out : list (window * Z)) : Prop :=
  exists per, out = labelled per (length rows)
              /\ forall n, (n < length rows)%nat ->
                           ali_seq_spec (firstn (Z.to_nat (len n)) (nth n rows [])) wt vo lobe (per n).

(* ---------------------------------------------------------------------------------------------------------- *)
(* policy 'ref' (third paragraph)                                                                             *)
(* ---------------------------------------------------------------------------------------------------------- *)
(* "if causal, lobe_size is subtracted from all [starts]; if future, added to all ends; if symmetric, both" *)
Definition ref_win (wt : wtype) (lobe : Z) (x : token) : window :=
  (match wt with Future => tk_start x | _ => tk_start x - lobe end,
   match wt with Causal => tk_end x | _ => tk_end x + lobe end).
(* "a segment may be discarded a few ways: ..." *)
Definition ref_kept (wt : wtype) (vo : bool) (lobe L OL : Z) (t : nat) (x : token) : Prop :=
  let w := ref_win wt lobe x in
  Z.of_nat t < L                                  (* not indexed past in_lens *)
  /\ 0 <= tk_start x /\ 0 <= tk_end x             (* segment information not missing *)
  /\ fst w < snd w                                (* no empty or invalid slices *)
  /\ (if vo then inside OL w                      (* valid_only: within [0, other_lens] *)
      else fst w < OL /\ 0 < snd w).              (* otherwise: not beginning after other_lens / ending at or before 0 *)
Definition ref_seq_spec (wt : wtype) (vo : bool) (lobe L OL : Z) (row : list token) (out : list window) : Prop :=
  selects (ref_kept wt vo lobe L OL) (ref_win wt lobe) (0, 0, 0) row out.
(* other_lens omitted: "the final segment's end time" (0 for an empty token sequence) *)
Definition ref_default_other (row : list token) (L : Z) : Z :=
  if L =? 0 then 0 else tk_end (nth (Z.to_nat (L - 1)) row (0, 0, 0)).
Definition ref_spec (rows : list (list token)) (len other : nat -> Z) (wt : wtype) (vo : bool) (lobe : Z)
           (out : list (window * Z)) : Prop :=
  exists per, out = labelled per (length rows)
              /\ forall n, (n < length rows)%nat ->
                           ref_seq_spec wt vo lobe (len n) (other n) (nth n rows []) (per n).

(* ---------------------------------------------------------------------------------------------------------- *)
(* token chunking                                                                                             *)
(* ---------------------------------------------------------------------------------------------------------- *)
(* "a negative start or end is treated as a missing boundary"; a known segment is an interval *)
Definition tok_known (x : token) : Prop := 0 <= tk_start x /\ 0 <= tk_end x /\ tk_start x <= tk_end x.
(* "contained in the slice (or merely overlap it when partial matches are allowed)" *)
Definition tok_in (partial : bool) (sl : window) (x : token) : Prop :=
  if partial then fst sl < tk_end x /\ tk_start x < snd sl
  else fst sl <= tk_start x /\ tk_end x <= snd sl.
Definition tok_kept (partial : bool) (L : option Z) (sl : window) (r : nat) (x : token) : Prop :=
  match L with Some l => Z.of_nat r < l | None => True end /\ tok_known x /\ tok_in partial sl x.
(* "unless asked to retain them re-expresses their boundaries as offsets from the slice start" *)
Definition tok_out (retain : bool) (sl : window) (x : token) : token :=
  if retain then x else (tk_tok x, tk_start x - fst sl, tk_end x - fst sl).
Definition tokens_row_spec (partial retain : bool) (L : option Z) (sl : window) (row out : list token) : Prop :=
  selects (tok_kept partial L sl) (tok_out retain sl) (0, 0, 0) row out.

(* "in order": the kept tokens form a subsequence of the source *)
Inductive subseq {A} : list A -> list A -> Prop :=
| subseq_nil : subseq [] []
| subseq_skip : forall x s l, subseq s l -> subseq s (x :: l)
| subseq_take : forall x s l, subseq s l -> subseq (x :: s) (x :: l).

(* ---------------------------------------------------------------------------------------------------------- *)
(* directories                                                                                                *)
(* ---------------------------------------------------------------------------------------------------------- *)
(* validate_spect_data_set, conditions 5.3 and 6.3.2: same number of frames; each token either has both bounds
   negative or 0 <= start <= end <= T *)
Definition tok_wf (T : Z) (x : token) : Prop :=
  (tk_start x < 0 /\ tk_end x < 0) \/ (0 <= tk_start x /\ tk_start x <= tk_end x /\ tk_end x <= T).
Definition utt_wf (feat : list Z) (ali : option (list Z)) (ref : option (list token)) : Prop :=
  match ali with Some a => length a = length feat | None => True end
  /\ match ref with Some r => Forall (tok_wf (zlen feat)) r | None => True end.

(* "the source restricted to its window" (a window inside the sequence) *)
Definition restrict {A} (x : list A) (w : window) : list A :=
  firstn (Z.to_nat (snd w - fst w)) (skipn (Z.to_nat (fst w)) x).
