(* C20 — lemmas about finite sums of rationals and masked convex combinations. *)
From Coq Require Import List Arith Bool ZArith QArith Qabs Lia Lqa Permutation Setoid Morphisms.
From PV Require Import C20.Model C20.Spec.
Import ListNotations.
Local Open Scope Q_scope.

(* plain sum, the reference for [qsum] *)


Lemma strip2_eq n : forall d,
  (Zpos (fst (strip2 n d)) * Zpos d = Zpos n * Zpos (snd (strip2 n d)))%Z.
Proof.
  induction n as [n IH|n IH|]; intros d; try (cbn; lia).
  destruct d as [d|d|]; try (cbn; lia).
  cbn [strip2]. specialize (IH d).
  rewrite (Pos2Z.inj_xO d), (Pos2Z.inj_xO n). lia.
Qed.

Lemma qnorm_eq x : qnorm x == x.
Proof.
  destruct x as [[|n|n] d]; unfold qnorm, Qeq; cbn [Qnum Qden]; [reflexivity| |].
  - apply strip2_eq.
  - pose proof (strip2_eq n d) as H.
    rewrite <- !Pos2Z.opp_pos. lia.
Qed.

Lemma qsum_psum l : qsum l == psum l.
Proof.
  induction l as [|x l IH]; [reflexivity|].
  cbn [qsum psum fold_right]. rewrite qnorm_eq.
  fold (qsum l). rewrite IH. reflexivity.
Qed.

Lemma psum_map_ext {A} (f g : A -> Q) l :
  (forall t, In t l -> f t == g t) -> psum (map f l) == psum (map g l).
Proof.
  induction l as [|a l IH]; intros H; cbn [map psum]; [reflexivity|].
  rewrite (H a) by (left; reflexivity). rewrite IH; [reflexivity|].
  intros t Ht. apply H. right. exact Ht.
Qed.

Lemma psum_scale {A} (c : Q) (f : A -> Q) l :
  psum (map (fun t => c * f t) l) == c * psum (map f l).
Proof.
  induction l as [|a l IH]; cbn [map psum]; [ring|]. rewrite IH. ring.
Qed.

Lemma psum_perm l l' : Permutation l l' -> psum l == psum l'.
Proof.
  induction 1 as [|x l l' _ IH|x y l|l l' l'' _ IH1 _ IH2]; cbn [map psum].
  - reflexivity.
  - rewrite IH. reflexivity.
  - ring.
  - rewrite IH1. exact IH2.
Qed.

Lemma psum_nonneg {A} (f : A -> Q) l :
  (forall t, In t l -> 0 <= f t) -> 0 <= psum (map f l).
Proof.
  induction l as [|a l IH]; intros H; cbn [map psum]; [lra|].
  assert (0 <= f a) by (apply H; left; reflexivity).
  assert (0 <= psum (map f l)) by (apply IH; intros; apply H; right; assumption).
  lra.
Qed.

Lemma psum_pos {A} (f : A -> Q) l t0 :
  (forall t, In t l -> 0 <= f t) -> In t0 l -> 0 < f t0 -> 0 < psum (map f l).
Proof.
  induction l as [|a l IH]; intros H Hin Hpos; [destruct Hin|].
  cbn [map psum]. assert (0 <= f a) by (apply H; left; reflexivity).
  assert (0 <= psum (map f l)) by (apply psum_nonneg; intros; apply H; right; assumption).
  destruct Hin as [->|Hin]; [lra|].
  assert (0 < psum (map f l)) by (apply IH; auto; intros; apply H; right; assumption).
  lra.
Qed.

(* weighted sums of values that lie in [lo, hi] wherever the weight is positive *)
Lemma psum_weighted_lo {A} (w x : A -> Q) lo l :
  (forall t, In t l -> 0 <= w t) ->
  (forall t, In t l -> 0 < w t -> lo <= x t) ->
  lo * psum (map w l) <= psum (map (fun t => w t * x t) l).
Proof.
  induction l as [|a l IH]; intros Hw Hx; cbn [map psum]; [lra|].
  assert (H0 : 0 <= w a) by (apply Hw; left; reflexivity).
  assert (IH' : lo * psum (map w l) <= psum (map (fun t => w t * x t) l)).
  { apply IH; intros; [apply Hw|apply Hx]; try right; assumption. }
  assert (Ha : lo * w a <= w a * x a).
  { destruct (Qlt_le_dec 0 (w a)) as [Hp|Hn].
    - assert (lo <= x a) by (apply Hx; [left; reflexivity|exact Hp]).
      setoid_replace (lo * w a) with (w a * lo) by ring.
      apply Qmult_le_l; assumption.
    - assert (w a == 0) by lra.
      rewrite H. lra. }
  lra.
Qed.

Lemma psum_weighted_hi {A} (w x : A -> Q) hi l :
  (forall t, In t l -> 0 <= w t) ->
  (forall t, In t l -> 0 < w t -> x t <= hi) ->
  psum (map (fun t => w t * x t) l) <= hi * psum (map w l).
Proof.
  intros Hw Hx.
  pose proof (psum_weighted_lo w (fun t => - x t) (- hi) l Hw) as H.
  assert (H1 : - hi * psum (map w l) <= psum (map (fun t => w t * - x t) l)).
  { apply H. intros t Ht Hp. specialize (Hx t Ht Hp). lra. }
  assert (H2 : psum (map (fun t => w t * - x t) l) == - psum (map (fun t => w t * x t) l)).
  { clear. induction l as [|a l IH]; cbn [map psum]; [ring|]. rewrite IH. ring. }
  rewrite H2 in H1. lra.
Qed.

(* ---- the masked convex combination (declarative form lives in Spec.v) -------------- *)
(* sum_t (w t / W) * x t  with  W = sum_t w t *)
Definition wavg {A} (w x : A -> Q) (l : list A) : Q :=
  psum (map (fun t => w t / psum (map w l) * x t) l).

Lemma wavg_quot {A} (w x : A -> Q) l :
  wavg w x l == psum (map (fun t => w t * x t) l) / psum (map w l).
Proof.
  unfold wavg. set (W := psum (map w l)).
  rewrite (psum_map_ext _ (fun t => / W * (w t * x t))).
  - rewrite psum_scale. unfold Qdiv. ring.
  - intros t _. unfold Qdiv. ring.
Qed.

Lemma wavg_range {A} (w x : A -> Q) l lo hi t0 :
  (forall t, In t l -> 0 <= w t) -> In t0 l -> 0 < w t0 ->
  (forall t, In t l -> 0 < w t -> lo <= x t <= hi) ->
  lo <= wavg w x l <= hi.
Proof.
  intros Hw Hin Hpos Hx. rewrite wavg_quot.
  assert (HW : 0 < psum (map w l)) by (eapply psum_pos; eauto).
  split.
  - apply Qle_shift_div_l; [exact HW|].
    apply psum_weighted_lo; [exact Hw|]. intros t Ht Hp. apply (Hx t Ht Hp).
  - apply Qle_shift_div_r; [exact HW|].
    apply psum_weighted_hi; [exact Hw|]. intros t Ht Hp. apply (Hx t Ht Hp).
Qed.

Lemma wavg_ext {A} (w w' x x' : A -> Q) l :
  (forall t, In t l -> w' t == w t) ->
  (forall t, In t l -> w' t * x' t == w t * x t) ->
  wavg w' x' l == wavg w x l.
Proof.
  intros Hw Hx. rewrite !wavg_quot.
  rewrite (psum_map_ext _ _ l Hx), (psum_map_ext _ _ l Hw). reflexivity.
Qed.

Lemma wavg_map {A B} (s : A -> B) (w x : B -> Q) (l : list A) :
  wavg (fun t => w (s t)) (fun t => x (s t)) l == wavg w x (map s l).
Proof.
  rewrite !wavg_quot. rewrite !map_map. reflexivity.
Qed.

Lemma wavg_perm {A} (w x : A -> Q) l l' : Permutation l l' -> wavg w x l == wavg w x l'.
Proof.
  intros H. rewrite !wavg_quot.
  rewrite (psum_perm _ _ (Permutation_map (fun t => w t * x t) H)).
  rewrite (psum_perm _ _ (Permutation_map w H)). reflexivity.
Qed.

(* the model's sums are the plain ones *)
Lemma qsum_wavg {A} (w x : A -> Q) l :
  qsum (map (fun t => w t / qsum (map w l) * x t) l) == wavg w x l.
Proof.
  rewrite qsum_psum. unfold wavg. apply psum_map_ext. intros t _.
  rewrite qsum_psum. reflexivity.
Qed.
