(* C15 — lemmas, part 2: restarts and user entries *)
From Coq Require Import List ZArith QArith Bool Lia String DecimalString DecimalZ Decimal DecimalPos.
From PV Require Import C15.Model C15.Spec C15.Proofs.
Import ListNotations.
Local Open Scope Z_scope.

(* ---------- user cells round-trip ------------------------------------------------------------ *)
Lemma parse_cell_print : forall v, parse_cell (kind_of v) (print_uval v) = Some v.
Proof.
  intros [z|s]; cbn; [|reflexivity].
  rewrite NilZero.isi.
  - rewrite DecimalZ.of_to. reflexivity.
  - destruct z; cbn; try discriminate. intro H. injection H as H. exact (Unsigned.to_uint_nonnil _ H).
  - destruct z; cbn; try discriminate. intro H. injection H as H. exact (Unsigned.to_uint_nonnil _ H).
Qed.

Lemma ukind_eqb_eq : forall a b, ukind_eqb a b = true -> a = b.
Proof. intros [] []; cbn; congruence. Qed.

Lemma check_kwargs_kind : forall decl kw n v,
  check_kwargs decl kw = None -> kw_get kw n = Some v -> declared decl n = Some (kind_of v).
Proof.
  intros decl kw. induction kw as [|[m w] t IH]; intros n v Hc Hg; cbn in *; [discriminate|].
  destruct (declared decl m) eqn:Hd; [|discriminate].
  destruct (ukind_eqb u (kind_of w)) eqn:He; [|discriminate].
  destruct (Nat.eqb_spec m n).
  - injection Hg as <-. subst. apply ukind_eqb_eq in He. congruence.
  - eauto.
Qed.

Lemma declared_in : forall decl n k, NoDup (map fst decl) -> In (n, k) decl -> declared decl n = Some k.
Proof.
  induction decl as [|[m j] t IH]; intros n k Hnd Hin; [destruct Hin|].
  cbn in *. inversion Hnd; subst. destruct Hin as [E|Hin].
  - inversion E; subst. rewrite Nat.eqb_refl. reflexivity.
  - destruct (Nat.eqb_spec m n); [|auto]. subst. exfalso. apply H1.
    change n with (fst (n, k)). apply in_map. exact Hin.
Qed.

Lemma parse_cells_print : forall decl kw, check_kwargs decl kw = None ->
  forall d u, (forall n k, In (n, k) d -> declared decl n = Some k) -> collect d kw = Some u ->
  parse_cells d (map (fun nv => print_uval (snd nv)) u) = Some u /\ map fst u = map fst d /\
  (forall n v, In (n, v) u -> kw_get kw n = Some v /\ declared decl n = Some (kind_of v)).
Proof.
  intros decl kw Hc. induction d as [|[n k] t IH]; intros u Hd Hcol; cbn in *.
  - injection Hcol as <-. cbn. split; [reflexivity|]. split; [reflexivity|]. intros ? ? [].
  - destruct (kw_get kw n) eqn:Hg; [|discriminate]. destruct (collect t kw) eqn:Ht; [|discriminate].
    injection Hcol as <-. cbn [map snd fst parse_cells].
    destruct (IH l (fun n k H => Hd n k (or_intror H)) eq_refl) as (IH1 & IH2 & IH3).
    pose proof (check_kwargs_kind _ _ _ _ Hc Hg) as Hk.
    rewrite (Hd n k (or_introl eq_refl)) in Hk. injection Hk as ->.
    rewrite parse_cell_print, IH1. split; [reflexivity|]. split; [cbn; congruence|].
    intros m w [E|Hin].
    + inversion E; subst. split; auto; apply (check_kwargs_kind _ _ _ _ Hc Hg).
    + auto.
Qed.

(* ---------- what a successful update does to the files ------------------------------------------ *)
Lemma update_inv : forall rnd p decl dflt st tr v kw c st',
  update rnd p decl dflt st tr v kw = inr (c, st') ->
  exists esres espcd rres rpcd l u,
    let e := last_epoch (cache st) + 1 in
    st' = mkState (cache st ++ [mkRow e esres espcd rres rpcd (Some l) (Some tr) (Some v) u])
                  (csv st ++ [mkCrow e esres espcd rres rpcd (rnd l) tr v (map (fun nv => print_uval (snd nv)) u)])
                  (opt st') ((e, opt st') :: ckpt st) /\
    check_kwargs decl kw = None /\ collect decl kw = Some u.
Proof.
  intros rnd p decl dflt st tr v kw c st'. unfold update.
  destruct (hget (cache st) (last_epoch (cache st) + 1 - 1)); [|discriminate].
  destruct (check_kwargs decl kw) eqn:Hc; [discriminate|].
  destruct (collect decl kw) as [u|] eqn:Hu; [|discriminate].
  destruct (es_step p (cache st) r (last_epoch (cache st) + 1) v) as [[esres espcd]|]; [|discriminate].
  destruct (rlr_step p (cache st) r (last_epoch (cache st) + 1) v _ (opt st)) as [[[[rres rpcd] l] o]|]; [|discriminate].
  intro H. injection H as _ <-. exists esres, espcd, rres, rpcd, l, u. cbn. auto.
Qed.

Lemma parse_rows_snoc : forall rd decl l rs x r,
  parse_rows rd decl l = Some rs -> parse_row rd decl x = Some r ->
  parse_rows rd decl (l ++ [x]) = Some (rs ++ [r]).
Proof.
  induction l as [|a t IH]; intros rs x r Hl Hx; cbn in *.
  - injection Hl as <-. rewrite Hx. reflexivity.
  - destruct (parse_row rd decl a); [|discriminate]. destruct (parse_rows rd decl t) eqn:Ht; [|discriminate].
    injection Hl as <-. rewrite (IH _ _ _ eq_refl Hx). reflexivity.
Qed.

Lemma parse_rows_length : forall rd decl l rs, parse_rows rd decl l = Some rs -> List.length rs = List.length l.
Proof.
  induction l as [|a t IH]; intros rs H; cbn in *.
  - injection H as <-. reflexivity.
  - destruct (parse_row rd decl a); [|discriminate]. destruct (parse_rows rd decl t); [|discriminate].
    injection H as <-. cbn. f_equal. auto.
Qed.

(* ---------- a state whose files say exactly what the controller remembers ---------------------- *)
Definition Synced (rd : Q -> Q) (p : params) (decl : list (nat * ukind)) (dflt : Q) (st : state) : Prop :=
  exists rs, cache st = row0 p :: rs /\ parse_rows rd decl (csv st) = Some rs /\
             (rs = [] -> opt st = init_opt p dflt) /\
             (rs <> [] -> lookup (last_epoch (cache st)) (ckpt st) = Some (opt st)).

Lemma Synced_init : forall rd p decl dflt, Synced rd p decl dflt (init_state p dflt).
Proof. intros. exists []. cbn. repeat split; auto. congruence. Qed.

Lemma restart_id : forall rd p decl dflt st, Synced rd p decl dflt st -> restart rd p decl dflt st = inr st.
Proof.
  intros rd p decl dflt [c f o k] (rs & Hc & Hp & H0 & H1). cbn in *. subst c.
  unfold restart. cbn [csv ckpt]. rewrite Hp.
  destruct rs as [|r rs'].
  - cbn. rewrite H0; auto.
  - assert (Hne : last_epoch (row0 p :: r :: rs') =? 0 = false).
    { apply Z.eqb_neq. unfold last_epoch. cbn [List.length]. lia. }
    rewrite Hne, H1; [reflexivity|discriminate].
Qed.

Lemma update_synced : forall rnd rd p decl dflt st tr v kw c st',
  NoDup (map fst decl) -> Synced rd p decl dflt st ->
  update rnd p decl dflt st tr v kw = inr (c, st') ->
  (forall r l, In r (cache st') -> r_lr r = Some l -> rd (rnd l) = l) ->
  Synced rd p decl dflt st'.
Proof.
  intros rnd rd p decl dflt st tr v kw c st' Hnd (rs & Hc & Hp & _ & _) Hu Hfix.
  destruct (update_inv _ _ _ _ _ _ _ _ _ _ Hu) as (esres & espcd & rres & rpcd & l & u & Hst & Hck & Hcol).
  cbn zeta in Hst. set (e := last_epoch (cache st) + 1) in *.
  set (info := mkRow e esres espcd rres rpcd (Some l) (Some tr) (Some v) u) in *.
  assert (Hl : rd (rnd l) = l).
  { apply (Hfix info); [|reflexivity]. rewrite Hst. cbn [cache]. apply in_or_app. right. left. reflexivity. }
  destruct (parse_cells_print decl kw Hck decl u (fun n k H => declared_in decl n k Hnd H) Hcol) as (Hpc & _).
  exists (rs ++ [info]). rewrite Hst. cbn [cache csv opt ckpt]. rewrite Hc. split; [reflexivity|]. split.
  - apply parse_rows_snoc; auto. unfold parse_row. cbn [c_user c_epoch c_esres c_espcd c_rlrres c_rlrpcd c_lr c_train c_val].
    rewrite Hpc, Hl. reflexivity.
  - split; [intro H; destruct rs; discriminate|]. intros _.
    change (row0 p :: rs ++ [info]) with ((row0 p :: rs) ++ [info]). rewrite <- Hc, last_epoch_snoc. fold e.
    cbn [lookup]. rewrite Z.eqb_refl. reflexivity.
Qed.

(* ---------- runs ------------------------------------------------------------------------------------ *)
Lemma run_clear_mono : forall rnd rd p decl dflt steps st r,
  In r (cache st) -> In r (cache (snd (run rnd rd p decl dflt st (clear_restarts steps)))).
Proof.
  induction steps as [|s t IH]; intros st r Hin; [exact Hin|].
  cbn [clear_restarts map run s_restart s_train s_val s_kw]. fold (clear_restarts t).
  destruct (update rnd p decl dflt st (s_train s) (s_val s) (s_kw s)) as [e|[c st2]] eqn:Hu.
  - specialize (IH st r Hin). destruct (run rnd rd p decl dflt st (clear_restarts t)). exact IH.
  - destruct (update_inv _ _ _ _ _ _ _ _ _ _ Hu) as (? & ? & ? & ? & ? & ? & Hst & _).
    assert (Hin2 : In r (cache st2)) by (rewrite Hst; cbn [cache]; apply in_or_app; auto).
    specialize (IH st2 r Hin2). destruct (run rnd rd p decl dflt st2 (clear_restarts t)). exact IH.
Qed.

Lemma restart_equivalent_from : forall rnd rd p decl dflt steps st,
  NoDup (map fst decl) -> Synced rd p decl dflt st ->
  (forall r l, In r (cache (snd (run rnd rd p decl dflt st (clear_restarts steps)))) -> r_lr r = Some l -> rd (rnd l) = l) ->
  run rnd rd p decl dflt st steps = run rnd rd p decl dflt st (clear_restarts steps).
Proof.
  intros rnd rd p decl dflt steps. induction steps as [|s t IH]; intros st Hnd Hs Hfix; [reflexivity|].
  cbn [clear_restarts map run s_restart s_train s_val s_kw] in *. fold (clear_restarts t) in *.
  assert (Hst1 : (if s_restart s then restart rd p decl dflt st else inr st) = inr st).
  { destruct (s_restart s); [apply restart_id; exact Hs|reflexivity]. }
  rewrite Hst1.
  destruct (update rnd p decl dflt st (s_train s) (s_val s) (s_kw s)) as [e|[c st2]] eqn:Hu.
  - rewrite IH; auto.
    intros r l Hin. apply Hfix. destruct (run rnd rd p decl dflt st (clear_restarts t)). exact Hin.
  - assert (Hfix2 : forall r l, In r (cache (snd (run rnd rd p decl dflt st2 (clear_restarts t)))) ->
                                r_lr r = Some l -> rd (rnd l) = l).
    { intros r l Hin. apply Hfix. destruct (run rnd rd p decl dflt st2 (clear_restarts t)). exact Hin. }
    rewrite IH; auto.
    eapply update_synced; eauto.
    intros r l Hin. apply Hfix2. apply run_clear_mono. exact Hin.
Qed.

Lemma restart_equivalent : forall rnd rd p decl dflt steps,
  NoDup (map fst decl) ->
  (forall r l, In r (cache (snd (run rnd rd p decl dflt (init_state p dflt) (clear_restarts steps)))) ->
               r_lr r = Some l -> rd (rnd l) = l) ->
  run rnd rd p decl dflt (init_state p dflt) steps
  = run rnd rd p decl dflt (init_state p dflt) (clear_restarts steps).
Proof. intros. apply restart_equivalent_from; auto using Synced_init. Qed.

(* ---------- user entries ------------------------------------------------------------------------------- *)
Lemma in_map_fst : forall (u : list (nat * uval)) n, In n (map fst u) -> exists v, In (n, v) u.
Proof.
  induction u as [|[m w] t IH]; intros n H; [destruct H|]. cbn in H. destruct H as [<-|H].
  - exists w. left. reflexivity.
  - destruct (IH n H) as (v & Hv). exists v. right. exact Hv.
Qed.

Lemma user_entries_typed : forall rnd p decl dflt st tr v kw c st',
  NoDup (map fst decl) -> update rnd p decl dflt st tr v kw = inr (c, st') ->
  exists info line,
    cache st' = cache st ++ [info] /\ csv st' = csv st ++ [line] /\
    map fst (r_user info) = map fst decl /\
    (forall n k, In (n, k) decl -> exists w, In (n, w) (r_user info) /\ kind_of w = k /\ kw_get kw n = Some w) /\
    parse_cells decl (c_user line) = Some (r_user info).
Proof.
  intros rnd p decl dflt st tr v kw c st' Hnd Hu.
  destruct (update_inv _ _ _ _ _ _ _ _ _ _ Hu) as (esres & espcd & rres & rpcd & l & u & Hst & Hck & Hcol).
  cbn zeta in Hst.
  destruct (parse_cells_print decl kw Hck decl u (fun n k H => declared_in decl n k Hnd H) Hcol) as (Hpc & Hfst & Hall).
  eexists. eexists. rewrite Hst. cbn [cache csv r_user c_user].
  split; [reflexivity|]. split; [reflexivity|]. split; [exact Hfst|]. split; [|exact Hpc].
  intros n k Hin.
  assert (Hn : In n (map fst u)). { rewrite Hfst. change n with (fst (n, k)). apply in_map. exact Hin. }
  destruct (in_map_fst _ _ Hn) as (w & Hw). exists w. destruct (Hall _ _ Hw) as [Hg Hd].
  rewrite (declared_in decl n k Hnd Hin) in Hd. injection Hd as ->. auto.
Qed.

(* ---------- K4: without the fixed-point hypothesis the restart clause is false ---------------------------- *)
Definition k4_p : params := mkParams None None 0 1 0 8 (1 # 2) 1 0 (1 # 100000000) 0.
(* the binary64 nearest to 0.0123456789 *)
Definition k4_rate : Q := Qred (3558399673195251 # 288230376151711744).
Definition k4_steps : list step_in := [mkStep false 1 8 []; mkStep true 4 8 []; mkStep false 7 8 []].

Definition obs_cont (o : obs) : option bool := match o with OOk c _ _ _ => Some c | OErr _ => None end.
Definition obs_rate (o : obs) : option Q := match o with OOk _ _ r _ => Some r | OErr _ => None end.

Lemma restart_rate_refuted :
  exists p decl dflt steps,
    wf p /\ NoDup (map fst decl) /\ plain decl (clear_restarts steps) /\ b64 dflt = dflt /\
    let a := run fmt5 b64 p decl dflt (init_state p dflt) steps in
    let b := run fmt5 b64 p decl dflt (init_state p dflt) (clear_restarts steps) in
    map obs_cont (fst a) = map obs_cont (fst b) /\
    b64 (fmt5 dflt) <> dflt /\
    map obs_rate (fst a) = [Some dflt; Some (Qred (b64 (fmt5 dflt) * (1 # 2))); Some (Qred (b64 (fmt5 dflt) * (1 # 4)))] /\
    map obs_rate (fst b) = [Some dflt; Some (Qred (dflt * (1 # 2))); Some (Qred (dflt * (1 # 4)))] /\
    map c_lr (csv (snd a)) <> map c_lr (csv (snd b)).
Proof.
  exists k4_p, [], k4_rate, k4_steps.
  split; [unfold wf; cbn; lia|]. split; [constructor|]. split.
  { repeat constructor; cbn; eauto. }
  split; [vm_compute; reflexivity|].
  cbv zeta. split; [vm_compute; reflexivity|]. split; [vm_compute; discriminate|].
  split; [vm_compute; reflexivity|]. split; [vm_compute; reflexivity|].
  vm_compute. discriminate.
Qed.
