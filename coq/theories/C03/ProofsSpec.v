(* C03 — facts about the specification alone (no model): the smallest distance a completion
   of a prefix can reach is the minimum of the prefix's table row ([best_reachable_row_min],
   costs >= 0), the distance-preserving tokens are the reference tokens that sit right after a
   row minimum ([preserving_iff_argmin], costs > 0 - the diagonal argument of the OCD paper),
   and the boolean row checker of Spec.v decides [target_row]. *)
From Coq Require Import List ZArith Bool Arith Lia.
From PV Require Import C01.Obs C01.Spec C01.LevFacts C01.Model C01.Proofs C03.Spec.
Import ListNotations.
Local Open Scope Z_scope.

(* ---- minima of non-empty folds ------------------------------------------------------- *)
Lemma fold_min_le_init a l : fold_right Z.min a l <= a.
Proof. induction l as [|x l IH]; cbn [fold_right]; lia. Qed.

Lemma fold_min_le_in a l x : In x l -> fold_right Z.min a l <= x.
Proof.
  induction l as [|y l IH]; intros H; [destruct H|].
  cbn [fold_right]. destruct H as [->|H]; [lia|]. specialize (IH H). lia.
Qed.

Lemma fold_min_attained a l : fold_right Z.min a l = a \/ In (fold_right Z.min a l) l.
Proof.
  induction l as [|y l IH]; [left; reflexivity|]. cbn [fold_right].
  destruct (Z.min_spec y (fold_right Z.min a l)) as [[_ E]|[_ E]]; rewrite E.
  - right. left. reflexivity.
  - destruct IH as [IH|IH]; [left; exact IH|right; right; exact IH].
Qed.

Lemma firstn_length_app {A} (l1 l2 : list A) : firstn (length l1) (l1 ++ l2) = l1.
Proof.
  rewrite firstn_app, firstn_all, Nat.sub_diag. cbn [firstn]. apply app_nil_r.
Qed.

Section SpecFacts.
  Variables ci cd cs : Z.
  Notation lev := (lev ci cd cs).
  Notation cost := (cost ci cd cs).
  Notation min_edit_cost := (min_edit_cost ci cd cs).
  Notation row_min := (row_min ci cd cs).
  Notation reachable := (reachable ci cd cs).
  Notation best_reachable := (best_reachable ci cd cs).
  Notation preserving := (preserving ci cd cs).

  (* ---- scripts ------------------------------------------------------------------------ *)
  Lemma cost_nonneg s : 0 <= ci -> 0 <= cd -> 0 <= cs -> 0 <= cost s.
  Proof.
    intros Hi Hd Hs. induction s as [|o s IH]; cbn [Spec.cost]; [lia|].
    destruct o; cbn [op_cost]; lia.
  Qed.

  (* a script producing p ++ s splits into one producing p and one producing s *)
  Lemma transforms_split sc r hh : transforms sc r hh -> forall p s, hh = p ++ s ->
    exists r1 r2 sc1 sc2, r = r1 ++ r2 /\ transforms sc1 r1 p /\ transforms sc2 r2 s /\
                          cost sc = cost sc1 + cost sc2.
  Proof.
    induction 1 as [|sc r hh b H IH|sc r hh a H IH|sc r hh a b Hab H IH|sc r hh a H IH];
      intros p s E.
    - destruct p; destruct s; try discriminate E.
      exists [], [], [], []. repeat split; constructor.
    - destruct p as [|x p]; cbn [app] in E.
      + subst s. exists [], r, [], (Ins b :: sc). split; [reflexivity|].
        split; [constructor|]. split; [constructor; exact H|]. cbn [Spec.cost]. lia.
      + inversion E; subst x hh. destruct (IH p s eq_refl) as (r1 & r2 & sc1 & sc2 & Er & T1 & T2 & Ec).
        exists r1, r2, (Ins b :: sc1), sc2. split; [exact Er|].
        split; [constructor; exact T1|]. split; [exact T2|]. cbn [Spec.cost]. lia.
    - destruct (IH p s E) as (r1 & r2 & sc1 & sc2 & Er & T1 & T2 & Ec).
      exists (a :: r1), r2, (Del a :: sc1), sc2. split; [cbn [app]; f_equal; exact Er|].
      split; [constructor; exact T1|]. split; [exact T2|]. cbn [Spec.cost]. lia.
    - destruct p as [|x p]; cbn [app] in E.
      + subst s. exists [], (a :: r), [], (Sub a b :: sc). split; [reflexivity|].
        split; [constructor|]. split; [constructor; assumption|]. cbn [Spec.cost]. lia.
      + inversion E; subst x hh. destruct (IH p s eq_refl) as (r1 & r2 & sc1 & sc2 & Er & T1 & T2 & Ec).
        exists (a :: r1), r2, (Sub a b :: sc1), sc2. split; [cbn [app]; f_equal; exact Er|].
        split; [constructor; assumption|]. split; [exact T2|]. cbn [Spec.cost]. lia.
    - destruct p as [|x p]; cbn [app] in E.
      + subst s. exists [], (a :: r), [], (Keep a :: sc). split; [reflexivity|].
        split; [constructor|]. split; [constructor; assumption|]. cbn [Spec.cost]. lia.
      + inversion E; subst x hh. destruct (IH p s eq_refl) as (r1 & r2 & sc1 & sc2 & Er & T1 & T2 & Ec).
        exists (a :: r1), r2, (Keep a :: sc1), sc2. split; [cbn [app]; f_equal; exact Er|].
        split; [constructor; assumption|]. split; [exact T2|]. cbn [Spec.cost]. lia.
  Qed.

  Lemma lev_app_le r1 r2 h1 h2 : lev (r1 ++ r2) (h1 ++ h2) <= lev r1 h1 + lev r2 h2.
  Proof.
    destruct (lev_attained ci cd cs r1 h1) as [s1 [T1 C1]].
    destruct (lev_attained ci cd cs r2 h2) as [s2 [T2 C2]].
    rewrite <- C1, <- C2, <- cost_app. apply lev_lower_bound. apply transforms_app; assumption.
  Qed.

  Lemma lev_same_le x : lev x x <= 0.
  Proof.
    assert (C : cost (map Keep x) = 0) by (induction x as [|a x IH]; cbn [map Spec.cost op_cost]; lia).
    assert (T : transforms (map Keep x) x x) by (clear C; induction x; cbn [map]; constructor; assumption).
    rewrite <- C. apply lev_lower_bound. exact T.
  Qed.

  (* ---- the row minimum ------------------------------------------------------------------ *)
  Lemma row_min_le r p i : (i <= length r)%nat -> row_min r p <= lev (firstn i r) p.
  Proof.
    intros Hi. unfold Spec.row_min. destruct (Nat.eq_dec i (length r)) as [->|Hne].
    - rewrite firstn_all. apply fold_min_le_init.
    - apply fold_min_le_in. apply in_map_iff. exists i. split; [reflexivity|]. apply in_seq. lia.
  Qed.

  Lemma row_min_attained r p : exists i, (i <= length r)%nat /\ row_min r p = lev (firstn i r) p.
  Proof.
    unfold Spec.row_min.
    destruct (fold_min_attained (lev r p) (map (fun i => lev (firstn i r) p) (seq 0 (length r)))) as [E|E].
    - exists (length r). split; [lia|]. rewrite firstn_all. exact E.
    - apply in_map_iff in E as [i [E Hi]]. apply in_seq in Hi. exists i. split; [lia|]. symmetry. exact E.
  Qed.

  Section NonNeg.
    Hypothesis Hi : 0 <= ci.
    Hypothesis Hd : 0 <= cd.
    Hypothesis Hs : 0 <= cs.

    (* no completion of p gets below the minimum of p's row *)
    Lemma lev_completion_ge r p s : row_min r p <= lev r (p ++ s).
    Proof.
      destruct (lev_attained ci cd cs r (p ++ s)) as [sc [T C]].
      destruct (transforms_split sc r (p ++ s) T p s eq_refl) as (r1 & r2 & sc1 & sc2 & Er & T1 & T2 & Ec).
      pose proof (cost_nonneg sc2 Hi Hd Hs) as Hnn.
      pose proof (lev_lower_bound ci cd cs sc1 r1 p T1) as Hlb.
      assert (Hle : row_min r p <= lev r1 p).
      { replace r1 with (firstn (length r1) r) by (subst r; apply firstn_length_app).
        apply row_min_le. subst r. rewrite app_length. lia. }
      lia.
    Qed.

    (* ... and the completion "rest of the reference after a row minimum" reaches it *)
    Lemma lev_completion_at r p i : (i <= length r)%nat ->
      lev r (p ++ skipn i r) <= lev (firstn i r) p.
    Proof.
      intros Hle. rewrite <- (firstn_skipn i r) at 1.
      pose proof (lev_app_le (firstn i r) (skipn i r) p (skipn i r)).
      pose proof (lev_same_le (skipn i r)). lia.
    Qed.

    Theorem best_reachable_row_min r p : best_reachable r p (row_min r p).
    Proof.
      split.
      - destruct (row_min_attained r p) as [i [Hle E]]. exists (skipn i r).
        assert (E' : lev r (p ++ skipn i r) = row_min r p).
        { pose proof (lev_completion_at r p i Hle). pose proof (lev_completion_ge r p (skipn i r)). lia. }
        rewrite <- E'. apply lev_is_min_edit_cost.
      - intros v [s Hv].
        rewrite (min_edit_cost_unique ci cd cs r (p ++ s) v (lev r (p ++ s)) Hv
                   (lev_is_min_edit_cost ci cd cs r (p ++ s))).
        apply lev_completion_ge.
    Qed.

    Lemma best_reachable_unique r p m m' : best_reachable r p m -> best_reachable r p m' -> m = m'.
    Proof. intros [R1 L1] [R2 L2]. specialize (L1 m' R2). specialize (L2 m R1). lia. Qed.

    Lemma preserving_iff_row_min r p t : preserving r p t <-> row_min r (p ++ [t]) = row_min r p.
    Proof.
      split.
      - intros [m [B1 B2]].
        rewrite <- (best_reachable_unique r p m _ B1 (best_reachable_row_min r p)).
        rewrite <- (best_reachable_unique r (p ++ [t]) m _ B2 (best_reachable_row_min r (p ++ [t]))).
        reflexivity.
      - intros E. exists (row_min r p). split; [apply best_reachable_row_min|].
        rewrite <- E. apply best_reachable_row_min.
    Qed.

    (* appending a token never lowers what can still be reached *)
    Lemma row_min_snoc_ge r p t : row_min r p <= row_min r (p ++ [t]).
    Proof.
      destruct (row_min_attained r (p ++ [t])) as [i [Hle E]].
      pose proof (lev_completion_at r (p ++ [t]) i Hle) as H1.
      pose proof (lev_completion_ge r p (t :: skipn i r)) as H2.
      rewrite <- app_assoc in H1. cbn [app] in H1. lia.
    Qed.

    Lemma preservingb_iff r p t : preservingb ci cd cs r p t = true <-> preserving r p t.
    Proof. unfold preservingb. rewrite Z.eqb_eq. symmetry. apply preserving_iff_row_min. Qed.
  End NonNeg.

  Section Positive.
    Hypothesis Hi : 0 < ci.
    Hypothesis Hd : 0 < cd.
    Hypothesis Hs : 0 < cs.

    (* the diagonal argument: t preserves the best reachable distance iff it is the reference
       token right after a minimum of the prefix's row *)
    Theorem preserving_iff_argmin r p t :
      preserving r p t <->
      exists i, (i < length r)%nat /\ nth i r 0 = t /\ lev (firstn i r) p = row_min r p.
    Proof.
      rewrite preserving_iff_row_min by lia. split.
      - intros E. destruct (row_min_attained r (p ++ [t])) as [i [Hle Ei]].
        destruct i as [|k].
        + exfalso. cbn [firstn] in Ei. rewrite lev_nil_l, app_length in Ei. cbn [length] in Ei.
          pose proof (row_min_le r p 0 ltac:(lia)) as H0. cbn [firstn] in H0. rewrite lev_nil_l in H0.
          rewrite Nat2Z.inj_add in Ei. cbn in Ei. lia.
        + rewrite (firstn_snoc_nth r k 0) in Ei by lia. rewrite lev_snoc in Ei.
          pose proof (row_min_le r (p ++ [t]) k ltac:(lia)) as HA.
          pose proof (row_min_le r p (S k) ltac:(lia)) as HB.
          rewrite (firstn_snoc_nth r k 0) in HB by lia.
          pose proof (row_min_le r p k ltac:(lia)) as HC.
          unfold sub_cost in Ei. destruct (nth k r 0 =? t) eqn:Et.
          * apply Z.eqb_eq in Et. exists k. split; [lia|]. split; [exact Et|]. lia.
          * exfalso. lia.
      - intros [i [Hlt [Et Ei]]]. apply Z.le_antisymm; [|apply row_min_snoc_ge; lia].
        pose proof (row_min_le r (p ++ [t]) (S i) ltac:(lia)) as H1.
        rewrite (firstn_snoc_nth r i 0) in H1 by lia. rewrite lev_snoc in H1.
        unfold sub_cost in H1. rewrite Et, Z.eqb_refl in H1. lia.
    Qed.

    Corollary preserving_in_ref r p t : preserving r p t -> In t r.
    Proof.
      intros H. apply preserving_iff_argmin in H as [i [Hlt [Et _]]]. subst t. apply nth_In. exact Hlt.
    Qed.

    (* for the empty prefix only the first reference token qualifies *)
    Lemma argmin_nil r i : (i <= length r)%nat -> lev (firstn i r) [] = row_min r [] -> i = 0%nat.
    Proof.
      intros Hle E. pose proof (row_min_le r [] 0 ltac:(lia)) as H0.
      cbn [firstn] in H0. rewrite lev_nil_l in H0. cbn [length] in H0.
      rewrite lev_nil_r, firstn_length, Nat.min_l in E by lia. nia.
    Qed.

    Lemma argmin_nil_0 r : lev (firstn 0 r) [] = row_min r [].
    Proof.
      destruct (row_min_attained r []) as [i [Hle E]].
      rewrite (argmin_nil r i Hle (eq_sym E)) in E. symmetry. exact E.
    Qed.

    (* ---- the boolean row checker decides [target_row] -------------------------------- *)
    Lemma memz_In t l : memz t l = true <-> In t l.
    Proof.
      unfold memz. rewrite existsb_exists. split.
      - intros [x [Hin E]]. apply Z.eqb_eq in E. subst x. exact Hin.
      - intros Hin. exists t. split; [exact Hin|apply Z.eqb_refl].
    Qed.

    Lemma nodupb_NoDup l : nodupb l = true <-> NoDup l.
    Proof.
      induction l as [|x l IH]; cbn [nodupb].
      - split; [constructor|reflexivity].
      - rewrite andb_true_iff, negb_true_iff, IH. split.
        + intros [Hm Hn]. constructor; [|exact Hn]. intros Hin. apply memz_In in Hin. congruence.
        + intros Hn. inversion Hn as [|? ? Hni Hn']; subst. split; [|exact Hn'].
          destruct (memz x l) eqn:E; [|reflexivity]. apply memz_In in E. contradiction.
    Qed.

    Lemma wanted_spec r p t : In t (wanted ci cd cs r p) <-> preserving r p t.
    Proof.
      unfold wanted. rewrite nodup_In, filter_In, preservingb_iff by lia. split.
      - intros [_ H]. exact H.
      - intros H. split; [apply preserving_in_ref with p; exact H|exact H].
    Qed.

    Lemma forallb_eq_repeat pad l : forallb (Z.eqb pad) l = true <-> l = repeat pad (length l).
    Proof.
      induction l as [|x l IH]; cbn [forallb length repeat]; [split; reflexivity|].
      rewrite andb_true_iff, Z.eqb_eq, IH. split.
      - intros [-> E]. f_equal. exact E.
      - intros E. inversion E as [[E1 E2]]. split; [reflexivity|]. rewrite <- E2. exact E2.
    Qed.

    Theorem target_row_okb_iff r p pad row :
      target_row_okb ci cd cs r p pad row = true <-> target_row ci cd cs r p pad row.
    Proof.
      unfold target_row_okb, target_row.
      set (want := wanted ci cd cs r p). set (k := length want).
      assert (Hwn : NoDup want) by apply NoDup_nodup.
      rewrite !andb_true_iff, Nat.leb_le, nodupb_NoDup, forallb_forall, forallb_eq_repeat. split.
      - intros [[[Hk Hnd] Hin] Hpad]. exists (firstn k row).
        assert (HL : length (firstn k row) = k) by (rewrite firstn_length; lia).
        split; [|split; [exact Hnd|]].
        + rewrite HL. rewrite <- (firstn_skipn k row) at 1. f_equal.
          rewrite Hpad at 1. rewrite skipn_length. reflexivity.
        + intros t. rewrite <- wanted_spec. fold want. split.
          * intros H. apply memz_In. apply Hin. exact H.
          * revert t. apply NoDup_length_incl; [exact Hnd|rewrite HL; unfold k; lia|].
            intros t H. apply memz_In. apply Hin. exact H.
      - intros [L [Erow [Hnd HL]]].
        assert (Hlen : length L = k).
        { apply Nat.le_antisymm.
          - apply NoDup_incl_length; [exact Hnd|]. intros t H. apply wanted_spec, HL. exact H.
          - apply NoDup_incl_length; [exact Hwn|]. intros t H. apply HL, wanted_spec. exact H. }
        assert (Hk : (k <= length row)%nat).
        { rewrite Erow, app_length. lia. }
        assert (EL : firstn k row = L).
        { rewrite Erow, <- Hlen. apply firstn_length_app. }
        assert (ES : skipn k row = repeat pad (length row - length L)).
        { rewrite Erow at 1. rewrite <- Hlen. rewrite skipn_app, skipn_all, Nat.sub_diag. reflexivity. }
        rewrite EL. repeat split; try assumption.
        + intros t H. apply memz_In. apply wanted_spec, HL. exact H.
        + rewrite ES, repeat_length. reflexivity.
    Qed.

    Lemma padding_row_okb_iff pad row : padding_row_okb pad row = true <-> padding_row pad row.
    Proof. apply forallb_eq_repeat. Qed.
  End Positive.
End SpecFacts.
