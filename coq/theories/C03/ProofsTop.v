(* C03 — optimal_completion on the batch: the flat masked_scatter places each cell's tokens
   at the start of its row of padding ([scatter_rows]), so entry (k, n) of the returned tensor
   is [pair_targets] of pair n's mask row k followed by padding ([oc_entry]); with the mask
   characterisation (ProofsMask), the selection (ProofsSelect) and the diagonal argument
   (ProofsSpec) that is the property ([oc_row_correct], [oc_past_end_is_padding]). *)
From Coq Require Import List ZArith Bool Arith Lia Sorted.
From PV Require Import C01.Obs C01.Spec C01.Model C01.LevFacts C01.Proofs.
From PV Require Import C03.Spec C03.Model C03.ProofsSpec C03.ProofsMask C03.ProofsSelect.
Import ListNotations.
Local Open Scope Z_scope.

(* ---- masked_scatter_ on the flattened tensor ------------------------------------------------ *)
Lemma ltb0_map s n : map (fun k => (k <? 0)%nat) (seq s n) = repeat false n.
Proof. revert s. induction n as [|n IH]; intros s; [reflexivity|]. cbn [seq map repeat]. rewrite IH. reflexivity. Qed.

Lemma scatter_false pad n T M S :
  masked_scatter (repeat pad n ++ T) (repeat false n ++ M) S = repeat pad n ++ masked_scatter T M S.
Proof. induction n as [|n IH]; [reflexivity|]. cbn [repeat app masked_scatter]. rewrite IH. reflexivity. Qed.

Lemma scatter_one pad L : forall C T M S, (length L <= C)%nat ->
  masked_scatter (repeat pad C ++ T) (map (fun k => (k <? length L)%nat) (seq 0 C) ++ M) (L ++ S)
  = (L ++ repeat pad (C - length L)) ++ masked_scatter T M S.
Proof.
  induction L as [|a L IH]; intros C T M S HC.
  - cbn [length app]. rewrite ltb0_map, Nat.sub_0_r. apply scatter_false.
  - destruct C as [|C]; [cbn [length] in HC; lia|].
    cbn [seq map]. rewrite <- seq_shift, map_map.
    rewrite (map_ext _ (fun k => (k <? length L)%nat)) by (intros k; reflexivity).
    change (0 <? length (a :: L))%nat with true.
    cbn [repeat app masked_scatter length Nat.sub]. f_equal. apply IH. cbn [length] in HC. lia.
Qed.

(* if every cell selects at most C tokens, the flat scatter is the row-wise placement *)
Lemma scatter_rows pad C rows : (forall L, In L rows -> (length L <= C)%nat) ->
  masked_scatter (repeat pad (length rows * C))
    (concat (map (fun L => map (fun k => (k <? length L)%nat) (seq 0 C)) rows)) (concat rows)
  = concat (map (fun L => L ++ repeat pad (C - length L)) rows).
Proof.
  induction rows as [|L rows IH]; intros HC; [reflexivity|].
  cbn [length Nat.mul map concat]. rewrite repeat_app, scatter_one by (apply HC; left; reflexivity).
  f_equal. apply IH. intros L' H. apply HC. right. exact H.
Qed.

(* ---- views of flat buffers -------------------------------------------------------------------- *)
Lemma concat_chunk {A} (C : nat) (ll : list (list A)) : (forall x, In x ll -> length x = C) ->
  forall i, (i < length ll)%nat -> firstn C (skipn (i * C) (concat ll)) = nth i ll [].
Proof.
  induction ll as [|x ll IH]; intros HC i Hi; [cbn [length] in Hi; lia|].
  assert (Hx : length x = C) by (apply HC; left; reflexivity).
  destruct i as [|i]; cbn [Nat.mul concat nth].
  - cbn [skipn]. rewrite <- Hx. apply firstn_length_app.
  - rewrite skipn_app, skipn_all2 by lia. cbn [app].
    replace (C + i * C - length x)%nat with (i * C)%nat by lia.
    apply IH; [intros y Hy; apply HC; right; exact Hy|cbn [length] in Hi; lia].
Qed.

Lemma nth_concat_uniform {A} (N : nat) (ll : list (list A)) d : (forall x, In x ll -> length x = N) ->
  forall k n, (k < length ll)%nat -> (n < N)%nat ->
  nth (k * N + n) (concat ll) d = nth n (nth k ll []) d.
Proof.
  induction ll as [|x ll IH]; intros HN k n Hk Hn; [cbn [length] in Hk; lia|].
  assert (Hx : length x = N) by (apply HN; left; reflexivity).
  destruct k as [|k]; cbn [Nat.mul concat nth Nat.add].
  - apply app_nth1. lia.
  - rewrite app_nth2 by lia. replace (N + k * N + n - length x)%nat with (k * N + n)%nat by lia.
    apply IH; [intros y Hy; apply HN; right; exact Hy|cbn [length] in Hk; lia|exact Hn].
Qed.

Lemma length_concat_uniform {A} (N : nat) (ll : list (list A)) :
  (forall x, In x ll -> length x = N) -> length (concat ll) = (length ll * N)%nat.
Proof.
  induction ll as [|x ll IH]; intros HN; [reflexivity|].
  cbn [concat length Nat.mul]. rewrite app_length, IH by (intros y Hy; apply HN; right; exact Hy).
  rewrite (HN x) by (left; reflexivity). reflexivity.
Qed.

Lemma in_map2 {A B C} (f : A -> B -> C) l1 l2 x : In x (map2 f l1 l2) -> exists a b, x = f a b.
Proof.
  revert l2. induction l1 as [|a l1 IH]; intros l2 H; [destruct H|].
  destruct l2 as [|b l2]; [destruct H|]. cbn [map2] in H. destruct H as [H|H].
  - exists a, b. symmetry. exact H.
  - apply (IH l2). exact H.
Qed.

Lemma nth_firstn_lt {A} (l : list A) i n d : (i < n)%nat -> nth i (firstn n l) d = nth i l d.
Proof.
  revert i n. induction l as [|x l IH]; intros i n Hi; [rewrite firstn_nil; reflexivity|].
  destruct n as [|n]; [lia|]. destruct i as [|i]; [reflexivity|]. cbn [firstn nth]. apply IH. lia.
Qed.

(* ---- the grid of cells ---------------------------------------------------------------------- *)
(* entry (k, n) of the returned (H', N, C) tensor - (n, k) when batch_first *)
Definition entry3 (bf : bool) (k n : nat) (out : list (list (list Z))) : list Z :=
  if bf then nth k (nth n out []) [] else nth n (nth k out []) [].

Section Batch.
  Variable c : cfg.
  Variables (N : nat) (ref hyp : list (list Z)).
  Let bf := c_bf c.
  Let refs := sequences bf N ref.
  Let hyps := sequences bf N hyp.
  Let Hn := oc_rows c N hyp.
  Let steps := (Hn - 1)%nat.
  Let C := oc_width c N ref hyp.

  Lemma oc_masks_length : length (oc_masks c N ref hyp) = N.
  Proof.
    unfold oc_masks. destruct (eff_costs (c_ins c) (c_del c) (c_sub c)) as [mult [[ci cd] cs]].
    rewrite map2_length, !sequences_length. lia.
  Qed.

  Lemma oc_masks_nth mult ci cd cs n :
    eff_costs (c_ins c) (c_del c) (c_sub c) = (mult, (ci, cd, cs)) -> (n < N)%nat ->
    nth n (oc_masks c N ref hyp) [] =
    pair_masks ci cd cs (nth n refs []) (nth n hyps [])
      (eff_len (c_eos c) (c_incl c) (nth n refs [])) (eff_len (c_eos c) (c_incl c) (nth n hyps []))
      (c_excl c) steps.
  Proof.
    intros E Hlt. unfold oc_masks. rewrite E.
    rewrite (nth_map2 _ _ _ n [] [] []) by (rewrite sequences_length; exact Hlt).
    subst steps Hn. unfold oc_rows. f_equal. lia.
  Qed.

  Lemma oc_grid_length : length (oc_grid c N ref hyp) = Hn.
  Proof. unfold oc_grid. rewrite map_length, seq_length. reflexivity. Qed.

  Lemma oc_grid_row_length row : In row (oc_grid c N ref hyp) -> length row = N.
  Proof.
    unfold oc_grid. intros H. apply in_map_iff in H as [k [<- _]].
    rewrite map2_length, sequences_length, oc_masks_length. lia.
  Qed.

  Lemma oc_grid_nth k n : (k < Hn)%nat -> (n < N)%nat ->
    nth n (nth k (oc_grid c N ref hyp) []) ([], []) =
    (sorted_ref (nth n refs []),
     final_mask (nth n refs []) (nth k (nth n (oc_masks c N ref hyp) []) [])).
  Proof.
    intros Hk Hlt. unfold oc_grid. rewrite nth_map_seq by exact Hk. cbn [Nat.add].
    rewrite (nth_map2 _ _ _ n [] [] ([], [])) by (rewrite ?sequences_length, ?oc_masks_length; exact Hlt).
    reflexivity.
  Qed.

  Lemma oc_cells_length : length (oc_cells c N ref hyp) = (Hn * N)%nat.
  Proof. unfold oc_cells. rewrite (length_concat_uniform N), oc_grid_length by apply oc_grid_row_length. reflexivity. Qed.

  Lemma oc_cells_nth k n : (k < Hn)%nat -> (n < N)%nat ->
    nth (k * N + n) (oc_cells c N ref hyp) ([], []) = nth n (nth k (oc_grid c N ref hyp) []) ([], []).
  Proof.
    intros Hk Hlt. unfold oc_cells.
    apply nth_concat_uniform; [apply oc_grid_row_length|rewrite oc_grid_length; exact Hk|exact Hlt].
  Qed.

  Lemma oc_cell_wf sm : In sm (oc_cells c N ref hyp) -> exists r m, sm = (sorted_ref r, final_mask r m).
  Proof.
    unfold oc_cells, oc_grid. intros H. apply in_concat in H as [row [Hrow Hin]].
    apply in_map_iff in Hrow as [k [<- _]]. apply in_map2 in Hin as [r [ms E]].
    exists r, (nth k ms []). exact E.
  Qed.

  (* the tokens each cell selects *)
  Definition sel_rows : list (list Z) :=
    map (fun sm => masked_select (fst sm) (snd sm)) (oc_cells c N ref hyp).

  Lemma oc_counts_sel : oc_counts c N ref hyp = map (@length Z) sel_rows.
  Proof.
    unfold oc_counts, sel_rows. rewrite map_map. apply map_ext_in. intros sm Hsm.
    destruct (oc_cell_wf sm Hsm) as [r [m ->]]. cbn [fst snd]. symmetry.
    apply masked_select_length. rewrite sorted_ref_length, final_mask_length. reflexivity.
  Qed.

  Lemma sel_rows_le L : In L sel_rows -> (length L <= C)%nat.
  Proof.
    intros H. subst C. unfold oc_width. rewrite oc_counts_sel.
    pose proof (proj1 (list_max_le (map (@length Z) sel_rows) _) (Nat.le_refl _)) as Hall.
    rewrite Forall_forall in Hall. apply Hall. apply in_map. exact H.
  Qed.

  Definition padrow (L : list Z) : list Z := L ++ repeat (c_pad c) (C - length L).

  Lemma padrow_length L : In L sel_rows -> length (padrow L) = C.
  Proof. intros H. pose proof (sel_rows_le L H). unfold padrow. rewrite app_length, repeat_length. lia. Qed.

  Lemma oc_flat :
    masked_scatter (repeat (c_pad c) (Hn * N * C))
      (concat (map (fun cnt => map (fun k => (k <? cnt)%nat) (seq 0 C)) (oc_counts c N ref hyp)))
      (concat sel_rows)
    = concat (map padrow sel_rows).
  Proof.
    rewrite oc_counts_sel, map_map.
    replace (Hn * N)%nat with (length sel_rows)
      by (unfold sel_rows; rewrite map_length; apply oc_cells_length).
    apply scatter_rows. apply sel_rows_le.
  Qed.

  (* entry (k, n): the tokens selected from pair n's mask row k, then padding up to the width *)
  Theorem oc_entry mult ci cd cs n k :
    eff_costs (c_ins c) (c_del c) (c_sub c) = (mult, (ci, cd, cs)) -> (n < N)%nat -> (k < Hn)%nat ->
    let r := nth n refs [] in
    let h := nth n hyps [] in
    let m := nth k (pair_masks ci cd cs r h (eff_len (c_eos c) (c_incl c) r)
                      (eff_len (c_eos c) (c_incl c) h) (c_excl c) steps) [] in
    entry3 bf k n (optimal_completion c N ref hyp) = padrow (pair_targets r m)
    /\ (length (pair_targets r m) <= C)%nat.
  Proof.
    intros E Hlt Hk r h m.
    assert (Hidx : (k * N + n < length sel_rows)%nat).
    { unfold sel_rows. rewrite map_length, oc_cells_length. nia. }
    assert (Hcell : nth (k * N + n) sel_rows [] = pair_targets r m).
    { unfold sel_rows.
      rewrite (nth_map_lt _ _ _ ([], [])) by (rewrite oc_cells_length; nia).
      rewrite oc_cells_nth, oc_grid_nth by assumption. cbn [fst snd].
      rewrite (oc_masks_nth mult ci cd cs n E Hlt). reflexivity. }
    split.
    2:{ rewrite <- Hcell. apply sel_rows_le. apply nth_In. exact Hidx. }
    assert (Hun : nth n (nth k (unflatten Hn N C (concat (map padrow sel_rows))) []) []
                  = padrow (pair_targets r m)).
    { unfold unflatten. rewrite nth_map_seq by exact Hk. cbn [Nat.add].
      rewrite nth_map_seq by exact Hlt. cbn [Nat.add].
      rewrite (concat_chunk C).
      - rewrite (nth_map_lt _ _ _ []) by exact Hidx. rewrite Hcell. reflexivity.
      - intros x Hx. apply in_map_iff in Hx as [L [<- HL]]. apply padrow_length. exact HL.
      - rewrite map_length. exact Hidx. }
    unfold optimal_completion. fold Hn. fold C. fold sel_rows. rewrite oc_flat.
    unfold entry3. subst bf. destruct (c_bf c).
    - unfold transpose01. rewrite nth_map_seq by exact Hlt. cbn [Nat.add].
      rewrite nth_map_seq by exact Hk. cbn [Nat.add]. exact Hun.
    - exact Hun.
  Qed.
End Batch.
