(* C14, second tie - the translated sources of
       extract_window, ContextWindowDataSet.get_windowed_utterance          (PV.Gen.C14BWinSrc, from _datasets.py)
       context_window_seq_to_batch, spect_seq_to_batch,
       _get_bucket_batch_sampler_params                                      (PV.Gen.C14BSrc, from _dataloaders.py)
   as executables: the environment [extB], the encodings of the model's values as MiniPy values and the
   correspondence entry points [src_check_..] (same interfaces as Model.check_..).  Definitions only; the lemmas are
   in TieB*.v.  The Gen terms are regenerated from /repo on every run by harness/py2coq/translate.py.

   Tensors are in the SEQUENCE ENCODING of PV.MiniTorch.OpsC14B (a 1-D tensor = VTuple of cells, a tensor of higher
   rank = VList of its slices along dimension 0), so that Python's own `len(x)`, `x[0]`, `x[-1]`, `x[i] = row` on
   tensors are MiniPy's.  What reaches [extB] (see MiniPy.Interp):
     feat.shape                                   "$attr.shape"                 OpsC14B.shape2
     x.size(0)                                    "$method.size"                OpsC14B.size0
     feat.new(n, F), torch.empty(n, C, F)         "$method.new", "torch.empty"  uninitialised: the oracle [junk]
     x[a:b], tuple[:2]                            "$getitem"                    OpsC14B.getitem_slice
     x[a:b] = v                                   "$setitem"                    OpsC14B.setitem_slice
     torch.flip(w, [0]), torch.cat(ts), torch.tensor([ints]), torch.nn.utils.rnn.pad_sequence(ts, padding_value=, batch_first=)
     zip( *seq), all(..), "$genexp" (the items of a generator consumed by all / sum / sorted / dict),
     "$sorted" [keys; items] (+ reverse=True), enumerate, isinstance(x, torch.Tensor), sum, int, dict(pairs)
     super().get_utterance_tuple(idx)             the parent data set's item, read from the object ("$utts": the
                                                  directory as data)
     extract_window(..., reverse=)                INTERPRETS the other translated body on fresh variables
   Module globals the bodies read are initial variables: config.INDEX_PAD_VALUE, torch.Tensor. *)
From Coq Require Import ZArith QArith List String Bool Arith.
From PV Require Import C14.Model MiniPy.Syntax MiniPy.Interp MiniTorch.OpsC14B Gen.C14BSrc Gen.C14BWinSrc.
Import ListNotations.
Local Open Scope string_scope.
Local Open Scope list_scope.

Definition stuckB {A} (w : string) : outcome A := Stuck ("C14B: outside the modelled domain: " ++ w).

Definition retB (w : string) (o : option val) (st : state) : outcome val :=
  match o with Some v => Ok v st | None => stuckB w end.

Definition nat_arg (v : val) : option nat :=
  match v with VInt z => if Z.leb 0 z then Some (Z.to_nat z) else None | _ => None end.

Fixpoint kw_get (k : string) (kw : list (string * val)) : option val :=
  match kw with [] => None | (n, v) :: r => if String.eqb n k then Some v else kw_get k r end.

(* ---- Python builtins the subset does not define itself ---------------------------------------- *)
(* zip( *iterables): "Iterate over several iterables in parallel, producing tuples with an item from each one ...
   By default, zip() stops when the shortest iterable is exhausted."  (consumed by list(..) on the spot) *)
Fixpoint all_container_items (vs : list val) : option (list (list val)) :=
  match vs with
  | [] => Some []
  | v :: r => match (if foreign v then None else container_items v), all_container_items r with
              | Some l, Some ls => Some (l :: ls)
              | _, _ => None
              end
  end.

Definition min_len (ls : list (list val)) : nat :=
  match ls with [] => 0%nat | l :: r => fold_right (fun x m => Nat.min (List.length x) m) (List.length l) r end.

Definition zip_vals (ls : list (list val)) : list val :=
  map (fun j => VTuple (map (fun r => nth j r VNone) ls)) (seq 0 (min_len ls)).

(* sorted(items, key=.., reverse=True): "reverse ... If set to True, then the list elements are sorted as if each
   comparison were reversed"; "The reverse parameter still maintains sort stability (so that records with equal keys
   retain the original order)".  Integer keys.  As Interp.sort_keyed: [e] stood before every element of the sorted
   tail; it is put in front of the first y whose key is not greater than its own. *)
Fixpoint insert_keyed_desc (e : Z * val) (l : list (Z * val)) : list (Z * val) :=
  match l with
  | [] => [e]
  | y :: t => if Z.leb (fst y) (fst e) then e :: l else y :: insert_keyed_desc e t
  end.

Definition sort_keyed_desc (l : list (Z * val)) : list val := map snd (fold_right insert_keyed_desc [] l).

(* sorted(items) with keys that are pairs of ints (Python compares tuples lexicographically): ascending, stable *)
Definition pair_lt (a b : Z * Z) : bool := (fst a <? fst b)%Z || ((fst a =? fst b)%Z && (snd a <? snd b)%Z).

Fixpoint insert_keyed_pair (e : (Z * Z) * val) (l : list ((Z * Z) * val)) : list ((Z * Z) * val) :=
  match l with
  | [] => [e]
  | y :: t => if pair_lt (fst y) (fst e) then y :: insert_keyed_pair e t else e :: l
  end.

Definition sort_keyed_pair (l : list ((Z * Z) * val)) : list val := map snd (fold_right insert_keyed_pair [] l).

Fixpoint int_keys (ks : list val) : option (list Z) :=
  match ks with
  | [] => Some []
  | VInt z :: r => option_map (cons z) (int_keys r)
  | _ => None
  end.

Fixpoint pair_keys (ks : list val) : option (list (Z * Z)) :=
  match ks with
  | [] => Some []
  | VTuple [VInt a; VInt b] :: r => option_map (cons (a, b)) (pair_keys r)
  | _ => None
  end.

(* sum(ints) / dict(pairs) *)
Fixpoint sum_ints (l : list val) : option Z :=
  match l with
  | [] => Some 0%Z
  | v :: r => match as_z v, sum_ints r with Some a, Some b => Some (a + b)%Z | _, _ => None end
  end.

Fixpoint dict_of_pairs (acc : list (val * val)) (l : list val) : option (list (val * val)) :=
  match l with
  | [] => Some acc
  | VTuple [k; v] :: r => dict_of_pairs (dict_set acc k v) r
  | _ => None
  end.

(* ---- module globals ------------------------------------------------------------------------------- *)
Definition tensor_class : val := VStr "$class torch.Tensor".
Definition globalsB : list (string * val) :=
  [("config", VDict [(VStr "INDEX_PAD_VALUE", VInt PADV)]); ("torch", VDict [(VStr "Tensor", tensor_class)])].

(* ---- the environment ---------------------------------------------------------------------------------- *)
(* everything except the nested call of extract_window *)
Definition extB0 (junk : nat -> nat -> val) (f : string) (args : list val) (kw : list (string * val)) (st : state)
  : outcome val :=
  if is f "torch.nn.utils.rnn.pad_sequence" then
    match args, kw_get "padding_value" kw, kw_get "batch_first" kw with
    | [sq], Some pv, Some (VBool bf) =>
        match (if foreign sq then None else container_items sq) with
        | Some ts => if Nat.eqb (List.length kw) 2 then retB "pad_sequence" (pad_sequence ts pv bf) st
                     else stuckB "pad_sequence: keywords"
        | None => stuckB "pad_sequence: sequences"
        end
    | _, _, _ => stuckB "pad_sequence"
    end
  else if is f "$sorted" then
    match args, kw with
    | [VList ks; VList items], [(r, VBool true)] =>
        if is r "reverse" then
          match int_keys ks with
          | Some zs => if Nat.eqb (List.length zs) (List.length items)
                       then Ok (VList (sort_keyed_desc (combine zs items))) st else stuckB "$sorted: lengths"
          | None => stuckB "$sorted: keys"
          end
        else stuckB "$sorted: keyword"
    | [VList ks; VList items], [] =>
        match pair_keys ks with
        | Some ps => if Nat.eqb (List.length ps) (List.length items)
                     then Ok (VList (sort_keyed_pair (combine ps items))) st else stuckB "$sorted: lengths"
        | None => stuckB "$sorted: keys"
        end
    | _, _ => stuckB "$sorted"
    end
  else match kw with _ :: _ => stuckB ("keyword arguments of " ++ f) | [] =>
  if is f "$attr.shape" then
    match args with
    | [t] => match shape2 t with Some (a, b) => Ok (VTuple [VInt a; VInt b]) st | None => stuckB "shape" end
    | _ => stuckB "shape"
    end
  else if is f "$method.size" then
    match args with
    | [t; VInt 0] => match size0 t with Some n => Ok (VInt n) st | None => stuckB "size" end
    | _ => stuckB "size"
    end
  else if is f "$method.new" then
    match args with
    | [t; n; c] => match is_tensor t, nat_arg n, nat_arg c with
                   | true, Some n', Some c' => Ok (new_mat junk n' c') st
                   | _, _, _ => stuckB "new"
                   end
    | _ => stuckB "new"
    end
  else if is f "torch.empty" then
    match args with
    | [n; c; w] => match nat_arg n, nat_arg c, nat_arg w with
                   | Some n', Some c', Some w' => Ok (new_cube junk n' c' w') st
                   | _, _, _ => stuckB "empty"
                   end
    | _ => stuckB "empty"
    end
  else if is f "$getitem" then
    match args with [x; k] => retB "getitem" (getitem_slice x k) st | _ => stuckB "getitem" end
  else if is f "$setitem" then
    match args with [x; k; v] => retB "setitem" (setitem_slice x k v) st | _ => stuckB "setitem" end
  else if is f "torch.flip" then
    match args with [x; VList [VInt 0]] => retB "flip" (flip0 x) st | _ => stuckB "flip" end
  else if is f "torch.cat" then
    match args with
    | [sq] => match (if foreign sq then None else container_items sq) with
              | Some ts => retB "cat" (cat0 ts) st
              | None => stuckB "cat: tensors"
              end
    | _ => stuckB "cat"
    end
  else if is f "torch.tensor" then
    match args with [d] => retB "tensor" (tensor_of_ints d) st | _ => stuckB "tensor" end
  else if is f "zip" then
    match all_container_items args with
    | Some ls => Ok (VList (zip_vals ls)) st
    | None => stuckB "zip"
    end
  else if is f "all" then
    (* "Return True if all elements of the iterable are true (or if the iterable is empty)." *)
    match args with [VList l] => Ok (VBool (forallb truthy l)) st | _ => stuckB "all" end
  else if is f "$genexp" then
    match args with [VList l] => Ok (VList l) st | _ => stuckB "$genexp" end
  else if is f "enumerate" then
    (* "Return an enumerate object ... a tuple containing a count (from start which defaults to 0) and the values
       obtained from iterating over iterable."  A data set is the list of its items. *)
    match args with
    | [VList l] => Ok (VList (map (fun p => VTuple [VInt (Z.of_nat (fst p)); snd p])
                                  (combine (seq 0 (List.length l)) l))) st
    | _ => stuckB "enumerate"
    end
  else if is f "isinstance" then
    match args with
    | [x; c] => if val_eqb c tensor_class then Ok (VBool (is_tensor x)) st else stuckB "isinstance: class"
    | _ => stuckB "isinstance"
    end
  else if is f "sum" then
    match args with
    | [VList l] => match sum_ints l with Some z => Ok (VInt z) st | None => stuckB "sum" end
    | _ => stuckB "sum"
    end
  else if is f "int" then
    match args with
    | [VBool b] => Ok (VInt (if b then 1 else 0)) st
    | [VInt z] => Ok (VInt z) st
    | _ => stuckB "int"
    end
  else if is f "dict" then
    match args with
    | [VList l] => match dict_of_pairs [] l with Some d => Ok (VDict d) st | None => stuckB "dict" end
    | _ => stuckB "dict"
    end
  else if is f "super" then
    (* zero-argument super() inside a method: the parent's view of `self`, read from the frame *)
    match args, lookup "self" (vars st) with
    | [], Some self => Ok (VTuple [VStr "$super"; self]) st
    | _, _ => stuckB "super"
    end
  else if is f "$method.get_utterance_tuple" then
    (* SpectDataSet.get_utterance_tuple(idx): (feat, ali, ref[, utt_id]) loaded from the directory - here the
       idx-th entry of the object's "$utts" *)
    match args with
    | [VTuple [VStr s; VDict d]; VInt i] =>
        if is s "$super" then
          match dict_get d (VStr "$utts") with
          | Some (VList us) =>
              if (Z.leb 0 i && Z.ltb i (Z.of_nat (List.length us)))%bool then Ok (nth (Z.to_nat i) us VNone) st
              else stuckB "get_utterance_tuple: index"
          | _ => stuckB "get_utterance_tuple: data"
          end
        else stuckB "get_utterance_tuple: receiver"
    | _ => stuckB "get_utterance_tuple"
    end
  else stuckB f
  end.

Definition window_vars (feat idx left right reverse : val) : list (string * val) :=
  [("feat", feat); ("frame_idx", idx); ("left", left); ("right", right); ("reverse", reverse)].

(* + extract_window(feat, center, left, right, reverse=r): the other translated body, on fresh variables; the
   caller's state is untouched (the callee's state is dropped: it has no effects) *)
Definition extB (junk : nat -> nat -> val) (f : string) (args : list val) (kw : list (string * val)) (st : state)
  : outcome val :=
  if is f "extract_window" then
    match args, kw with
    | [feat; idx; lf; rt], [(r, rv)] =>
        if is r "reverse" then
          match Interp.run (extB0 junk) extract_window (window_vars feat idx lf rt rv) with
          | Ok v _ => Ok v st
          | Exc n _ => Exc n st
          | Stuck w => Stuck w
          end
        else stuckB "extract_window: keyword"
    | _, _ => stuckB "extract_window: arguments"
    end
  else extB0 junk f args kw st.

(* ---- encodings of the model's values ------------------------------------------------------------------------ *)
Definition zn (n : nat) : val := VInt (Z.of_nat n).
Definition enc_row (r : row) : val := VTuple (map VInt r).             (* a 1-D tensor *)
Definition enc_mat (m : list row) : val := VList (map enc_row m).      (* (T, F) *)
Definition enc_cube (c : list (list row)) : val := VList (map enc_mat c).
Definition enc_opt {A} (e : A -> val) (o : option A) : val := match o with Some x => e x | None => VNone end.
Definition enc_sizes (l : list nat) : val := VTuple (map zn l).        (* torch.tensor([sizes]) *)
Definition enc_ids (l : list nat) : val := VTuple (map zn l).          (* tuple(uttids): ids are opaque payload *)

(* a reference sequence: (R,) token ids when W = 1 - the model keeps rows [tok] -, else (R, W) *)
Definition enc_tok (r : row) : val := VInt (hd 0%Z r).
Definition enc_ref (W : nat) (m : list row) : val := if Nat.eqb W 1 then VTuple (map enc_tok m) else enc_mat m.
(* padded references: (N, R) resp. (N, R, W) in either layout - a list of lists of rows in the model *)
Definition enc_refs (W : nat) (c : list (list row)) : val :=
  if Nat.eqb W 1 then VList (map (fun m => VTuple (map enc_tok m)) c) else enc_cube c.

(* ---- extract_window ------------------------------------------------------------------------------------------- *)
Definition junk0 : nat -> nat -> val := fun _ _ => VInt 424242.

Definition src_window (junk : nat -> nat -> val) (feat : list row) (idx left right : nat) (reverse : bool) : outcome val :=
  Interp.run (extB0 junk) extract_window (window_vars (enc_mat feat) (zn idx) (zn left) (zn right) (VBool reverse)).

Definition src_check_window (feat : list row) (idx left right : nat) (reverse : bool) (impl : list row) : bool :=
  match src_window junk0 feat idx left right reverse with
  | Ok v _ => val_eqb v (enc_mat impl)
  | _ => false
  end.

(* ---- ContextWindowDataSet.get_windowed_utterance --------------------------------------------------------------- *)
Definition enc_utt (W : nat) (u : utt) : val :=
  VTuple [enc_mat (u_feat u); enc_opt enc_row (u_ali u); enc_opt (enc_ref W) (u_ref u); zn (u_id u)].

Definition cw_self (W : nat) (ds : list utt) (left right : nat) (reverse suppress : bool) : val :=
  VDict [(VStr "left", zn left); (VStr "right", zn right); (VStr "reverse", VBool reverse);
         (VStr "suppress_uttids", VBool suppress); (VStr "utt_ids", VList (map (fun u => zn (u_id u)) ds));
         (VStr "$utts", VList (map (enc_utt W) ds))].

Definition src_windowed (junk : nat -> nat -> val) (W : nat) (ds : list utt) (left right : nat)
  (reverse suppress : bool) (i : nat) : outcome val :=
  Interp.run (extB junk) get_windowed_utterance [("self", cw_self W ds left right reverse suppress); ("idx", zn i)].

Definition enc_cw_item (suppress : bool) (x : cw_item) : val :=
  let '(w, a, i) := x in
  if suppress then VTuple [enc_cube w; enc_opt enc_row a] else VTuple [enc_cube w; enc_opt enc_row a; zn i].

(* impl: what ds[i] delivered *)
Definition src_check_windowed (W : nat) (ds : list utt) (left right : nat) (reverse suppress : bool) (i : nat)
  (impl : cw_item) : bool :=
  match src_windowed junk0 W ds left right reverse suppress i with
  | Ok v _ => val_eqb v (enc_cw_item suppress impl)
  | _ => false
  end.

(* ---- context_window_seq_to_batch --------------------------------------------------------------------------------- *)
Definition cw_vars (has_ids : bool) (sq : list cw_item) : list (string * val) :=
  [("seq", VList (map (enc_cw_item (negb has_ids)) sq)); ("has_uttids", VBool has_ids)].

Definition src_cw_collate (has_ids : bool) (sq : list cw_item) : outcome val :=
  Interp.run (extB0 junk0) cw_seq_to_batch (cw_vars has_ids sq).

Definition enc_cw_batch (has_ids : bool) (b : list (list row) * option (list Z) * list nat * list nat) : val :=
  let '(w, a, s, i) := b in
  if has_ids then VTuple [enc_cube w; enc_opt enc_row a; enc_sizes s; enc_ids i]
  else VTuple [enc_cube w; enc_opt enc_row a].

Definition src_check_cw_collate (has_ids : bool) (sq : list cw_item)
  (impl : list (list row) * option (list Z) * list nat * list nat) : bool :=
  match src_cw_collate has_ids sq with
  | Ok v _ => val_eqb v (enc_cw_batch has_ids impl)
  | _ => false
  end.

(* ---- spect_seq_to_batch ----------------------------------------------------------------------------------------------- *)
Definition enc_spect_item (has_alis has_ids : bool) (W : nat) (u : utt) : val :=
  VTuple ([enc_mat (u_feat u)] ++ (if has_alis then [enc_opt enc_row (u_ali u)] else [])
          ++ [enc_opt (enc_ref W) (u_ref u)] ++ (if has_ids then [zn (u_id u)] else [])).

Definition spect_vars (bf sort has_alis has_ids : bool) (W : nat) (sq : list utt) : list (string * val) :=
  [("seq", VList (map (enc_spect_item has_alis has_ids W) sq)); ("batch_first", VBool bf); ("sort", VBool sort);
   ("has_alis", VBool has_alis); ("has_uttids", VBool has_ids)] ++ globalsB.

Definition src_spect_collate (bf sort has_alis has_ids : bool) (W : nat) (sq : list utt) : outcome val :=
  Interp.run (extB0 junk0) spect_seq_to_batch (spect_vars bf sort has_alis has_ids W sq).

Definition enc_sbatch (has_alis has_ids : bool) (W : nat) (b : sbatch) : val :=
  VTuple ([enc_cube (b_feats b)] ++ (if has_alis then [enc_opt (fun a => VList (map enc_row a)) (b_alis b)] else [])
          ++ [enc_opt (enc_refs W) (b_refs b); enc_sizes (b_fsz b); enc_opt enc_sizes (b_rsz b)]
          ++ (if has_ids then [enc_ids (b_ids b)] else [])).

(* without has_alis the items carry no alignment and the result no `alis` (the model: every u_ali = None) *)
Definition src_check_spect_collate (bf sort has_alis has_ids : bool) (W : nat) (sq : list utt) (impl : sbatch) : bool :=
  match src_spect_collate bf sort has_alis has_ids W sq with
  | Ok v _ => val_eqb v (enc_sbatch has_alis has_ids W impl)
  | _ => false
  end.

(* ---- _get_bucket_batch_sampler_params ---------------------------------------------------------------------------------- *)
(* the data set: the list of its items; only the first component's length is read.  [bare]: a LangDataSet with
   suppressed utterance ids yields the bare reference tensor *)
Definition len_item (bare : bool) (n : nat) : val :=
  let t := VList (repeat (VTuple [VInt 0]) n) in if bare then t else VTuple [t; VNone].

Definition params_vars (bare : bool) (lens : list nat) (nb bs : nat) (dyn : bool) : list (string * val) :=
  [("dataset", VList (map (len_item bare) lens)); ("num_buckets", zn nb); ("batch_size", zn bs); ("dynamic", VBool dyn)]
  ++ globalsB.

Definition src_params (bare : bool) (lens : list nat) (nb bs : nat) (dyn : bool) : outcome val :=
  Interp.run (extB0 junk0) bucket_params (params_vars bare lens nb bs dyn).

(* a table as the Python dict {i: t[i]} (as SrcRun.enc_list_tbl) *)
Definition enc_tblB (t : list nat) : val :=
  VDict (map (fun i => (zn i, zn (nth i t 0%nat))) (seq 0 (List.length t))).

Definition dict_eqb_unordered (a b : list (val * val)) : bool :=
  (* same keys with the same values, in any order (keys distinct) *)
  Nat.eqb (List.length a) (List.length b) &&
  forallb (fun kv => match dict_get b (fst kv) with Some v => val_eqb v (snd kv) | None => false end) a.

Definition src_check_params (bare : bool) (lens : list nat) (nb bs : nat) (dyn : bool)
  (impl : result (list nat * list nat)) : bool :=
  match src_params bare lens nb bs dyn, impl with
  | Ok (VTuple [VDict d1; VDict d2]) _, Model.Ok (i2b, b2s) =>
      match enc_tblB i2b, enc_tblB b2s with
      | VDict e1, VDict e2 => dict_eqb_unordered d1 e1 && dict_eqb_unordered d2 e2
      | _, _ => false
      end
  | Exc n _, Model.Err e =>
      String.eqb n (match e with IndexError => "IndexError" | ZeroDivisionError => "ZeroDivisionError"
                                 | RuntimeError => "RuntimeError" end)
  | _, _ => false
  end.
