(* C02 — executable model of src/pydrobert/torch/_string.py::_string_matching with
   return_mistakes = True (error_rate, prefix_error_rates, ErrorRate, PrefixErrorRates) and
   of minimum_error_rate_loss / MinimumErrorRateLoss.

   Mirrors what the code does.  When "ins_cost == del_cost == sub_cost > 0" the code resets
   the costs to 1, clears return_mistakes and leaves mult = 1: that is the cost table of
   PV.C01.Model run on unit costs, imported here, not copied.  Otherwise the code keeps a
   second table `mistakes` beside the cost row:
     row      = last_row + ins_cost * ins_mask          mistakes = last_mistakes + ins_mask
     pick_sub = row[1:] >= sub_row                      (substitution wins ties)
     row[1:]  = where(pick_sub, sub_row, row[1:])       mistakes[1:] = where(pick_sub, msub_row, ..)
     for ref_idx in 1..R (in place, sequential):        deletion only when strictly cheaper
         del_ = row[ref_idx-1] + del_cost; keep = del_ >= row[ref_idx]; ...
     mistakes = where(not_done, mistakes, last_mistakes); row likewise
   then gather at ref_lens, norm with the empty-reference rule, prefix table with
   prefix_ers[0] = ref_lens * 1.0 and the padding mask.  Lengths (first eos, include_eos
   arithmetic), layouts and the batch-as-columns reading are those of PV.C01.Model.

   Results reuse C01's [val] read with scale 1:  Cost m = m edits,  Ratio m d = m / d,
   Lit z = literal (padding value, 0/1 convention for an empty reference).
   The costs are integers (the harness passes k for k/4); only their order relations matter
   on the mistakes path.  No proofs in this file. *)
From Coq Require Import List ZArith QArith Qabs Bool Arith.
From PV Require Import C01.Obs C01.Model.
Import ListNotations.
Local Open Scope Z_scope.

(* torch.where(mask, x, y) on three aligned vectors *)
Fixpoint where3 (p : list bool) (x y : list Z) : list Z :=
  match p, x, y with
  | b :: p', a :: x', c :: y' => (if b then a else c) :: where3 p' x' y'
  | _, _, _ => []
  end.

(* the inner "for ref_idx in range(1, max_ref_steps + 1)" loop, positions ref_idx.. of the
   two tables; [pr], [pm] are the already updated row[ref_idx-1], mistakes[ref_idx-1] *)
Fixpoint del_loop (cd pr pm : Z) (row mist : list Z) : list Z * list Z :=
  match row, mist with
  | x :: row', m :: mist' =>
      let del_ := pr + cd in
      let keep := x <=? del_ in                      (* pick_sub = del_ >= row[ref_idx] *)
      let x' := if keep then x else del_ in
      let m' := if keep then m else pm + 1 in
      let '(rr, mm) := del_loop cd x' m' row' mist' in
      (x' :: rr, m' :: mm)
  | _, _ => ([], [])
  end.

Definition del_sweep (cd : Z) (row mist : list Z) : list Z * list Z :=
  match row, mist with
  | x :: row', m :: mist' => let '(rr, mm) := del_loop cd x m row' mist' in (x :: rr, m :: mm)
  | _, _ => (row, mist)
  end.

Section Pair.
  Variables ci cd cs : Z.        (* the costs as given (not all equal and positive) *)
  Variable r : list Z.           (* the whole reference column, garbage included *)
  Variable h : list Z.           (* the whole hypothesis column *)
  Variable hlen : nat.           (* hyp_lens[n] *)
  Variable excl : bool.          (* exclude_last *)

  (* row = rrange * del_cost ; mistakes = rrange *)
  Definition state0 : list Z * list Z :=
    (row0 cd r, map (fun i => Z.of_nat i) (seq 0 (S (length r)))).

  (* loop body up to (not including) the not_done selection; im = ins_mask as a number *)
  Definition body (tok im : Z) (st : list Z * list Z) : list Z * list Z :=
    let '(last, lastm) := st in
    let neq_mask := map (fun a => if a =? tok then 0 else 1) r in
    let row := map (fun x => x + ci * im) last in
    let sub_row := map2 (fun x m => x + cs * m) (removelast last) neq_mask in
    let pick_sub := map2 (fun a b => b <=? a) (tl row) sub_row in       (* row[1:] >= sub_row *)
    let row := hd 0 row :: where3 pick_sub sub_row (tl row) in
    let mist := map (fun x => x + im) lastm in
    let msub_row := map2 (fun x m => x + m) (removelast lastm) neq_mask in
    let mist := hd 0 mist :: where3 pick_sub msub_row (tl mist) in
    del_sweep cd row mist.

  (* body of "for hyp_idx in range(1, ...)" *)
  Definition step_rm (hyp_idx : nat) (st : list Z * list Z) : list Z * list Z :=
    let not_done := (hyp_idx - (if excl then 0 else 1) <? hlen)%nat in
    let ins_mask := if (hyp_idx <=? hlen)%nat then 1 else 0 in
    let st' := body (nth (hyp_idx - 1) h 0) ins_mask st in
    if not_done then st' else st.

  Fixpoint rm_loop (fuel hyp_idx : nat) (st : list Z * list Z) : list (list Z * list Z) :=
    match fuel with
    | O => []
    | S f => let st' := step_rm hyp_idx st in st' :: rm_loop f (S hyp_idx) st'
    end.

  (* (row, mistakes) after hyp_idx = 0, 1, ..., steps *)
  Definition all_rm (steps : nat) : list (list Z * list Z) := state0 :: rm_loop steps 1%nat state0.
End Pair.

(* "if ins_cost == del_cost == sub_cost > 0.0" *)
Definition uniform_costs (i d s : Z) : bool := (i =? d) && (d =? s) && (0 <? s).

(* the configuration the shared cost-table code sees on the uniform path: costs reset to
   1, mult stays 1 (C01's eff_costs 1 1 1 = (1, (1, 1, 1))) *)
Definition unit_cfg (c : cfg) : cfg :=
  mkCfg (c_eos c) (c_incl c) (c_norm c) (c_bf c) 1 1 1 (c_pad c) (c_excl c).

Definition pair_er (c : cfg) (r h : list Z) : val :=
  if uniform_costs (c_ins c) (c_del c) (c_sub c) then pair_ed (unit_cfg c) r h
  else
    let rl := eff_len (c_eos c) (c_incl c) r in
    let hl := eff_len (c_eos c) (c_incl c) h in
    let sts := all_rm (c_ins c) (c_del c) (c_sub c) r h hl false (length h) in
    let er := nth rl (snd (last sts ([], []))) 0 in      (* mistakes.gather(0, ref_lens) *)
    normalise (c_norm c) rl er (0 <? hl)%nat.

Definition pair_prefix_er (c : cfg) (r h : list Z) : list val :=
  if uniform_costs (c_ins c) (c_del c) (c_sub c) then pair_prefix (unit_cfg c) r h
  else
    let rl := eff_len (c_eos c) (c_incl c) r in
    let hl := eff_len (c_eos c) (c_incl c) h in
    let out_len := (length h + (if c_excl c then 0 else 1))%nat in
    let sts := all_rm (c_ins c) (c_del c) (c_sub c) r h hl (c_excl c) (out_len - 1) in
    (* prefix_ers[0] = ref_lens * 1.0; prefix_ers[k] = mistakes.gather(ref_lens) *)
    let ers := Z.of_nat rl :: map (fun st => nth rl (snd st) 0) (tl sts) in
    map2 (fun k e =>
            if (hl + (if c_excl c then 0 else 1) <=? k)%nat then Lit (c_pad c)
            else normalise (c_norm c) rl e (0 <? k)%nat)
         (seq 0 out_len) ers.

(* ---- the batch -------------------------------------------------------------------- *)
Definition error_rate (c : cfg) (N : nat) (ref hyp : list (list Z)) : list val :=
  map2 (pair_er c) (sequences (c_bf c) N ref) (sequences (c_bf c) N hyp).

Definition prefix_error_rates (c : cfg) (N : nat) (ref hyp : list (list Z)) : list (list val) :=
  let hyps := sequences (c_bf c) N hyp in
  let per_pair := map2 (pair_prefix_er c) (sequences (c_bf c) N ref) hyps in
  let out_len := (length (hd [] hyps) + (if c_excl c then 0 else 1))%nat in
  let tm := transpose (Lit 0) out_len per_pair in        (* (H(+1), N) *)
  if c_bf c then transpose (Lit 0) N tm else tm.

(* ---- minimum_error_rate_loss -------------------------------------------------------- *)
Inductive reduction := RMean | RSum | RNone.
Inductive mres := MErr | MScalar (q : Q) | MMat (rows : list (list Q)).

(* the number a result entry stands for (scale 1) *)
Definition val_q (v : val) : Q :=
  match v with
  | Cost m => m # 1
  | Ratio m d => (m # 1) / (Z.of_nat d # 1)
  | Lit z => z # 1
  end.

Definition qsum (l : list Q) : Q := fold_right Qplus 0%Q l.

(* Tensor.view(N, M) of a flat vector *)
Fixpoint chunks {A} (M N : nat) (l : list A) : list (list A) :=
  match N with
  | O => []
  | S n => firstn M l :: chunks M n (skipn M l)
  end.

(* ref 2-D: (N, R) -> unsqueeze(1).repeat(1, M, 1) -> (N, M, R) when batch_first,
            (R, N) -> unsqueeze(-1).repeat(1, 1, M) -> (R, N, M) otherwise *)
Definition expand_ref (bf : bool) (M : nat) (ref : list (list Z)) : list (list (list Z)) :=
  if bf then map (fun s => repeat s M) ref
  else map (fun row => map (fun x => repeat x M) row) ref.

(* .view(-1, T) of (N, M, T) when batch_first, .view(T, -1) of (T, N, M) otherwise *)
Definition flatten3 (bf : bool) (t : list (list (list Z))) : list (list Z) :=
  if bf then concat t else map (@concat Z) t.

Definition ref3_of (bf : bool) (M : nat) (ref : list (list Z) + list (list (list Z)))
  : list (list (list Z)) :=
  match ref with inl r2 => expand_ref bf M r2 | inr r3 => r3 end.

(* w = softmax(log_probs, 1), supplied (N rows of M weights) *)
Definition mer_loss (c : cfg) (sub_avg : bool) (red : reduction) (N M : nat)
  (w : list (list Q)) (ref : list (list Z) + list (list (list Z))) (hyp : list (list (list Z)))
  : mres :=
  if (M <? 2)%nat then MErr
  else
    let ref2 := flatten3 (c_bf c) (ref3_of (c_bf c) M ref) in
    let hyp2 := flatten3 (c_bf c) hyp in
    let er := chunks M N (map val_q (error_rate c (N * M) ref2 hyp2)) in      (* .view(N, M) *)
    let er := if sub_avg
              then map (fun row => let mu := (qsum row / (Z.of_nat M # 1))%Q in
                                   map (fun x => (x - mu)%Q) row) er
              else er in
    let loss := map2 (fun erow wrow => map2 Qmult erow wrow) er w in
    match red with
    | RNone => MMat loss
    | RSum => MScalar (qsum (map qsum loss))
    | RMean => MScalar (qsum (map qsum loss) / (Z.of_nat (N * M) # 1))
    end.

(* ---- correspondence entry points ---------------------------------------------------- *)
Definition check_er (c : cfg) (N : nat) (ref hyp : list (list Z)) (obs : list Q) : bool :=
  forall2b (match_val 1) (error_rate c N ref hyp) obs.

Definition check_prefix_er (c : cfg) (N : nat) (ref hyp : list (list Z)) (obs : list (list Q))
  : bool :=
  forall2b (forall2b (match_val 1)) (prefix_error_rates c N ref hyp) obs.

Definition qclose (tol : Q) (a b : Q) : bool := Qle_bool (Qabs (a - b)) tol.

Inductive mobs := OErr | OScalar (q : Q) | OMat (rows : list (list Q)).

Definition check_mer (c : cfg) (sub_avg : bool) (red : reduction) (N M : nat)
  (w : list (list Q)) (ref : list (list Z) + list (list (list Z))) (hyp : list (list (list Z)))
  (tol : Q) (obs : mobs) : bool :=
  match mer_loss c sub_avg red N M w ref hyp, obs with
  | MErr, OErr => true
  | MScalar q, OScalar o => qclose tol q o
  | MMat rows, OMat orows => forall2b (forall2b (qclose tol)) rows orows
  | _, _ => false
  end.
