(* C18 — the translated source of `time_distributed_return` as an executable: the environment
   [ext18], the encoding of the model's tensors as MiniPy values, and the correspondence entry
   point [src_return_check].  Definitions only; the lemmas are in Tie.v.

   PV.Gen.C18Src.tdr_body is regenerated from /repo/src/pydrobert/torch/_rl.py on every run by
   harness/py2coq/translate.py (the body of the function; the decorators `@script` and
   `@functional_wrapper(...)` are outside it: TorchScript compilation is NOT modelled, the tie is
   about the Python text as eager CPython runs it).

   [ext18] gives the torch calls of that body the meaning defined in PV.MiniTorch.Ops (exact
   rationals; <= 2-D).  What arrives here (see MiniPy.Interp):
     r.dim(), r.size(k), x.unsqueeze(k), x.clamp_min(c), x.tril(), x.triu()
                                  "$method.<name>" with the tensor as first argument
     r.device, r.dtype            "$attr.<name>"; opaque tokens (only ever passed back to torch.arange)
     a - b  on two tensors        "operator" ["sub"; a; b]
     torch.arange(n, device=, dtype=), torch.pow(gamma, x), torch.matmul(a, b)
   Keyword arguments: only device= / dtype= of torch.arange are accepted, and ignored - in the
   exact-rational model they do not affect values (ASSUMPTION: r has a floating-point dtype, so
   that arange's integers, the powers and the product are computed in that dtype; an integer r
   makes torch.matmul raise on mixed dtypes, which is outside this model).  Everything else is
   Stuck. *)
From Coq Require Import ZArith QArith List String Bool.
From PV Require Import MiniPy.Syntax MiniPy.Interp MiniTorch.Ops MiniTorch.Value Gen.C18Src.
From PV Require C18.Model.
Import ListNotations.
Local Open Scope string_scope.

Definition device_token : val := VStr "$device".
Definition dtype_token : val := VStr "$dtype".

Definition arange_kw_ok (kw : list (string * val)) : bool :=
  forallb (fun kv => (is (fst kv) "device" && val_eqb (snd kv) device_token)
                     || (is (fst kv) "dtype" && val_eqb (snd kv) dtype_token))%bool kw.

Definition no_kw (kw : list (string * val)) : bool := match kw with [] => true | _ => false end.

Definition ext18 (f : string) (args : list val) (kw : list (string * val)) (st : state) : outcome val :=
  if is f "torch.arange" then
    match args with
    | [VInt n] => if arange_kw_ok kw then ret_tens "arange" (arange n) st else Stuck "arange: keyword"
    | _ => Stuck "arange"
    end
  else if negb (no_kw kw) then Stuck ("ext18: keyword arguments of " ++ f)
  else if is f "$method.dim" then
    match args with
    | [t] => match dec t with Some x => Ok (VInt (Z.of_nat (dim x))) st | None => Stuck "dim" end
    | _ => Stuck "dim"
    end
  else if is f "$method.size" then
    match args with
    | [t; VInt d] => match dec t with Some x => ret_nat "size" (size x d) st | None => Stuck "size" end
    | _ => Stuck "size"
    end
  else if is f "$attr.device" then
    match args with
    | [t] => match dec t with Some _ => Ok device_token st | None => Stuck "device" end
    | _ => Stuck "device"
    end
  else if is f "$attr.dtype" then
    match args with
    | [t] => match dec t with Some _ => Ok dtype_token st | None => Stuck "dtype" end
    | _ => Stuck "dtype"
    end
  else if is f "$method.unsqueeze" then
    match args with
    | [t; VInt d] => on_tens "unsqueeze" t (fun x => unsqueeze x d) st
    | _ => Stuck "unsqueeze"
    end
  else if is f "operator" then
    match args with
    | [VStr o; a; b] => if is o "sub" then on_tens2 "sub" a b sub st else Stuck ("operator " ++ o)
    | _ => Stuck "operator"
    end
  else if is f "$method.clamp_min" then
    match args with
    | [t; c] => match scalar c with
                | Some q => on_tens "clamp_min" t (fun x => Some (clamp_min x q)) st
                | None => Stuck "clamp_min"
                end
    | _ => Stuck "clamp_min"
    end
  else if is f "torch.pow" then
    match args with
    | [g; e] => match scalar g with
                | Some q => on_tens "pow" e (pow_scalar q) st
                | None => Stuck "pow: only pow(scalar, tensor)"
                end
    | _ => Stuck "pow"
    end
  else if is f "$method.tril" then
    match args with [t] => on_tens "tril" t tril st | _ => Stuck "tril" end
  else if is f "$method.triu" then
    match args with [t] => on_tens "triu" t triu st | _ => Stuck "triu" end
  else if is f "torch.matmul" then
    match args with [a; b] => on_tens2 "matmul" a b matmul st | _ => Stuck "matmul" end
  else Stuck ("ext18: " ++ f).

(* ---- encodings ------------------------------------------------------------------------ *)
Definition of_model (t : C18.Model.tensor) : tens := mkTens (C18.Model.shape t) (C18.Model.data t).
Definition to_model (t : tens) : C18.Model.tensor := C18.Model.mkT (tshape t) (tdata t).
Definition enc_tensor (t : C18.Model.tensor) : val := enc (of_model t).

(* the arguments of time_distributed_return(r, gamma, batch_first): gamma is a Python float *)
Definition return_vars (r : C18.Model.tensor) (g : Q) (bf : bool) : list (string * val) :=
  [("r", enc_tensor r); ("gamma", VQ g); ("batch_first", VBool bf)].

Definition runtime_error : string := "RuntimeError".

(* the interpreted source *)
Definition run_return (r : C18.Model.tensor) (g : Q) (bf : bool) : outcome val :=
  Interp.run ext18 tdr_body (return_vars r g bf).

(* ---- executable entry point for the correspondence ---------------------------------------
   outer None: the interpreter got stuck / returned something that is not a tensor / raised
   something else than RuntimeError *)
Definition src_return (r : C18.Model.tensor) (g : Q) (bf : bool) : option (C18.Model.result C18.Model.tensor) :=
  match run_return r g bf with
  | Ok v _ => option_map (fun t => C18.Model.Ok (to_model t)) (dec v)
  | Exc name _ => if String.eqb name runtime_error then Some (C18.Model.Err C18.Model.ERuntime) else None
  | Stuck _ => None
  end.

(* same interface as Model.check_return *)
Definition src_return_check (r : C18.Model.tensor) (g : Q) (bf : bool) (tol : Q)
  (impl : C18.Model.result C18.Model.tensor) : bool :=
  match src_return r g bf with
  | Some o => C18.Model.res_match (C18.Model.tensor_close tol) o impl
  | None => false
  end.
