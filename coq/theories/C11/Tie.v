(* C11 source tie - the lemmas the property theorems (the c11_source theorems) are closed with, and the compositions with the model's
   theorems: statements purely about the interpreted source. *)
From Coq Require Import ZArith QArith List String Bool.
From PV Require Import C11.Model C11.Spec MiniPy.Syntax MiniPy.Interp Gen.C11Src C11.SrcRun.
From PV Require C11.ProofsCtm C11.TieCtmRead C11.TieCtmWrite C11.TieTokBack.
Import ListNotations.
Local Open Scope string_scope.

(* the variable that holds the open file in write_ctm *)
Definition file_var : string := "ctm".

(* read_ctm (open-file branch) = Model.read_ctm_file, raise paths included *)
Definition read_ctm_tie := C11.TieCtmRead.read_ctm_tie.

(* write_ctm (open-file branch) = Model.write_ctm_file, raise paths included *)
Definition write_ctm_tie := C11.TieCtmWrite.write_ctm_tie.

(* token_to_transcript = Model.token_to_transcript, item by item (times equal as rationals) *)
Definition to_transcript_tie := C11.TieTokBack.to_transcript_tie.

(* write then read, both interpreted from the source text: the lines the interpreted write_ctm leaves in the file are
   read back by the interpreted read_ctm as the expected transcripts (C11.Spec.expected: utterances by (wfn, chan),
   tokens by (start, duration, token)) *)
Theorem source_ctm_roundtrip m wc2utt key ts : ctm_ok m wc2utt key ts ->
  exists stw lines,
    run_write_ctm (VList (map enc_wutt (with_times ts))) (enc_utt2wc m) = Ok VNone stw /\
    lookup "ctm" (vars stw) = Some (VList lines) /\
    exists str, run_read_ctm lines (enc_wc2utt wc2utt) = Ok (VList (map enc_utt (expected key ts))) str.
Proof.
  intros Hok. destruct (C11.ProofsCtm.ctm_roundtrip m wc2utt key ts Hok) as [segs [Hw [_ Hr]]].
  pose proof (write_ctm_tie (with_times ts) m) as Tw. rewrite Hw in Tw. destruct Tw as [stw [Hrun Hfile]].
  pose proof (read_ctm_tie segs wc2utt) as Tr. rewrite Hr in Tr. destruct Tr as [str Hrd].
  exists stw, (map enc_seg_line segs). split; [exact Hrun|]. split; [exact Hfile|]. exists str. exact Hrd.
Qed.
