(* C03 — the property of optimal_completion: every row of the returned tensor that belongs to
   a prefix of the hypothesis lists, strictly increasing and followed only by padding, exactly
   the tokens that preserve the best reachable distance ([oc_row_correct]); rows past the
   hypothesis's end are all padding ([oc_past_end_is_padding]). *)
From Coq Require Import List ZArith Bool Arith Lia Sorted.
From PV Require Import C01.Obs C01.Spec C01.Model C01.LevFacts C01.Proofs.
From PV Require Import C03.Spec C03.Model C03.ProofsSpec C03.ProofsMask C03.ProofsSelect C03.ProofsTop.
Import ListNotations.
Local Open Scope Z_scope.

Lemma eff_costs_pos i d s m a b c : 0 < i -> 0 < d -> 0 < s ->
  eff_costs i d s = (m, (a, b, c)) -> 0 < m /\ 0 < a /\ 0 < b /\ 0 < c.
Proof.
  intros Hi Hd Hs. unfold eff_costs.
  destruct ((i =? d) && (d =? s) && (0 <? s)); intros E; inversion E; subst; lia.
Qed.

Lemma in_nil_all {A} (l : list A) : (forall t, ~ In t l) -> l = [].
Proof. destruct l as [|x l]; [reflexivity|]. intros H. exfalso. apply (H x). left. reflexivity. Qed.

Lemma S_sub1 x : (S x - 1 = x)%nat.
Proof. lia. Qed.

Section Main.
  Variable c : cfg.
  Variables (N : nat) (ref hyp : list (list Z)).
  Variable n : nat.
  Hypothesis Hn : (n < N)%nat.
  Hypothesis Hwr : wf_tensor (c_bf c) N ref.
  Hypothesis Hwh : wf_tensor (c_bf c) N hyp.

  Let bf := c_bf c.
  Let excl := c_excl c.
  Let e1 := if excl then 0%nat else 1%nat.
  Let rcol := seq_of bf n ref.                       (* the raw columns of pair n *)
  Let hcol := seq_of bf n hyp.
  Let R := denote (c_eos c) (c_incl c) rcol.          (* the sequences they denote *)
  Let Hy := denote (c_eos c) (c_incl c) hcol.
  Let rl := eff_len (c_eos c) (c_incl c) rcol.
  Let hl := eff_len (c_eos c) (c_incl c) hcol.
  Let W := oc_width c N ref hyp.
  Let T := time_len bf hyp.

  Lemma oc_rows_time : oc_rows c N hyp = S (T + e1 - 1).
  Proof.
    unfold oc_rows. f_equal. f_equal. f_equal.
    rewrite hd_nth0, sequences_nth by (assumption || lia).
    apply (seq_of_length _ N); [lia|assumption].
  Qed.

  Lemma hcol_length : length hcol = T.
  Proof. apply (seq_of_length _ N); assumption. Qed.

  Lemma hl_le_T : (hl <= T)%nat.
  Proof. rewrite <- hcol_length. apply eff_len_le. Qed.

  Lemma R_firstn : R = firstn rl rcol.
  Proof. symmetry. apply firstn_eff_len. Qed.

  Lemma Hy_firstn : Hy = firstn hl hcol.
  Proof. symmetry. apply firstn_eff_len. Qed.

  Lemma R_length : length R = rl.
  Proof. apply length_denote. Qed.

  Lemma Hy_length : length Hy = hl.
  Proof. apply length_denote. Qed.

  Lemma rl_le : (rl <= length rcol)%nat.
  Proof. apply eff_len_le. Qed.

  Lemma hl_le : (hl <= length hcol)%nat.
  Proof. apply eff_len_le. Qed.

  (* what oc_entry gives for pair n, with the columns named as above *)
  Lemma entry_cell mult ci cd cs k :
    eff_costs (c_ins c) (c_del c) (c_sub c) = (mult, (ci, cd, cs)) -> (k < S (T + e1 - 1))%nat ->
    let m := nth k (pair_masks ci cd cs rcol hcol rl hl excl (T + e1 - 1)) [] in
    entry3 bf k n (optimal_completion c N ref hyp)
    = pair_targets rcol m ++ repeat (c_pad c) (W - length (pair_targets rcol m))
    /\ (length (pair_targets rcol m) <= W)%nat /\ length m = length rcol.
  Proof.
    intros E Hk m.
    pose proof (oc_entry c N ref hyp mult ci cd cs n k E Hn) as Hent.
    rewrite oc_rows_time in Hent. specialize (Hent Hk). cbn zeta in Hent.
    rewrite !sequences_nth in Hent by assumption.
    rewrite S_sub1 in Hent.
    destruct Hent as [Hent Hle]. split; [exact Hent|]. split; [exact Hle|].
    apply pair_masks_row_length; [apply rl_le|apply hl_le|lia].
  Qed.

  (* ---- a row minimum in the code's (possibly rescaled) costs is one in the user's costs ---- *)
  Lemma argmin_transfer mult ci cd cs k i :
    eff_costs (c_ins c) (c_del c) (c_sub c) = (mult, (ci, cd, cs)) -> 0 < mult ->
    (k <= hl)%nat -> (i <= rl)%nat ->
    row_argmin ci cd cs rcol hcol rl k i <->
    lev (c_ins c) (c_del c) (c_sub c) (firstn i R) (firstn k Hy)
    = row_min (c_ins c) (c_del c) (c_sub c) R (firstn k Hy).
  Proof.
    intros E Hm Hk Hi.
    assert (Htab : forall i', (i' <= rl)%nat ->
              tab ci cd cs rcol hcol k i' * mult
              = lev (c_ins c) (c_del c) (c_sub c) (firstn i' R) (firstn k Hy)).
    { intros i' Hi'. unfold tab. rewrite (eff_costs_lev _ _ _ _ _ _ _ _ _ E).
      rewrite R_firstn, Hy_firstn, !firstn_firstn_le by assumption. reflexivity. }
    unfold row_argmin. split.
    - intros Harg. apply Z.le_antisymm.
      + destruct (row_min_attained (c_ins c) (c_del c) (c_sub c) R (firstn k Hy)) as [i' [Hi' Ei']].
        rewrite R_length in Hi'. rewrite Ei', <- !Htab by assumption.
        specialize (Harg i' Hi'). nia.
      + apply row_min_le. rewrite R_length. exact Hi.
    - intros Emin i' Hi'.
      pose proof (row_min_le (c_ins c) (c_del c) (c_sub c) R (firstn k Hy) i') as Hle.
      rewrite R_length in Hle. specialize (Hle Hi').
      rewrite <- Emin, <- !Htab in Hle by assumption. nia.
  Qed.

  Lemma live_of_valid k : (k = 0%nat \/ k < hl + e1)%nat ->
    (k = 0%nat \/ not_done_at hl excl k = true) /\ (k <= hl)%nat.
  Proof.
    intros [->|Hk]; [split; [left; reflexivity|lia]|].
    unfold not_done_at. subst e1. destruct excl; (split; [|lia]).
    - destruct k; [left; reflexivity|right; apply Nat.ltb_lt; lia].
    - destruct k; [left; reflexivity|right; apply Nat.ltb_lt; lia].
  Qed.

  (* ---- the property, one row ------------------------------------------------------------------ *)
  Theorem oc_row_correct k :
    0 < c_ins c -> 0 < c_del c -> 0 < c_sub c ->
    (k = 0%nat \/ k < length Hy + e1)%nat ->
    exists L,
      entry3 bf k n (optimal_completion c N ref hyp) = L ++ repeat (c_pad c) (W - length L)
      /\ (length L <= W)%nat
      /\ StronglySorted Z.lt L
      /\ forall t, In t L <-> preserving (c_ins c) (c_del c) (c_sub c) R (firstn k Hy) t.
  Proof.
    intros Hi Hd Hs Hk. rewrite Hy_length in Hk.
    destruct (eff_costs (c_ins c) (c_del c) (c_sub c)) as [mult [[ci cd] cs]] eqn:E.
    destruct (eff_costs_pos _ _ _ _ _ _ _ Hi Hd Hs E) as [Hm [Hci [Hcd Hcs]]].
    destruct (live_of_valid k Hk) as [Hlive Hkh].
    pose proof hl_le_T as HlT.
    assert (Hkr : (k < S (T + e1 - 1))%nat) by (destruct Hk; lia).
    destruct (entry_cell mult ci cd cs k E Hkr) as [Hent [Hle HmL]].
    set (m := nth k (pair_masks ci cd cs rcol hcol rl hl excl (T + e1 - 1)) []) in *.
    destruct (pair_targets_spec rcol m HmL) as [Hsorted Hin].
    exists (pair_targets rcol m). split; [exact Hent|]. split; [exact Hle|]. split; [exact Hsorted|].
    intros t. rewrite Hin, (preserving_iff_argmin _ _ _ Hi Hd Hs), R_length. split.
    - intros [i [Hil [Em Et]]].
      apply (pair_masks_spec ci cd cs rcol hcol rl hl excl rl_le hl_le) in Em as [Hirl [_ Harg]];
        [|exact Hcd|lia|exact Hil].
      exists i. split; [exact Hirl|]. split.
      + rewrite R_firstn, nth_firstn_lt by exact Hirl. exact Et.
      + apply (argmin_transfer mult ci cd cs k i E Hm Hkh); [lia|exact Harg].
    - intros [i [Hirl [Et Emin]]].
      pose proof rl_le as Hrl. exists i. split; [lia|]. split.
      + apply (pair_masks_spec ci cd cs rcol hcol rl hl excl rl_le hl_le); [exact Hcd|lia|lia|].
        split; [exact Hirl|]. split; [exact Hlive|].
        apply (argmin_transfer mult ci cd cs k i E Hm Hkh); [lia|exact Emin].
      + rewrite R_firstn, nth_firstn_lt in Et by exact Hirl. exact Et.
  Qed.

  (* "Prefixes past the hypothesis's end yield only padding".  Row 0 is not covered: it is past
     the end only for an empty hypothesis with exclude_last - the excluded case, where the code
     still lists the first reference token (oc_row_correct with k = 0 says what row 0 holds) *)
  Theorem oc_past_end_is_padding k :
    (1 <= k)%nat -> (k < oc_rows c N hyp)%nat -> (length Hy + e1 <= k)%nat ->
    entry3 bf k n (optimal_completion c N ref hyp) = repeat (c_pad c) W.
  Proof.
    intros H1 Hk Hpast. rewrite Hy_length in Hpast. rewrite oc_rows_time in Hk.
    destruct (eff_costs (c_ins c) (c_del c) (c_sub c)) as [mult [[ci cd] cs]] eqn:E.
    destruct (entry_cell mult ci cd cs k E Hk) as [Hent [_ HmL]].
    set (m := nth k (pair_masks ci cd cs rcol hcol rl hl excl (T + e1 - 1)) []) in *.
    destruct (pair_targets_spec rcol m HmL) as [_ Hin].
    assert (Enil : pair_targets rcol m = []).
    { apply in_nil_all. intros t Ht. apply Hin in Ht as [i [Hil [Em _]]].
      unfold m in Em. rewrite (pair_masks_dead ci cd cs rcol hcol rl hl excl rl_le hl_le) in Em;
        [discriminate Em|exact H1|lia|exact Hil|].
      unfold not_done_at. apply Nat.ltb_ge. subst e1. destruct excl; lia. }
    rewrite Hent, Enil. cbn [app length]. rewrite Nat.sub_0_r. reflexivity.
  Qed.

  (* the shape of every row whatever the costs: strictly increasing counted reference tokens,
     then padding up to the common width *)
  Theorem oc_sorted_nodup_then_padding k : (k < oc_rows c N hyp)%nat ->
    exists L,
      entry3 bf k n (optimal_completion c N ref hyp) = L ++ repeat (c_pad c) (W - length L)
      /\ (length L <= W)%nat /\ StronglySorted Z.lt L /\ NoDup L /\ (forall t, In t L -> In t R).
  Proof.
    intros Hk. rewrite oc_rows_time in Hk.
    destruct (eff_costs (c_ins c) (c_del c) (c_sub c)) as [mult [[ci cd] cs]] eqn:E.
    destruct (entry_cell mult ci cd cs k E Hk) as [Hent [Hle HmL]].
    set (m := nth k (pair_masks ci cd cs rcol hcol rl hl excl (T + e1 - 1)) []) in *.
    destruct (pair_targets_spec rcol m HmL) as [Hsorted Hin].
    exists (pair_targets rcol m). split; [exact Hent|]. split; [exact Hle|]. split; [exact Hsorted|].
    split; [apply strictly_sorted_nodup; exact Hsorted|].
    intros t Ht. apply Hin in Ht as [i [Hil [Em Et]]].
    apply (pair_masks_lt ci cd cs rcol hcol rl hl excl rl_le hl_le) in Em; [|lia|exact Hil].
    subst t. rewrite <- (nth_firstn_lt rcol i rl 0 Em), <- R_firstn. apply nth_In. rewrite R_length. exact Em.
  Qed.

  (* the rows satisfy the boolean judgement the harness applies to the implementation *)
  Corollary oc_row_meets_spec k :
    0 < c_ins c -> 0 < c_del c -> 0 < c_sub c -> (k < oc_rows c N hyp)%nat ->
    spec_row_okb (c_eos c) (c_incl c) excl (c_ins c) (c_del c) (c_sub c) (c_pad c) rcol hcol k
      (entry3 bf k n (optimal_completion c N ref hyp)) = true.
  Proof.
    intros Hi Hd Hs Hk. unfold spec_row_okb. fold R Hy. fold e1.
    destruct (k <? length Hy + e1)%nat eqn:Ek.
    - apply Nat.ltb_lt in Ek.
      destruct (oc_row_correct k Hi Hd Hs (or_intror Ek)) as [L [Hent [Hle [Hsorted Hin]]]].
      apply (target_row_okb_iff _ _ _ Hi Hd Hs). exists L.
      assert (Hlen : length (entry3 bf k n (optimal_completion c N ref hyp)) = W)
        by (rewrite Hent, app_length, repeat_length; lia).
      rewrite Hlen. split; [exact Hent|]. split; [apply strictly_sorted_nodup; exact Hsorted|exact Hin].
    - apply Nat.ltb_ge in Ek. destruct (excl && Nat.eqb (length Hy) 0) eqn:Ex; [reflexivity|].
      assert (H1 : (1 <= k)%nat).
      { destruct k; [|lia]. exfalso. subst e1. destruct excl; [|lia].
        cbn [andb] in Ex. apply Nat.eqb_neq in Ex. lia. }
      rewrite (oc_past_end_is_padding k H1 Hk Ek).
      apply padding_row_okb_iff.
      unfold padding_row. rewrite repeat_length. reflexivity.
  Qed.
End Main.

(* ---- a row is a function of the two denoted sequences alone ---------------------------------- *)
Lemma strictly_sorted_ext (L1 : list Z) : forall L2,
  StronglySorted Z.lt L1 -> StronglySorted Z.lt L2 -> (forall t, In t L1 <-> In t L2) -> L1 = L2.
Proof.
  induction L1 as [|a L1 IH]; intros L2 H1 H2 Hiff.
  - destruct L2 as [|b L2]; [reflexivity|]. exfalso. apply (proj2 (Hiff b)). left. reflexivity.
  - destruct L2 as [|b L2]; [exfalso; apply (proj1 (Hiff a)); left; reflexivity|].
    inversion H1 as [|? ? Hs1 Ha]; inversion H2 as [|? ? Hs2 Hb]; subst.
    rewrite Forall_forall in Ha, Hb.
    assert (Eab : a = b).
    { destruct (proj1 (Hiff a) (or_introl eq_refl)) as [E|Hin]; [symmetry; exact E|].
      destruct (proj2 (Hiff b) (or_introl eq_refl)) as [E|Hin']; [exact E|].
      specialize (Ha b Hin'). specialize (Hb a Hin). lia. }
    subst b. f_equal. apply IH; [exact Hs1|exact Hs2|]. intros t. split; intros Ht.
    + destruct (proj1 (Hiff t) (or_intror Ht)) as [E|Hin]; [|exact Hin].
      specialize (Ha t Ht). lia.
    + destruct (proj2 (Hiff t) (or_intror Ht)) as [E|Hin]; [|exact Hin].
      specialize (Hb t Ht). lia.
Qed.

(* same reference and hypothesis once cut at eos => same listed tokens, whatever the batch
   around them, the position in it and the garbage after eos; only the amount of padding (the
   batch-wide width) may differ *)
Theorem oc_row_pointwise c N ref hyp n N' ref' hyp' n' k :
  0 < c_ins c -> 0 < c_del c -> 0 < c_sub c ->
  (n < N)%nat -> wf_tensor (c_bf c) N ref -> wf_tensor (c_bf c) N hyp ->
  (n' < N')%nat -> wf_tensor (c_bf c) N' ref' -> wf_tensor (c_bf c) N' hyp' ->
  denote (c_eos c) (c_incl c) (seq_of (c_bf c) n ref)
    = denote (c_eos c) (c_incl c) (seq_of (c_bf c) n' ref') ->
  denote (c_eos c) (c_incl c) (seq_of (c_bf c) n hyp)
    = denote (c_eos c) (c_incl c) (seq_of (c_bf c) n' hyp') ->
  (k = 0 \/ k < length (denote (c_eos c) (c_incl c) (seq_of (c_bf c) n hyp))
                 + (if c_excl c then 0 else 1))%nat ->
  exists L,
    entry3 (c_bf c) k n (optimal_completion c N ref hyp)
      = L ++ repeat (c_pad c) (oc_width c N ref hyp - length L) /\
    entry3 (c_bf c) k n' (optimal_completion c N' ref' hyp')
      = L ++ repeat (c_pad c) (oc_width c N' ref' hyp' - length L).
Proof.
  intros Hi Hd Hs Hn Hr Hh Hn' Hr' Hh' ER EH Hk.
  destruct (oc_row_correct c N ref hyp n Hn Hr Hh k Hi Hd Hs Hk) as [L [E1 [_ [S1 I1]]]].
  rewrite EH in Hk.
  destruct (oc_row_correct c N' ref' hyp' n' Hn' Hr' Hh' k Hi Hd Hs Hk) as [L' [E2 [_ [S2 I2]]]].
  assert (EL : L = L').
  { apply strictly_sorted_ext; [exact S1|exact S2|]. intros t. rewrite I1, I2, ER, EH. reflexivity. }
  subst L'. exists L. split; assumption.
Qed.
