(* C13 — tie lemmas: interpreting the regenerated source terms (PV.Gen.C13Src) computes exactly
   what Model.v computes, for every input.  See SrcRun.v for the environment and encodings. *)
From Coq Require Import ZArith QArith List String Bool Arith Lia ZifyBool ZifyNat ZifyComparison.
From PV Require Import MiniPy.Syntax MiniPy.Interp Gen.C13Src C13.Model C13.Proofs C13.SrcRun.
Import ListNotations.
Local Open Scope string_scope.

(* ---- the tie lemmas ---------------------------------------------------------------- *)
#[local] Arguments Z.modulo : simpl never.
#[local] Arguments Z.div : simpl never.
#[local] Arguments Z.sub : simpl never.
#[local] Arguments Z.add : simpl never.
#[local] Arguments Z.of_nat : simpl never.
#[local] Arguments Z.eqb : simpl never.
#[local] Arguments Z.leb : simpl never.
#[local] Arguments Z.ltb : simpl never.
#[local] Arguments Nat.modulo : simpl never.
#[local] Arguments Nat.div : simpl never.
#[local] Arguments repeat : simpl never.

Lemma len_repeat_vnone n : List.length (repeat VNone n) = n.
Proof. apply repeat_length. Qed.

#[local] Ltac Zify.zify_post_hook ::= Z.div_mod_to_equations.

(* decide every test the symbolic run meets, one at a time *)
Ltac split_tests :=
  repeat (cbn;
    match goal with
    | |- context [match (?a ?= ?b)%Q with _ => _ end] => destruct (a ?= b)%Q eqn:?
    | |- context [if ?b then _ else _] =>
        lazymatch b with
        | context [if _ then _ else _] => fail
        | context [match _ with _ => _ end] => fail
        | _ => destruct b eqn:?
        end
    end).

Lemma init_tie order n dist m e0 :
  dist_ok dist ->
  init_expected n dist m e0 (Interp.run (ext13 order) aes_init (init_vars n dist m e0)).
Proof.
  intros Hd. unfold init_expected, Interp.run, aes_init, init_vars, init.
  destruct m, dist as [[r w]|]; cbn in Hd |- *; rewrite ?len_repeat_vnone.
  all: split_tests; cbn.
  all: try reflexivity.
  all: unfold Qcompare in *; cbn [Qnum Qden inject_Z] in *.
  all: try (exfalso; lia).
  all: unfold self_of, zn; cbn [total eff rank world epoch]; repeat f_equal; try lia.
  all: rewrite Nat2Z.inj_sub by (apply Nat.mod_le; lia); rewrite Nat2Z.inj_mod; reflexivity.
Qed.

(* __len__ *)
Lemma len_tie ext s : (rank s < world s)%nat ->
  Interp.run ext aes_len [("self", self_of s)] = Ok (zn (len s)) (st_of s []).
Proof.
  intros Hw. unfold Interp.run, aes_len, st_of, self_of, zn, len.
  cbn. destruct (Z.of_nat (world s) =? 0)%Z eqn:E; [exfalso; lia|].
  cbn. repeat f_equal.
  rewrite Nat2Z.inj_div. f_equal. lia.
Qed.

(* islice on a list of naturals *)
Lemma stride_map w k (l : list nat) :
  Interp.stride w k (map (fun i => VInt (Z.of_nat i)) l) = map (fun i => VInt (Z.of_nat i)) (Model.stride w k l).
Proof.
  revert k. induction l as [|x l IH]; intros k; cbn [Interp.stride Model.stride map]; [reflexivity|].
  destruct k; cbn [map]; rewrite IH; reflexivity.
Qed.

Lemma samples_tie order s e : (0 < world s)%nat ->
  Interp.run (ext_base order) aes_get_samples_for_epoch [("self", self_of s); ("epoch", zn e)]
  = Ok (vnats (samples s (order e)))
       (mkState [("self", self_of s); ("epoch", zn e); ("ret", vnats (order e))] []).
Proof.
  intros Hw. unfold Interp.run, aes_get_samples_for_epoch, self_of, zn, samples, islice, vnats.
  cbn. rewrite Nat2Z.id.
  replace (0 <=? Z.of_nat (rank s))%Z with true by lia.
  replace (0 <=? Z.of_nat (eff s))%Z with true by lia.
  replace (0 <? Z.of_nat (world s))%Z with true by lia.
  cbn. rewrite !Nat2Z.id, firstn_map, skipn_map, stride_map. unfold set_var; cbn. reflexivity.
Qed.

(* __iter__: yields the current epoch's samples and advances the epoch *)
Lemma iter_tie order s : (0 < world s)%nat ->
  exists st,
    Interp.run (ext13 order) aes_iter [("self", self_of s)] = Ok (vnats (fst (next order s))) st /\
    lookup "self" (vars st) = Some (self_of (snd (next order s))).
Proof.
  intros Hw. unfold Interp.run, aes_iter.
  cbn -[aes_get_samples_for_epoch Interp.run self_of].
  change (zn (epoch s)) with (zn (epoch s)).
  assert (Hs : Interp.run (ext_base order) aes_get_samples_for_epoch
                 [("self", self_of s); ("epoch", zn (epoch s))]
               = Ok (vnats (samples s (order (epoch s))))
                    (mkState [("self", self_of s); ("epoch", zn (epoch s)); ("ret", vnats (order (epoch s)))] []))
    by (apply samples_tie; exact Hw).
  unfold self_of at 1 2. cbn -[aes_get_samples_for_epoch Interp.run self_of].
  fold (self_of s). rewrite Hs.
  unfold self_of, zn. cbn. eexists; split; [reflexivity|].
  cbn. unfold self_of, zn. cbn. repeat f_equal. lia.
Qed.

(* EpochSequentialSampler's order is range(total) *)
Lemma ess_order_tie ext s e :
  Interp.run ext ess_order [("self", self_of s); ("epoch", e)]
  = Ok (vnats (seq_order (total s) 0)) (mkState [("self", self_of s); ("epoch", e)] []).
Proof.
  unfold Interp.run, ess_order, self_of, zn, seq_order, vnats. cbn.
  unfold zrange. rewrite Z.sub_0_r, Nat2Z.id. reflexivity.
Qed.

(* src_run agrees with Model.run on every input: the whole-run form of the tie *)
Lemma nats_of_vnats l : nats_of (map (fun i => VInt (Z.of_nat i)) l) = Some l.
Proof.
  induction l as [|x l IH]; [reflexivity|]. cbn [map nats_of].
  replace (0 <=? Z.of_nat x)%Z with true by lia. rewrite IH, Nat2Z.id. reflexivity.
Qed.

Lemma src_iterate_tie order k s : (0 < world s)%nat ->
  src_iterate order k (self_of s) = Some (fst (iterate order k s)).
Proof.
  revert s. induction k as [|k IH]; intros s Hw; [reflexivity|].
  cbn [src_iterate iterate].
  destruct (iter_tie order s Hw) as [st [Hr Hl]]. rewrite Hr. unfold vnats.
  rewrite nats_of_vnats, Hl.
  destruct (next order s) as [y s'] eqn:En. cbn [fst snd] in *.
  assert (Hw' : (0 < world s')%nat) by (unfold next in En; inversion En; subst; exact Hw).
  rewrite (IH s' Hw').
  assert (Ey : y = samples s (order (epoch s))) by (unfold next in En; inversion En; reflexivity).
  destruct (iterate order k s') as [ys s'']. cbn. rewrite Ey. reflexivity.
Qed.

Lemma init_world_pos n dist m e0 s : dist_ok dist -> init n dist m e0 = Some s ->
  (rank s < world s)%nat.
Proof.
  unfold init. intros Hd H.
  destruct m, dist as [[r w]|]; cbn in Hd;
    repeat match type of H with context [if ?b then _ else _] => destruct b end;
    inversion H; subst; cbn; lia.
Qed.

Theorem src_run_tie n dist m e0 orders : dist_ok dist ->
  src_run n dist m e0 orders = Some (Model.run n dist m e0 orders).
Proof.
  intros Hd. unfold src_run, Model.run.
  set (order := fun e => nth (e - e0) orders []).
  pose proof (init_tie order n dist m e0 Hd) as Hi. unfold init_expected in Hi.
  destruct (init n dist m e0) as [s|] eqn:Ei.
  - destruct (Interp.run (ext13 order) aes_init (init_vars n dist m e0)) as [v st|name st|w]; try contradiction.
    match type of Hi with match ?x with _ => _ end => destruct x; try contradiction end. rewrite Hi.
    pose proof (init_world_pos _ _ _ _ _ Hd Ei) as Hw.
    rewrite (len_tie (ext13 order) s Hw). unfold zn.
    replace (0 <=? Z.of_nat (len s))%Z with true by lia.
    rewrite src_iterate_tie by lia. rewrite Nat2Z.id. reflexivity.
  - destruct (Interp.run (ext13 order) aes_init (init_vars n dist m e0)) as [v st|name st|w]; try contradiction.
    rewrite Hi. reflexivity.
Qed.

Lemma source_len_eq_yielded order s : wf s -> List.length (order (epoch s)) = total s ->
  exists ys st st',
    Interp.run (ext13 order) aes_iter [("self", self_of s)] = Ok (vnats ys) st /\
    Interp.run (ext13 order) aes_len [("self", self_of s)] = Ok (zn (List.length ys)) st'.
Proof.
  intros Hwf Hl. destruct Hwf as [Hw [Hr He]].
  destruct (iter_tie order s Hw) as [st [Hi _]].
  exists (fst (next order s)), st, (st_of s []). split; [exact Hi|].
  rewrite (len_tie (ext13 order) s Hr). unfold next; cbn [fst].
  rewrite (len_eq_yielded s (order (epoch s))); [reflexivity| |exact Hl].
  unfold wf; auto.
Qed.

(* EpochRandomSampler's order is NumPy's permutation for (base_seed, epoch) over exactly [total] items - for every
   effective_total, rank, world size and epoch counter of the sampler *)
Lemma ers_order_tie perm seed s e :
  Interp.run (ext_rs perm) ers_order [("self", rand_self seed s); ("epoch", VInt e)]
  = Ok (vnats (perm seed e (total s)))
       (mkState [("self", rand_self seed s); ("epoch", VInt e);
                 ("rs", VTuple [VStr "$rs"; VInt seed; VInt e]); ("shuffled", vnats (perm seed e (total s)))] []).
Proof.
  unfold Interp.run, ers_order, rand_self, zn, vnats. cbn.
  replace (0 <=? Z.of_nat (total s))%Z with true by lia. cbn. rewrite Nat2Z.id. reflexivity.
Qed.

(* hence independent of the process group: two samplers over the same data with the same seed, in whatever groups and
   uneven-handling modes, get the same epoch order *)
Lemma ers_order_env_independent perm seed s1 s2 e : total s1 = total s2 ->
  exists st1 st2 v,
    Interp.run (ext_rs perm) ers_order [("self", rand_self seed s1); ("epoch", VInt e)] = Ok v st1 /\
    Interp.run (ext_rs perm) ers_order [("self", rand_self seed s2); ("epoch", VInt e)] = Ok v st2.
Proof.
  intros Ht. do 2 eexists. exists (vnats (perm seed e (total s1))). split.
  - apply ers_order_tie.
  - rewrite Ht. apply ers_order_tie.
Qed.

