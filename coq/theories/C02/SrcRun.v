(* C02 — the translated source of `_string_matching` (_string.py) in the configuration `error_rate` calls it
   with (return_mistakes = True, return_mask = return_prf_dsts = exclude_last = False), as an executable: the
   environment [ext02], the arguments as MiniPy tensor values, and the correspondence entry point
   [src_error_rate_check].  Definitions only; the lemmas are in Tie*.v.

   PV.Gen.C02Src.{er_body, er_pre, er_row0, er_main, er_fin, er_loop, er_lens, er_wrap} are regenerated from
   /repo/src/pydrobert/torch/_string.py on every C02 run by harness/py2coq/translate.py (unit C02Src):
     er_body   the WHOLE body of _string_matching (every branch)
     er_pre    "assert not return_mask ..."  ..  "if eos is not None: ... else: ..."   (checks, the uniform-cost
               shortcut - which clears return_mistakes -, transposition, shapes, length inference)
     er_row0   "rrange = torch.arange(..)" .. "row = row.unsqueeze(1).expand(..)"      (row 0; `mistakes` = rrange)
     er_main   "if return_mask:" .. "if return_mistakes: er = mistakes.gather(..) else: .."  (flag block, the
               `for hyp_idx` loop with the parallel `mistakes` table and the in-place `for ref_idx` deletion loop,
               the other configurations' exits, the gather)
     er_fin    "er = er * mult" .. "return er"                                          (mult, norm)
     er_loop   the `for hyp_idx in range(..)` statement alone (second statement of er_main)
     er_lens   the whole body of `_lens_from_eos` (translated again in this unit)
     er_wrap   the whole body of `error_rate`: `return _string_matching(.., norm=norm, return_mistakes=True)`
   The blocks are consecutive and cover the body; [er_blocks] runs them in sequence.

   [ext02] = PV.C01.SrcRun.ext01 (the vocabulary of the plain edit-distance path, imported, not changed) plus
   what the mistakes path adds:
     a >= b              on two float tensors          "compare" [ge; a; b]       OpsC02.cmp_f fge
     x + c               float tensor + Python number  "operator" [add; x; c]     OpsC02.add_scalar_f
     x[i] = v            integer key, float tensors    "$setitem" [x; i; v]       OpsC02.set_select0
   and `_lens_from_eos(tok, eos, dim)` = the body [er_lens] OF THIS UNIT interpreted by PV.C07.SrcRun.call_body
   (so no term of another property's unit is ever reached by [ext02]; ext01 is only asked about other names).
   `warnings.warn(..)` statements are dropped by the translator (SPass).  ASSUMPTIONS: those of C01.SrcRun
   (long input tensors, costs = exact rationals, dtypes only select conversions, devices ignored, `x.any()` as a
   truth value, no rounding).

   [ext02w] (for er_wrap only) additionally gives `_string_matching(args, kw)` the meaning "run er_body on the
   parameters bound in Python's way": positionals in order, keywords by name, the remaining parameters from
   [er_body_defaults] evaluated in the module's globals (config.INDEX_PAD_VALUE = -100). *)
From Coq Require Import ZArith QArith Qabs List String Bool.
From PV Require Import MiniPy.Syntax MiniPy.Interp MiniTorch.Ops MiniTorch.OpsC07 MiniTorch.OpsC01 MiniTorch.OpsC02.
From PV Require Import Gen.C02Src.
From PV Require C07.SrcRun C01.Obs C01.Model C01.SrcRun C02.Model.
Import ListNotations.
Local Open Scope string_scope.

Import C01.SrcRun.

Definition ext02 (f : string) (args : list val) (kw : list (string * val)) (st : state) : outcome val :=
  if is f "_lens_from_eos" then
    match args, kw with
    | [tok; eos; dim], [] =>
        C07.SrcRun.call_body (fun x => x) er_lens
          (("tok", tok) :: ("eos", eos) :: ("dim", dim) :: C07.SrcRun.globals07) st
    | _, _ => Stuck "_lens_from_eos: arguments"
    end
  else if is f "compare" then
    match args, kw with
    | [VStr o; a; b], [] =>
        if is o "ge" then
          match dec01 a, dec01 b with
          | Some (AX x), Some (AX y) => ret01 "ge" (option_map AB (cmp_f fge x y)) st
          | _, _ => ext01 f args kw st
          end
        else ext01 f args kw st
    | _, _ => ext01 f args kw st
    end
  else if is f "operator" then
    match args, kw with
    | [VStr o; a; b], [] =>
        if is o "add" then
          match dec01 a, num_q b with
          | Some (AX x), Some q => Ok (enc_x (add_scalar_f x q)) st
          | _, _ => ext01 f args kw st
          end
        else ext01 f args kw st
    | _, _ => ext01 f args kw st
    end
  else if is f "$setitem" then
    match args, kw with
    | [t; VInt i; v], [] =>
        match dec01 t, dec01 v with
        | Some (AX x), Some (AX y) =>
            match set_select0 x i y with
            | Some (Some r) => Ok (enc_x r) st
            | Some None => Exc index_error st
            | None => oob "setitem: integer key"
            end
        | _, _ => ext01 f args kw st
        end
    | _, _ => ext01 f args kw st
    end
  else ext01 f args kw st.

(* ---- the arguments ----------------------------------------------------------------------------------- *)
(* _string_matching(ref, hyp, eos, include_eos, batch_first, ins_cost, del_cost, sub_cost, warn, norm=norm,
   return_mistakes=True) with the defaults return_mask = return_prf_dsts = exclude_last = False: the call
   made by error_rate *)
Definition er_vars (ref hyp : tn Z) (eos : option Z) (incl bf : bool) (qi qd qs : Q) (warn norm : bool) (pad : Z)
  : list (string * val) :=
  [("ref", enc_i ref); ("hyp", enc_i hyp); ("eos", opt_int eos); ("include_eos", VBool incl);
   ("batch_first", VBool bf); ("ins_cost", VQ qi); ("del_cost", VQ qd); ("sub_cost", VQ qs);
   ("warn", VBool warn); ("norm", VBool norm); ("return_mask", VBool false); ("return_prf_dsts", VBool false);
   ("exclude_last", VBool false); ("padding", VInt pad); ("return_mistakes", VBool true)] ++ globals01.

(* the blocks in sequence *)
Definition er_blocks : stmt := SSeq er_pre (SSeq er_row0 (SSeq er_main er_fin)).

Definition cfg_vars (c : C01.Model.cfg) (scale : Z) (N : nat) (ref hyp : list (list Z)) : list (string * val) :=
  er_vars (mat_tensor (C01.Model.c_bf c) N ref) (mat_tensor (C01.Model.c_bf c) N hyp)
    (C01.Model.c_eos c) (C01.Model.c_incl c) (C01.Model.c_bf c)
    (cost_q scale (C01.Model.c_ins c)) (cost_q scale (C01.Model.c_del c)) (cost_q scale (C01.Model.c_sub c))
    false (C01.Model.c_norm c) (C01.Model.c_pad c).

Definition out_vector (N : nat) (o : outcome val) : option (option (list fx)) :=
  match o with
  | Ok v _ => match dec01 v with
              | Some (AX t) => if nats_eqb (shp t) [N] then Some (Some (dat t)) else None
              | _ => None
              end
  | Exc _ _ => Some None
  | Stuck _ => None
  end.

(* outer None: the interpreter got stuck / returned something that is not a 1-D float tensor of N entries;
   Some None: the source raised *)
Definition src_er (body : stmt) (c : C01.Model.cfg) (scale : Z) (N : nat) (ref hyp : list (list Z))
  : option (option (list fx)) :=
  out_vector N (Interp.run ext02 body (cfg_vars c scale N ref hyp)).

(* ---- the wrapper `error_rate` ---------------------------------------------------------------------------- *)
Definition config_module : val := VDict [(VStr "INDEX_PAD_VALUE", VInt (-100))].
Definition globals02 : list (string * val) := globals01 ++ [("config", config_module)].

Fixpoint bind_pos (params : list string) (args : list val) : option (list (string * val) * list string) :=
  match args, params with
  | [], _ => Some ([], params)
  | v :: args', p :: params' =>
      match bind_pos params' args' with Some (b, r) => Some ((p, v) :: b, r) | None => None end
  | _ :: _, [] => None                                    (* too many positional arguments: TypeError *)
  end.

Fixpoint lookup_expr (x : string) (l : list (string * expr)) : option expr :=
  match l with [] => None | (y, e) :: r => if String.eqb x y then Some e else lookup_expr x r end.

Fixpoint bind_rest (rest : list string) (kw : list (string * val)) (defaults : list (string * expr))
  : option (list (string * val)) :=
  match rest with
  | [] => Some []
  | p :: rest' =>
      let v := match lookup p kw with
               | Some v => Some v
               | None => match lookup_expr p defaults with
                         | Some e => match Interp.eval ext02 e (mkState globals02 []) with Ok v _ => Some v | _ => None end
                         | None => None
                         end
               end in
      match v, bind_rest rest' kw defaults with Some v, Some b => Some ((p, v) :: b) | _, _ => None end
  end.

Definition bind_call (params : list string) (defaults : list (string * expr)) (args : list val)
  (kw : list (string * val)) : option (list (string * val)) :=
  match bind_pos params args with
  | Some (b, rest) =>
      if forallb (fun kv => existsb (String.eqb (fst kv)) rest) kw      (* every keyword names a free parameter *)
      then option_map (fun r => (b ++ r)%list) (bind_rest rest kw defaults)
      else None
  | None => None
  end.

Definition ext02w (f : string) (args : list val) (kw : list (string * val)) (st : state) : outcome val :=
  if is f "_string_matching" then
    match bind_call er_body_params er_body_defaults args kw with
    | Some vars0 =>
        match Interp.run ext02 er_body (vars0 ++ globals02)%list with
        | Ok v _ => Ok v st
        | Exc n _ => Exc n st
        | Stuck w => Stuck w
        end
    | None => Stuck "_string_matching: arguments"
    end
  else ext02 f args kw st.

(* error_rate(ref, hyp, eos, include_eos, norm, batch_first, ins_cost, del_cost, sub_cost, warn) *)
Definition wrap_vars (ref hyp : tn Z) (eos : option Z) (incl bf : bool) (qi qd qs : Q) (warn norm : bool)
  : list (string * val) :=
  [("ref", enc_i ref); ("hyp", enc_i hyp); ("eos", opt_int eos); ("include_eos", VBool incl); ("norm", VBool norm);
   ("batch_first", VBool bf); ("ins_cost", VQ qi); ("del_cost", VQ qd); ("sub_cost", VQ qs); ("warn", VBool warn)]
  ++ globals02.

Definition src_er_wrap (c : C01.Model.cfg) (scale : Z) (N : nat) (ref hyp : list (list Z)) : option (option (list fx)) :=
  out_vector N (Interp.run ext02w er_wrap
    (wrap_vars (mat_tensor (C01.Model.c_bf c) N ref) (mat_tensor (C01.Model.c_bf c) N hyp)
       (C01.Model.c_eos c) (C01.Model.c_incl c) (C01.Model.c_bf c)
       (cost_q scale (C01.Model.c_ins c)) (cost_q scale (C01.Model.c_del c)) (cost_q scale (C01.Model.c_sub c))
       false (C01.Model.c_norm c))).

(* ---- executable entry point for the correspondence ----------------------------------------------------
   [ref] / [hyp]: the matrix exactly as handed to the implementation, as a list of rows; costs k / scale as exact
   rationals (the model works on the integers k).  An observed float against the value the interpreted source
   computes with exact arithmetic: equal, or - for a normalised result - within relative 2^-23 (C01.SrcRun.fx_matches) *)
Definition out_matches (c : C01.Model.cfg) (o : option (option (list fx))) (obs : list Q) : bool :=
  match o with
  | Some (Some out) => C01.Obs.forall2b (fx_matches (C01.Model.c_norm c)) out obs
  | _ => false
  end.

(* interface of Model.check_er plus the denominator of the costs: the blocks in sequence, the whole body as one
   term, and the wrapper `error_rate` calling the whole body *)
Definition src_error_rate_check (c : C01.Model.cfg) (scale : Z) (N : nat) (ref hyp : list (list Z)) (obs : list Q) : bool :=
  (out_matches c (src_er er_blocks c scale N ref hyp) obs && out_matches c (src_er er_body c scale N ref hyp) obs
   && out_matches c (src_er_wrap c scale N ref hyp) obs)%bool.
