(* MiniTorch, unit C03Src — the algebra of OpsC03.v needed by the C03 tie (no new definitions of meaning):
   broadcasting on the shapes the mask path of `_string_matching` meets, the reduction with keepdim, the row
   assignment, torch.stack of tabulated matrices, comparisons of floats that are integers. *)
From Coq Require Import List ZArith QArith Bool Arith Lia ZifyBool ZifyNat.
From Coq Require String.
From PV Require Import MiniPy.Syntax MiniTorch.Ops MiniTorch.Lemmas MiniTorch.OpsC07 MiniTorch.LemmasC07 MiniTorch.OpsC01
  MiniTorch.LemmasC01 MiniTorch.OpsC03.
Import ListNotations.
Local Open Scope nat_scope.

(* ---- broadcasting ------------------------------------------------------------------------------------------- *)
(* (A x 1) against (B): the outer combination (i, j) -> f (g i) (h j) *)
Lemma broadcast_col1_row : forall {X Y W} (f : X -> Y -> W) dx dy A B g h,
  broadcast f dx dy (mkTn [A; 1] (map g (seq 0 A))) (mkTn [B] (map h (seq 0 B))) =
  Some (mkTn [A; B] (tab2 A B (fun i j => f (g i) (h j)))).
Proof.
  intros. unfold broadcast. cbn [rank shp dat length Nat.max pad_shape Nat.sub repeat app bc_shape].
  rewrite bdim_1_r, bdim_1_l. rewrite (bc_data_2 f dx dy A 1 1 B A B) by (apply bdim_1_r || apply bdim_1_l).
  do 2 f_equal. apply tab2_ext. intros i j Hi Hj. change (bidx 1 i) with 0. change (bidx 1 j) with 0.
  rewrite (bidx_same A i), (bidx_same B j) by assumption. cbn [Nat.mul Nat.add].
  replace (i * 1 + 0) with i by lia. now rewrite !nth_map_seq.
Qed.

(* (A x B) against (1 x B) *)
Lemma broadcast_mat_row1 : forall {X Y W} (f : X -> Y -> W) dx dy A B g h,
  broadcast f dx dy (mkTn [A; B] (tab2 A B g)) (mkTn [1; B] (map h (seq 0 B))) =
  Some (mkTn [A; B] (tab2 A B (fun i j => f (g i j) (h j)))).
Proof.
  intros. unfold broadcast. cbn [rank shp dat length Nat.max pad_shape Nat.sub repeat app bc_shape].
  rewrite bdim_1_r, bdim_refl. rewrite (bc_data_2 f dx dy A B 1 B A B) by (apply bdim_1_r || apply bdim_refl).
  do 2 f_equal. apply tab2_ext. intros i j Hi Hj. change (bidx 1 i) with 0.
  rewrite (bidx_same A i), (bidx_same B j) by assumption. cbn [Nat.mul Nat.add].
  now rewrite nth_tab2, nth_map_seq.
Qed.

(* (K x A x B) against (1 x A x B) *)
Lemma broadcast_3_plane : forall {X Y W} (f : X -> Y -> W) dx dy K A B g h,
  broadcast f dx dy (mkTn [K; A; B] (tab3 K A B g)) (mkTn [1; A; B] (tab2 A B h)) =
  Some (mkTn [K; A; B] (tab3 K A B (fun k i j => f (g k i j) (h i j)))).
Proof.
  intros. unfold broadcast. cbn [rank shp dat length Nat.max pad_shape Nat.sub repeat app bc_shape].
  rewrite bdim_1_r, !bdim_refl.
  rewrite (bc_data_3 f dx dy K A B 1 A B K A B) by (apply bdim_1_r || apply bdim_refl).
  do 2 f_equal. apply tab3_ext. intros k i j Hk Hi Hj. change (bidx 1 k) with 0.
  rewrite (bidx_same K k), (bidx_same A i), (bidx_same B j) by assumption. cbn [Nat.mul Nat.add].
  now rewrite nth_tab3, nth_tab2.
Qed.

Lemma unsqueeze_2_0 : forall {X} A B (d : list X), unsqueeze (mkTn [A; B] d) 0 = Some (mkTn [1; A; B] d).
Proof. reflexivity. Qed.

Lemma arange_nat : forall n, arange (Z.of_nat n) = Some (mkTn [n] (map Z.of_nat (seq 0 n))).
Proof. intros. unfold arange. replace (Z.of_nat n <? 0)%Z with false by lia. now rewrite Nat2Z.id. Qed.

(* ---- the minimum along dimension 0 of (A x B), keepdim ---------------------------------------------------------- *)
Definition argmin_2 (A B : nat) (g : nat -> nat -> fx) : list Z :=
  map (fun j => let f := map (fun i => g i j) (seq 0 A) in Z.of_nat (first_at (fmin_list f) f)) (seq 0 B).

Lemma min_dim_keep_2 : forall A B (g : nat -> nat -> fx), A <> 0 ->
  min_dim_keep (mkTn [A; B] (tab2 A B g)) 0 =
    Some (Some (mkTn [1; B] (map (fun j => fmin_list (map (fun i => g i j) (seq 0 A))) (seq 0 B)),
                mkTn [1; B] (argmin_2 A B g))).
Proof.
  intros A B g HA. unfold min_dim_keep, min_dim, argmin_2. cbn [rank shp dat length]. change (wrap_dim 2 0) with (Some 0).
  cbv beta iota zeta. cbn [outer extent inner drop_dim keep_dim firstn skipn nth numel app].
  replace (A =? 0) with false by (symmetry; now apply Nat.eqb_neq).
  cbn [dat]. rewrite !tab2_1.
  do 3 f_equal; f_equal; apply map_ext_seq; intros j Hj; now rewrite fibre_tab2_0.
Qed.

(* ---- x[0] = v on a tabulated matrix ------------------------------------------------------------------------------- *)
Lemma set_row0_first : forall {X} R N (f : nat -> nat -> X) (g : nat -> X), R <> 0 ->
  set_row0 (mkTn [R; N] (tab2 R N f)) 0 (mkTn [N] (map g (seq 0 N))) =
  Some (Some (mkTn [R; N] (tab2 R N (fun i n => match i with O => g n | S _ => f i n end)))).
Proof.
  intros X R N f g HR. destruct R as [|R]; [contradiction|]. unfold set_row0. cbn [shp dat numel].
  change (0 <? 0)%Z with false. cbv iota.
  replace ((0 <=? 0) && (0 <? Z.of_nat (S R)))%Z with true by lia.
  rewrite nats_eqb_refl, length_row, Nat.eqb_refl. cbn [andb]. do 3 f_equal.
  change (Z.to_nat 0) with 0. cbn [Nat.mul Nat.add firstn app]. rewrite Nat.add_0_r.
  rewrite skipn_tab2_1, (tab2_S R N (fun i n => match i with O => g n | S _ => f i n end)). reflexivity.
Qed.

(* ---- torch.stack of tabulated matrices ------------------------------------------------------------------------------ *)
Lemma concat_tab2_tab3 : forall {X} K A B (mf : nat -> nat -> nat -> X),
  List.concat (map (fun k => tab2 A B (mf k)) (seq 0 K)) = tab3 K A B mf.
Proof. intros. unfold tab3, tab2. now rewrite flat_map_concat_map. Qed.

Lemma stack0_tabs : forall {X} K A B (mf : nat -> nat -> nat -> X), K <> 0 ->
  stack0 (map (fun k => mkTn [A; B] (tab2 A B (mf k))) (seq 0 K)) = Some (mkTn [K; A; B] (tab3 K A B mf)).
Proof.
  intros X K A B mf HK. destruct K as [|K]; [contradiction|]. unfold stack0.
  set (F := fun k => mkTn [A; B] (tab2 A B (mf k))).
  change (map F (seq 0 (S K))) with (F 0 :: map F (seq 1 K)). cbv iota.
  assert (Hall : forallb (fun u => nats_eqb (shp u) (shp (F 0))) (map F (seq 1 K)) = true).
  { apply forallb_forall. intros u Hu. apply in_map_iff in Hu. destruct Hu as [k [<- _]]. cbn [shp F]. apply nats_eqb_refl. }
  rewrite Hall. change (F 0 :: map F (seq 1 K)) with (map F (seq 0 (S K))).
  rewrite map_length, seq_length, map_map. unfold F. cbn [dat shp]. now rewrite concat_tab2_tab3.
Qed.

(* ---- comparisons of floats that are integers ---------------------------------------------------------------------- *)
Lemma fx_gtb_z2f : forall a b, fx_gtb (z2f a) (z2f b) = (a >? b)%Z.
Proof.
  intros. unfold fx_gtb, z2f. apply eq_true_iff_eq. rewrite negb_true_iff, <- not_true_iff_false, Qle_bool_iff.
  unfold Qle, inject_Z. cbn [Qnum Qden]. lia.
Qed.

(* ======================================================================================================
   Part 2: the operations of optimal_completion's post-processing on tabulated arguments
   ====================================================================================================== *)
Lemma flat_map_map : forall {A B C} (g : B -> list C) (h : A -> B) l, flat_map g (map h l) = flat_map (fun a => g (h a)) l.
Proof. intros. induction l as [|a l IH]; [reflexivity|]. cbn [map flat_map]. now rewrite IH. Qed.

Lemma flat_map_seq_mul : forall {X} (G : nat -> list X) n m,
  flat_map G (seq 0 (n * m)) = flat_map (fun i => flat_map (fun j => G (i * m + j)) (seq 0 m)) (seq 0 n).
Proof.
  intros X G n m. induction n as [|n IH]; [reflexivity|].
  rewrite seq_S, flat_map_app. cbn [flat_map Nat.add]. rewrite app_nil_r, <- IH.
  replace (S n * m) with (n * m + m) by lia. rewrite seq_app, flat_map_app. f_equal.
  cbn [Nat.add]. now rewrite (seq_plus m (n * m)), flat_map_map.
Qed.

(* a matrix whose rows are numbered by pairs (a, b) is the 3-D table *)
Lemma tab2_rows3 : forall {X} A B C (F : nat -> nat -> X),
  tab2 (A * B) C F = tab3 A B C (fun a b c => F (a * B + b) c).
Proof. intros. unfold tab2, tab3. apply flat_map_seq_mul. Qed.

Lemma tab4_ext : forall {X} O N I J (f g : nat -> nat -> nat -> nat -> X),
  (forall o t i j, o < O -> t < N -> i < I -> j < J -> f o t i j = g o t i j) -> tab4 O N I J f = tab4 O N I J g.
Proof.
  intros. unfold tab4. apply flat_map_ext_seq. intros o Ho. apply flat_map_ext_seq. intros t Ht.
  apply flat_map_ext_seq. intros i Hi. apply map_ext_seq. intros j Hj. now apply H.
Qed.

Lemma repeat_tab3 : forall {X} (v : X) A B C, repeat v (A * (B * C)) = tab3 A B C (fun _ _ _ => v).
Proof.
  intros X v A B C. rewrite repeat_as_map. unfold tab3. rewrite (seq_mul (fun _ => v) A (B * C)).
  apply flat_map_ext_seq. intros a Ha. rewrite (seq_mul (fun _ => v) B C). reflexivity.
Qed.

Lemma full_3 : forall {X} (v : X) A B C, full [A; B; C] v = mkTn [A; B; C] (tab3 A B C (fun _ _ _ => v)).
Proof. intros. unfold full. cbn [numel]. now rewrite repeat_tab3. Qed.

(* ---- transpose of a 3-D table ---------------------------------------------------------------------------------- *)
Lemma transpose3_12 : forall {X} (d : X) A B C f,
  transpose3 d (mkTn [A; B; C] (tab3 A B C f)) 1 2 = Some (mkTn [A; C; B] (tab3 A C B (fun i k j => f i j k))).
Proof.
  intros. unfold transpose3. cbn [shp dat]. change (wrap_dim 3 1) with (Some 1). change (wrap_dim 3 2) with (Some 2).
  cbn [swap3 Nat.eqb]. do 2 f_equal. apply tab3_ext. intros i k j Hi Hk Hj. now apply nth_tab3.
Qed.

Lemma transpose3_01 : forall {X} (d : X) A B C f,
  transpose3 d (mkTn [A; B; C] (tab3 A B C f)) 0 1 = Some (mkTn [B; A; C] (tab3 B A C (fun j i k => f i j k))).
Proof.
  intros. unfold transpose3. cbn [shp dat]. change (wrap_dim 3 0) with (Some 0). change (wrap_dim 3 1) with (Some 1).
  cbn [swap3 Nat.eqb]. do 2 f_equal. apply tab3_ext. intros j i k Hj Hi Hk. now apply nth_tab3.
Qed.

Lemma unsqueeze_3_2 : forall {X} A B C (d : list X), unsqueeze (mkTn [A; B; C] d) 2 = Some (mkTn [A; B; 1; C] d).
Proof. reflexivity. Qed.
Lemma unsqueeze_2_1 : forall {X} A B (d : list X), unsqueeze (mkTn [A; B] d) 1 = Some (mkTn [A; 1; B] d).
Proof. reflexivity. Qed.
Lemma unsqueeze_2_2 : forall {X} A B (d : list X), unsqueeze (mkTn [A; B] d) 2 = Some (mkTn [A; B; 1] d).
Proof. reflexivity. Qed.

(* ---- broadcasting ------------------------------------------------------------------------------------------------ *)
(* (A x 1 x B) against (A x B x 1), both holding the matrix g: (n, a, b) -> f (g n b) (g n a) *)
Lemma broadcast_row_col3 : forall {X W} (f : X -> X -> W) dx A B g,
  broadcast f dx dx (mkTn [A; 1; B] (tab2 A B g)) (mkTn [A; B; 1] (tab2 A B g)) =
  Some (mkTn [A; B; B] (tab3 A B B (fun n a b => f (g n b) (g n a)))).
Proof.
  intros. unfold broadcast. cbn [rank shp dat length Nat.max pad_shape Nat.sub repeat app bc_shape].
  rewrite bdim_refl, bdim_1_l, bdim_1_r.
  rewrite (bc_data_3 f dx dx A 1 B A B 1 A B B) by (apply bdim_1_r || apply bdim_1_l || apply bdim_refl).
  do 2 f_equal. apply tab3_ext. intros n a b Hn Ha Hb. change (bidx 1 a) with 0. change (bidx 1 b) with 0.
  rewrite (bidx_same A n), (bidx_same B a), (bidx_same B b) by assumption. cbn [Nat.mul Nat.add].
  replace ((n * 1 + 0) * B + b) with (n * B + b) by lia. replace ((n * B + a) * 1 + 0) with (n * B + a) by lia.
  now rewrite !nth_tab2.
Qed.

Lemma bc_data_4 : forall {X Y W} (f : X -> Y -> W) dx dy a1 a2 a3 a4 b1 b2 b3 b4 n1 n2 n3 n4 la lb,
  bdim a1 b1 = Some n1 -> bdim a2 b2 = Some n2 -> bdim a3 b3 = Some n3 -> bdim a4 b4 = Some n4 ->
  bc_data f dx dy [a1; a2; a3; a4] [b1; b2; b3; b4] la lb 0 0 =
  tab4 n1 n2 n3 n4 (fun i j k l => f (nth (((bidx a1 i * a2 + bidx a2 j) * a3 + bidx a3 k) * a4 + bidx a4 l) la dx)
                                     (nth (((bidx b1 i * b2 + bidx b2 j) * b3 + bidx b3 k) * b4 + bidx b4 l) lb dy)).
Proof.
  intros X Y W f dx dy a1 a2 a3 a4 b1 b2 b3 b4 n1 n2 n3 n4 la lb H1 H2 H3 H4. cbn [bc_data]. rewrite H1. unfold tab4.
  apply flat_map_ext_seq. intros i Hi. rewrite H2. apply flat_map_ext_seq. intros j Hj. rewrite H3.
  apply flat_map_ext_seq. intros k Hk. rewrite H4. cbn [Nat.mul Nat.add].
  apply (flat_map_singleton (fun l => f (nth (((bidx a1 i * a2 + bidx a2 j) * a3 + bidx a3 k) * a4 + bidx a4 l) la dx)
                                          (nth (((bidx b1 i * b2 + bidx b2 j) * b3 + bidx b3 k) * b4 + bidx b4 l) lb dy))).
Qed.

(* (K x A x 1 x B) against (A x B x B): (k, n, a, b) -> f (p k n b) (q n a b) *)
Lemma broadcast_4_3 : forall {X Y W} (f : X -> Y -> W) dx dy K A B p q,
  broadcast f dx dy (mkTn [K; A; 1; B] (tab3 K A B p)) (mkTn [A; B; B] (tab3 A B B q)) =
  Some (mkTn [K; A; B; B] (tab4 K A B B (fun k n a b => f (p k n b) (q n a b)))).
Proof.
  intros. unfold broadcast. cbn [rank shp dat length Nat.max pad_shape Nat.sub repeat app bc_shape].
  rewrite bdim_1_r, !bdim_refl, bdim_1_l.
  rewrite (bc_data_4 f dx dy K A 1 B 1 A B B K A B B) by (apply bdim_1_r || apply bdim_1_l || apply bdim_refl).
  do 2 f_equal. apply tab4_ext. intros k n a b Hk Hn Ha Hb. change (bidx 1 k) with 0. change (bidx 1 a) with 0.
  rewrite (bidx_same K k), (bidx_same A n), (bidx_same B a), (bidx_same B b) by assumption. cbn [Nat.mul Nat.add].
  replace (((k * A + n) * 1 + 0) * B + b) with ((k * A + n) * B + b) by lia.
  now rewrite !nth_tab3.
Qed.

(* equal shapes, three dimensions *)
Lemma broadcast_same3 : forall {X Y W} (f : X -> Y -> W) dx dy A B C g h,
  broadcast f dx dy (mkTn [A; B; C] (tab3 A B C g)) (mkTn [A; B; C] (tab3 A B C h)) =
  Some (mkTn [A; B; C] (tab3 A B C (fun i j k => f (g i j k) (h i j k)))).
Proof.
  intros. unfold broadcast. cbn [rank shp dat length Nat.max pad_shape Nat.sub repeat app bc_shape].
  rewrite !bdim_refl. rewrite (bc_data_3 f dx dy A B C A B C A B C) by apply bdim_refl. do 2 f_equal.
  apply tab3_ext. intros i j k Hi Hj Hk. rewrite (bidx_same A i), (bidx_same B j), (bidx_same C k) by assumption.
  now rewrite !nth_tab3.
Qed.

(* (A x B x 1) against (C): (i, j, k) -> f (g i j) (h k) *)
Lemma broadcast_col3_row : forall {X Y W} (f : X -> Y -> W) dx dy A B C g h,
  broadcast f dx dy (mkTn [A; B; 1] (tab2 A B g)) (mkTn [C] (map h (seq 0 C))) =
  Some (mkTn [A; B; C] (tab3 A B C (fun i j k => f (g i j) (h k)))).
Proof.
  intros. unfold broadcast. cbn [rank shp dat length Nat.max pad_shape Nat.sub repeat app bc_shape].
  rewrite !bdim_1_r, bdim_1_l.
  rewrite (bc_data_3 f dx dy A B 1 1 1 C A B C) by (apply bdim_1_r || apply bdim_1_l).
  do 2 f_equal. apply tab3_ext. intros i j k Hi Hj Hk. change (bidx 1 i) with 0. change (bidx 1 j) with 0. change (bidx 1 k) with 0.
  rewrite (bidx_same A i), (bidx_same B j), (bidx_same C k) by assumption. cbn [Nat.mul Nat.add].
  replace ((i * B + j) * 1 + 0) with (i * B + j) by lia. now rewrite nth_tab2, nth_map_seq.
Qed.

(* ---- reductions along the last dimension ---------------------------------------------------------------------- *)
Lemma fibre_last : forall {X} (d : X) N (l : list X) o, fibre d N 1 l o 0 = map (fun t => nth (o * N + t) l d) (seq 0 N).
Proof. intros. unfold fibre. apply map_ext. intros t. f_equal. lia. Qed.

Lemma any_dim_4 : forall K A B C (g : nat -> nat -> nat -> nat -> bool),
  any_dim (mkTn [K; A; B; C] (tab4 K A B C g)) 3 =
  Some (mkTn [K; A; B] (tab3 K A B (fun k n a => existsb (fun b => b) (map (g k n a) (seq 0 C))))).
Proof.
  intros. unfold any_dim. cbn [rank shp dat length]. change (wrap_dim 4 3) with (Some 3).
  cbv beta iota zeta. cbn [outer extent inner drop_dim firstn skipn nth numel app].
  do 2 f_equal. rewrite rows_tab3. apply tab3_ext. intros k n a Hk Hn Ha. rewrite fibre_last. f_equal.
  apply map_ext_seq. intros b Hb. now apply nth_tab4.
Qed.

Lemma sum_dim_b_3 : forall K A B (g : nat -> nat -> nat -> bool),
  sum_dim_b (mkTn [K; A; B] (tab3 K A B g)) 2 =
  Some (mkTn [K; A] (tab2 K A (fun k n => count_row (map (g k n) (seq 0 B))))).
Proof.
  intros. unfold sum_dim_b. cbn [rank shp dat length]. change (wrap_dim 3 2) with (Some 2).
  cbv beta iota zeta. cbn [outer extent inner drop_dim firstn skipn nth numel app].
  do 2 f_equal. rewrite tab2_col1, (seq_mul (fun r => count_row (fibre false B 1 (tab3 K A B g) r 0)) K A).
  unfold tab2. apply flat_map_ext_seq. intros k Hk. apply map_ext_seq. intros n Hn. rewrite fibre_last. f_equal.
  apply map_ext_seq. intros b Hb. now apply nth_tab3.
Qed.

(* ---- sort along the last dimension of a matrix ----------------------------------------------------------------- *)
Lemma insert_by_length : forall key i l, length (insert_by key i l) = S (length l).
Proof.
  intros key i l. induction l as [|j t IH]; [reflexivity|]. cbn [insert_by].
  destruct (key i <=? key j)%Z; cbn [length]; [reflexivity|now rewrite IH].
Qed.

Lemma sort_row_idx_length : forall r, length (sort_row_idx r) = length r.
Proof.
  intros r. unfold sort_row_idx. rewrite <- (seq_length (length r) 0) at 2.
  induction (seq 0 (length r)) as [|i l IH]; [reflexivity|]. cbn [fold_right length]. now rewrite insert_by_length, IH.
Qed.

Lemma row_of_tab2 : forall {X} A B (g : nat -> nat -> X) n, n < A ->
  row_of (mkTn [A; B] (tab2 A B g)) B n = map (g n) (seq 0 B).
Proof.
  intros X A B g n Hn. unfold row_of. cbn [dat].
  replace A with (n + S (A - S n)) by lia. rewrite skipn_tab2, tab2_S, firstn_app, length_row.
  rewrite Nat.sub_diag. cbn [firstn]. rewrite app_nil_r, firstn_all2 by (rewrite length_row; lia).
  apply map_ext. intros j. f_equal. lia.
Qed.

Lemma sort_last2_tab : forall N R (g : nat -> nat -> Z),
  sort_last2 (mkTn [N; R] (tab2 N R g)) 1 =
  Some (mkTn [N; R] (tab2 N R (fun n j => let r := map (g n) (seq 0 R) in nth (nth j (sort_row_idx r) 0) r 0%Z)),
        mkTn [N; R] (tab2 N R (fun n j => Z.of_nat (nth j (sort_row_idx (map (g n) (seq 0 R))) 0)))).
Proof.
  intros. unfold sort_last2. cbn [shp]. change (wrap_dim 2 1) with (Some 1). cbv iota.
  f_equal. f_equal; f_equal.
  - rewrite (flat_map_ext_seq _ (fun n => let r := map (g n) (seq 0 R) in map (fun s => nth s r 0%Z) (sort_row_idx r)) N)
      by (intros n Hn; now rewrite row_of_tab2 by exact Hn).
    unfold tab2. apply flat_map_ext_seq. intros n Hn. cbv zeta. set (r := map (g n) (seq 0 R)).
    rewrite (list_as_map_nth (map (fun s => nth s r 0%Z) (sort_row_idx r)) R 0%Z)
      by (unfold r; now rewrite map_length, sort_row_idx_length, length_row).
    apply map_ext_seq. intros j Hj.
    rewrite (nth_indep _ 0%Z (nth 0 r 0%Z)) by (unfold r; now rewrite map_length, sort_row_idx_length, length_row).
    now rewrite (map_nth (fun s => nth s r 0%Z)).
  - rewrite (flat_map_ext_seq _ (fun n => map Z.of_nat (sort_row_idx (map (g n) (seq 0 R)))) N)
      by (intros n Hn; now rewrite row_of_tab2 by exact Hn).
    unfold tab2. apply flat_map_ext_seq. intros n Hn. set (r := map (g n) (seq 0 R)).
    rewrite (list_as_map_nth (map Z.of_nat (sort_row_idx r)) R 0%Z)
      by (unfold r; now rewrite map_length, sort_row_idx_length, length_row).
    apply map_ext_seq. intros j Hj. change 0%Z with (Z.of_nat 0). now rewrite map_nth.
Qed.

(* ---- expand of a matrix to three sizes --------------------------------------------------------------------------- *)
Lemma expand_size_same : forall a, expand_size a (Z.of_nat a) = Some a.
Proof.
  intros. unfold expand_size. replace (Z.of_nat a =? -1)%Z with false by lia. replace (Z.of_nat a <? 0)%Z with false by lia.
  now rewrite Nat2Z.id, Nat.eqb_refl.
Qed.

Lemma expand_lead2_as : forall {X} (d : X) K A B (g : nat -> nat -> X),
  expand_lead2 d (mkTn [A; B] (tab2 A B g)) (Z.of_nat K) (Z.of_nat A) (Z.of_nat B) =
  Some (mkTn [K; A; B] (tab3 K A B (fun _ i j => g i j))).
Proof.
  intros. unfold expand_lead2. cbn [shp dat]. rewrite !expand_size_same. replace (Z.of_nat K <? 0)%Z with false by lia.
  rewrite Nat2Z.id. do 2 f_equal. apply tab3_ext. intros k i j Hk Hi Hj.
  rewrite (bidx_same A i), (bidx_same B j) by assumption. now apply nth_tab2.
Qed.

Lemma expand_lead2_keep : forall {X} (d : X) K A B (g : nat -> nat -> X),
  expand_lead2 d (mkTn [A; B] (tab2 A B g)) (Z.of_nat K) (-1) (-1) =
  Some (mkTn [K; A; B] (tab3 K A B (fun _ i j => g i j))).
Proof.
  intros. unfold expand_lead2. cbn [shp dat]. unfold expand_size. change (-1 =? -1)%Z with true. cbv iota.
  replace (Z.of_nat K <? 0)%Z with false by lia.
  rewrite Nat2Z.id. do 2 f_equal. apply tab3_ext. intros k i j Hk Hi Hj.
  rewrite (bidx_same A i), (bidx_same B j) by assumption. now apply nth_tab2.
Qed.

(* ---- gather along the last dimension of 3-D tables ------------------------------------------------------------------ *)
Lemma gather_last3_tab : forall {X} (d : X) A B C (f : nat -> nat -> nat -> X) (s : nat -> nat -> nat -> nat),
  (forall i j k, i < A -> j < B -> k < C -> s i j k < C) ->
  gather_last3 d (mkTn [A; B; C] (tab3 A B C f)) (mkTn [A; B; C] (tab3 A B C (fun i j k => Z.of_nat (s i j k)))) =
  Some (mkTn [A; B; C] (tab3 A B C (fun i j k => f i j (s i j k)))).
Proof.
  intros X d A B C f s Hs. unfold gather_last3. cbn [shp dat]. rewrite !Nat.eqb_refl. cbn [andb].
  rewrite forallb_tab3 by (intros i j k Hi Hj Hk; specialize (Hs i j k Hi Hj Hk); lia).
  do 2 f_equal. apply tab3_ext. intros i j k Hi Hj Hk.
  rewrite (nth_tab3 A B C (fun i j k => Z.of_nat (s i j k)) i j k 0%Z Hi Hj Hk), Nat2Z.id.
  apply nth_tab3; auto.
Qed.

(* ---- slices of the last dimension ---------------------------------------------------------------------------------- *)
Lemma slice_last3_init : forall {X} (d : X) A B C (f : nat -> nat -> nat -> X),
  slice_last d (mkTn [A; B; S C] (tab3 A B (S C) f)) None (Some (-1)%Z) = Some (mkTn [A; B; C] (tab3 A B C f)).
Proof.
  intros. unfold slice_last. cbn [shp dat rev app numel slice_bound].
  change (-1 <? 0)%Z with true. cbv iota. replace (Nat.min (S C) (Z.to_nat (-1 + Z.of_nat (S C)))) with C by lia.
  rewrite Nat.sub_0_r. do 2 f_equal. rewrite tab2_rows3. apply tab3_ext. intros a b c Ha Hb Hc.
  rewrite Nat.add_0_r. apply nth_tab3; lia.
Qed.

Lemma slice_last3_last : forall {X} (d : X) A B C (f : nat -> nat -> nat -> X),
  slice_last d (mkTn [A; B; S C] (tab3 A B (S C) f)) (Some (-1)%Z) None = Some (mkTn [A; B; 1] (tab3 A B 1 (fun a b _ => f a b C))).
Proof.
  intros. unfold slice_last. cbn [shp dat rev app numel slice_bound].
  change (-1 <? 0)%Z with true. cbv iota. replace (Nat.min (S C) (Z.to_nat (-1 + Z.of_nat (S C)))) with C by lia.
  replace (S C - C) with 1 by lia. do 2 f_equal. rewrite tab2_rows3. apply tab3_ext. intros a b c Ha Hb Hc.
  replace c with 0 by lia. rewrite Nat.add_0_r. apply nth_tab3; lia.
Qed.

Lemma slice_last2_init : forall {X} (d : X) A B (f : nat -> nat -> X),
  slice_last d (mkTn [A; S B] (tab2 A (S B) f)) None (Some (-1)%Z) = Some (mkTn [A; B] (tab2 A B f)).
Proof.
  intros. unfold slice_last. cbn [shp dat rev app numel slice_bound].
  change (-1 <? 0)%Z with true. cbv iota. replace (Nat.min (S B) (Z.to_nat (-1 + Z.of_nat (S B)))) with B by lia.
  rewrite Nat.sub_0_r. do 2 f_equal. apply tab2_ext. intros a b Ha Hb. rewrite Nat.add_0_r. apply nth_tab2; lia.
Qed.

Lemma slice_last2_tail : forall {X} (d : X) A B (f : nat -> nat -> X),
  slice_last d (mkTn [A; S B] (tab2 A (S B) f)) (Some 1%Z) None = Some (mkTn [A; B] (tab2 A B (fun i j => f i (S j)))).
Proof.
  intros. unfold slice_last. cbn [shp dat rev app numel slice_bound].
  change (1 <? 0)%Z with false. cbv iota. change (Z.to_nat 1) with 1. replace (Nat.min (S B) 1) with 1 by lia.
  replace (S B - 1) with B by lia. do 2 f_equal. apply tab2_ext. intros a b Ha Hb.
  replace (a * S B + 1 + b) with (a * S B + S b) by lia. apply nth_tab2; lia.
Qed.

(* ---- torch.cat along the last dimension of 3-D tables ------------------------------------------------------------- *)
Lemma cat_last3_tab : forall {X} (d : X) A B C (g h : nat -> nat -> nat -> X),
  cat_last d (mkTn [A; B; C] (tab3 A B C g)) (mkTn [A; B; 1] (tab3 A B 1 h)) =
  Some (mkTn [A; B; S C] (tab3 A B (S C) (fun a b j => if j <? C then g a b j else h a b 0))).
Proof.
  intros. unfold cat_last. cbn [shp dat rev app numel]. rewrite nats_eqb_refl.
  replace (C + 1) with (S C) by lia.
  do 2 f_equal. rewrite tab2_rows3. apply tab3_ext. intros a b j Ha Hb Hj.
  destruct (Nat.ltb_spec j C).
  - apply nth_tab3; assumption.
  - replace (j - C) with 0 by lia. apply nth_tab3; lia.
Qed.

(* ---- the maximum of all elements ------------------------------------------------------------------------------------ *)
Lemma fold_left_max_ge : forall l a, (a <= fold_left Z.max l a)%Z.
Proof. induction l as [|x l IH]; intros a; cbn [fold_left]; [lia|]. specialize (IH (Z.max a x)). lia. Qed.

Lemma fold_left_max_in : forall l a x, List.In x l -> (x <= fold_left Z.max l a)%Z.
Proof.
  induction l as [|y l IH]; intros a x Hin; [destruct Hin|]. cbn [fold_left]. destruct Hin as [->|Hin].
  - pose proof (fold_left_max_ge l (Z.max a x)). lia.
  - now apply IH.
Qed.

Definition zmax_list (l : list Z) : Z := match l with [] => 0%Z | a :: r => fold_left Z.max r a end.

Lemma max_all_some : forall sh l, l <> [] -> max_all (mkTn sh l) = Some (zmax_list l).
Proof. intros sh [|a r] H; [contradiction|reflexivity]. Qed.

Lemma zmax_list_ge : forall l x, List.In x l -> (x <= zmax_list l)%Z.
Proof.
  intros [|a r] x Hin; [destruct Hin|]. cbn [zmax_list]. destruct Hin as [->|Hin].
  - apply fold_left_max_ge.
  - now apply fold_left_max_in.
Qed.

Lemma zmax_list_in : forall l, l <> [] -> List.In (zmax_list l) l.
Proof.
  intros [|a r] H; [contradiction|]. cbn [zmax_list]. clear H. revert a. induction r as [|x r IH]; intros a; cbn [fold_left].
  - now left.
  - destruct (IH (Z.max a x)) as [E|Hin].
    + rewrite <- E. destruct (Z.max_spec a x) as [[_ ->]|[_ ->]]; [right; now left|now left].
    + right. now right.
Qed.

Lemma insert_by_in : forall key i l x, List.In x (insert_by key i l) -> x = i \/ List.In x l.
Proof.
  intros key i l x. induction l as [|j t IH]; cbn [insert_by]; intros H.
  - destruct H as [<-|[]]. now left.
  - destruct (key i <=? key j)%Z.
    + destruct H as [<-|H]; [now left|now right].
    + destruct H as [<-|H]; [right; now left|]. destruct (IH H) as [->|H']; [now left|right; now right].
Qed.

Lemma sort_row_idx_in : forall r x, List.In x (sort_row_idx r) -> x < length r.
Proof.
  intros r x. unfold sort_row_idx.
  assert (G : forall l, List.In x (fold_right (insert_by (fun i => nth i r 0%Z)) [] l) -> List.In x l).
  { induction l as [|i l IH]; cbn [fold_right]; intros H; [exact H|].
    apply insert_by_in in H. destruct H as [->|H]; [now left|right; now apply IH]. }
  intros H. apply G in H. apply in_seq in H. lia.
Qed.

Lemma sort_row_idx_nth_lt : forall r j, j < length r -> nth j (sort_row_idx r) 0 < length r.
Proof. intros r j Hj. apply sort_row_idx_in, nth_In. now rewrite sort_row_idx_length. Qed.

Lemma tab2_nonempty : forall {X} K N (f : nat -> nat -> X), K <> 0 -> N <> 0 -> tab2 K N f <> [].
Proof. intros X K N f HK HN E. apply (f_equal (@length X)) in E. rewrite tab2_length in E. cbn [length] in E. nia. Qed.

Lemma zmax_tab2_nonneg : forall K N (f : nat -> nat -> Z), K <> 0 -> N <> 0 -> (forall k n, (0 <= f k n)%Z) ->
  (0 <= zmax_list (tab2 K N f))%Z.
Proof.
  intros K N f HK HN Hf. specialize (Hf 0 0).
  assert (Hin : List.In (f 0 0) (tab2 K N f)).
  { rewrite <- (nth_tab2 K N f 0 0 0%Z) by lia. apply nth_In. rewrite tab2_length. nia. }
  pose proof (zmax_list_ge _ _ Hin). lia.
Qed.

Lemma count_row_nonneg : forall l, (0 <= count_row l)%Z.
Proof. intros. unfold count_row. lia. Qed.
