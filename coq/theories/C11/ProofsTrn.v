(* C11 - lemmas: trn writer / reader round trip, for alternates nested to any depth. *)
From Coq Require Import List ZArith Bool Lia.
From PV Require Import C11.Model C11.Spec.
Import ListNotations.
Local Open Scope Z_scope.

(* ---------- induction principle for the nested type ---------------------------------- *)
Section ElemInd.
  Variable P : elem -> Prop.
  Hypothesis HTok : forall t, P (Tok t).
  Hypothesis HAlt : forall brs, Forall (Forall P) brs -> P (Alt brs).
  Fixpoint elem_ind2 (x : elem) : P x :=
    match x with
    | Tok t => HTok t
    | Alt brs =>
        HAlt brs
          ((fix go (l : list (list elem)) : Forall (Forall P) l :=
              match l with
              | [] => Forall_nil _
              | b :: bs =>
                  Forall_cons b
                    ((fix go2 (m : list elem) : Forall P m :=
                        match m with
                        | [] => Forall_nil _
                        | y :: ys => Forall_cons y (elem_ind2 y) (go2 ys)
                        end) b)
                    (go bs)
              end) brs)
    end.
End ElemInd.

(* ---------- run ------------------------------------------------------------------------ *)

Lemma run_app s a b :
  run s (a ++ b) = match run s a with Ok s' => run s' b | Raise e => Raise e end.
Proof.
  revert s; induction a as [|c a IH]; intros s; cbn [run app]; [reflexivity|].
  destruct (step c s); [apply IH|reflexivity].
Qed.

Definition nonempty_stack (s : pst) : bool := negb (is_nil (p_stack s)).

(* append finished elements at the place the reader is filling *)
Definition push (s : pst) (xs : list elem) : pst :=
  match p_stack s with
  | [] => mkP (p_out s ++ xs) (p_tok s) []
  | f :: fs => mkP (p_out s) (p_tok s) (mkF (f_done f) (f_cur f ++ xs) :: fs)
  end.

Lemma push_nil s : push s [] = s.
Proof.
  destruct s as [o t st]; unfold push; cbn. destruct st as [|[d c] fs]; cbn; rewrite app_nil_r; reflexivity.
Qed.

Lemma push_app s a b : push (push s a) b = push s (a ++ b).
Proof.
  destruct s as [o t st]; unfold push; cbn. destruct st as [|[d c] fs]; cbn; rewrite app_assoc; reflexivity.
Qed.

Lemma push_tok s xs : p_tok (push s xs) = p_tok s.
Proof. destruct s as [o t st]; unfold push; cbn. destruct st as [|[d c] fs]; reflexivity. Qed.

Lemma push_nonempty s xs : nonempty_stack (push s xs) = nonempty_stack s.
Proof. destruct s as [o t st]; unfold push, nonempty_stack; cbn. destruct st as [|[d c] fs]; reflexivity. Qed.

Lemma flush_notok s : p_tok s = [] -> flush s = s.
Proof. intros H; unfold flush; rewrite H; reflexivity. Qed.

Lemma flush_tok o t st : t <> [] -> flush (mkP o t st) = push (mkP o [] st) [Tok t].
Proof.
  intros H. unfold flush, push; cbn. destruct t as [|c t]; [congruence|]. destruct st as [|[d cu] fs]; reflexivity.
Qed.

Definition plain_for (inside : bool) (c : char) : bool := if inside then plain_in c else plain_top c.

Lemma plain_top_facts c : plain_top c = true -> is_space c = false /\ (c =? c_lbrace) = false.
Proof.
  unfold plain_top. rewrite andb_true_iff, !negb_true_iff. tauto.
Qed.

Lemma plain_in_facts c : plain_in c = true ->
  is_space c = false /\ (c =? c_lbrace) = false /\ (c =? c_slash) = false /\ (c =? c_rbrace) = false.
Proof.
  unfold plain_in. rewrite !andb_true_iff, !negb_true_iff. intros [[H1 H2] H3].
  apply plain_top_facts in H1. tauto.
Qed.

Lemma not_space_not_sp c : is_space c = false -> (c =? c_sp) = false.
Proof.
  intros H. destruct (c =? c_sp) eqn:E; [|reflexivity].
  apply Z.eqb_eq in E. subst c. discriminate H.
Qed.

Lemma step_plain s c :
  plain_for (nonempty_stack s) c = true ->
  step c s = Ok (mkP (p_out s) (p_tok s ++ [c]) (p_stack s)).
Proof.
  unfold plain_for, nonempty_stack. intros H. unfold step.
  destruct (p_stack s) as [|f fs] eqn:Est; cbn [is_nil negb] in H.
  - apply plain_top_facts in H. destruct H as [Hs Hb]. rewrite Hb, (not_space_not_sp _ Hs).
    cbn. rewrite !andb_false_r. reflexivity.
  - apply plain_in_facts in H. destruct H as (Hs & Hb & Hsl & Hrb).
    rewrite Hb, Hsl, Hrb, (not_space_not_sp _ Hs). reflexivity.
Qed.

Lemma run_plain t : forall s rest,
  forallb (plain_for (nonempty_stack s)) t = true ->
  run s (t ++ rest) = run (mkP (p_out s) (p_tok s ++ t) (p_stack s)) rest.
Proof.
  induction t as [|c t IH]; intros s rest H.
  - cbn. rewrite app_nil_r. destruct s; reflexivity.
  - cbn [forallb] in H. apply andb_true_iff in H. destruct H as [Hc Ht].
    cbn [app run]. rewrite (step_plain _ _ Hc). rewrite IH; cbn [p_out p_tok p_stack].
    + rewrite <- app_assoc. reflexivity.
    + exact Ht.
Qed.

Lemma step_space s : step c_sp s = Ok (flush s).
Proof. reflexivity. Qed.

(* ---------- one element, any depth ------------------------------------------------------- *)

Definition elem_good (x : elem) : Prop :=
  forall s rest, p_tok s = [] -> elem_okb (nonempty_stack s) x = true ->
    run s (handle_x x ++ rest) = run (push s [x]) rest.

Lemma run_list xs : Forall elem_good xs ->
  forall s rest, p_tok s = [] -> forallb (elem_okb (nonempty_stack s)) xs = true ->
    run s (write_elems xs ++ rest) = run (push s xs) rest.
Proof.
  induction 1 as [|x xs Hx _ IH]; intros s rest Ht Hok.
  - cbn. rewrite push_nil. reflexivity.
  - cbn [forallb] in Hok. apply andb_true_iff in Hok. destruct Hok as [Hx1 Hxs].
    unfold write_elems. cbn [map concat]. rewrite <- app_assoc.
    rewrite (Hx s _ Ht Hx1). fold (write_elems xs).
    rewrite IH.
    + rewrite push_app. reflexivity.
    + rewrite push_tok. exact Ht.
    + rewrite push_nonempty. exact Hxs.
Qed.

Lemma tok_good t : elem_good (Tok t).
Proof.
  intros s rest Ht Hok. cbn [handle_x elem_okb] in *.
  unfold tok_okb in Hok. destruct t as [|c t]; [discriminate|].
  rewrite <- app_assoc. rewrite run_plain.
  - cbn [app run]. rewrite step_space. rewrite Ht. cbn [app].
    rewrite flush_tok by discriminate. destruct s as [o tk st]. cbn in Ht. subst tk. reflexivity.
  - unfold plain_for. destruct (nonempty_stack s); exact Hok.
Qed.

Lemma step_open o st : step c_lbrace (mkP o [] st) = Ok (mkP o [] (mkF [] [] :: st)).
Proof. reflexivity. Qed.

Lemma step_slash o d c fs :
  step c_slash (mkP o [] (mkF d c :: fs)) = Ok (mkP o [] (mkF (d ++ [c]) [] :: fs)).
Proof. reflexivity. Qed.

Lemma step_close o d c fs : c <> [] ->
  step c_rbrace (mkP o [] (mkF d c :: fs)) = Ok (push (mkP o [] fs) [Alt (d ++ [c])]).
Proof.
  intros H. unfold step. cbn. destruct c as [|x c]; [congruence|].
  destruct fs as [|[gd gc] gs]; reflexivity.
Qed.

Lemma run_branches brs :
  Forall (Forall elem_good) brs -> brs <> [] -> last brs [] <> [] ->
  forallb (fun b => forallb (elem_okb true) b) brs = true ->
  forall o d fs rest,
    run (mkP o [] (mkF d [] :: fs))
        (join [c_slash; c_sp] (map write_elems brs) ++ c_rbrace :: rest)
    = run (push (mkP o [] fs) [Alt (d ++ brs)]) rest.
Proof.
  induction 1 as [|b bs Hb Hbs IH]; intros Hne Hlast Hok o d fs rest; [congruence|].
  cbn [forallb] in Hok. apply andb_true_iff in Hok. destruct Hok as [Hokb Hokbs].
  destruct bs as [|b' bs'].
  - cbn [map join]. rewrite (run_list b Hb); [|reflexivity|exact Hokb].
    unfold push at 1; cbn [p_stack p_out p_tok f_done f_cur app].
    cbn [run]. rewrite step_close; [reflexivity|exact Hlast].
  - cbn [map join]. rewrite <- !app_assoc.
    rewrite (run_list b Hb); [|reflexivity|exact Hokb].
    unfold push at 1; cbn [p_stack p_out p_tok f_done f_cur app].
    cbn [run]. rewrite step_slash. rewrite step_space. rewrite flush_notok by reflexivity.
    change (join [c_slash; c_sp] (write_elems b' :: map write_elems bs'))
      with (join [c_slash; c_sp] (map write_elems (b' :: bs'))).
    rewrite IH; [|discriminate|exact Hlast|exact Hokbs].
    rewrite <- app_assoc. reflexivity.
Qed.

Lemma alt_good brs : Forall (Forall elem_good) brs -> elem_good (Alt brs).
Proof.
  intros HF s rest Ht Hok. cbn [elem_okb] in Hok.
  apply andb_true_iff in Hok. destruct Hok as [Hok Hall].
  apply andb_true_iff in Hok. destruct Hok as [Hne Hlast].
  destruct s as [o tk st]. cbn in Ht. subst tk.
  cbn [handle_x]. change (map (fun alts => concat (map handle_x alts)) brs) with (map write_elems brs).
  cbn [app run]. rewrite step_open. rewrite step_space. rewrite flush_notok by reflexivity.
  rewrite <- app_assoc. cbn [app].
  rewrite (run_branches brs HF).
  - cbn [run]. rewrite step_space. rewrite flush_notok.
    + destruct st as [|[gd gc] gs]; reflexivity.
    + apply push_tok.
  - destruct brs; [discriminate|discriminate].
  - destruct (last brs []); [discriminate|discriminate].
  - exact Hall.
Qed.

Lemma all_good x : elem_good x.
Proof. induction x using elem_ind2; [apply tok_good|apply alt_good; assumption]. Qed.

Lemma run_elems xs s rest :
  p_tok s = [] -> forallb (elem_okb (nonempty_stack s)) xs = true ->
  run s (write_elems xs ++ rest) = run (push s xs) rest.
Proof.
  apply run_list. apply Forall_forall. intros x _. apply all_good.
Qed.

(* ---------- characters of a written transcript ---------------------------------------------- *)

Lemma in_join c sep l : In c (join sep l) -> In c sep \/ exists x, In x l /\ In c x.
Proof.
  induction l as [|x t IH]; cbn [join]; [intros []|].
  destruct t as [|y t'].
  - intros H. right. exists x. split; [left; reflexivity|exact H].
  - intros H. apply in_app_or in H. destruct H as [H|H].
    + right. exists x. split; [left; reflexivity|exact H].
    + apply in_app_or in H. destruct H as [H|H]; [left; exact H|].
      destruct (IH H) as [H'|[z [Hz Hc]]]; [left; exact H'|].
      right. exists z. split; [right; exact Hz|exact Hc].
Qed.

Definition char_fine (c : char) : Prop := is_space c = false \/ c = c_sp.

Definition elem_chars (x : elem) : Prop :=
  forall inside, elem_okb inside x = true -> forall c, In c (handle_x x) -> char_fine c.

Lemma list_chars xs : Forall elem_chars xs -> forall inside,
  forallb (elem_okb inside) xs = true -> forall c, In c (write_elems xs) -> char_fine c.
Proof.
  induction 1 as [|x xs Hx _ IH]; intros inside Hok c Hc; [destruct Hc|].
  cbn [forallb] in Hok. apply andb_true_iff in Hok. destruct Hok as [H1 H2].
  unfold write_elems in Hc. cbn [map concat] in Hc. apply in_app_or in Hc. destruct Hc as [Hc|Hc].
  - exact (Hx inside H1 c Hc).
  - exact (IH inside H2 c Hc).
Qed.

Lemma plain_for_fine (inside : bool) (t : str) : forallb (if inside then plain_in else plain_top) t = true ->
  forall c, In c t -> is_space c = false.
Proof.
  intros H c Hc. rewrite forallb_forall in H. specialize (H c Hc).
  destruct inside; [apply plain_in_facts in H|apply plain_top_facts in H]; tauto.
Qed.

Lemma all_chars x : elem_chars x.
Proof.
  induction x as [t|brs IH] using elem_ind2; intros inside Hok c Hc.
  - cbn [handle_x elem_okb] in *. unfold tok_okb in Hok. destruct t as [|a t]; [discriminate|].
    apply in_app_or in Hc. destruct Hc as [Hc|[Hc|[]]].
    + left. exact (plain_for_fine inside _ Hok c Hc).
    + right. symmetry. exact Hc.
  - cbn [handle_x elem_okb] in *.
    apply andb_true_iff in Hok. destruct Hok as [_ Hall].
    change (map (fun alts => concat (map handle_x alts)) brs) with (map write_elems brs) in Hc.
    apply in_app_or in Hc. destruct Hc as [Hc|Hc].
    { destruct Hc as [Hc|[Hc|[]]]; subst c; [left; reflexivity|right; reflexivity]. }
    apply in_app_or in Hc. destruct Hc as [Hc|Hc].
    2:{ destruct Hc as [Hc|[Hc|[]]]; subst c; [left; reflexivity|right; reflexivity]. }
    apply in_join in Hc. destruct Hc as [Hc|[w [Hw Hc]]].
    { destruct Hc as [Hc|[Hc|[]]]; subst c; [left; reflexivity|right; reflexivity]. }
    apply in_map_iff in Hw. destruct Hw as [b [Hb Hin]]. subst w.
    rewrite Forall_forall in IH. rewrite forallb_forall in Hall.
    exact (list_chars b (IH b Hin) true (Hall b Hin) c Hc).
Qed.

Lemma write_elems_chars inside xs c :
  forallb (elem_okb inside) xs = true -> In c (write_elems xs) -> char_fine c.
Proof.
  intros H. apply (list_chars xs) with (inside := inside); [|exact H]. apply Forall_forall. intros x _. apply all_chars.
Qed.

Lemma last_in {A} (l : list A) d : l <> [] -> In (last l d) l.
Proof.
  induction l as [|x t IH]; [congruence|]. intros _. destruct t as [|y t']; [left; reflexivity|].
  right. apply IH. discriminate.
Qed.

(* a written, non-empty transcript starts with a visible character and ends with
   <visible character><space> *)
Lemma handle_x_shape inside x : elem_okb inside x = true ->
  exists a m z, handle_x x = a :: m /\ is_space a = false /\
                handle_x x = z ++ [c_sp] /\ z <> [] /\ is_space (last z 0) = false.
Proof.
  destruct x as [t|brs]; cbn [elem_okb handle_x]; intros Hok.
  - unfold tok_okb in Hok. destruct t as [|a t]; [discriminate|].
    exists a, (t ++ [c_sp]), (a :: t). repeat split; try discriminate.
    + apply (plain_for_fine inside _ Hok). left; reflexivity.
    + apply (plain_for_fine inside _ Hok). apply last_in. discriminate.
  - exists c_lbrace, ([c_sp] ++ join [c_slash; c_sp] (map (fun alts => concat (map handle_x alts)) brs) ++ [c_rbrace; c_sp]),
           ([c_lbrace; c_sp] ++ join [c_slash; c_sp] (map (fun alts => concat (map handle_x alts)) brs) ++ [c_rbrace]).
    repeat split.
    + rewrite <- !app_assoc. reflexivity.
    + discriminate.
    + rewrite app_assoc. rewrite last_last. reflexivity.
Qed.

Lemma write_elems_shape inside xs : xs <> [] -> forallb (elem_okb inside) xs = true ->
  exists a m z, write_elems xs = a :: m /\ is_space a = false /\
                write_elems xs = z ++ [c_sp] /\ z <> [] /\ is_space (last z 0) = false.
Proof.
  intros Hne Hok.
  destruct xs as [|x xs]; [congruence|].
  assert (Hx : elem_okb inside x = true) by (cbn in Hok; apply andb_true_iff in Hok; tauto).
  destruct (handle_x_shape inside x Hx) as (a & m & _ & Ha & Hsp & _).
  destruct (@exists_last _ (x :: xs)) as [ys [y Hy]]; [discriminate|].
  assert (Hyok : elem_okb inside y = true).
  { rewrite forallb_forall in Hok. apply Hok. rewrite Hy. apply in_or_app. right. left. reflexivity. }
  destruct (handle_x_shape inside y Hyok) as (_ & _ & z & _ & _ & Hz & Hzne & Hzl).
  exists a, (m ++ write_elems xs), (write_elems ys ++ z). repeat split.
  - unfold write_elems. cbn [map concat]. rewrite Ha. reflexivity.
  - exact Hsp.
  - rewrite Hy. unfold write_elems. rewrite map_app, concat_app. cbn [map concat].
    rewrite app_nil_r, Hz, app_assoc. reflexivity.
  - destruct z; [congruence|]. destruct (write_elems ys); discriminate.
  - destruct (@exists_last _ z Hzne) as [z' [w Hw]]. rewrite Hw in *.
    rewrite app_assoc, last_last. rewrite last_last in Hzl. exact Hzl.
Qed.

(* ---------- strip, rindex --------------------------------------------------------------- *)

Lemma drop_while_hd (l : str) : l <> [] -> is_space (hd 0 l) = false -> drop_while is_space l = l.
Proof. destruct l as [|a l]; [congruence|]. cbn. intros _ H. rewrite H. reflexivity. Qed.

Lemma strip_id (l : str) : l <> [] -> is_space (hd 0 l) = false -> is_space (last l 0) = false ->
  strip l = l.
Proof.
  intros Hne Hh Hl. unfold strip. rewrite (drop_while_hd l Hne Hh).
  destruct (@exists_last _ l Hne) as [l' [z Hz]]. subst l.
  rewrite last_last in Hl. rewrite rev_app_distr. cbn [rev app].
  cbn [drop_while]. rewrite Hl. cbn [rev]. rewrite rev_involutive. reflexivity.
Qed.

Lemma strip_trailing (l : str) w : l <> [] -> is_space (hd 0 l) = false -> is_space (last l 0) = false ->
  is_space w = true -> strip (l ++ [w]) = l.
Proof.
  intros Hne Hh Hl Hw. unfold strip.
  rewrite (drop_while_hd (l ++ [w])).
  - rewrite rev_app_distr. cbn [rev app drop_while]. rewrite Hw.
    destruct (@exists_last _ l Hne) as [l' [z Hz]]. subst l.
    rewrite last_last in Hl. rewrite rev_app_distr. cbn [rev app drop_while]. rewrite Hl.
    cbn [rev]. rewrite rev_involutive. reflexivity.
  - destruct l; [congruence|discriminate].
  - destruct l; [congruence|exact Hh].
Qed.

Lemma rindex_none c (l : str) : ~ In c l -> rindex c l = None.
Proof.
  induction l as [|x t IH]; intros H; [reflexivity|]. cbn [rindex].
  rewrite IH by (intros H'; apply H; right; exact H').
  destruct (x =? c) eqn:E; [|reflexivity]. apply Z.eqb_eq in E. exfalso. apply H. left. exact E.
Qed.

Lemma rindex_app c (a b : str) : ~ In c b -> rindex c (a ++ c :: b) = Some (length a).
Proof.
  intros H. induction a as [|x a IH]; cbn [app rindex length].
  - rewrite (rindex_none c b H). rewrite Z.eqb_refl. reflexivity.
  - rewrite IH. reflexivity.
Qed.

(* ---------- one line -------------------------------------------------------------------- *)

Lemma finish_flush s : finish (flush s) = finish s.
Proof.
  destruct s as [o t st]. unfold flush, finish; cbn.
  destruct t as [|c t]; [reflexivity|]. destruct st as [|[d cu] fs]; cbn; [reflexivity|reflexivity].
Qed.

Definition written_line (ut : str * list elem) : str :=
  write_elems (snd ut) ++ [c_lpar] ++ fst ut ++ [c_rpar].

Lemma write_trn_line_eq ut : write_trn_line ut = written_line ut ++ [c_nl].
Proof. unfold write_trn_line, written_line. rewrite <- !app_assoc. reflexivity. Qed.

Lemma utt_ok_facts u : utt_okb u = true -> ~ In c_lpar u /\ ~ In c_nl u.
Proof.
  unfold utt_okb. rewrite forallb_forall. intros H. split; intros Hin; specialize (H _ Hin); discriminate H.
Qed.

Lemma body_finish xs : forallb (elem_okb false) xs = true ->
  match run (mkP [] [] []) (strip (write_elems xs)) with Ok s => finish s = xs | Raise _ => False end.
Proof.
  intros Hok. destruct xs as [|x xs'] eqn:Exs.
  - cbn. reflexivity.
  - rewrite <- Exs in *. assert (Hne : xs <> []) by (rewrite Exs; discriminate).
    destruct (write_elems_shape false xs Hne Hok) as (a & m & z & Ha & Has & Hz & Hzne & Hzl).
    assert (Hzh : is_space (hd 0 z) = false).
    { destruct z as [|z0 z']; [congruence|]. rewrite Hz in Ha. cbn in Ha. inversion Ha. subst. exact Has. }
    rewrite Hz. rewrite (strip_trailing z c_sp Hzne Hzh Hzl eq_refl).
    pose proof (run_elems xs (mkP [] [] []) [] eq_refl Hok) as Hrun.
    rewrite app_nil_r in Hrun. rewrite Hz in Hrun. rewrite run_app in Hrun.
    destruct (run (mkP [] [] []) z) as [s'|e]; [|discriminate Hrun].
    cbn [run] in Hrun. rewrite step_space in Hrun. inversion Hrun as [Hfl].
    rewrite <- finish_flush. rewrite Hfl. reflexivity.
Qed.

Lemma trn_line_nonempty line : strip line <> [] ->
  trn_line line =
  Some match rindex c_lpar (strip line), rindex c_rpar (strip line) with
       | Some o, Some c =>
           if (c <? o)%nat then Raise IOError
           else match run (mkP [] [] []) (strip (firstn o (strip line))) with
                | Ok s => Ok (sub (strip line) (S o) c, finish s)
                | Raise e => Raise e
                end
       | _, _ => Raise IOError
       end.
Proof. unfold trn_line. destruct (strip line); [congruence|reflexivity]. Qed.

Lemma hd_body xs rest : forallb (elem_okb false) xs = true ->
  is_space (hd 0 (write_elems xs ++ [c_lpar] ++ rest)) = false.
Proof.
  destruct xs as [|x xs']; [reflexivity|]. intros Hok.
  destruct (write_elems_shape false (x :: xs')) as (a & m & _ & Ha & Has & _); [discriminate|exact Hok|].
  rewrite Ha. exact Has.
Qed.

Lemma trn_line_written u xs :
  utt_okb u = true -> forallb (elem_okb false) xs = true ->
  trn_line (written_line (u, xs)) = Some (Ok (u, xs)).
Proof.
  intros Hu Hok. destruct (utt_ok_facts u Hu) as [Hnl _].
  unfold written_line. cbn [fst snd].
  pose proof (hd_body xs (u ++ [c_rpar]) Hok) as Hhd.
  pose proof (body_finish xs Hok) as Hb.
  set (W := write_elems xs) in *.
  assert (HL : strip (W ++ [c_lpar] ++ u ++ [c_rpar]) = W ++ [c_lpar] ++ u ++ [c_rpar]).
  { apply strip_id.
    - destruct W; discriminate.
    - exact Hhd.
    - rewrite !app_assoc. rewrite last_last. reflexivity. }
  clear Hhd. rewrite trn_line_nonempty by (rewrite HL; destruct W; discriminate). rewrite HL.
  assert (Ho : rindex c_lpar (W ++ [c_lpar] ++ u ++ [c_rpar]) = Some (length W)).
  { cbn [app]. apply rindex_app. intros H. apply in_app_or in H. destruct H as [H|[H|[]]]; [exact (Hnl H)|discriminate H]. }
  assert (Hc : rindex c_rpar (W ++ [c_lpar] ++ u ++ [c_rpar]) = Some (length W + 1 + length u)%nat).
  { replace (W ++ [c_lpar] ++ u ++ [c_rpar]) with ((W ++ [c_lpar] ++ u) ++ c_rpar :: []) by (rewrite <- !app_assoc; reflexivity).
    rewrite rindex_app by (intros []). rewrite !app_length. cbn [length]. f_equal. lia. }
  rewrite Ho, Hc.
  destruct (length W + 1 + length u <? length W)%nat eqn:E; [apply Nat.ltb_lt in E; lia|].
  rewrite firstn_app, firstn_all, Nat.sub_diag. cbn [firstn]. rewrite app_nil_r.
  destruct (run (mkP [] [] []) (strip W)) as [s|e]; [|destruct Hb].
  rewrite Hb. f_equal. f_equal. f_equal.
  unfold sub.
  replace (W ++ [c_lpar] ++ u ++ [c_rpar]) with ((W ++ [c_lpar]) ++ u ++ [c_rpar]) by (rewrite <- !app_assoc; reflexivity).
  replace (S (length W)) with (length (W ++ [c_lpar])) by (rewrite app_length; cbn; lia).
  rewrite skipn_app, skipn_all, Nat.sub_diag. cbn [skipn app].
  replace (length W + 1 + length u - length (W ++ [c_lpar]))%nat with (length u) by (rewrite app_length; cbn; lia).
  rewrite firstn_app, firstn_all, Nat.sub_diag. cbn [firstn]. rewrite app_nil_r. reflexivity.
Qed.

(* ---------- whole file ------------------------------------------------------------------- *)

Lemma lines_aux_app (L : str) : ~ In c_nl L -> forall cur rest,
  lines_aux cur (L ++ c_nl :: rest) = (rev cur ++ L) :: lines_aux [] rest.
Proof.
  induction L as [|c L IH]; intros Hn cur rest.
  - cbn. rewrite app_nil_r. reflexivity.
  - cbn [app lines_aux]. destruct (c =? c_nl) eqn:E.
    + apply Z.eqb_eq in E. exfalso. apply Hn. left. exact E.
    + rewrite IH by (intros H; apply Hn; right; exact H). cbn [rev]. rewrite <- app_assoc. reflexivity.
Qed.

Lemma written_line_no_nl u xs : utt_okb u = true -> forallb (elem_okb false) xs = true ->
  ~ In c_nl (written_line (u, xs)).
Proof.
  intros Hu Hok H. unfold written_line in H. cbn [fst snd] in H.
  apply in_app_or in H. destruct H as [H|H].
  - destruct (write_elems_chars false xs c_nl Hok H) as [H'|H']; discriminate H'.
  - cbn [app] in H. destruct H as [H|H]; [discriminate H|]. apply in_app_or in H. destruct H as [H|[H|[]]].
    + exact (proj2 (utt_ok_facts u Hu) H).
    + discriminate H.
Qed.

Lemma lines_written ts : trn_okb ts = true ->
  lines (write_trn_file ts) = map written_line ts.
Proof.
  unfold lines, write_trn_file. induction ts as [|[u xs] ts IH]; intros Hok; [reflexivity|].
  cbn [trn_okb forallb fst snd] in Hok. apply andb_true_iff in Hok. destruct Hok as [H1 H2].
  apply andb_true_iff in H1. destruct H1 as [Hu Hx].
  cbn [map concat]. rewrite write_trn_line_eq. rewrite <- app_assoc. cbn [app].
  rewrite lines_aux_app by (apply written_line_no_nl; assumption).
  cbn [rev app map]. f_equal. apply IH. exact H2.
Qed.

Lemma trn_roundtrip ts : trn_okb ts = true -> read_trn_serial (write_trn_file ts) = Ok ts.
Proof.
  intros Hok. unfold read_trn_serial. rewrite (lines_written ts Hok).
  induction ts as [|[u xs] ts IH]; [reflexivity|].
  cbn [trn_okb forallb fst snd] in Hok. apply andb_true_iff in Hok. destruct Hok as [H1 H2].
  apply andb_true_iff in H1. destruct H1 as [Hu Hx].
  cbn [map collect]. rewrite (trn_line_written u xs Hu Hx). cbn [collect].
  rewrite (IH H2). reflexivity.
Qed.
