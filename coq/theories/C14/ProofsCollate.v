(* C14 - collation is lossless: pad_sequence, the three collate functions *)
From Coq Require Import List Arith Bool ZArith Lia Sorting.Sorted Sorting.Permutation.
From PV Require Import C14.Model C14.Spec.
Import ListNotations.

(* ------------------------------------------------------------------------------------ *)
(* generic                                                                              *)
(* ------------------------------------------------------------------------------------ *)

Lemma map_nth_seq : forall {A} (l : list A) d, map (fun t => nth t l d) (seq 0 (length l)) = l.
Proof.
  intros A l d. induction l as [|x t IH]; [reflexivity|].
  cbn [length seq map nth]. f_equal. rewrite <- seq_shift, map_map. exact IH.
Qed.

Lemma map_seq_ext : forall {A B} (f : nat -> B) (g : A -> B) (l : list A) d,
  (forall n, n < length l -> f n = g (nth n l d)) -> map f (seq 0 (length l)) = map g l.
Proof.
  intros A B f g l d. revert f. induction l as [|x t IH]; intros f H; [reflexivity|].
  cbn [length seq map]. f_equal; [apply (H 0); cbn; lia|].
  rewrite <- seq_shift, map_map. apply IH. intros n Hn. apply (H (S n)). cbn. lia.
Qed.

Lemma nth_map_default : forall {A B} (f : A -> B) l n dA dB, n < length l ->
  nth n (map f l) dB = f (nth n l dA).
Proof.
  induction l as [|x t IH]; intros n dA dB Hn; [cbn in Hn; lia|].
  destruct n; [reflexivity|]. cbn. apply IH. cbn in Hn. lia.
Qed.

Lemma combine_seq_nth : forall {A} (l : list A) d s,
  combine (seq s (length l)) l = map (fun n => (n, nth (n - s) l d)) (seq s (length l)).
Proof.
  induction l as [|x t IH]; intros d s; [reflexivity|].
  cbn [length seq combine map]. rewrite Nat.sub_diag. cbn [nth]. f_equal.
  rewrite (IH d (S s)). apply map_ext_in. intros n Hn. apply in_seq in Hn.
  replace (n - s) with (S (n - S s)) by lia. reflexivity.
Qed.

Lemma nth_app_repeat : forall {A} (l : list A) pad k t d, t < length l ->
  nth t (l ++ repeat pad k) d = nth t l d.
Proof. intros. now apply app_nth1. Qed.

Lemma nth_app_repeat_pad : forall {A} (l : list A) pad k t, length l <= t ->
  nth t (l ++ repeat pad k) pad = pad.
Proof.
  intros A l pad k t Hle. rewrite app_nth2 by lia.
  destruct (Nat.lt_ge_cases (t - length l) k) as [H|H].
  - now apply nth_repeat.
  - apply nth_overflow. rewrite repeat_length. lia.
Qed.

Section PadSequence.
  Context {A : Type}.

  Lemma length_le_maxlen : forall (ls : list (list A)) n, length (nth n ls []) <= maxlen ls.
  Proof.
    induction ls as [|l t IH]; intros n; [destruct n; cbn; lia|].
    cbn [maxlen fold_right]. fold (maxlen t). destruct n; cbn [nth]; [lia|].
    specialize (IH n). lia.
  Qed.

  Lemma pad_to_length : forall T (pad : A) l, length l <= T -> length (pad_to T pad l) = T.
  Proof. intros. unfold pad_to. rewrite app_length, repeat_length. lia. Qed.

  (* an entry inside the reported size is the original entry *)
  Lemma cell_in_range : forall bf (pad d : A) ls n t, n < length ls -> t < length (nth n ls []) ->
    cell bf d (pad_sequence bf pad ls) n t = nth t (nth n ls []) d.
  Proof.
    intros bf pad d ls n t Hn Ht. unfold cell, pad_sequence.
    pose proof (length_le_maxlen ls n) as Hmax. destruct bf.
    - rewrite (nth_map_default (pad_to (maxlen ls) pad) ls n [] []) by exact Hn.
      unfold pad_to. now apply nth_app_repeat.
    - unfold transpose_cells.
      rewrite (nth_map_default _ (seq 0 (maxlen ls)) t 0 []) by (rewrite seq_length; lia).
      rewrite seq_nth by lia. cbn [Nat.add].
      rewrite (nth_map_default _ _ n [] d) by (now rewrite map_length).
      rewrite (nth_map_default (pad_to (maxlen ls) pad) ls n [] []) by exact Hn.
      unfold pad_to. rewrite nth_app_repeat by exact Ht. now apply nth_indep.
  Qed.

  (* an entry beyond the reported size is the pad value *)
  Lemma cell_padding : forall bf (pad : A) ls n t, n < length ls -> length (nth n ls []) <= t ->
    t < maxlen ls -> cell bf pad (pad_sequence bf pad ls) n t = pad.
  Proof.
    intros bf pad ls n t Hn Ht HT. unfold cell, pad_sequence. destruct bf.
    - rewrite (nth_map_default (pad_to (maxlen ls) pad) ls n [] []) by exact Hn.
      unfold pad_to. now apply nth_app_repeat_pad.
    - unfold transpose_cells.
      rewrite (nth_map_default _ (seq 0 (maxlen ls)) t 0 []) by (rewrite seq_length; lia).
      rewrite seq_nth by lia. cbn [Nat.add].
      rewrite (nth_map_default _ _ n [] pad) by (now rewrite map_length).
      rewrite (nth_map_default (pad_to (maxlen ls) pad) ls n [] []) by exact Hn.
      unfold pad_to. now apply nth_app_repeat_pad.
  Qed.

  Lemma time_len_pad_sequence : forall bf (pad : A) ls, ls <> [] ->
    time_len bf (pad_sequence bf pad ls) = maxlen ls.
  Proof.
    intros bf pad ls Hne. unfold time_len, pad_sequence. destruct bf.
    - destruct ls as [|l t]; [congruence|]. cbn [map hd]. apply pad_to_length.
      apply (length_le_maxlen (l :: t) 0).
    - unfold transpose_cells. now rewrite map_length, seq_length.
  Qed.

  (* "cutting each padded batch entry back to its reported size returns the original tensors" *)
  Theorem cut_back_pad_sequence : forall bf (pad d : A) ls n, n < length ls ->
    cut_back bf d (pad_sequence bf pad ls) n (length (nth n ls [])) = nth n ls [].
  Proof.
    intros bf pad d ls n Hn. unfold cut_back.
    rewrite <- (map_nth_seq (nth n ls []) d) at 2.
    apply map_ext_in. intros t Ht. apply in_seq in Ht. apply cell_in_range; [exact Hn|lia].
  Qed.

  Theorem uncollate_pad_sequence : forall bf (pad d : A) ls,
    uncollate_field bf d (pad_sequence bf pad ls) (map (@length A) ls) = ls.
  Proof.
    intros bf pad d ls. unfold uncollate_field.
    rewrite (combine_seq_nth (map (@length A) ls) 0 0), map_map, map_length.
    apply (map_seq_ext _ (fun l => l) ls []) || (rewrite <- (map_id ls) at 2; apply (map_seq_ext _ (fun l => l) ls [])).
    intros n Hn. cbn [fst snd]. rewrite Nat.sub_0_r.
    rewrite (nth_map_default (@length A) ls n [] 0) by exact Hn.
    now apply cut_back_pad_sequence.
  Qed.

  (* "all padding cells hold the pad value" *)
  Theorem padding_pad_sequence : forall bf (pad : A) ls, ls <> [] ->
    padding_is bf pad (pad_sequence bf pad ls) (map (@length A) ls).
  Proof.
    intros bf pad ls Hne n t Hn Ht HT. rewrite map_length in Hn.
    rewrite (nth_map_default (@length A) ls n [] 0) in Ht by exact Hn.
    rewrite time_len_pad_sequence in HT by exact Hne. now apply cell_padding.
  Qed.
End PadSequence.

(* ------------------------------------------------------------------------------------ *)
(* sorted(seq, key=..., reverse=True)                                                   *)
(* ------------------------------------------------------------------------------------ *)

Lemma insert_desc_perm : forall {X} (key : X -> nat) x l, Permutation (insert_desc key x l) (x :: l).
Proof.
  induction l as [|y t IH]; cbn [insert_desc]; [reflexivity|].
  destruct (Nat.leb (key y) (key x)); [reflexivity|]. rewrite IH. apply perm_swap.
Qed.

Lemma sort_desc_perm : forall {X} (key : X -> nat) l, Permutation (sort_desc key l) l.
Proof.
  induction l as [|x t IH]; cbn [sort_desc fold_right]; [reflexivity|].
  fold (sort_desc key t). rewrite insert_desc_perm. now constructor.
Qed.

Lemma insert_desc_sorted : forall {X} (key : X -> nat) x l,
  StronglySorted (fun a b => key b <= key a) l ->
  StronglySorted (fun a b => key b <= key a) (insert_desc key x l).
Proof.
  induction l as [|y t IH]; intros Hs; cbn [insert_desc].
  - constructor; constructor.
  - inversion Hs as [|? ? Ht Hall]; subst. destruct (Nat.leb (key y) (key x)) eqn:E.
    + apply Nat.leb_le in E. constructor; [exact Hs|]. constructor; [exact E|].
      rewrite Forall_forall in *. intros z Hz. specialize (Hall z Hz). cbn in *. lia.
    + apply Nat.leb_gt in E. constructor; [now apply IH|].
      rewrite Forall_forall in *. intros z Hz.
      apply (Permutation_in _ (insert_desc_perm key x t)) in Hz.
      destruct Hz as [<-|Hz]; [lia|now apply Hall].
Qed.

Lemma sort_desc_sorted : forall {X} (key : X -> nat) l,
  StronglySorted (fun a b => key b <= key a) (sort_desc key l).
Proof.
  induction l as [|x t IH]; cbn [sort_desc fold_right]; [constructor|].
  fold (sort_desc key t). now apply insert_desc_sorted.
Qed.

(* ------------------------------------------------------------------------------------ *)
(* spect_seq_to_batch                                                                   *)
(* ------------------------------------------------------------------------------------ *)

Definition presented (sort : bool) (sq : list utt) : list utt :=
  if sort then sort_desc (fun u => length (u_feat u)) sq else sq.

Lemma forallb_map_is_some : forall {A B} (f : A -> option B) l,
  forallb is_some (map f l) = forallb (fun x => is_some (f x)) l.
Proof. induction l as [|x t IH]; cbn; [reflexivity|]. now rewrite IH. Qed.

Lemma forallb_nth : forall {A} (f : A -> bool) l n d, forallb f l = true -> n < length l -> f (nth n l d) = true.
Proof.
  intros A f l n d H Hn. rewrite forallb_forall in H. apply H. now apply nth_In.
Qed.

(* "Collation is lossless: cutting each padded batch entry back to its reported size returns the
   original tensors ... and utterance ids stay attached to their rows": un-collating the batch gives
   back the presented items - features, alignment, reference and id together *)
Theorem spect_collate_lossless : forall bf sort F W sq,
  Forall wf_utt sq ->
  uncollate_spect bf (spect_collate bf sort F W sq) = mask_missing (presented sort sq).
Proof.
  intros bf sort F W sq Hwf. unfold spect_collate. fold (presented sort sq).
  assert (Hwf' : Forall wf_utt (presented sort sq)).
  { unfold presented. destruct sort; [|exact Hwf].
    rewrite Forall_forall in *. intros u Hu. apply Hwf.
    eapply Permutation_in; [apply sort_desc_perm|exact Hu]. }
  set (sq' := presented sort sq) in *. clearbody sq'. clear Hwf sq.
  unfold uncollate_spect, mask_missing. cbn [b_feats b_alis b_refs b_fsz b_rsz b_ids].
  rewrite !forallb_map_is_some. rewrite !map_length.
  set (ann := forallb (fun u => is_some (u_ali u)) sq').
  set (rnn := forallb (fun u => is_some (u_ref u)) sq').
  rewrite uncollate_pad_sequence.
  apply (map_seq_ext _ _ sq' dflt_utt). intros n Hn.
  assert (Hfs : nth n (map (@length row) (map u_feat sq')) 0 = length (u_feat (nth n sq' dflt_utt))).
  { rewrite map_map. now rewrite (nth_map_default (fun u => length (u_feat u)) sq' n dflt_utt 0). }
  f_equal.
  - now apply nth_map_default.
  - destruct ann eqn:Ea; [|reflexivity].
    pose proof (forallb_nth _ sq' n dflt_utt Ea Hn) as Hs. cbv beta in Hs.
    destruct (u_ali (nth n sq' dflt_utt)) as [a|] eqn:Eal; [|discriminate].
    f_equal. rewrite Hfs.
    assert (Hla : length a = length (u_feat (nth n sq' dflt_utt))).
    { rewrite Forall_forall in Hwf'. apply (Hwf' (nth n sq' dflt_utt)); [now apply nth_In|exact Eal]. }
    rewrite <- Hla.
    replace a with (nth n (map (oget []) (map u_ali sq')) []).
    + apply cut_back_pad_sequence. now rewrite !map_length.
    + rewrite map_map. rewrite (nth_map_default (fun u => oget [] (u_ali u)) sq' n dflt_utt []) by exact Hn.
      now rewrite Eal.
  - destruct rnn eqn:Er; [|reflexivity].
    pose proof (forallb_nth _ sq' n dflt_utt Er Hn) as Hs. cbv beta in Hs.
    destruct (u_ref (nth n sq' dflt_utt)) as [r|] eqn:Ere; [|discriminate].
    f_equal.
    assert (Hr : nth n (map (oget []) (map u_ref sq')) [] = r).
    { rewrite map_map. rewrite (nth_map_default (fun u => oget [] (u_ref u)) sq' n dflt_utt []) by exact Hn.
      now rewrite Ere. }
    rewrite (nth_map_default (@length row) _ n [] 0) by (now rewrite !map_length).
    etransitivity; [apply cut_back_pad_sequence; now rewrite !map_length|exact Hr].
  - now apply nth_map_default.
Qed.

(* the presented items are the given ones: all of them, in the given order, or (sort_batch) a
   rearrangement by non-increasing feature length *)
Theorem presented_perm : forall sort sq,
  Permutation (presented sort sq) sq /\
  (sort = false -> presented sort sq = sq) /\
  (sort = true -> StronglySorted (fun a b => length (u_feat b) <= length (u_feat a)) (presented sort sq)).
Proof.
  intros sort sq. unfold presented. destruct sort.
  - split; [apply sort_desc_perm|]. split; [discriminate|]. intros _. apply sort_desc_sorted.
  - split; [reflexivity|]. split; [reflexivity|discriminate].
Qed.

(* "all padding cells hold the pad value" *)
Theorem spect_collate_padding : forall bf sort F W sq, sq <> [] ->
  let b := spect_collate bf sort F W sq in
  padding_is bf (repeat 0%Z F) (b_feats b) (b_fsz b) /\
  (forall a, b_alis b = Some a ->
     padding_is bf PADV a (map (fun u => length (oget [] (u_ali u))) (presented sort sq))) /\
  (forall r rs, b_refs b = Some r -> b_rsz b = Some rs -> padding_is bf (repeat PADV W) r rs).
Proof.
  intros bf sort F W sq Hne. cbv zeta. unfold spect_collate. fold (presented sort sq).
  assert (Hne' : presented sort sq <> []).
  { intros Hn. apply Hne. apply Permutation_nil. rewrite <- Hn. apply (proj1 (presented_perm sort sq)). }
  set (sq' := presented sort sq) in *. cbn [b_feats b_alis b_refs b_fsz b_rsz].
  assert (Hm : forall {B} (f : utt -> B), map f sq' <> []) by (intros B f; destruct sq'; [congruence|discriminate]).
  split; [apply padding_pad_sequence, Hm|]. split.
  - intros a Ha. destruct (forallb is_some (map u_ali sq')); [|discriminate]. inversion Ha; subst.
    replace (map (fun u => length (oget [] (u_ali u))) sq')
      with (map (@length Z) (map (oget []) (map u_ali sq'))) by (now rewrite !map_map).
    apply padding_pad_sequence. rewrite map_map. apply Hm.
  - intros r rs Hr Hrs. destruct (forallb is_some (map u_ref sq')); [|discriminate].
    inversion Hr; inversion Hrs; subst. apply padding_pad_sequence. rewrite map_map. apply Hm.
Qed.

(* ------------------------------------------------------------------------------------ *)
(* lang_seq_to_batch, context_window_seq_to_batch                                       *)
(* ------------------------------------------------------------------------------------ *)

Theorem lang_collate_lossless : forall bf sort W (sq : list (list row * nat)),
  let '(refs, sizes, ids) := lang_collate bf sort W sq in
  let sq' := if sort then sort_desc (fun x => length (fst x)) sq else sq in
  combine (uncollate_field bf [] refs sizes) ids = sq' /\ Permutation sq' sq /\
  (sq <> [] -> padding_is bf (repeat PADV W) refs sizes).
Proof.
  intros bf sort W sq. unfold lang_collate.
  set (sq' := if sort then sort_desc (fun x => length (fst x)) sq else sq).
  split; [|split].
  - rewrite uncollate_pad_sequence. clear. induction sq' as [|[r i] t IH]; [reflexivity|]. cbn. now rewrite IH.
  - unfold sq'. destruct sort; [apply sort_desc_perm|reflexivity].
  - intros Hne. apply padding_pad_sequence.
    assert (sq' <> []).
    { intros Hn. apply Hne. apply Permutation_nil. rewrite <- Hn. unfold sq'. destruct sort; [apply sort_desc_perm|reflexivity]. }
    destruct sq'; [congruence|discriminate].
Qed.

Lemma split_by_concat : forall {A} (ws : list (list A)), split_by (map (@length A) ws) (concat ws) = ws.
Proof.
  induction ws as [|w t IH]; [reflexivity|]. cbn [map concat split_by].
  rewrite firstn_app, Nat.sub_diag, firstn_all, firstn_O, app_nil_r.
  rewrite skipn_app, Nat.sub_diag, skipn_all, skipn_O. cbn [app]. now rewrite IH.
Qed.

(* windows, alignments, window counts and ids of a context-window batch give the items back *)
Theorem cw_collate_lossless : forall (sq : list cw_item),
  let '(windows, alis, sizes, ids) := cw_collate sq in
  split_by sizes windows = map (fun x => fst (fst x)) sq /\ ids = map snd sq /\
  (forall a, alis = Some a ->
     Forall (fun x => exists al, snd (fst x) = Some al) sq /\
     split_by (map (fun x => length (oget [] (snd (fst x)))) sq) a = map (fun x => oget [] (snd (fst x))) sq).
Proof.
  intros sq. unfold cw_collate. split; [apply split_by_concat|]. split; [reflexivity|].
  intros a Ha. destruct (forallb is_some (map (fun x => snd (fst x)) sq)) eqn:E; [|discriminate].
  inversion Ha; subst. split.
  - rewrite forallb_forall in E. apply Forall_forall. intros x Hx.
    specialize (E (snd (fst x)) (in_map (fun x => snd (fst x)) sq x Hx)).
    destruct (snd (fst x)); [eexists; reflexivity|discriminate].
  - rewrite map_map.
    replace (map (fun x => length (oget [] (snd (fst x)))) sq)
      with (map (@length Z) (map (fun x => oget [] (snd (fst x))) sq)) by (now rewrite map_map).
    apply split_by_concat.
Qed.
